(* C08, composed statement: every path-taking command of a session denotes the SAME node.

   Client side: the command line is built by Model/Names.client_cmd ('VERB ' + str(path) + CRLF).
   Server side: the line is parsed by Model/Framing.parse_command (what the dispatcher does) into the
   event (verb, argument) of the sequential session model Model/Session.v, whose handlers resolve the
   argument with Session.resolve (Server.get_paths on the virtual side) and act on the abstract tree.
   Replies: PWD through Model/Names.pwd_info / parse_directory_response and the C06 framing, MLSD /
   MLST lines through build_mlsx / parse_mlsx_line.

   Where the weight is.  In Model/Session.v names are already abstract [text] segments compared with
   text_eqb, so once a command's argument has been resolved to a list of segments the tree operations
   are name-agnostic: the tree part below is bookkeeping (Proofs/TreeFrame.v).  What carries the
   property is (1) line -> event -> resolve: the segments the server acts on are exactly the
   client's (resolve_to_str, ev_of_client_cmd), for any code points, leading spaces, quotes, ';', '=',
   digits, at any depth, relative or absolute; (2) the reply codecs (Proofs/Names.v). *)
From Coq Require Import ZArith List Bool String Lia.
From Verif Require Import Lib.Sx Lib.PyStr Lib.Facts Lib.PosixPath Model.Framing Model.Names Model.Multi
  Proofs.PyStrFacts Proofs.PosixPathFacts Proofs.Framing Proofs.Names Proofs.TreeFrame.
From Verif Require Import Model.Session Model.NamesSession.
Import ListNotations.
Open Scope list_scope.
Open Scope Z_scope.

(* ------------------------------------------------------------------ line -> event -> segments *)

(* the node a client path denotes, seen from the working directory [cwd] *)
Definition target (cwd : list text) (p : ppath) : list text :=
  if PosixPath.is_absolute p then parts p else cwd ++ parts p.

Lemma valid_name_segs n : valid_name n ->
  text_eqb n [] = false /\ text_eqb n [Session.DOT] = false /\ text_eqb n [Session.DOT; Session.DOT] = false.
Proof.
  intros [H1 [H2 [H3 _]]]. repeat split.
  - destruct (text_eqb n []) eqn:E; [apply text_eqb_eq in E; contradiction|reflexivity].
  - destruct (text_eqb n [Session.DOT]) eqn:E; [apply text_eqb_eq in E; contradiction|reflexivity].
  - destruct (text_eqb n [Session.DOT; Session.DOT]) eqn:E; [apply text_eqb_eq in E; contradiction|reflexivity].
Qed.

Lemma fold_parts_valid l : Forall valid_name l -> forall acc, fold_parts acc l = rev acc ++ l.
Proof.
  induction 1 as [|n l Hn Hl IH]; intro acc; cbn [fold_parts]; [rewrite app_nil_r; reflexivity|].
  destruct (valid_name_segs n Hn) as [E1 [E2 E3]]. rewrite E1, E2, E3. cbn [orb].
  rewrite IH. cbn [rev]. rewrite <- app_assoc. reflexivity.
Qed.

Lemma valid_names_nosep l : Forall valid_name l -> Forall (nosep PosixPath.SLASH) l.
Proof. intro H. apply segs_nosep. eapply Forall_impl; [|exact H]. intros a Ha. apply valid_seg_ok. exact Ha. Qed.

(* Session.resolve (the model of Server.get_paths in the session model) sends the string of a client
   path to exactly the client's segments: below the working directory when relative *)
Theorem resolve_to_str cwd p : valid_path p ->
  Session.resolve cwd (to_str p) = target cwd p.
Proof.
  intros [Ha [Hne Hv]]. unfold Session.resolve, target, to_str, PosixPath.is_absolute.
  pose proof (valid_names_nosep _ Hv) as Hns.
  destruct Ha as [Ha|Ha]; rewrite Ha.
  - change (0 =? 0) with true. cbn [negb]. destruct (parts p) as [|x t] eqn:E; [contradiction|].
    assert (Habs : Session.is_absolute (join [PosixPath.SLASH] (x :: t)) = false).
    { inversion Hv as [|? ? Hx Ht]; subst.
      destruct (seg_ok_head x (valid_seg_ok x Hx)) as [c [r [-> Hc]]]. exact Hc. }
    rewrite Habs. change Session.SLASH with PosixPath.SLASH.
    rewrite (split_on_join PosixPath.SLASH (x :: t) Hns Hne), (fold_parts_valid _ Hv), rev_involutive. reflexivity.
  - change (1 =? 0) with false. cbn [negb]. change (anchor_str 1) with [PosixPath.SLASH].
    cbn [app Session.is_absolute]. change (PosixPath.SLASH =? Session.SLASH) with true.
    change Session.SLASH with PosixPath.SLASH.
    change (PosixPath.SLASH :: join [PosixPath.SLASH] (parts p)) with ([] ++ PosixPath.SLASH :: join [PosixPath.SLASH] (parts p)).
    rewrite (split_on_app PosixPath.SLASH [] _ (eq_refl : nosep PosixPath.SLASH [])).
    rewrite (split_on_join PosixPath.SLASH (parts p) Hns Hne). cbn [fold_parts text_eqb orb].
    rewrite (fold_parts_valid _ Hv). reflexivity.
Qed.

(* the event the server gets from the line the client built: lower-cased verb, the path string *)
Theorem ev_of_client_cmd verb p d : verb <> [] -> nows verb -> valid_path p ->
  ev_of_line (client_cmd verb p) d = Some {| e_verb := lower verb; e_arg := to_str p; e_data := d |}.
Proof.
  intros Hv Hn Hp. unfold ev_of_line, client_cmd.
  rewrite (parse_command_build verb (to_str p) Hv Hn (valid_path_rstrip p Hp)). reflexivity.
Qed.

(* commands without an argument (PWD, PASV; MLSD of the working directory): the verb alone *)
Lemma parse_command_noarg verb : verb <> [] -> nows verb ->
  parse_command (verb ++ eol) = Some (lower verb, []).
Proof.
  intros Hne Hv. unfold parse_command.
  destruct (verb ++ eol) eqn:E; [destruct verb; discriminate|]. rewrite <- E. clear E.
  rewrite rstrip_eol, (rstrip_nonspace_all _ Hv).
  rewrite (partition_none SP verb); [reflexivity|]. exact (nows_nosp verb Hv).
Qed.

Theorem ev_of_noarg verb d : verb <> [] -> nows verb ->
  ev_of_line (verb ++ eol) d = Some {| e_verb := lower verb; e_arg := []; e_data := d |}.
Proof. intros Hv Hn. unfold ev_of_line. rewrite (parse_command_noarg verb Hv Hn). reflexivity. Qed.

(* Client.list builds its command as ("MLSD " + str(path)).strip(): for a valid path the strip is
   the identity, for the empty path (the default) it leaves the verb alone *)
Definition list_cmd (verb s : text) : text := strip (verb ++ [SP] ++ s) ++ eol.

Lemma lstrip_nows_head verb r : verb <> [] -> nows verb -> lstrip (verb ++ r) = verb ++ r.
Proof.
  intros Hne Hv. destruct verb as [|c v]; [contradiction|]. unfold nows in Hv. cbn [forallb] in Hv.
  apply andb_true_iff in Hv as [Hc _]. apply negb_true_iff in Hc. cbn [app lstrip]. rewrite Hc. reflexivity.
Qed.

Lemma list_cmd_path verb p : verb <> [] -> nows verb -> valid_path p ->
  list_cmd verb (to_str p) = client_cmd verb p.
Proof.
  intros Hne Hv Hp. unfold list_cmd, client_cmd, build_command, strip.
  assert (Hs : rstrip (verb ++ [SP] ++ to_str p) = verb ++ [SP] ++ to_str p).
  { rewrite (rstrip_app_l verb _ (rstrip_nonspace_all _ Hv)). f_equal.
    destruct (to_str_suffix p (proj1 (proj2 Hp))) as [X E]. rewrite E.
    destruct (valid_last p Hp) as [Hn [_ [_ [_ Hst]]]].
    rewrite !(app_assoc [SP] X). apply rstrip_app_stable; assumption. }
  rewrite Hs, (lstrip_nows_head verb _ Hne Hv), <- !app_assoc. reflexivity.
Qed.

Lemma list_cmd_empty verb : verb <> [] -> nows verb -> list_cmd verb [] = verb ++ eol.
Proof.
  intros Hne Hv. unfold list_cmd, strip. cbn [app].
  rewrite (rstrip_app_l verb _ (rstrip_nonspace_all _ Hv)). cbn [rstrip]. rewrite sp_space, app_nil_r.
  pose proof (lstrip_nows_head verb [] Hne Hv) as E. rewrite app_nil_r in E. rewrite E. reflexivity.
Qed.

(* ------------------------------------------------------------------ tree bookkeeping (name-agnostic) *)
Lemma assoc_app {A} k (a b : list (text * A)) :
  assoc_t k (a ++ b) = match assoc_t k a with Some v => Some v | None => assoc_t k b end.
Proof. induction a as [|[k' v] a IH]; cbn; [reflexivity|]. destruct (text_eqb k k'); [reflexivity|exact IH]. Qed.

Lemma assoc_snoc_new {A} k (a : list (text * A)) v : assoc_t k a = None -> assoc_t k (a ++ [(k, v)]) = Some v.
Proof. intro H. rewrite assoc_app, H. cbn. rewrite text_eqb_refl. reflexivity. Qed.

Lemma assoc_snoc_other {A} k k' (a : list (text * A)) v :
  text_eqb k k' = false -> assoc_t k (a ++ [(k', v)]) = assoc_t k a.
Proof. intro H. rewrite assoc_app. destruct (assoc_t k a); [reflexivity|]. cbn. rewrite H. reflexivity. Qed.

Lemma remove_snoc_new {A} k (a : list (text * A)) v : assoc_t k a = None -> remove_t k (a ++ [(k, v)]) = a.
Proof.
  induction a as [|[k' v'] a IH]; cbn; intro H; [rewrite text_eqb_refl; reflexivity|].
  destruct (text_eqb k k'); [discriminate|]. rewrite (IH H). reflexivity.
Qed.

Lemma assoc_none_filter {A} k (a : list (text * A)) :
  assoc_t k a = None -> filter (fun e => text_eqb (fst e) k) a = [].
Proof.
  induction a as [|[k' v'] a IH]; cbn; intro H; [reflexivity|].
  rewrite (text_eqb_sym k' k). destruct (text_eqb k k'); [discriminate|]. exact (IH H).
Qed.

Lemma lookup_child par n ch fs : lookup par fs = Some (NDir ch) -> lookup (par ++ [n]) fs = assoc_t n ch.
Proof. intro H. rewrite (lookup_app par [n] fs _ H). cbn. destruct (assoc_t n ch); reflexivity. Qed.

Lemma lookup_grafted par fs s0 sub q :
  lookup par fs = Some s0 -> lookup (par ++ q) (graft par sub fs) = lookup q sub.
Proof. intro H. exact (lookup_g par fs s0 H sub q). Qed.

Lemma mkdir_child par n ch fs : lookup par fs = Some (NDir ch) -> assoc_t n ch = None ->
  mkdir_p (par ++ [n]) fs = Some (graft par (NDir (ch ++ [(n, NDir [])])) fs).
Proof. intros H Hn. rewrite (mkdir_p_app par [n] fs _ H). cbn. rewrite Hn. reflexivity. Qed.

Lemma store_child_new par f ch fs bytes : lookup par fs = Some (NDir ch) -> assoc_t f ch = None ->
  store (par ++ [f]) MW 0 bytes fs = Some (graft par (NDir (ch ++ [(f, NFile bytes)])) fs).
Proof.
  intros H Hn. pose proof (store_app par [] f MW 0 bytes fs _ H) as E. cbn [app] in E. rewrite E.
  unfold store. cbn. rewrite Hn. reflexivity.
Qed.

Lemma rmdir_child par n ch fs : lookup par fs = Some (NDir ch) -> assoc_t n ch = Some (NDir []) ->
  rmdir (par ++ [n]) fs = Some (graft par (NDir (remove_t n ch)) fs).
Proof.
  intros H Hn. pose proof (rmdir_app par [] n fs _ H) as E. cbn [app] in E. rewrite E.
  unfold rmdir. cbn. rewrite Hn. reflexivity.
Qed.

Lemma unlink_child par f ch c fs : lookup par fs = Some (NDir ch) -> assoc_t f ch = Some (NFile c) ->
  unlink (par ++ [f]) fs = Some (graft par (NDir (remove_t f ch)) fs).
Proof.
  intros H Hn. pose proof (unlink_app par [] f fs _ H) as E. cbn [app] in E. rewrite E.
  unfold unlink. cbn. rewrite Hn. reflexivity.
Qed.

Lemma rename_sibling par n m ch x fs :
  lookup par fs = Some (NDir ch) -> assoc_t n ch = Some x -> text_eqb n m = false ->
  rename (par ++ [n]) (par ++ [m]) fs = Some (graft par (NDir (remove_t n ch ++ [(m, x)])) fs).
Proof.
  intros H Hn Hnm. pose proof (rename_app par [] n [] m fs _ H) as E. cbn [app] in E. rewrite E.
  unfold rename. cbn. rewrite Hn. cbn. rewrite Hnm. reflexivity.
Qed.

(* the two-path cases of rename: out of a subdirectory d of par into par, and from par into its subdirectory d *)
Lemma assoc_remove_other {A} k k' (a : list (text * A)) :
  text_eqb k k' = false -> assoc_t k (remove_t k' a) = assoc_t k a.
Proof.
  intro H. induction a as [|[k2 v2] a IH]; cbn; [reflexivity|].
  destruct (text_eqb k' k2) eqn:E2.
  - apply text_eqb_eq in E2. subst k2. rewrite H. reflexivity.
  - cbn. destruct (text_eqb k k2); [reflexivity|exact IH].
Qed.

Lemma rename_out_of_subdir par d n m ch chd x fs :
  lookup par fs = Some (NDir ch) -> assoc_t d ch = Some (NDir chd) -> assoc_t n chd = Some x ->
  text_eqb d m = false ->
  rename (par ++ [d; n]) (par ++ [m]) fs
  = Some (graft par (NDir (replace_t d (NDir (remove_t n chd)) ch ++ [(m, x)])) fs).
Proof.
  intros H Hd Hn Hdm. pose proof (rename_app par [d] n [] m fs _ H) as E. cbn [app] in E. rewrite E.
  unfold rename. cbn. rewrite Hd. cbn. rewrite Hn. cbn. rewrite Hdm. cbn. reflexivity.
Qed.

Lemma rename_into_subdir par d n m ch chd x fs :
  lookup par fs = Some (NDir ch) -> assoc_t d ch = Some (NDir chd) -> assoc_t n ch = Some x ->
  text_eqb n d = false ->
  rename (par ++ [n]) (par ++ [d; m]) fs
  = Some (graft par (NDir (replace_t d (NDir (chd ++ [(m, x)])) (remove_t n ch))) fs).
Proof.
  intros H Hd Hn Hnd. pose proof (rename_app par [] n [d] m fs _ H) as E. cbn [app] in E. rewrite E.
  assert (Hd' : assoc_t d (remove_t n ch) = Some (NDir chd)).
  { rewrite assoc_remove_other; [exact Hd|]. rewrite text_eqb_sym. exact Hnd. }
  unfold rename. cbn. rewrite Hn. cbn. rewrite Hnd. cbn. unfold is_dir. cbn. rewrite Hd. cbn. rewrite Hd'. cbn. reflexivity.
Qed.

Lemma resolve_empty cwd : Session.resolve cwd [] = cwd.
Proof. unfold Session.resolve. cbn. apply rev_involutive. Qed.

Lemma path_str_to_str cwd : path_str cwd = to_str (mkp 1 cwd).
Proof.
  unfold path_str, to_str. cbn [anchor parts]. change (1 =? 0) with false. change (anchor_str 1) with [PosixPath.SLASH].
  destruct cwd as [|x t]; [reflexivity|]. cbn [app join flat_map]. change Session.SLASH with PosixPath.SLASH.
  reflexivity.
Qed.

(* ------------------------------------------------------------------ the session model, verb by verb *)
Local Arguments Session.resolve : simpl never.
Local Arguments mkdir_p : simpl never.
Local Arguments rmdir : simpl never.
Local Arguments unlink : simpl never.
Local Arguments rename : simpl never.
Local Arguments store : simpl never.
Local Arguments lookup : simpl never.
Local Arguments exists_ : simpl never.
Local Arguments is_dir : simpl never.
Local Arguments is_file : simpl never.
Local Arguments perm_of : simpl never.
Local Arguments nth_error : simpl never.
Local Arguments path_str : simpl never.
Local Arguments graft : simpl never.

Section Sess.
  Variable users : list user.
  Variable ui : nat.
  Variable u : user.
  Hypothesis Hu : nth_error users ui = Some u.

  (* a logged-in session of user [ui] with working directory [cwd], no restart offset pending *)
  Definition ready (w : world) (cwd : list text) : Prop :=
    s_ended (w_s w) = false /\ s_logged (w_s w) = true /\ s_user (w_s w) = Some ui
    /\ s_cwd (w_s w) = cwd /\ s_rest (w_s w) = 0.

  (* a passive listener is open and the peer has connected to it *)
  Definition wired (w : world) : Prop := s_passive (w_s w) = true /\ s_data (w_s w) = true.

  (* the user may read and write at q *)
  Definition rw (q : list text) : Prop := pm_r (perm_of u q) = true /\ pm_w (perm_of u q) = true.

  Definition mkev (v : string) (arg : text) (d : dataact) : event :=
    {| e_verb := t_of v; e_arg := arg; e_data := d |}.

  Notation stp := (step users ref_table).

  Lemma step_unfold w v arg d h ds dl tr :
    s_ended (w_s w) = false ->
    text_eqb (t_of v) V_DATACONN = false -> verb_handler ref_table (t_of v) = Some h ->
    handler_of ref_table h = Some (ds, dl) -> is_transfer (t_of v) = tr ->
    stp w (mkev v arg d) =
      let w0 := if tr then w else set_sess w (set_rest (w_s w) 0) in
      let '(w1, o, keep) := run_decos users ds arg w0 (body users (handler users ref_table 2) h arg d false) in
      let w1 := if tr then set_sess w1 (set_rest (w_s w1) 0) else w1 in
      ((if keep then w1 else set_sess w1 (end_sess (w_s w1))), o).
  Proof.
    intros He Hd Hv Hh Ht. unfold step, mkev. cbn [e_verb e_arg e_data]. rewrite He, Hd, Hv, Ht.
    cbn [handler]. rewrite Hh. reflexivity.
  Qed.

  Local Arguments t_of : simpl never.
  Local Arguments code : simpl never.

  Ltac start v h tr :=
    match goal with
    | Hr : ready ?w _ |- _ =>
        let He := fresh "He" in let Hl := fresh "Hl" in let Hus := fresh "Hus" in
        let Hc := fresh "Hc" in let Hrs := fresh "Hrs" in
        destruct Hr as [He [Hl [Hus [Hc Hrs]]]];
        rewrite (step_unfold w v _ _ h _ _ tr He eq_refl eq_refl eq_refl eq_refl);
        destruct w as [[su sl sc sr srest sp sd se] fs lg]; cbn in *; subst
    end.
  Ltac finish := eexists; eexists; split; [reflexivity|]; cbn; repeat split.

  Lemma step_mkd w cwd arg par n ch :
    ready w cwd -> Session.resolve cwd arg = par ++ [n] -> rw (par ++ [n]) ->
    lookup par (w_fs w) = Some (NDir ch) -> assoc_t n ch = None ->
    exists w' o, stp w (mkev "mkd" arg DNone) = (w', o) /\ o_codes o = [code "257"] /\
      w_fs w' = graft par (NDir (ch ++ [(n, NDir [])])) (w_fs w) /\ ready w' cwd.
  Proof.
    intros Hrd Hres [_ Hw] Hpar Hn. start "mkd"%string "mkd"%string false.
    assert (Hex : exists_ (par ++ [n]) fs = false).
    { unfold exists_. rewrite (lookup_child par n ch fs Hpar), Hn. reflexivity. }
    pose proof (mkdir_child par n ch fs Hpar Hn) as Hmk.
    repeat (cbn; rewrite ?Hres, ?Hex, ?Hu, ?Hw, ?Hmk). finish.
  Qed.

  Lemma step_cwd w cwd arg P chP :
    ready w cwd -> Session.resolve cwd arg = P -> rw P -> lookup P (w_fs w) = Some (NDir chP) ->
    exists w' o, stp w (mkev "cwd" arg DNone) = (w', o) /\ o_codes o = [code "250"] /\
      w_fs w' = w_fs w /\ ready w' P.
  Proof.
    intros Hrd Hres [Hr _] HP. start "cwd"%string "cwd"%string false.
    assert (Hex : exists_ (Session.resolve cwd arg) fs = true) by (unfold exists_; rewrite HP; reflexivity).
    assert (Hd : is_dir (Session.resolve cwd arg) fs = true) by (unfold is_dir; rewrite HP; reflexivity).
    repeat (cbn; rewrite ?Hex, ?Hd, ?Hu, ?Hr). finish.
  Qed.

  Lemma step_pwd w cwd arg :
    ready w cwd ->
    exists w' o, stp w (mkev "pwd" arg DNone) = (w', o) /\ o_codes o = [code "257"] /\
      o_info o = [34] ++ dbl_quote (path_str cwd) ++ [34] /\ w_fs w' = w_fs w /\ ready w' cwd.
  Proof. intros Hrd. start "pwd"%string "pwd"%string false. finish. Qed.

  Lemma step_pasv w cwd arg :
    ready w cwd ->
    exists w' o, stp w (mkev "pasv" arg DNone) = (w', o) /\ o_codes o = [code "227"] /\
      w_fs w' = w_fs w /\ ready w' cwd /\ s_passive (w_s w') = true /\ s_data (w_s w') = false.
  Proof. intros Hrd. start "pasv"%string "pasv"%string false. finish. Qed.

  Lemma step_conn w cwd :
    ready w cwd -> s_passive (w_s w) = true -> s_data (w_s w) = false ->
    exists w' o, stp w conn_ev = (w', o) /\ o_codes o = [] /\ w_fs w' = w_fs w /\ ready w' cwd /\ wired w'.
  Proof.
    intros [He [Hl [Hus [Hc Hrs]]]] Hp Hd. unfold step, conn_ev. cbn [e_verb]. rewrite He.
    change (text_eqb V_DATACONN V_DATACONN) with true. rewrite Hp, Hd. cbn [negb andb].
    destruct w as [[su sl sc sr srest sp sd se] fs lg]; cbn in *; subst. finish.
  Qed.

  Definition entry (e : text * node) : text * bool * Z := (fst e, is_dir_node (snd e), size_of (snd e)).

  Lemma step_listing (v : string) (okc : string) w cwd arg D chD :
    (v = "mlsd" /\ okc = "200" \/ v = "list" /\ okc = "226")%string ->
    ready w cwd -> wired w -> Session.resolve cwd arg = D -> rw D -> lookup D (w_fs w) = Some (NDir chD) ->
    exists w' o, stp w (mkev v arg DNone) = (w', o) /\ o_codes o = [code "150"; code okc] /\
      o_listing o = Some (map entry chD) /\ w_fs w' = w_fs w /\ ready w' cwd.
  Proof.
    intros Hv Hrd [Hp Hd] Hres [Hr _] HD.
    assert (Hex : exists_ D (w_fs w) = true) by (unfold exists_; rewrite HD; reflexivity).
    destruct Hv as [[-> ->]|[-> ->]].
    - start "mlsd"%string "mlsd"%string false.
      repeat (cbn; rewrite ?Hex, ?Hu, ?Hr). unfold listing_of. rewrite HD. finish.
    - start "list"%string "list"%string false.
      repeat (cbn; rewrite ?Hex, ?Hu, ?Hr). unfold listing_of. rewrite HD. finish.
  Qed.

  Lemma step_mlst w cwd arg P x :
    ready w cwd -> Session.resolve cwd arg = P -> rw P -> lookup P (w_fs w) = Some x ->
    exists w' o, stp w (mkev "mlst" arg DNone) = (w', o) /\ o_codes o = [code "250"] /\
      w_log w' = w_log w ++ [("exists"%string, P); ("stat"%string, P)] /\ w_fs w' = w_fs w /\ ready w' cwd.
  Proof.
    intros Hrd Hres [Hr _] HP. start "mlst"%string "mlst"%string false.
    assert (Hex : exists_ (Session.resolve cwd arg) fs = true) by (unfold exists_; rewrite HP; reflexivity).
    repeat (cbn; rewrite ?Hex, ?Hu, ?Hr). finish. rewrite <- app_assoc. reflexivity.
  Qed.

  Lemma step_stor w cwd arg D f chD bytes :
    ready w cwd -> wired w -> Session.resolve cwd arg = D ++ [f] -> rw (D ++ [f]) ->
    lookup D (w_fs w) = Some (NDir chD) -> assoc_t f chD = None ->
    exists w' o, stp w (mkev "stor" arg (DSend bytes)) = (w', o) /\ o_codes o = [code "150"; code "226"] /\
      w_fs w' = graft D (NDir (chD ++ [(f, NFile bytes)])) (w_fs w) /\ ready w' cwd.
  Proof.
    intros Hrd [Hp Hd] Hres [_ Hw] HD Hf. start "stor"%string "stor"%string true.
    assert (Hdir : is_dir D fs = true) by (unfold is_dir; rewrite HD; reflexivity).
    pose proof (store_child_new D f chD fs bytes HD Hf) as Hst.
    repeat (cbn; rewrite ?Hres, ?removelast_snoc, ?Hu, ?Hw, ?Hdir, ?Hst). finish.
  Qed.

  Lemma step_retr w cwd arg Pf c :
    ready w cwd -> wired w -> Session.resolve cwd arg = Pf -> rw Pf -> lookup Pf (w_fs w) = Some (NFile c) ->
    exists w' o, stp w (mkev "retr" arg DNone) = (w', o) /\ o_codes o = [code "150"; code "226"] /\
      o_bytes o = Some c /\ w_fs w' = w_fs w /\ ready w' cwd.
  Proof.
    intros Hrd [Hp Hd] Hres [Hr _] HP. start "retr"%string "retr"%string true.
    assert (Hex : exists_ (Session.resolve cwd arg) fs = true) by (unfold exists_; rewrite HP; reflexivity).
    assert (Hfl : is_file (Session.resolve cwd arg) fs = true) by (unfold is_file; rewrite HP; reflexivity).
    repeat (cbn; rewrite ?Hex, ?Hfl, ?Hu, ?Hr, ?HP). finish.
  Qed.

  Lemma step_rnfr w cwd arg P x :
    ready w cwd -> Session.resolve cwd arg = P -> rw P -> lookup P (w_fs w) = Some x ->
    exists w' o, stp w (mkev "rnfr" arg DNone) = (w', o) /\ o_codes o = [code "350"] /\
      s_rnfr (w_s w') = Some P /\ w_fs w' = w_fs w /\ ready w' cwd.
  Proof.
    intros Hrd Hres [_ Hw] HP. start "rnfr"%string "rnfr"%string false.
    assert (Hex : exists_ (Session.resolve cwd arg) fs = true) by (unfold exists_; rewrite HP; reflexivity).
    repeat (cbn; rewrite ?Hex, ?Hu, ?Hw). finish.
  Qed.

  Lemma step_rnto w cwd arg par n m ch x :
    ready w cwd -> s_rnfr (w_s w) = Some (par ++ [n]) -> Session.resolve cwd arg = par ++ [m] -> rw (par ++ [m]) ->
    lookup par (w_fs w) = Some (NDir ch) -> assoc_t n ch = Some x -> assoc_t m ch = None -> text_eqb n m = false ->
    exists w' o, stp w (mkev "rnto" arg DNone) = (w', o) /\ o_codes o = [code "250"] /\
      w_fs w' = graft par (NDir (remove_t n ch ++ [(m, x)])) (w_fs w) /\ ready w' cwd.
  Proof.
    intros Hrd Hfrom Hres [_ Hw] Hpar Hn Hm Hnm. start "rnto"%string "rnto"%string false.
    assert (Hex : exists_ (par ++ [m]) fs = false).
    { unfold exists_. rewrite (lookup_child par m ch fs Hpar), Hm. reflexivity. }
    pose proof (rename_sibling par n m ch x fs Hpar Hn Hnm) as Hrn.
    repeat (cbn; rewrite ?Hres, ?Hex, ?Hu, ?Hw, ?Hrn). finish.
  Qed.

  (* RNTO in general: whatever the two paths are, the handler renames the remembered source to the resolved target *)
  Lemma step_rnto_gen w cwd arg src dst fs' :
    ready w cwd -> s_rnfr (w_s w) = Some src -> Session.resolve cwd arg = dst -> rw dst ->
    exists_ dst (w_fs w) = false -> rename src dst (w_fs w) = Some fs' ->
    exists w' o, stp w (mkev "rnto" arg DNone) = (w', o) /\ o_codes o = [code "250"] /\
      w_fs w' = fs' /\ ready w' cwd.
  Proof.
    intros Hrd Hfrom Hres [_ Hw] Hex Hrn. start "rnto"%string "rnto"%string false.
    repeat (cbn; rewrite ?Hex, ?Hu, ?Hw, ?Hrn). finish.
  Qed.

  Lemma step_rmd w cwd arg par n ch :
    ready w cwd -> Session.resolve cwd arg = par ++ [n] -> rw (par ++ [n]) ->
    lookup par (w_fs w) = Some (NDir ch) -> assoc_t n ch = Some (NDir []) ->
    exists w' o, stp w (mkev "rmd" arg DNone) = (w', o) /\ o_codes o = [code "250"] /\
      w_fs w' = graft par (NDir (remove_t n ch)) (w_fs w) /\ ready w' cwd.
  Proof.
    intros Hrd Hres [_ Hw] Hpar Hn. start "rmd"%string "rmd"%string false.
    pose proof (lookup_child par n ch fs Hpar) as Hlk. rewrite Hn in Hlk.
    assert (Hex : exists_ (par ++ [n]) fs = true) by (unfold exists_; rewrite Hlk; reflexivity).
    assert (Hd : is_dir (par ++ [n]) fs = true) by (unfold is_dir; rewrite Hlk; reflexivity).
    pose proof (rmdir_child par n ch fs Hpar Hn) as Hrm.
    repeat (cbn; rewrite ?Hres, ?Hex, ?Hd, ?Hu, ?Hw, ?Hrm). finish.
  Qed.

  Lemma step_dele w cwd arg par f ch c :
    ready w cwd -> Session.resolve cwd arg = par ++ [f] -> rw (par ++ [f]) ->
    lookup par (w_fs w) = Some (NDir ch) -> assoc_t f ch = Some (NFile c) ->
    exists w' o, stp w (mkev "dele" arg DNone) = (w', o) /\ o_codes o = [code "250"] /\
      w_fs w' = graft par (NDir (remove_t f ch)) (w_fs w) /\ ready w' cwd.
  Proof.
    intros Hrd Hres [_ Hw] Hpar Hn. start "dele"%string "dele"%string false.
    pose proof (lookup_child par f ch fs Hpar) as Hlk. rewrite Hn in Hlk.
    assert (Hex : exists_ (par ++ [f]) fs = true) by (unfold exists_; rewrite Hlk; reflexivity).
    assert (Hd : is_file (par ++ [f]) fs = true) by (unfold is_file; rewrite Hlk; reflexivity).
    pose proof (unlink_child par f ch c fs Hpar Hn) as Hrm.
    repeat (cbn; rewrite ?Hres, ?Hex, ?Hd, ?Hu, ?Hw, ?Hrm). finish.
  Qed.
End Sess.

(* ------------------------------------------------------------------ from the client's lines *)
Definition verb_ok (U l : string) : Prop := t_of U <> [] /\ nows (t_of U) /\ lower (t_of U) = t_of l.
Ltac vok := split; [let H := fresh in intro H; vm_compute in H; discriminate | split; vm_compute; reflexivity].
Lemma v_mkd : verb_ok "MKD" "mkd". Proof. vok. Qed.
Lemma v_cwd : verb_ok "CWD" "cwd". Proof. vok. Qed.
Lemma v_pwd : verb_ok "PWD" "pwd". Proof. vok. Qed.
Lemma v_pasv : verb_ok "PASV" "pasv". Proof. vok. Qed.
Lemma v_mlsd : verb_ok "MLSD" "mlsd". Proof. vok. Qed.
Lemma v_list : verb_ok "LIST" "list". Proof. vok. Qed.
Lemma v_mlst : verb_ok "MLST" "mlst". Proof. vok. Qed.
Lemma v_stor : verb_ok "STOR" "stor". Proof. vok. Qed.
Lemma v_retr : verb_ok "RETR" "retr". Proof. vok. Qed.
Lemma v_rnfr : verb_ok "RNFR" "rnfr". Proof. vok. Qed.
Lemma v_rnto : verb_ok "RNTO" "rnto". Proof. vok. Qed.
Lemma v_rmd : verb_ok "RMD" "rmd". Proof. vok. Qed.
Lemma v_dele : verb_ok "DELE" "dele". Proof. vok. Qed.

Definition noquote (s : text) : Prop := forallb (fun c => negb (c =? QUOTE)) s = true.
Lemma dbl_noquote s : noquote s -> dbl s = s.
Proof.
  unfold noquote, dbl. induction s as [|c s IH]; intro H; [reflexivity|].
  cbn [forallb] in H. apply andb_true_iff in H as [Hc Hs]. apply negb_true_iff in Hc.
  cbn [flat_map]. rewrite Hc, (IH Hs). reflexivity.
Qed.

Lemma good_257 : good_code (t_of "257"). Proof. split; reflexivity. Qed.

(* the path Client.list yields for an entry named e of the listed path q denotes the child e of
   the node q denotes *)
Lemma target_join cwd q e : target cwd (joinp q (mkp 0 [e])) = target cwd q ++ [e].
Proof.
  unfold joinp, target, PosixPath.is_absolute. cbn [anchor parts]. change (0 =? 0) with true. cbn [anchor parts].
  destruct (anchor q =? 0); cbn [negb]; [rewrite app_assoc|]; reflexivity.
Qed.

Lemma target_last cwd p par n : valid_path p -> target cwd p = par ++ [n] -> valid_name n.
Proof.
  intros Hp Ht. pose proof (valid_last p Hp) as Hl. destruct Hp as [_ [Hne _]].
  destruct (exists_last Hne) as [l [x E]]. rewrite E, last_last in Hl.
  unfold target in Ht. rewrite E in Ht. destruct (PosixPath.is_absolute p).
  - apply app_inj_tail in Ht as [_ <-]. exact Hl.
  - rewrite app_assoc in Ht. apply app_inj_tail in Ht as [_ <-]. exact Hl.
Qed.

Section Compose.
  Variable users : list user.
  Variable ui : nat.
  Variable u : user.
  Hypothesis Hu : nth_error users ui = Some u.

  Notation stp := (step users ref_table).
  Notation ready := (ready ui).
  Notation rw := (rw u).

  Notation cstep := (cstep users).
  Notation istep := (istep users).
  Notation irun := (irun users).

  Lemma cstep_path w U l p d : verb_ok U l -> valid_path p ->
    cstep w (client_cmd (t_of U) p) d = Some (stp w (mkev l (to_str p) d)).
  Proof.
    intros [H1 [H2 H3]] Hp. unfold cstep. rewrite (ev_of_client_cmd _ p d H1 H2 Hp), H3. reflexivity.
  Qed.

  Lemma cstep_noarg w U l d : verb_ok U l ->
    cstep w (t_of U ++ eol) d = Some (stp w (mkev l [] d)).
  Proof. intros [H1 [H2 H3]]. unfold cstep. rewrite (ev_of_noarg _ d H1 H2), H3. reflexivity. Qed.

  (* the listing command of Client.list: the default (empty) path or a valid path *)
  Definition list_arg (la : text) : Prop := la = [] \/ exists q, valid_path q /\ la = to_str q.

  Lemma cstep_list w U l la d : verb_ok U l -> list_arg la ->
    cstep w (list_cmd (t_of U) la) d = Some (stp w (mkev l la d)).
  Proof.
    intros Hv [->|[q [Hq ->]]].
    - rewrite (list_cmd_empty _ (proj1 Hv) (proj1 (proj2 Hv))). apply cstep_noarg. exact Hv.
    - rewrite (list_cmd_path _ q (proj1 Hv) (proj1 (proj2 Hv)) Hq). apply cstep_path; assumption.
  Qed.

  (* PASV, then the peer connects: the data channel is ready, nothing else changed *)
  Definition prep : list inp := [ILine (t_of "PASV" ++ eol) DNone; IConn].

  Lemma irun_app w a b : irun w (a ++ b) =
    match irun w a with
    | Some (w1, os) => match irun w1 b with Some (w2, os') => Some (w2, os ++ os') | None => None end
    | None => None
    end.
  Proof.
    revert w. induction a as [|i a IH]; intro w; cbn [app irun].
    - destruct (irun w b) as [[w2 os']|]; reflexivity.
    - destruct (istep w i) as [[w1 o]|]; [|reflexivity]. rewrite IH.
      destruct (irun w1 a) as [[w2 os]|]; [|reflexivity]. destruct (irun w2 b) as [[w3 os']|]; reflexivity.
  Qed.

  Lemma run_prep w cwd : ready w cwd ->
    exists w' oa ob, irun w prep = Some (w', [oa; ob]) /\ w_fs w' = w_fs w /\ ready w' cwd /\ wired w'.
  Proof.
    intro Hrd. destruct (step_pasv users ui w cwd [] Hrd) as [wa [oa [Ea [_ [Hfa [Hra [Hpa Hda]]]]]]].
    destruct (step_conn users ui wa cwd Hra Hpa Hda) as [wb [ob [Eb [_ [Hfb [Hrb Hwb]]]]]].
    exists wb, oa, ob. unfold prep. cbn [irun istep]. rewrite (cstep_noarg w _ _ DNone v_pasv), Ea, Eb.
    repeat split; try apply Hrb; try apply Hwb. congruence.
  Qed.

  (* ---- MKD ---- *)
  Theorem nt_mkd w cwd p par n ch :
    ready w cwd -> valid_path p -> target cwd p = par ++ [n] -> rw (par ++ [n]) ->
    lookup par (w_fs w) = Some (NDir ch) -> assoc_t n ch = None ->
    exists w1 o1, cstep w (client_cmd (t_of "MKD") p) DNone = Some (w1, o1) /\ o_codes o1 = [code "257"] /\
      w_fs w1 = graft par (NDir (ch ++ [(n, NDir [])])) (w_fs w) /\
      lookup par (w_fs w1) = Some (NDir (ch ++ [(n, NDir [])])) /\
      lookup (par ++ [n]) (w_fs w1) = Some (NDir []) /\ ready w1 cwd.
  Proof.
    intros Hrd Hp Ht Hrw Hpar Hn. rewrite (cstep_path w _ _ p DNone v_mkd Hp).
    destruct (step_mkd users ui u Hu w cwd (to_str p) par n ch Hrd) as [w1 [o1 [E [Hc [Hfs Hr1]]]]];
      try assumption; [rewrite (resolve_to_str cwd p Hp); exact Ht|].
    exists w1, o1. rewrite E, Hfs.
    assert (Hl : lookup par (graft par (NDir (ch ++ [(n, NDir [])])) (w_fs w)) = Some (NDir (ch ++ [(n, NDir [])])))
      by (eapply lookup_graft_same; exact Hpar).
    repeat split; try assumption; try apply Hr1.
    rewrite (lookup_child par n _ _ Hl). apply assoc_snoc_new. exact Hn.
  Qed.

  (* ---- CWD, PWD ---- *)
  Theorem nt_cwd_pwd w cwd p P chP :
    ready w cwd -> valid_path p -> target cwd p = P -> rw P -> lookup P (w_fs w) = Some (NDir chP) ->
    P <> [] -> Forall valid_name P ->
    exists w2 o2 w3 o3,
      cstep w (client_cmd (t_of "CWD") p) DNone = Some (w2, o2) /\ o_codes o2 = [code "250"] /\
      s_cwd (w_s w2) = P /\
      cstep w2 (t_of "PWD" ++ eol) DNone = Some (w3, o3) /\ o_codes o3 = [code "257"] /\
      w_fs w3 = w_fs w /\ ready w3 P /\
      (* the 257 reply the server formats for its working directory, on the wire, decoded by the client *)
      (forall k, exists info rest,
         parse_response (split_lines (reply_wire (t_of "257", [pwd_info (mkp 1 (s_cwd (w_s w3)))], false) ++ k))
           = POk (t_of "257") info rest
         /\ rest = split_lines k /\ parse_directory_response (last info []) = mkp 1 P) /\
      (* ... the path the client gets denotes the node again *)
      target (s_cwd (w_s w3)) (mkp 1 P) = P /\
      (* the text the session model records for the reply is that reply (quotes doubled) *)
      o_info o3 = pwd_info (mkp 1 P).
  Proof.
    intros Hrd Hp Ht Hrw HP Hne HvP. rewrite (cstep_path w _ _ p DNone v_cwd Hp).
    destruct (step_cwd users ui u Hu w cwd (to_str p) P chP Hrd) as [w2 [o2 [E2 [Hc2 [Hf2 Hr2]]]]];
      try assumption; [rewrite (resolve_to_str cwd p Hp); exact Ht|].
    destruct (step_pwd users ui w2 P [] Hr2) as [w3 [o3 [E3 [Hc3 [Hi3 [Hf3 Hr3]]]]]].
    exists w2, o2, w3, o3. rewrite E2, (cstep_noarg w2 _ _ DNone v_pwd), E3.
    assert (Hcw3 : s_cwd (w_s w3) = P) by apply Hr3.
    assert (HvalidP : valid_path (mkp 1 P)) by (split; [right; reflexivity|split; assumption]).
    repeat split; try assumption; try apply Hr2; try apply Hr3; try congruence.
    - intro k. rewrite Hcw3. apply pwd_roundtrip_valid; [exact good_257|exact HvalidP].
    - rewrite Hi3, path_str_to_str. reflexivity.
  Qed.

  (* ---- MLSD / LIST of a directory: the model's listing of exactly that node ---- *)
  Theorem nt_listing (U l okc : string) w cwd la D chD :
    (U = "MLSD" /\ l = "mlsd" /\ okc = "200" \/ U = "LIST" /\ l = "list" /\ okc = "226")%string ->
    ready w cwd -> list_arg la -> Session.resolve cwd la = D -> rw D -> lookup D (w_fs w) = Some (NDir chD) ->
    exists w' oa ob o,
      irun w (prep ++ [ILine (list_cmd (t_of U) la) DNone]) = Some (w', [oa; ob; o]) /\
      o_codes o = [code "150"; code okc] /\ o_listing o = Some (map entry chD) /\
      w_fs w' = w_fs w /\ ready w' cwd.
  Proof.
    intros HU Hrd Hla Hres Hrw HD.
    destruct (run_prep w cwd Hrd) as [wp [oa [ob [Ep [Hfp [Hrp Hwp]]]]]].
    assert (HDp : lookup D (w_fs wp) = Some (NDir chD)) by (rewrite Hfp; exact HD).
    assert (Hv : verb_ok U l) by (destruct HU as [[-> [-> _]]|[-> [-> _]]]; [exact v_mlsd|exact v_list]).
    assert (Hvo : (l = "mlsd" /\ okc = "200" \/ l = "list" /\ okc = "226")%string)
      by (destruct HU as [[_ [-> ->]]|[_ [-> ->]]]; [left|right]; split; reflexivity).
    destruct (step_listing users ui u Hu l okc wp cwd la D chD Hvo Hrp Hwp Hres Hrw HDp)
      as [w' [o [E [Hc [Hl [Hf Hr']]]]]].
    exists w', oa, ob, o. rewrite irun_app, Ep. cbn [irun istep]. rewrite (cstep_list wp U l la DNone Hv Hla), E.
    repeat split; try assumption; try apply Hr'. congruence.
  Qed.

  (* ---- MLST: the backend is asked about exactly that node ---- *)
  Theorem nt_mlst w cwd p P x :
    ready w cwd -> valid_path p -> target cwd p = P -> rw P -> lookup P (w_fs w) = Some x ->
    exists w' o, cstep w (client_cmd (t_of "MLST") p) DNone = Some (w', o) /\ o_codes o = [code "250"] /\
      w_log w' = w_log w ++ [("exists"%string, P); ("stat"%string, P)] /\ w_fs w' = w_fs w /\ ready w' cwd.
  Proof.
    intros Hrd Hp Ht Hrw HP. rewrite (cstep_path w _ _ p DNone v_mlst Hp).
    destruct (step_mlst users ui u Hu w cwd (to_str p) P x Hrd) as [w' [o [E R]]]; try assumption;
      [rewrite (resolve_to_str cwd p Hp); exact Ht|].
    exists w', o. rewrite E. split; [reflexivity|exact R].
  Qed.

  (* ---- STOR then RETR: the bytes go to and come from the node P/f ---- *)
  Theorem nt_stor_retr w cwd pf D f chD bytes :
    ready w cwd -> valid_path pf -> target cwd pf = D ++ [f] -> rw (D ++ [f]) ->
    lookup D (w_fs w) = Some (NDir chD) -> assoc_t f chD = None ->
    exists w' o1 o2 o3 o4 o5 o6,
      irun w (prep ++ [ILine (client_cmd (t_of "STOR") pf) (DSend bytes)] ++
              prep ++ [ILine (client_cmd (t_of "RETR") pf) DNone]) = Some (w', [o1; o2; o3; o4; o5; o6]) /\
      o_codes o3 = [code "150"; code "226"] /\ o_codes o6 = [code "150"; code "226"] /\ o_bytes o6 = Some bytes /\
      w_fs w' = graft D (NDir (chD ++ [(f, NFile bytes)])) (w_fs w) /\
      lookup D (w_fs w') = Some (NDir (chD ++ [(f, NFile bytes)])) /\
      lookup (D ++ [f]) (w_fs w') = Some (NFile bytes) /\ ready w' cwd.
  Proof.
    intros Hrd Hp Ht Hrw HD Hf.
    assert (Hres : Session.resolve cwd (to_str pf) = D ++ [f]) by (rewrite (resolve_to_str cwd pf Hp); exact Ht).
    destruct (run_prep w cwd Hrd) as [wa [o1 [o2 [Ea [Hfa [Hra Hwa]]]]]].
    assert (HDa : lookup D (w_fs wa) = Some (NDir chD)) by (rewrite Hfa; exact HD).
    destruct (step_stor users ui u Hu wa cwd (to_str pf) D f chD bytes Hra Hwa Hres Hrw HDa Hf)
      as [wb [o3 [Eb [Hc3 [Hfb Hrb]]]]].
    destruct (run_prep wb cwd Hrb) as [wc [o4 [o5 [Ec [Hfc [Hrc Hwc]]]]]].
    assert (HDb : lookup D (w_fs wb) = Some (NDir (chD ++ [(f, NFile bytes)])))
      by (rewrite Hfb; eapply lookup_graft_same; exact HDa).
    assert (Hfile : lookup (D ++ [f]) (w_fs wc) = Some (NFile bytes)).
    { rewrite Hfc, (lookup_child D f _ _ HDb). apply assoc_snoc_new. exact Hf. }
    destruct (step_retr users ui u Hu wc cwd (to_str pf) (D ++ [f]) bytes Hrc Hwc Hres Hrw Hfile)
      as [wd [o6 [Ed [Hc6 [Hb6 [Hfd Hrd']]]]]].
    exists wd, o1, o2, o3, o4, o5, o6.
    rewrite irun_app, Ea. rewrite irun_app. cbn [irun istep].
    rewrite (cstep_path wa _ _ pf (DSend bytes) v_stor Hp), Eb. rewrite irun_app, Ec. cbn [irun istep].
    rewrite (cstep_path wc _ _ pf DNone v_retr Hp), Ed. cbn [app].
    assert (Hfs : w_fs wd = graft D (NDir (chD ++ [(f, NFile bytes)])) (w_fs w)) by congruence.
    repeat split; try assumption; try apply Hrd'.
    - rewrite Hfd, Hfc. exact HDb.
    - rewrite Hfd. exact Hfile.
  Qed.

  (* ---- DELE ---- *)
  Theorem nt_dele w cwd pf D f chD c :
    ready w cwd -> valid_path pf -> target cwd pf = D ++ [f] -> rw (D ++ [f]) ->
    lookup D (w_fs w) = Some (NDir chD) -> assoc_t f chD = Some (NFile c) ->
    exists w' o, cstep w (client_cmd (t_of "DELE") pf) DNone = Some (w', o) /\ o_codes o = [code "250"] /\
      w_fs w' = graft D (NDir (remove_t f chD)) (w_fs w) /\ ready w' cwd.
  Proof.
    intros Hrd Hp Ht Hrw HD Hf. rewrite (cstep_path w _ _ pf DNone v_dele Hp).
    destruct (step_dele users ui u Hu w cwd (to_str pf) D f chD c Hrd) as [w' [o [E R]]]; try assumption;
      [rewrite (resolve_to_str cwd pf Hp); exact Ht|].
    exists w', o. rewrite E. split; [reflexivity|exact R].
  Qed.

  (* ---- RNFR, RNTO (to a sibling name) ---- *)
  Theorem nt_rename w cwd p q par n m ch x :
    ready w cwd -> valid_path p -> valid_path q -> target cwd p = par ++ [n] -> target cwd q = par ++ [m] ->
    rw (par ++ [n]) -> rw (par ++ [m]) ->
    lookup par (w_fs w) = Some (NDir ch) -> assoc_t n ch = Some x -> assoc_t m ch = None ->
    exists w' o1 o2,
      irun w [ILine (client_cmd (t_of "RNFR") p) DNone; ILine (client_cmd (t_of "RNTO") q) DNone] = Some (w', [o1; o2]) /\
      o_codes o1 = [code "350"] /\ o_codes o2 = [code "250"] /\
      w_fs w' = graft par (NDir (remove_t n ch ++ [(m, x)])) (w_fs w) /\ ready w' cwd.
  Proof.
    intros Hrd Hp Hq Htp Htq Hrwn Hrwm Hpar Hn Hm.
    assert (Hnm : text_eqb n m = false).
    { destruct (text_eqb n m) eqn:E; [|reflexivity]. apply text_eqb_eq in E. subst m. congruence. }
    assert (Hlk : lookup (par ++ [n]) (w_fs w) = Some x) by (rewrite (lookup_child par n ch _ Hpar); exact Hn).
    destruct (step_rnfr users ui u Hu w cwd (to_str p) (par ++ [n]) x Hrd) as [wa [o1 [Ea [Hc1 [Hfrom [Hfa Hra]]]]]];
      try assumption; [rewrite (resolve_to_str cwd p Hp); exact Htp|].
    assert (Hpa : lookup par (w_fs wa) = Some (NDir ch)) by (rewrite Hfa; exact Hpar).
    destruct (step_rnto users ui u Hu wa cwd (to_str q) par n m ch x Hra Hfrom) as [wb [o2 [Eb [Hc2 [Hfb Hrb]]]]];
      try assumption; [rewrite (resolve_to_str cwd q Hq); exact Htq|].
    exists wb, o1, o2. cbn [irun istep].
    rewrite (cstep_path w _ _ p DNone v_rnfr Hp), Ea, (cstep_path wa _ _ q DNone v_rnto Hq), Eb.
    repeat split; try assumption; try apply Hrb. congruence.
  Qed.

  (* ---- RNFR, RNTO between DIFFERENT directories: whatever the spellings and the working directory ---- *)
  Lemma nt_rename_gen w cwd p q src dst x fs' :
    ready w cwd -> valid_path p -> valid_path q -> target cwd p = src -> target cwd q = dst ->
    rw src -> rw dst -> lookup src (w_fs w) = Some x -> exists_ dst (w_fs w) = false ->
    rename src dst (w_fs w) = Some fs' ->
    exists w' o1 o2,
      irun w [ILine (client_cmd (t_of "RNFR") p) DNone; ILine (client_cmd (t_of "RNTO") q) DNone] = Some (w', [o1; o2]) /\
      o_codes o1 = [code "350"] /\ o_codes o2 = [code "250"] /\ w_fs w' = fs' /\ ready w' cwd.
  Proof.
    intros Hrd Hp Hq Htp Htq Hrws Hrwd Hlk Hex Hrn.
    destruct (step_rnfr users ui u Hu w cwd (to_str p) src x Hrd) as [wa [o1 [Ea [Hc1 [Hfrom [Hfa Hra]]]]]];
      try assumption; [rewrite (resolve_to_str cwd p Hp); exact Htp|].
    destruct (step_rnto_gen users ui u Hu wa cwd (to_str q) src dst fs' Hra Hfrom) as [wb [o2 [Eb [Hc2 [Hfb Hrb]]]]];
      try assumption; try (rewrite Hfa; assumption); [rewrite (resolve_to_str cwd q Hq); exact Htq|].
    exists wb, o1, o2. cbn [NamesSession.irun NamesSession.istep].
    rewrite (cstep_path w _ _ p DNone v_rnfr Hp), Ea, (cstep_path wa _ _ q DNone v_rnto Hq), Eb.
    repeat split; try assumption; apply Hrb.
  Qed.

  (* out of the subdirectory d of par into par (rename("box/old", "new") from par), for ANY spelling of the two paths
     and ANY working directory: the node is at par/m, the source directory lost exactly that entry *)
  Theorem nt_rename_out w cwd p q par d n m ch chd x :
    ready w cwd -> valid_path p -> valid_path q -> target cwd p = par ++ [d; n] -> target cwd q = par ++ [m] ->
    rw (par ++ [d; n]) -> rw (par ++ [m]) ->
    lookup par (w_fs w) = Some (NDir ch) -> assoc_t d ch = Some (NDir chd) -> assoc_t n chd = Some x ->
    assoc_t m ch = None ->
    exists w' o1 o2,
      irun w [ILine (client_cmd (t_of "RNFR") p) DNone; ILine (client_cmd (t_of "RNTO") q) DNone] = Some (w', [o1; o2]) /\
      o_codes o1 = [code "350"] /\ o_codes o2 = [code "250"] /\
      w_fs w' = graft par (NDir (replace_t d (NDir (remove_t n chd)) ch ++ [(m, x)])) (w_fs w) /\
      lookup (par ++ [m]) (w_fs w') = Some x /\
      lookup (par ++ [d; n]) (w_fs w') = assoc_t n (remove_t n chd) /\ ready w' cwd.
  Proof.
    intros Hrd Hp Hq Htp Htq Hrws Hrwd Hpar Hd Hn Hm.
    assert (Hdm : text_eqb d m = false).
    { destruct (text_eqb d m) eqn:E; [|reflexivity]. apply text_eqb_eq in E. subst m. congruence. }
    assert (Hsrc : lookup (par ++ [d; n]) (w_fs w) = Some x).
    { rewrite (lookup_app par [d; n] _ _ Hpar). unfold lookup. rewrite Hd, Hn. reflexivity. }
    assert (Hex : exists_ (par ++ [m]) (w_fs w) = false)
      by (unfold exists_; rewrite (lookup_child par m ch _ Hpar), Hm; reflexivity).
    destruct (nt_rename_gen w cwd p q _ _ x _ Hrd Hp Hq Htp Htq Hrws Hrwd Hsrc Hex
                (rename_out_of_subdir par d n m ch chd x (w_fs w) Hpar Hd Hn Hdm)) as [w' [o1 [o2 [E [C1 [C2 [Hf Hr]]]]]]].
    exists w', o1, o2.
    set (ch' := replace_t d (NDir (remove_t n chd)) ch ++ [(m, x)]) in *.
    assert (Hp' : lookup par (w_fs w') = Some (NDir ch')) by (rewrite Hf; eapply lookup_graft_same; exact Hpar).
    assert (Hm' : assoc_t m (replace_t d (NDir (remove_t n chd)) ch) = None).
    { rewrite assoc_replace_other; [exact Hm|]. rewrite text_eqb_sym. exact Hdm. }
    repeat split; try assumption; try apply Hr.
    - rewrite (lookup_child par m _ _ Hp'). apply assoc_snoc_new. exact Hm'.
    - rewrite (lookup_app par [d; n] _ _ Hp'). unfold lookup, ch'. rewrite (assoc_snoc_other d m _ _ Hdm).
      rewrite (assoc_replace_same d _ ch _ Hd). destruct (assoc_t n (remove_t n chd)); reflexivity.
  Qed.

  (* from par into its subdirectory d *)
  Theorem nt_rename_into w cwd p q par d n m ch chd x :
    ready w cwd -> valid_path p -> valid_path q -> target cwd p = par ++ [n] -> target cwd q = par ++ [d; m] ->
    rw (par ++ [n]) -> rw (par ++ [d; m]) ->
    lookup par (w_fs w) = Some (NDir ch) -> assoc_t d ch = Some (NDir chd) -> assoc_t n ch = Some x ->
    assoc_t m chd = None -> n <> d ->
    exists w' o1 o2,
      irun w [ILine (client_cmd (t_of "RNFR") p) DNone; ILine (client_cmd (t_of "RNTO") q) DNone] = Some (w', [o1; o2]) /\
      o_codes o1 = [code "350"] /\ o_codes o2 = [code "250"] /\
      w_fs w' = graft par (NDir (replace_t d (NDir (chd ++ [(m, x)])) (remove_t n ch))) (w_fs w) /\
      lookup (par ++ [d; m]) (w_fs w') = Some x /\ ready w' cwd.
  Proof.
    intros Hrd Hp Hq Htp Htq Hrws Hrwd Hpar Hd Hn Hm Hnd.
    assert (Hnd' : text_eqb n d = false).
    { destruct (text_eqb n d) eqn:E; [|reflexivity]. apply text_eqb_eq in E. contradiction. }
    assert (Hsrc : lookup (par ++ [n]) (w_fs w) = Some x) by (rewrite (lookup_child par n ch _ Hpar); exact Hn).
    assert (Hex : exists_ (par ++ [d; m]) (w_fs w) = false).
    { unfold exists_. rewrite (lookup_app par [d; m] _ _ Hpar). unfold lookup. rewrite Hd, Hm. reflexivity. }
    destruct (nt_rename_gen w cwd p q _ _ x _ Hrd Hp Hq Htp Htq Hrws Hrwd Hsrc Hex
                (rename_into_subdir par d n m ch chd x (w_fs w) Hpar Hd Hn Hnd')) as [w' [o1 [o2 [E [C1 [C2 [Hf Hr]]]]]]].
    exists w', o1, o2.
    assert (Hd' : assoc_t d (remove_t n ch) = Some (NDir chd)).
    { rewrite assoc_remove_other; [exact Hd|]. rewrite text_eqb_sym. exact Hnd'. }
    assert (Hp' : lookup par (w_fs w') = Some (NDir (replace_t d (NDir (chd ++ [(m, x)])) (remove_t n ch))))
      by (rewrite Hf; eapply lookup_graft_same; exact Hpar).
    repeat split; try assumption; try apply Hr.
    rewrite (lookup_app par [d; m] _ _ Hp'). unfold lookup.
    rewrite (assoc_replace_same d _ _ _ Hd'), (assoc_snoc_new m chd x Hm). reflexivity.
  Qed.

  (* ---- RMD ---- *)
  Theorem nt_rmd w cwd p par n ch :
    ready w cwd -> valid_path p -> target cwd p = par ++ [n] -> rw (par ++ [n]) ->
    lookup par (w_fs w) = Some (NDir ch) -> assoc_t n ch = Some (NDir []) ->
    exists w' o, cstep w (client_cmd (t_of "RMD") p) DNone = Some (w', o) /\ o_codes o = [code "250"] /\
      w_fs w' = graft par (NDir (remove_t n ch)) (w_fs w) /\ ready w' cwd.
  Proof.
    intros Hrd Hp Ht Hrw Hpar Hn. rewrite (cstep_path w _ _ p DNone v_rmd Hp).
    destruct (step_rmd users ui u Hu w cwd (to_str p) par n ch Hrd) as [w' [o [E R]]]; try assumption;
      [rewrite (resolve_to_str cwd p Hp); exact Ht|].
    exists w', o. rewrite E. split; [reflexivity|exact R].
  Qed.

  Definition named (n : text) (e : text * bool * Z) : bool := text_eqb (fst (fst e)) n.

  Lemma filter_named_absent n ch : assoc_t n ch = None -> filter (named n) (map entry ch) = [].
  Proof.
    induction ch as [|[k v] ch IH]; cbn; intro H; [reflexivity|]. unfold named at 1. cbn [entry fst].
    rewrite (text_eqb_sym k n). destruct (text_eqb n k); [discriminate|]. exact (IH H).
  Qed.

  (* ---- the composed statement ---- *)
  Theorem name_transparent w cwd p par n ch :
    ready w cwd -> valid_path p -> target cwd p = par ++ [n] ->
    (forall q, rw (par ++ q)) -> Forall valid_name par ->
    lookup par (w_fs w) = Some (NDir ch) -> assoc_t n ch = None ->
    valid_name n /\
    exists w1 o1,
      (* MKD creates the node par/n and nothing else *)
      cstep w (client_cmd (t_of "MKD") p) DNone = Some (w1, o1) /\ o_codes o1 = [code "257"] /\
      w_fs w1 = graft par (NDir (ch ++ [(n, NDir [])])) (w_fs w) /\
      lookup (par ++ [n]) (w_fs w1) = Some (NDir []) /\ ready w1 cwd /\
      (* CWD enters that node; PWD's reply, on the wire, decodes to exactly its path *)
      (exists w2 o2 w3 o3,
         cstep w1 (client_cmd (t_of "CWD") p) DNone = Some (w2, o2) /\ o_codes o2 = [code "250"] /\
         s_cwd (w_s w2) = par ++ [n] /\
         cstep w2 (t_of "PWD" ++ eol) DNone = Some (w3, o3) /\ o_codes o3 = [code "257"] /\
         (forall k, exists info rest,
            parse_response (split_lines (reply_wire (t_of "257", [pwd_info (mkp 1 (s_cwd (w_s w3)))], false) ++ k))
              = POk (t_of "257") info rest
            /\ rest = split_lines k /\ parse_directory_response (last info []) = mkp 1 (par ++ [n]))) /\
      (* MLSD of the parent lists the old entries and exactly one entry named n, a directory *)
      (forall la, list_arg la -> Session.resolve cwd la = par ->
         exists w' oa ob o,
           irun w1 (prep ++ [ILine (list_cmd (t_of "MLSD") la) DNone]) = Some (w', [oa; ob; o]) /\
           o_listing o = Some (map entry ch ++ [(n, true, 0)]) /\
           filter (named n) (map entry ch ++ [(n, true, 0)]) = [(n, true, 0)] /\ w_fs w' = w_fs w1) /\
      (* ... whose data line (any whitespace-free facts) the client decodes to n, and the path
         Client.list yields for it denotes the node *)
      (forall F, nosp F -> option_map fst (parse_mlsx_line (F ++ SP :: n ++ eol)) = Some (mkp 0 [n])) /\
      (forall q, target cwd q = par -> target cwd (joinp q (mkp 0 [n])) = par ++ [n]) /\
      (* MLST asks the backend about exactly that node; the name in its reply decodes to n *)
      (exists w' o, cstep w1 (client_cmd (t_of "MLST") p) DNone = Some (w', o) /\ o_codes o = [code "250"] /\
         w_log w' = w_log w1 ++ [("exists"%string, par ++ [n]); ("stat"%string, par ++ [n])] /\ w_fs w' = w_fs w1) /\
      (forall c start fin F k, good_code c -> lf_free start -> lf_free fin -> lf_free F -> F <> [] -> nows F ->
         exists info rest,
           parse_response (split_lines (reply_wire (c, [start; F ++ SP :: n; fin], true) ++ k)) = POk c info rest
           /\ rest = split_lines k /\ option_map fst (stat_parse info) = Some (mkp 0 [n])) /\
      (* STOR below it then RETR: the bytes go to and come from par/n/f; DELE removes exactly it *)
      (forall pf f bytes, valid_path pf -> target cwd pf = (par ++ [n]) ++ [f] ->
         exists w' o1 o2 o3 o4 o5 o6,
           irun w1 (prep ++ [ILine (client_cmd (t_of "STOR") pf) (DSend bytes)] ++
                    prep ++ [ILine (client_cmd (t_of "RETR") pf) DNone]) = Some (w', [o1; o2; o3; o4; o5; o6]) /\
           o_bytes o6 = Some bytes /\ lookup ((par ++ [n]) ++ [f]) (w_fs w') = Some (NFile bytes) /\
           exists w'' o, cstep w' (client_cmd (t_of "DELE") pf) DNone = Some (w'', o) /\ o_codes o = [code "250"] /\
             w_fs w'' = w_fs w1) /\
      (* RNFR n, RNTO m (a free sibling name): the node is at par/m afterwards, nothing at par/n *)
      (forall q m, valid_path q -> target cwd q = par ++ [m] -> assoc_t m ch = None -> m <> n ->
         exists w' oa ob,
           irun w1 [ILine (client_cmd (t_of "RNFR") p) DNone; ILine (client_cmd (t_of "RNTO") q) DNone]
             = Some (w', [oa; ob]) /\ o_codes oa = [code "350"] /\ o_codes ob = [code "250"] /\
           w_fs w' = graft par (NDir (ch ++ [(m, NDir [])])) (w_fs w) /\
           lookup (par ++ [m]) (w_fs w') = Some (NDir []) /\ lookup (par ++ [n]) (w_fs w') = None) /\
      (* RMD removes exactly it: the tree is the one before MKD *)
      (exists w' o, cstep w1 (client_cmd (t_of "RMD") p) DNone = Some (w', o) /\ o_codes o = [code "250"] /\
         w_fs w' = w_fs w).
  Proof.
    intros Hrd Hp Ht Hrw Hvpar Hpar Hn.
    pose proof (target_last cwd p par n Hp Ht) as Hvn. split; [exact Hvn|].
    assert (HrwP : rw (par ++ [n])) by apply Hrw.
    assert (Hrwpar : rw par) by (rewrite <- (app_nil_r par); apply Hrw).
    destruct (nt_mkd w cwd p par n ch Hrd Hp Ht HrwP Hpar Hn) as [w1 [o1 [E1 [Hc1 [Hf1 [Hl1 [Hn1 Hr1]]]]]]].
    set (ch1 := ch ++ [(n, NDir [])]) in *.
    assert (Ha1 : assoc_t n ch1 = Some (NDir [])) by (apply assoc_snoc_new; exact Hn).
    exists w1, o1. do 5 (split; [assumption|]).
    split; [|split; [|split; [|split; [|split; [|split; [|split; [|split]]]]]]].
    - (* CWD, PWD *)
      assert (HvP : Forall valid_name (par ++ [n])) by (apply Forall_app; split; [exact Hvpar|constructor; [exact Hvn|constructor]]).
      assert (HneP : par ++ [n] <> []) by (destruct par; discriminate).
      destruct (nt_cwd_pwd w1 cwd p (par ++ [n]) [] Hr1 Hp Ht HrwP Hn1 HneP HvP)
        as [w2 [o2 [w3 [o3 [A1 [A2 [A3 [A4 [A5 [_ [_ [A8 _]]]]]]]]]]]].
      exists w2, o2, w3, o3. repeat split; assumption.
    - (* MLSD *)
      intros la Hla Hres.
      destruct (nt_listing "MLSD" "mlsd" "200" w1 cwd la par ch1 (or_introl (conj eq_refl (conj eq_refl eq_refl)))
                  Hr1 Hla Hres Hrwpar Hl1) as [w' [oa [ob [o [B1 [_ [B3 [B4 _]]]]]]]].
      exists w', oa, ob, o. unfold ch1 in B3. rewrite map_app in B3. cbn [map entry fst snd is_dir_node size_of] in B3.
      repeat split; try assumption.
      rewrite filter_app, (filter_named_absent n ch Hn). cbn [filter app]. unfold named. cbn [fst].
      rewrite text_eqb_refl. reflexivity.
    - intros F HF. exact (proj1 (mlsd_name_roundtrip F n (mkp 0 []) HF Hvn)).
    - intros q Hq. rewrite target_join, Hq. reflexivity.
    - (* MLST *)
      destruct (nt_mlst w1 cwd p (par ++ [n]) (NDir []) Hr1 Hp Ht HrwP Hn1) as [w' [o [C1 [C2 [C3 [C4 _]]]]]].
      exists w', o. repeat split; assumption.
    - intros c start fin F k Hc Hs Hf HF Hne Hws. exact (mlst_name_roundtrip c start fin F n k Hc Hs Hf HF Hne Hws Hvn).
    - (* STOR, RETR, DELE *)
      intros pf f bytes Hpf Htf.
      assert (Hrwf : rw ((par ++ [n]) ++ [f])) by (rewrite <- app_assoc; apply Hrw).
      destruct (nt_stor_retr w1 cwd pf (par ++ [n]) f [] bytes Hr1 Hpf Htf Hrwf Hn1 eq_refl)
        as [w' [p1 [p2 [p3 [p4 [p5 [p6 [D1 [_ [_ [D4 [D5 [D6 [D7 D8]]]]]]]]]]]]]].
      exists w', p1, p2, p3, p4, p5, p6. split; [exact D1|]. split; [exact D4|]. split; [exact D7|].
      assert (Haf : assoc_t f ([] ++ [(f, NFile bytes)]) = Some (NFile bytes)) by (cbn; rewrite text_eqb_refl; reflexivity).
      destruct (nt_dele w' cwd pf (par ++ [n]) f _ bytes D8 Hpf Htf Hrwf D6 Haf) as [w'' [o [G1 [G2 [G3 _]]]]].
      exists w'', o. split; [exact G1|]. split; [exact G2|].
      rewrite G3, D5, graft_graft. cbn [app remove_t]. rewrite text_eqb_refl. apply graft_same. exact Hn1.
    - (* RNFR, RNTO *)
      intros q m Hq Htq Hm Hmn.
      assert (Hmn' : text_eqb m n = false).
      { destruct (text_eqb m n) eqn:E; [|reflexivity]. apply text_eqb_eq in E. contradiction. }
      assert (Hm1 : assoc_t m ch1 = None) by (unfold ch1; rewrite (assoc_snoc_other m n ch _ Hmn'); exact Hm).
      destruct (nt_rename w1 cwd p q par n m ch1 (NDir []) Hr1 Hp Hq Ht Htq HrwP (Hrw [m]) Hl1 Ha1 Hm1)
        as [w' [oa [ob [R1 [R2 [R3 [R4 _]]]]]]].
      assert (Hfs : w_fs w' = graft par (NDir (ch ++ [(m, NDir [])])) (w_fs w)).
      { rewrite R4, Hf1, graft_graft. unfold ch1. rewrite (remove_snoc_new n ch _ Hn). reflexivity. }
      assert (Hlp : lookup par (w_fs w') = Some (NDir (ch ++ [(m, NDir [])])))
        by (rewrite Hfs; eapply lookup_graft_same; exact Hpar).
      exists w', oa, ob. repeat split; try assumption.
      + rewrite (lookup_child par m _ _ Hlp). apply assoc_snoc_new. exact Hm.
      + rewrite (lookup_child par n _ _ Hlp), (assoc_snoc_other n m ch); [exact Hn|].
        rewrite text_eqb_sym. exact Hmn'.
    - (* RMD *)
      destruct (nt_rmd w1 cwd p par n ch1 Hr1 Hp Ht HrwP Hl1 Ha1) as [w' [o [S1 [S2 [S3 _]]]]].
      exists w', o. repeat split; try assumption.
      rewrite S3, Hf1, graft_graft. unfold ch1. rewrite (remove_snoc_new n ch _ Hn). apply graft_same. exact Hpar.
  Qed.
End Compose.

(* ------------------------------------------------------------------ non-vacuity *)
(* a user without permission entries (default: everything readable and writable), logged in, working
   directory "/ x" (a directory whose name starts with a space), and four names of the kind the property
   is about:  a<quote>b,  <space>x,  Type=dir; y,  250 z  -- relative and absolute spellings *)
Definition ex_user : user := {| u_login := None; u_password := None; u_home := []; u_perms := [] |}.
Definition ex_users : list user := [ex_user].
Definition n_q : text := [97; 34; 98].
Definition n_sp : text := [32; 120].
Definition n_ty : text := [84; 121; 112; 101; 61; 100; 105; 114; 59; 32; 121].
Definition n_250 : text := [50; 53; 48; 32; 122].
Definition ex_names : list text := [n_q; n_sp; n_ty; n_250].
Definition ex_w : world :=
  {| w_s := {| s_user := Some 0%nat; s_logged := true; s_cwd := [n_sp]; s_rnfr := None; s_rest := 0;
               s_passive := false; s_data := false; s_ended := false |};
     w_fs := NDir [(n_sp, NDir [])]; w_log := [] |}.

Lemma ex_names_valid : Forall valid_name ex_names.
Proof. repeat constructor; try discriminate. Qed.

Lemma ex_rw q : rw ex_user q.
Proof. split; reflexivity. Qed.

(* every hypothesis of name_transparent holds for each of the four names, spelled relative to the
   working directory and spelled absolutely (depth 2) *)
Example ex_hypotheses :
  nth_error ex_users 0 = Some ex_user /\
  Forall (fun n =>
    Forall (fun p =>
      ready 0 ex_w [n_sp] /\ valid_path p /\ target [n_sp] p = [n_sp] ++ [n] /\
      (forall q, rw ex_user ([n_sp] ++ q)) /\ Forall valid_name [n_sp] /\
      lookup [n_sp] (w_fs ex_w) = Some (NDir []) /\ assoc_t n ([] : list (text * node)) = None)
    [mkp 0 [n]; mkp 1 [n_sp; n]]) ex_names.
Proof.
  split; [reflexivity|].
  repeat (first [split | apply Forall_cons | apply Forall_nil]);
    try discriminate; try reflexivity; try (intro q; apply ex_rw);
    try (left; reflexivity); try (right; reflexivity).
Qed.

(* and the model runs on the client's lines: MKD of the four names (alternating spellings), then CWD into
   "Type=dir; y": the tree has exactly these children under "/ x", in order, and the working directory is
   the node just created *)
Example ex_run :
  option_map (fun r => (w_fs (fst r), s_cwd (w_s (fst r))))
    (irun ex_users ex_w
       [ILine (client_cmd (t_of "MKD") (mkp 0 [n_q])) DNone;
        ILine (client_cmd (t_of "MKD") (mkp 1 [n_sp; n_sp])) DNone;
        ILine (client_cmd (t_of "MKD") (mkp 0 [n_ty])) DNone;
        ILine (client_cmd (t_of "MKD") (mkp 1 [n_sp; n_250])) DNone;
        ILine (client_cmd (t_of "CWD") (mkp 0 [n_ty])) DNone])
  = Some (NDir [(n_sp, NDir [(n_q, NDir []); (n_sp, NDir []); (n_ty, NDir []); (n_250, NDir [])])],
          [n_sp; n_ty]).
Proof. vm_compute. reflexivity. Qed.

(* a name equal to its ancestors' names: working directory /n/n, the relative name n (the node n/n/n) *)
Definition ex_w_nested : world :=
  {| w_s := {| s_user := Some 0%nat; s_logged := true; s_cwd := [n_q; n_q]; s_rnfr := None; s_rest := 0;
               s_passive := false; s_data := false; s_ended := false |};
     w_fs := NDir [(n_q, NDir [(n_q, NDir [])])]; w_log := [] |}.

Example ex_same_name_nested :
  ready 0 ex_w_nested [n_q; n_q] /\ valid_path (mkp 0 [n_q]) /\ target [n_q; n_q] (mkp 0 [n_q]) = [n_q; n_q] ++ [n_q] /\
  (forall q, rw ex_user ([n_q; n_q] ++ q)) /\ Forall valid_name [n_q; n_q] /\
  lookup [n_q; n_q] (w_fs ex_w_nested) = Some (NDir []) /\ assoc_t n_q ([] : list (text * node)) = None.
Proof.
  repeat (first [split | apply Forall_cons | apply Forall_nil]);
    try discriminate; try reflexivity; try (intro q; apply ex_rw); try (left; reflexivity).
Qed.

(* names denote DISTINCT objects: an upload to D/f leaves every sibling g <> f of that directory -- whatever g
   is, in particular f with a suffix or a prefix -- exactly as it was (nothing is created, changed or removed
   under another name on the way) *)
Theorem nt_stor_sibling_untouched users ui u (Hu : nth_error users ui = Some u) w cwd pf D f chD bytes :
  ready ui w cwd -> valid_path pf -> target cwd pf = D ++ [f] -> rw u (D ++ [f]) ->
  lookup D (w_fs w) = Some (NDir chD) -> assoc_t f chD = None ->
  exists w' outs,
    irun users w (prep ++ [ILine (client_cmd (t_of "STOR") pf) (DSend bytes)] ++
                  prep ++ [ILine (client_cmd (t_of "RETR") pf) DNone]) = Some (w', outs) /\
    lookup (D ++ [f]) (w_fs w') = Some (NFile bytes) /\
    forall g, g <> f -> lookup (D ++ [g]) (w_fs w') = lookup (D ++ [g]) (w_fs w).
Proof.
  intros Hrd Hp Ht Hrw HD Hf.
  destruct (nt_stor_retr users ui u Hu w cwd pf D f chD bytes Hrd Hp Ht Hrw HD Hf)
    as [w' [o1 [o2 [o3 [o4 [o5 [o6 [E [_ [_ [_ [_ [HD' [Hfile _]]]]]]]]]]]]]].
  exists w', [o1; o2; o3; o4; o5; o6]. split; [exact E|]. split; [exact Hfile|].
  intros g Hg. rewrite (lookup_child D g _ _ HD'), (lookup_child D g _ _ HD).
  apply assoc_snoc_other. destruct (text_eqb g f) eqn:Eg; [|reflexivity].
  apply text_eqb_eq in Eg. contradiction.
Qed.
