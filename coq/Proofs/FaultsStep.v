(* C13: the dispatcher-level theorems over Model/Faults.v.  Everything is proved from ONE boolean premise
   on the structural parameters ([params_ok], evaluated on the regenerated facts in Props/C13.v), for every
   user table, decorator table, block size, world (hence every prior history), command and fault plan. *)
From Coq Require Import ZArith List Bool String Arith Lia.
From Verif Require Import Lib.Sx Lib.PyStr Lib.Facts Model.Session Model.Faults Model.FaultsCheck Proofs.Faults.
Import ListNotations.
Open Scope list_scope.
Open Scope nat_scope.

Definition ref_acts : list string := ["response:451"; "continue"]%string.

(* ------------------------------------------------------------------ soundness of the boolean checks *)
Lemma responses_filter acts : responses acts = responses (filter not_log acts).
Proof.
  induction acts as [|a r IH]; [reflexivity|]. cbn [filter]. unfold not_log at 1.
  destruct (String.eqb a "log") eqn:E; cbn [negb].
  - apply String.eqb_eq in E. subst a. exact IH.
  - change (responses (a :: r)) with ((if prefix "response:" a then [t_of (substring 9 3 a)] else []) ++ responses r).
    change (responses (a :: filter not_log r))
      with ((if prefix "response:" a then [t_of (substring 9 3 a)] else []) ++ responses (filter not_log r)).
    rewrite IH. reflexivity.
Qed.

Lemma mem_continue_filter acts : mem_s "continue" acts = mem_s "continue" (filter not_log acts).
Proof.
  unfold mem_s. induction acts as [|a r IH]; [reflexivity|]. cbn [filter existsb]. unfold not_log at 1.
  destruct (String.eqb a "log") eqn:E; cbn [negb].
  - apply String.eqb_eq in E. subst a. exact IH.
  - cbn [existsb]. rewrite IH. reflexivity.
Qed.

Lemma react_ok_sound r : react_ok r = true ->
  exists acts, r = Some acts /\ responses acts = [c451] /\ mem_s "continue" acts = true.
Proof.
  destruct r as [acts|]; [|discriminate]. unfold react_ok. intro H. exists acts. split; [reflexivity|].
  rewrite responses_filter, mem_continue_filter.
  destruct (filter not_log acts) as [|a [|b [|c l]]]; try discriminate.
  apply andb_prop in H as [A B]. apply String.eqb_eq in A, B. subst. split; reflexivity.
Qed.

Lemma file_item_not_stream a : file_item a = true -> is_stream a = false.
Proof.
  unfold file_item. intro H. apply orb_prop in H as [H|H]; [apply orb_prop in H as [H|H]|];
    apply String.eqb_eq in H; subst; reflexivity.
Qed.

Lemma is_stream_eq a : is_stream a = true -> a = "stream"%string.
Proof. unfold is_stream. apply String.eqb_eq. Qed.

Lemma shape_ff c : shape_eqb (shape_of c) FileFirst = true -> file_first c.
Proof.
  destruct c as [|a [|b [|x l]]]; cbn; try discriminate.
  - destruct (is_stream a); discriminate.
  - destruct (file_item a) eqn:Fa, (is_stream b) eqn:Sb; cbn.
    + intros _. exists a. apply is_stream_eq in Sb. subst b. split; [reflexivity|apply file_item_not_stream; exact Fa].
    + destruct (is_stream a); cbn; [destruct (file_item b)|]; discriminate.
    + destruct (is_stream a); cbn; [destruct (file_item b)|]; discriminate.
    + destruct (is_stream a); cbn; [destruct (file_item b)|]; discriminate.
Qed.

Lemma shape_sf c : shape_eqb (shape_of c) StreamFirst = true -> stream_first c.
Proof.
  destruct c as [|a [|b [|x l]]]; cbn; try discriminate.
  - destruct (is_stream a); discriminate.
  - destruct (file_item a && is_stream b); [discriminate|].
    destruct (is_stream a) eqn:Sa, (file_item b) eqn:Fb; cbn; try discriminate.
    intros _. exists b. apply is_stream_eq in Sa. subst a. split; [reflexivity|apply file_item_not_stream; exact Fb].
Qed.

Lemma shape_so c : shape_eqb (shape_of c) StreamOnly = true -> stream_only c.
Proof.
  destruct c as [|a [|b [|x l]]]; cbn; try discriminate.
  - destruct (is_stream a) eqn:Sa; [|discriminate]. intros _. apply is_stream_eq in Sa. subst a. reflexivity.
  - destruct (file_item a && is_stream b); [discriminate|]. destruct (is_stream a && file_item b); discriminate.
Qed.

Lemma assoc_s_in {A} k (l : list (string * A)) v : assoc_s k l = Some v -> In (k, v) l.
Proof.
  induction l as [|[k' v'] l IH]; cbn; [discriminate|].
  destruct (String.eqb k k') eqn:E.
  - intro H. inversion H. subst. apply String.eqb_eq in E. subst. left; reflexivity.
  - intro H. right. exact (IH H).
Qed.

Lemma ops_same : ops = backend_ops. Proof. reflexivity. Qed.

(* a reply list with exactly one 451 and no success reply *)
Definition one_451_no_2xx (codes : list text) : Prop :=
  count_occ (list_eq_dec Z.eq_dec) codes c451 = 1 /\ forallb (fun c => negb (is_2xx c)) codes = true.

(* every field of the session record but the restart offset *)
Definition same_ctl_but_rest (s s' : sess) : Prop :=
  s_user s' = s_user s /\ s_logged s' = s_logged s /\ s_cwd s' = s_cwd s /\ s_passive s' = s_passive s /\
  s_ended s' = s_ended s /\ s_rnfr s' = s_rnfr s /\ s_data s' = s_data s.

Section Q.
  Variable users : list user.
  Variable table : list (string * (string * list deco * option string)).
  Variable conds : list (string * (string * bool)).
  Variable react : option (list string).
  Variable wrapped : string -> bool.
  Variables cstor cretr clist cmlsd : list string.
  Variable blk : nat.

  Hypothesis OK : params_ok conds react wrapped cstor cretr clist cmlsd = true.

  Lemma ok_parts :
    (forall m, In m ops -> wrapped m = true) /\
    (forall c m fl, assoc_s c conds = Some (m, fl) -> wrapped m = true) /\
    (exists acts, react = Some acts /\ responses acts = [c451] /\ mem_s "continue" acts = true) /\
    (file_first cstor \/ stream_first cstor) /\ (file_first cretr \/ stream_first cretr) /\
    stream_only clist /\ stream_only cmlsd.
  Proof.
    pose proof OK as P. unfold params_ok in P.
    do 6 (apply andb_prop in P as [P ?]).
    split; [|split; [|split; [|split; [|split; [|split]]]]].
    - intros m Hm. rewrite ops_same in Hm. rewrite forallb_forall in P. exact (P m Hm).
    - intros c m fl Hc. apply assoc_s_in in Hc.
      match goal with H : forallb _ conds = true |- _ => rewrite forallb_forall in H; exact (H _ Hc) end.
    - apply react_ok_sound. assumption.
    - match goal with H : (shape_eqb (shape_of cstor) _ || _) = true |- _ =>
        apply orb_prop in H as [H|H]; [left; exact (shape_ff _ H)|right; exact (shape_sf _ H)] end.
    - match goal with H : (shape_eqb (shape_of cretr) _ || _) = true |- _ =>
        apply orb_prop in H as [H|H]; [left; exact (shape_ff _ H)|right; exact (shape_sf _ H)] end.
    - apply shape_so. assumption.
    - apply shape_so. assumption.
  Qed.

  Let Hw := proj1 ok_parts.
  Let Hc := proj1 (proj2 ok_parts).
  Let Hr := proj1 (proj2 (proj2 ok_parts)).
  Let Hstor := proj1 (proj2 (proj2 (proj2 ok_parts))).
  Let Hretr := proj1 (proj2 (proj2 (proj2 (proj2 ok_parts)))).
  Let Hlist := proj1 (proj2 (proj2 (proj2 (proj2 (proj2 ok_parts))))).
  Let Hmlsd := proj2 (proj2 (proj2 (proj2 (proj2 (proj2 ok_parts))))).

  Notation fstep' := (fstep users table conds react wrapped cstor cretr clist cmlsd blk).
  Notation fhandler' := (fhandler users table conds wrapped cstor cretr clist cmlsd blk).
  Notation sfirst' := (sfirst cstor cretr).

  Lemma HS fuel n a d ap w : hspec cstor cretr w (fhandler' fuel n a d ap w).
  Proof. exact (fhandler_spec users table conds wrapped cstor cretr clist cmlsd blk Hw Hc Hlist Hmlsd Hstor Hretr fuel n a d ap w). Qed.

  (* ---- the dispatcher's reaction *)
  Lemma on_raise_pio w :
    on_raise react true w =
    {| fw_s := fw_s w; fw_fs := fw_fs w; fw_plan := fw_plan w; fw_n := fw_n w; fw_faults := fw_faults w;
       fw_log := fw_log w; fw_codes := fw_codes w ++ [c451]; fw_dst := fw_dst w; fw_sent := fw_sent w;
       fw_info := fw_info w |}.
  Proof. pose proof Hr as X. destruct X as (acts & E & R & M). rewrite E. unfold on_raise. rewrite R, M. reflexivity. Qed.

  (* some backend call of the command raised (planned fault or genuine error) *)
  Definition raised (w0 w' : fw) : Prop := fw_faults w0 < fw_faults w'.

  (* what the session looks like after a command in which a backend call raised *)
  Definition ctl_kept (s s' : sess) : Prop :=
    s_ended s' = false /\ s_user s' = s_user s /\ s_logged s' = s_logged s /\ s_cwd s' = s_cwd s /\
    s_passive s' = s_passive s /\
    s_rest s' = 0%Z.   (* the dispatcher's own rule, fault or not: a pending offset never outlives a known verb *)

  Definition rnfr_rule (w0 w' : fw) : Prop :=
    s_rnfr (fw_s w') = s_rnfr (fw_s w0) \/ (s_rnfr (fw_s w') = None /\ log_head w' "rename").

  (* the command ended before 150: final 451, the data connection (if any) is still the session's *)
  Definition before_150 (w0 w' : fw) : Prop :=
    fw_codes w' = [c451] /\ fw_dst w' = StNone /\ s_data (fw_s w') = s_data (fw_s w0).
  (* the command ended after 150: the worker had detached the data connection *)
  Definition after_150 (w0 w' : fw) : Prop :=
    fw_codes w' = [c150; c451] /\ s_data (fw_s w0) = true /\ s_data (fw_s w') = false /\
    s_rnfr (fw_s w') = s_rnfr (fw_s w0) /\
    (fw_dst w' = StClosed \/ (fw_dst w' = StOpen /\ log_head w' "open")) /\
    (sfirst' -> fw_dst w' = StClosed).

  Definition contained (w0 w' : fw) : Prop :=
    ctl_kept (fw_s w0) (fw_s w') /\ rnfr_rule w0 w' /\ fw_info w' = [] /\
    (before_150 w0 w' \/ after_150 w0 w').

  Lemma clear_rest_spec v w :
    fw_faults (clear_rest v w) = fw_faults w /\ fw_codes (clear_rest v w) = fw_codes w /\
    fw_dst (clear_rest v w) = fw_dst w /\ fw_info (clear_rest v w) = fw_info w /\
    fw_log (clear_rest v w) = fw_log w /\
    same_ctl_but_rest (fw_s w) (fw_s (clear_rest v w)) /\
    s_rest (fw_s (clear_rest v w)) = (if is_transfer v then 0%Z else s_rest (fw_s w)).
  Proof. unfold clear_rest, same_ctl_but_rest. destruct (is_transfer v); cbn; repeat split. Qed.

  Theorem fstep_contained w0 e : raised w0 (fstep' w0 e) -> contained w0 (fstep' w0 e).
  Proof.
    unfold raised, fstep. cbv zeta. set (w := fresh w0).
    destruct (s_ended (fw_s w)) eqn:En; [cbn; lia|].
    destruct (text_eqb (e_verb e) V_DATACONN).
    { destruct (s_passive (fw_s w) && negb (s_data (fw_s w))); cbn; lia. }
    destruct (verb_handler table (e_verb e)) as [h|]; [|cbn; lia].
    set (w1 := if is_transfer (e_verb e) then w else upd_s w (set_rest (fw_s w) 0%Z)).
    assert (F1 : fw_faults w1 = fw_faults w0) by (subst w1; destruct (is_transfer (e_verb e)); reflexivity).
    assert (C1 : fw_codes w1 = []) by (subst w1; destruct (is_transfer (e_verb e)); reflexivity).
    assert (D1 : fw_dst w1 = StNone) by (subst w1; destruct (is_transfer (e_verb e)); reflexivity).
    assert (I1 : fw_info w1 = []) by (subst w1; destruct (is_transfer (e_verb e)); reflexivity).
    assert (K1 : same_ctl_but_rest (fw_s w0) (fw_s w1) /\ s_rnfr (fw_s w1) = s_rnfr (fw_s w0) /\
                 s_data (fw_s w1) = s_data (fw_s w0) /\
                 s_rest (fw_s w1) = (if is_transfer (e_verb e) then s_rest (fw_s w0) else 0%Z)).
    { subst w1. unfold same_ctl_but_rest. destruct (is_transfer (e_verb e)); cbn; repeat split. }
    pose proof (HS 3 h (e_arg e) (e_data e) false w1) as S.
    destruct (fhandler' 3 h (e_arg e) (e_data e) false w1) as [b w2|pio w2]; cbn [hspec] in S;
      destruct (clear_rest_spec (e_verb e) w2) as (Qf & Qc & Qd & Qi & Ql & Qs & Qr).
    - destruct b; cbn [end_fw upd_s fw_faults]; lia.
    - intros _. destruct S as (Ef & Ep & Sc & Ei & Rn & Alt). subst pio. rewrite on_raise_pio.
      destruct K1 as (K1 & R1 & A1 & T1). destruct K1 as (k1 & k2 & k3 & k4 & k5 & k7 & k8).
      destruct Sc as (s1 & s2 & s3 & s4 & s5 & s6).
      destruct Qs as (q1 & q2 & q3 & q4 & q5 & q7 & q8).
      assert (Z : s_rest (fw_s (clear_rest (e_verb e) w2)) = 0%Z).
      { rewrite Qr. destruct (is_transfer (e_verb e)); [reflexivity|congruence]. }
      unfold contained, ctl_kept, rnfr_rule, before_150, after_150, log_head. cbn [fw_s fw_codes fw_dst fw_info fw_log].
      rewrite Qc, Qd, Qi, Ql.
      split; [repeat split; try congruence; change (fw_s w) with (fw_s w0) in En; congruence|].
      split; [destruct Rn as [Rn|[Rn Lg]]; [left; congruence|right; split; [congruence|exact Lg]]|].
      split; [congruence|].
      destruct Alt as [(Ac & Ad & Aa)|(Ac & Aa & Ab & Ar & Ad & Asf)].
      + left. rewrite Ac, C1. repeat split; congruence.
      + right. rewrite Ac, C1. repeat split; try congruence; [exact Ad|exact Asf].
  Qed.

  (* ---- the four parts of the property *)
  Lemma codes_one_451 w0 w' : before_150 w0 w' \/ after_150 w0 w' -> one_451_no_2xx (fw_codes w').
  Proof.
    intros [(C & _)|(C & _)]; rewrite C; split; reflexivity.
  Qed.

  Theorem fault_gives_451 w0 e :
    raised w0 (fstep' w0 e) ->
    (fw_codes (fstep' w0 e) = [c451] \/ fw_codes (fstep' w0 e) = [c150; c451]) /\
    one_451_no_2xx (fw_codes (fstep' w0 e)).
  Proof.
    intro H. destruct (fstep_contained w0 e H) as (_ & _ & _ & Alt). split; [|exact (codes_one_451 _ _ Alt)].
    destruct Alt as [(C & _)|(C & _)]; [left|right]; exact C.
  Qed.

  (* a command none of whose backend calls raised is never answered through the exception path *)
  Theorem no_fault_normal_path w0 e h :
    s_ended (fw_s w0) = false -> text_eqb (e_verb e) V_DATACONN = false ->
    verb_handler table (e_verb e) = Some h ->
    fw_faults (fstep' w0 e) = fw_faults w0 ->
    exists keep w2,
      fhandler' 3 h (e_arg e) (e_data e) false
        (if is_transfer (e_verb e) then fresh w0 else upd_s (fresh w0) (set_rest (fw_s (fresh w0)) 0%Z)) = Ok keep w2 /\
      fstep' w0 e = (if keep then clear_rest (e_verb e) w2 else end_fw (clear_rest (e_verb e) w2)).
  Proof.
    intros En Ev Eh. unfold fstep. cbv zeta. change (fw_s (fresh w0)) with (fw_s w0). rewrite En, Ev, Eh.
    set (w1 := if is_transfer (e_verb e) then fresh w0 else upd_s (fresh w0) (set_rest (fw_s w0) 0%Z)).
    assert (F1 : fw_faults w1 = fw_faults w0) by (subst w1; destruct (is_transfer (e_verb e)); reflexivity).
    pose proof (HS 3 h (e_arg e) (e_data e) false w1) as S.
    destruct (fhandler' 3 h (e_arg e) (e_data e) false w1) as [b w2|pio w2]; cbn [hspec] in S.
    - intros _. exists b, w2. split; [reflexivity|]. destruct b; reflexivity.
    - destruct S as (Ef & Ep & _). subst pio. rewrite on_raise_pio. cbn [fw_faults].
      destruct (clear_rest_spec (e_verb e) w2) as (Qf & _). lia.
  Qed.

  Theorem session_survives w0 e :
    raised w0 (fstep' w0 e) ->
    ctl_kept (fw_s w0) (fw_s (fstep' w0 e)) /\ rnfr_rule w0 (fstep' w0 e) /\
    (s_data (fw_s (fstep' w0 e)) = s_data (fw_s w0) \/
     (In c150 (fw_codes (fstep' w0 e)) /\ s_data (fw_s w0) = true /\ s_data (fw_s (fstep' w0 e)) = false)).
  Proof.
    intro H. destruct (fstep_contained w0 e H) as (K & R & _ & Alt). split; [exact K|]. split; [exact R|].
    destruct Alt as [(_ & _ & D)|(C & D0 & D1 & _)]; [left; exact D|right].
    rewrite C. split; [left; reflexivity|]. split; assumption.
  Qed.

  Theorem data_closed_partial w0 e :
    raised w0 (fstep' w0 e) -> In c150 (fw_codes (fstep' w0 e)) ->
    fw_dst (fstep' w0 e) = StClosed \/
    (fw_dst (fstep' w0 e) = StOpen /\ log_head (fstep' w0 e) "open" /\ ~ sfirst').
  Proof.
    intros H I. destruct (fstep_contained w0 e H) as (_ & _ & _ & Alt).
    destruct Alt as [(C & _)|(_ & _ & _ & _ & D & Sf)].
    - rewrite C in I. destruct I as [I|[]]. discriminate.
    - destruct D as [D|[D L]]; [left; exact D|right].
      split; [exact D|]. split; [exact L|]. intro X. specialize (Sf X). congruence.
  Qed.

  (* a fault before 150: the peer is not waiting on the data channel - the command did not take it *)
  Theorem fault_before_150 w0 e :
    raised w0 (fstep' w0 e) -> ~ In c150 (fw_codes (fstep' w0 e)) ->
    fw_codes (fstep' w0 e) = [c451] /\ fw_dst (fstep' w0 e) = StNone /\
    s_data (fw_s (fstep' w0 e)) = s_data (fw_s w0).
  Proof.
    intros H N. destruct (fstep_contained w0 e H) as (_ & _ & _ & Alt).
    destruct Alt as [B|(C & _)]; [exact B|]. exfalso. apply N. rewrite C. left; reflexivity.
  Qed.

  (* with the data stream entered before the file in both transfer workers EVERY fault closes it *)
  Theorem data_closed_stream_first w0 e :
    stream_first_ok cstor cretr = true ->
    raised w0 (fstep' w0 e) -> In c150 (fw_codes (fstep' w0 e)) -> fw_dst (fstep' w0 e) = StClosed.
  Proof.
    intros SF H I. unfold stream_first_ok in SF. apply andb_prop in SF as [S1 S2].
    assert (X : sfirst') by (split; apply shape_sf; assumption).
    destruct (data_closed_partial w0 e H I) as [D|(_ & _ & N)]; [exact D|]. exfalso. exact (N X).
  Qed.

  (* ---- whole histories: every command of every run, whatever happened before (earlier faults included) *)
  Fixpoint all_steps (P : fw -> event -> fw -> Prop) (w : fw) (es : list event) : Prop :=
    match es with
    | [] => True
    | e :: r => P w e (fstep' w e) /\ all_steps P (fstep' w e) r
    end.

  Theorem run_contained es : forall w,
    all_steps (fun w0 e w' => raised w0 w' -> contained w0 w' /\ one_451_no_2xx (fw_codes w')) w es.
  Proof.
    induction es as [|e r IH]; intro w; cbn [all_steps]; [exact Logic.I|]. split; [|apply IH].
    intro H. split; [exact (fstep_contained w e H)|exact (proj2 (fault_gives_451 w e H))].
  Qed.

  (* [all_steps] walks exactly the worlds of [frun] *)
  Lemma frun_fold es : forall w,
    fst (frun users table conds react wrapped cstor cretr clist cmlsd blk w es) = fold_left (fun x e => fstep' x e) es w.
  Proof.
    induction es as [|e r IH]; intro w; [reflexivity|]. cbn [frun fold_left]. specialize (IH (fstep' w e)).
    destruct (frun users table conds react wrapped cstor cretr clist cmlsd blk (fstep' w e) r) as [w2 ws].
    exact IH.
  Qed.

  (* no history of backend failures ever ends a session: if a run ends the session, the command that did it
     met no backend failure (it was QUIT, or one of the C05 findings) *)
  Theorem faults_never_end_session es : forall w,
    all_steps (fun w0 e w' => raised w0 w' -> s_ended (fw_s w') = false) w es.
  Proof.
    induction es as [|e r IH]; intro w; cbn [all_steps]; [exact Logic.I|]. split; [|apply IH].
    intro H. destruct (fstep_contained w e H) as ((En & _) & _). exact En.
  Qed.

  (* ---- the other session *)
  Notation step2' := (step2 users table conds react wrapped cstor cretr clist cmlsd blk).
  Notation frun2' := (frun2 users table conds react wrapped cstor cretr clist cmlsd blk).

  Lemma step2_other x e : d_b (step2' true x e) = d_b x /\ d_a (step2' false x e) = d_a x.
  Proof. split; reflexivity. Qed.

  (* whatever the first session does - any commands, any faults - the second session's record is untouched *)
  Theorem others_unaffected es : forall x,
    Forall (fun we => fst we = true) es -> d_b (fst (frun2' x es)) = d_b x.
  Proof.
    induction es as [|[who e] r IH]; intros x F; [reflexivity|].
    apply Forall_cons_iff in F as [Hh Ht]. cbn in Hh. subst who. cbn [frun2].
    specialize (IH (step2' true x e) Ht).
    destruct (frun2' (step2' true x e) r) as [x2 ws]. cbn [fst] in *. rewrite IH. reflexivity.
  Qed.

  (* and its own command is a step of the single-session semantics from its own record: faults met by the
     first session leave nothing behind but the shared backend state *)
  Theorem other_steps_alone x e :
    d_b (step2' false x e) = fw_s (fstep' (upd_s (d_w x) (d_b x)) e) /\ d_a (step2' false x e) = d_a x.
  Proof. split; reflexivity. Qed.
End Q.
