(* C13: proofs over Model/Faults.v, for EVERY user table, decorator table, PathConditions table,
   block size, world (hence every prior history), command and fault plan (any number of faults,
   injected by the plan or genuine backend errors). *)
From Coq Require Import ZArith List Bool String Arith Lia.
From Verif Require Import Lib.Sx Lib.PyStr Lib.Facts Model.Session Model.Faults.
Import ListNotations.
Open Scope list_scope.
Open Scope nat_scope.

Definition ops : list string :=
  ["exists"; "is_dir"; "is_file"; "mkdir"; "rmdir"; "unlink"; "list"; "stat"; "open"; "seek"; "write"; "read";
   "close"; "rename"]%string.

Lemma in_ops m : mem_s m ops = true -> In m ops.
Proof.
  unfold mem_s. intro H. apply existsb_exists in H as [x [Hin Hx]].
  apply String.eqb_eq in Hx. subst. exact Hin.
Qed.

(* what a worker's `async with` looks like *)
Definition file_first (c : list string) : Prop := exists f, c = [f; "stream"%string] /\ is_stream f = false.
Definition stream_first (c : list string) : Prop := exists f, c = ["stream"%string; f] /\ is_stream f = false.
Definition stream_only (c : list string) : Prop := c = ["stream"%string].

Definition same_ctl (s s' : sess) : Prop :=
  s_user s' = s_user s /\ s_logged s' = s_logged s /\ s_cwd s' = s_cwd s /\ s_passive s' = s_passive s /\
  s_ended s' = s_ended s /\ s_rest s' = s_rest s.

Lemma same_ctl_refl s : same_ctl s s. Proof. repeat split. Qed.

Definition frame (w w' : fw) : Prop :=
  fw_s w' = fw_s w /\ fw_codes w' = fw_codes w /\ fw_dst w' = fw_dst w /\ fw_info w' = fw_info w.

Lemma frame_refl w : frame w w. Proof. repeat split. Qed.
Lemma frame_trans a b c : frame a b -> frame b c -> frame a c.
Proof. unfold frame. intuition congruence. Qed.

Definition log_head (w : fw) (m : string) : Prop := exists l, fw_log w = (m, true) :: l.

Definition c150 : text := code "150".
Definition c451 : text := code "451".

Section P.
  Variable users : list user.
  Variable table : list (string * (string * list deco * option string)).
  Variable conds : list (string * (string * bool)).
  Variable react : option (list string).
  Variable wrapped : string -> bool.
  Variables cstor cretr clist cmlsd : list string.
  Variable blk : nat.

  (* universal_exception outermost on every backend operation, incl. the ones PathConditions names *)
  Hypothesis Hw : forall m, In m ops -> wrapped m = true.
  Hypothesis Hc : forall c m fl, assoc_s c conds = Some (m, fl) -> wrapped m = true.
  (* the context shapes of the four workers *)
  Hypothesis Hlist : stream_only clist.
  Hypothesis Hmlsd : stream_only cmlsd.
  Hypothesis Hstor : file_first cstor \/ stream_first cstor.
  Hypothesis Hretr : file_first cretr \/ stream_first cretr.

  Local Ltac wr := apply Hw, in_ops; reflexivity.

  (* ---- one call *)
  Lemma call_cases {A} m (op : node -> option (A * node)) w :
    wrapped m = true ->
    (exists a f, call wrapped m op w = Ok a (upd_fs (tick m false w) f)) \/
    call wrapped m op w = Fault true (tick m true w).
  Proof.
    intro W. unfold call. rewrite W.
    destruct (hd false (fw_plan w)); [right; reflexivity|].
    destruct (op (fw_fs w)) as [[a f]|]; [left; eauto|right; reflexivity].
  Qed.

  (* a call made while the head of the plan says "raise" raises: the oracle is honoured *)
  Lemma call_planned_fault {A} m (op : node -> option (A * node)) w :
    hd false (fw_plan w) = true -> call wrapped m op w = Fault (wrapped m) (tick m true w).
  Proof. intro H. unfold call. rewrite H. reflexivity. Qed.

  Definition rspec {A} (w : fw) (r : res A) : Prop :=
    match r with
    | Ok _ w' => frame w w' /\ fw_faults w' = fw_faults w
    | Fault pio w' => frame w w' /\ fw_faults w < fw_faults w' /\ pio = true
    end.

  Lemma rspec_trans {A} w w1 (r : res A) :
    frame w w1 -> fw_faults w1 = fw_faults w -> rspec w1 r -> rspec w r.
  Proof.
    intros F E. destruct r as [a w'|pio w']; cbn [rspec].
    - intros [F' E']. split; [eapply frame_trans; eauto|congruence].
    - intros [F' [L P]]. split; [eapply frame_trans; eauto|]. split; [lia|exact P].
  Qed.

  Lemma call_rspec {A} m (op : node -> option (A * node)) w :
    wrapped m = true -> rspec w (call wrapped m op w).
  Proof.
    intro W. destruct (call_cases m op w W) as [[a [f ->]]| ->]; cbn.
    - split; [repeat split|reflexivity].
    - split; [repeat split|]. split; [lia|reflexivity].
  Qed.

  Lemma frame_send b w : frame w (send b w). Proof. repeat split. Qed.

  (* ---- loops and helpers *)
  Lemma write_loop_spec p cs : forall pos w, rspec w (write_loop wrapped p cs pos w).
  Proof.
    induction cs as [|c cs IH]; intros pos w; cbn [write_loop].
    - split; [apply frame_refl|reflexivity].
    - destruct (call_cases "write" (write_op p pos c) w ltac:(wr)) as [[a [f ->]]| ->].
      + eapply rspec_trans; [| |apply IH]; [repeat split|reflexivity].
      + cbn. split; [repeat split|]. split; [lia|reflexivity].
  Qed.

  Lemma stor_body_spec p rest payload pos w : rspec w (stor_body wrapped blk p rest payload pos w).
  Proof.
    unfold stor_body. destruct (0 <? rest)%Z; [|apply write_loop_spec].
    destruct (call_cases "seek" nop w ltac:(wr)) as [[a [f ->]]| ->].
    - eapply rspec_trans; [| |apply write_loop_spec]; [repeat split|reflexivity].
    - cbn. split; [repeat split|]. split; [lia|reflexivity].
  Qed.

  Lemma read_loop_spec bs : forall w, rspec w (read_loop wrapped bs w).
  Proof.
    induction bs as [|b bs IH]; intro w; cbn [read_loop].
    - destruct (call_cases "read" nop w ltac:(wr)) as [[a [f ->]]| ->]; cbn.
      + split; [repeat split|reflexivity].
      + split; [repeat split|]. split; [lia|reflexivity].
    - destruct (call_cases "read" nop w ltac:(wr)) as [[a [f ->]]| ->].
      + eapply rspec_trans; [| |apply IH]; [repeat split|reflexivity].
      + cbn. split; [repeat split|]. split; [lia|reflexivity].
  Qed.

  Lemma retr_body_spec p rest pos w : rspec w (retr_body wrapped blk p rest pos w).
  Proof.
    unfold retr_body. destruct (0 <? rest)%Z; [|apply read_loop_spec].
    destruct (call_cases "seek" nop w ltac:(wr)) as [[a [f ->]]| ->].
    - eapply rspec_trans; [| |apply read_loop_spec]; [repeat split|reflexivity].
    - cbn. split; [repeat split|]. split; [lia|reflexivity].
  Qed.

  Local Ltac fault_here := cbn; split; [repeat split|]; split; [lia|reflexivity].
  Local Ltac ok_here := cbn; split; [repeat split|reflexivity].

  Lemma list_entry_spec q w : rspec w (list_entry wrapped q w).
  Proof.
    unfold list_entry.
    destruct (call_cases "exists" (pure_op (probe_val "exists" q)) w ltac:(wr)) as [[a [f ->]]| ->]; [|fault_here].
    destruct a; [|ok_here].
    match goal with |- context[call wrapped "stat" ?op ?w1] =>
      destruct (call_cases "stat" op w1 ltac:(wr)) as [[a' [f' ->]]| ->] end; [ok_here|fault_here].
  Qed.

  Lemma mlsx_entry_spec q w : rspec w (mlsx_entry wrapped q w).
  Proof.
    unfold mlsx_entry.
    destruct (call_cases "exists" (pure_op (probe_val "exists" q)) w ltac:(wr)) as [[ex [f ->]]| ->]; [|fault_here].
    destruct ex.
    - match goal with |- context[call wrapped "stat" ?op ?w1] =>
        destruct (call_cases "stat" op w1 ltac:(wr)) as [[a' [f' ->]]| ->] end; [|fault_here].
      match goal with |- context[call wrapped "is_file" ?op ?w1] =>
        destruct (call_cases "is_file" op w1 ltac:(wr)) as [[b [f2 ->]]| ->] end; [|fault_here].
      destruct b; [ok_here|].
      match goal with |- context[call wrapped "is_dir" ?op ?w1] =>
        destruct (call_cases "is_dir" op w1 ltac:(wr)) as [[b' [f3 ->]]| ->] end; [ok_here|fault_here].
    - match goal with |- context[call wrapped "is_file" ?op ?w1] =>
        destruct (call_cases "is_file" op w1 ltac:(wr)) as [[b [f2 ->]]| ->] end; [|fault_here].
      destruct b; [ok_here|].
      match goal with |- context[call wrapped "is_dir" ?op ?w1] =>
        destruct (call_cases "is_dir" op w1 ltac:(wr)) as [[b' [f3 ->]]| ->] end; [ok_here|fault_here].
  Qed.

  Lemma list_loop_spec mlsx p names : forall w, rspec w (list_loop wrapped mlsx p names w).
  Proof.
    induction names as [|x r IH]; intro w; cbn [list_loop].
    - destruct (call_cases "list" nop w ltac:(wr)) as [[a [f ->]]| ->]; [ok_here|fault_here].
    - destruct (call_cases "list" nop w ltac:(wr)) as [[a [f ->]]| ->]; [|fault_here].
      set (w1 := upd_fs (tick "list" false w) f).
      assert (F1 : frame w w1) by (repeat split).
      assert (E1 : fw_faults w1 = fw_faults w) by reflexivity.
      assert (S : rspec w1 (if mlsx then mlsx_entry wrapped (p ++ [x]) w1 else list_entry wrapped (p ++ [x]) w1))
        by (destruct mlsx; [apply mlsx_entry_spec|apply list_entry_spec]).
      destruct (if mlsx then mlsx_entry wrapped (p ++ [x]) w1 else list_entry wrapped (p ++ [x]) w1) as [b w2|pio w2].
      + destruct S as [F2 E2]. destruct b.
        * apply (rspec_trans w (send x w2)); [|cbn; congruence|apply IH].
          eapply frame_trans; [exact F1|]. eapply frame_trans; [exact F2|apply frame_send].
        * apply (rspec_trans w w2); [eapply frame_trans; [exact F1|exact F2]|congruence|apply IH].
      + eapply (rspec_trans w w1 (Fault pio w2)); [exact F1|exact E1|exact S].
  Qed.

  Lemma fconds_spec cs p : forall w, rspec w (fconds conds wrapped cs p w).
  Proof.
    induction cs as [|c cs IH]; intro w; cbn [fconds]; [ok_here|].
    destruct (assoc_s c conds) as [[m fl]|] eqn:E; [|ok_here].
    destruct (call_cases m (pure_op (probe_val m p)) w (Hc _ _ _ E)) as [[v [f ->]]| ->]; [|fault_here].
    destruct (Bool.eqb v fl); [ok_here|].
    eapply rspec_trans; [| |apply IH]; [repeat split|reflexivity].
  Qed.

  (* ---- the worker's `async with`: which faults close the detached data stream *)
  Definition wspec (items : list string) (w : fw) (r : res bool) : Prop :=
    match r with
    | Ok _ w' => fw_faults w' = fw_faults w
    | Fault pio w' =>
        fw_faults w < fw_faults w' /\ pio = true /\ fw_s w' = fw_s w /\ fw_codes w' = fw_codes w /\
        fw_info w' = fw_info w /\
        (fw_dst w' = StClosed \/ (fw_dst w' = StOpen /\ log_head w' "open")) /\
        (~ file_first items -> fw_dst w' = StClosed)
    end.

  Lemma close_data_open w : fw_dst w = StOpen -> close_data w = set_dst w StClosed.
  Proof. intro H. unfold close_data. rewrite H. reflexivity. Qed.

  Lemma is_stream_stream : is_stream "stream" = true. Proof. reflexivity. Qed.

  Lemma unwind_s exc w : unwind wrapped ["stream"%string] exc w = (exc, close_data w).
  Proof. cbn [unwind]. rewrite is_stream_stream. reflexivity. Qed.

  Lemma unwind_fs f exc w : is_stream f = false ->
    unwind wrapped [f; "stream"%string] exc w =
    match call wrapped "close" nop w with
    | Ok _ w' => (exc, close_data w')
    | Fault pio w' => (Some pio, close_data w')
    end.
  Proof.
    intro Hf. cbn [unwind]. rewrite Hf, is_stream_stream.
    destruct (call wrapped "close" nop w); reflexivity.
  Qed.

  Lemma unwind_sf f exc w : is_stream f = false ->
    unwind wrapped ["stream"%string; f] exc w =
    match call wrapped "close" nop (close_data w) with
    | Ok _ w' => (exc, w')
    | Fault pio w' => (Some pio, w')
    end.
  Proof.
    intro Hf. cbn [unwind]. rewrite Hf, is_stream_stream.
    destruct (call wrapped "close" nop (close_data w)); reflexivity.
  Qed.

  Lemma not_ff_stream_only : ~ file_first ["stream"%string].
  Proof. intros [f [E _]]. discriminate. Qed.

  Lemma scoped_spec items op body done w :
    file_first items \/ stream_first items \/ stream_only items ->
    fw_dst w = StOpen ->
    (forall pos w1, rspec w1 (body pos w1)) ->
    wspec items w (scoped wrapped items op body done w).
  Proof.
    intros Sh Hd Hb. destruct Sh as [FF|[[f [-> Hf]]| ->]].
    - (* file first *)
      destruct FF as [f [E Hf]]. pose proof (ex_intro (fun g => items = [g; "stream"%string] /\ is_stream g = false) f (conj E Hf)) as FF.
      subst items. unfold scoped. cbn [enter]. rewrite Hf.
      destruct (call_cases "open" op w ltac:(wr)) as [[p0 [f0 ->]]| ->].
      + rewrite is_stream_stream. cbn [enter].
        set (w1 := upd_fs (tick "open" false w) f0).
        assert (D1 : fw_dst w1 = StOpen) by exact Hd.
        pose proof (Hb p0 w1) as S. destruct (body p0 w1) as [u w2|pio w2]; cbn [rspec] in S.
        * destruct S as [[Es [Ec [Ed Ei]]] Ef]. rewrite unwind_sf by exact Hf.
          rewrite close_data_open by congruence.
          destruct (call_cases "close" nop (set_dst w2 StClosed) ltac:(wr)) as [[a [f1 ->]]| ->]; cbn.
          -- exact Ef.
          -- split; [change (fw_faults w1) with (fw_faults w) in Ef; lia|]. split; [reflexivity|].
             repeat split; try (cbn in *; congruence). left; reflexivity.
        * destruct S as [[Es [Ec [Ed Ei]]] [Ef Ep]]. subst pio. rewrite unwind_sf by exact Hf.
          rewrite close_data_open by congruence.
          destruct (call_cases "close" nop (set_dst w2 StClosed) ltac:(wr)) as [[a [f1 ->]]| ->]; cbn.
          -- split; [exact Ef|]. split; [reflexivity|]. repeat split; try (cbn in *; congruence). left; reflexivity.
          -- split; [cbn in Ef; lia|]. split; [reflexivity|]. repeat split; try (cbn in *; congruence). left; reflexivity.
      + cbn [unwind]. cbn. split; [lia|]. split; [reflexivity|]. repeat split.
        * right. split; [exact Hd|]. eexists; reflexivity.
        * intro N. exfalso. apply N. exact FF.
    - (* stream first *)
      assert (NF : ~ file_first ["stream"%string; f]).
      { intros [g [E Hg]]. inversion E; subst. discriminate. }
      unfold scoped. cbn [enter]. rewrite is_stream_stream, Hf.
      destruct (call_cases "open" op w ltac:(wr)) as [[p0 [f0 ->]]| ->].
      + cbn [enter].
        set (w1 := upd_fs (tick "open" false w) f0).
        assert (D1 : fw_dst w1 = StOpen) by exact Hd.
        pose proof (Hb p0 w1) as S. destruct (body p0 w1) as [u w2|pio w2]; cbn [rspec] in S.
        * destruct S as [[Es [Ec [Ed Ei]]] Ef]. rewrite unwind_fs by exact Hf.
          destruct (call_cases "close" nop w2 ltac:(wr)) as [[a [f1 ->]]| ->].
          -- rewrite close_data_open by (cbn; congruence). cbn. exact Ef.
          -- rewrite close_data_open by (cbn; congruence). cbn.
             split; [change (fw_faults w1) with (fw_faults w) in Ef; lia|]. split; [reflexivity|].
             repeat split; try (cbn in *; congruence). left; reflexivity.
        * destruct S as [[Es [Ec [Ed Ei]]] [Ef Ep]]. subst pio. rewrite unwind_fs by exact Hf.
          destruct (call_cases "close" nop w2 ltac:(wr)) as [[a [f1 ->]]| ->];
            rewrite close_data_open by (cbn; congruence); cbn.
          -- split; [exact Ef|]. split; [reflexivity|]. repeat split; try (cbn in *; congruence). left; reflexivity.
          -- split; [cbn in Ef; lia|]. split; [reflexivity|]. repeat split; try (cbn in *; congruence). left; reflexivity.
      + rewrite unwind_s. rewrite close_data_open by exact Hd. cbn.
        split; [lia|]. split; [reflexivity|]. repeat split. left; reflexivity.
    - (* stream only *)
      unfold scoped. cbn [enter]. rewrite is_stream_stream. cbn [enter].
      pose proof (Hb 0 w) as S. destruct (body 0 w) as [u w2|pio w2]; cbn [rspec] in S.
      + destruct S as [[Es [Ec [Ed Ei]]] Ef]. rewrite unwind_s. rewrite close_data_open by congruence. cbn. exact Ef.
      + destruct S as [[Es [Ec [Ed Ei]]] [Ef Ep]]. subst pio. rewrite unwind_s. rewrite close_data_open by congruence. cbn.
        split; [exact Ef|]. split; [reflexivity|]. repeat split; try congruence. left; reflexivity.
  Qed.

  (* ---- what a handler may do when one of its backend calls raised *)
  Definition sfirst : Prop := stream_first cstor /\ stream_first cretr.

  Definition hspec (w : fw) (r : res bool) : Prop :=
    match r with
    | Ok _ w' => fw_faults w' = fw_faults w
    | Fault pio w' =>
        fw_faults w < fw_faults w' /\ pio = true /\ same_ctl (fw_s w) (fw_s w') /\ fw_info w' = fw_info w /\
        (s_rnfr (fw_s w') = s_rnfr (fw_s w) \/ (s_rnfr (fw_s w') = None /\ log_head w' "rename")) /\
        ( (fw_codes w' = fw_codes w /\ fw_dst w' = fw_dst w /\ s_data (fw_s w') = s_data (fw_s w))
          \/ (fw_codes w' = fw_codes w ++ [c150] /\ s_data (fw_s w) = true /\ s_data (fw_s w') = false /\
              s_rnfr (fw_s w') = s_rnfr (fw_s w) /\
              (fw_dst w' = StClosed \/ (fw_dst w' = StOpen /\ log_head w' "open")) /\
              (sfirst -> fw_dst w' = StClosed)) )
    end.

  Lemma hspec_transport w w1 r :
    frame w w1 -> fw_faults w1 = fw_faults w -> hspec w1 r -> hspec w r.
  Proof.
    intros [Es [Ec [Ed Ei]]] Ef. destruct r as [b w'|pio w']; cbn [hspec].
    - congruence.
    - rewrite Es, Ec, Ed, Ei, Ef. exact (fun H => H).
  Qed.

  Lemma hspec_of_rspec_fault w pio w' : rspec w (@Fault bool pio w') -> hspec w (Fault pio w').
  Proof.
    intros [[Es [Ec [Ed Ei]]] [Ef Ep]]. cbn [hspec]. rewrite Es.
    split; [exact Ef|]. split; [exact Ep|]. split; [apply same_ctl_refl|]. split; [exact Ei|].
    split; [left; reflexivity|]. left. repeat split; assumption.
  Qed.

  Lemma spawn_spec items worker w :
    (items = cstor \/ items = cretr \/ items = clist \/ items = cmlsd) ->
    (forall w1, fw_dst w1 = StOpen -> wspec items w1 (worker w1)) ->
    hspec w (spawn worker w).
  Proof.
    intros Hi Hwk. unfold spawn. cbn [fw_s reply].
    destruct (s_data (fw_s w)) eqn:D; [|reflexivity].
    set (w1 := set_dst (upd_s (reply w (code "150")) (set_data (fw_s w) false)) StOpen).
    specialize (Hwk w1 eq_refl). destruct (worker w1) as [b w'|pio w']; cbn [wspec hspec] in *.
    - exact Hwk.
    - destruct Hwk as [Ef [Ep [Es [Ec [Ei [Dd Nf]]]]]].
      split; [exact Ef|]. split; [exact Ep|]. rewrite Es. cbn.
      split; [repeat split|]. split; [exact Ei|]. split; [left; reflexivity|].
      right. split; [rewrite Ec; reflexivity|]. split; [exact D|]. split; [reflexivity|]. split; [reflexivity|].
      split; [exact Dd|]. intros [S1 S2]. apply Nf. intros [f [E Hf]].
      assert (X : forall c, stream_first c -> c = [f; "stream"%string] -> False).
      { intros c [g [Eg Hg]] Ec'. rewrite Eg in Ec'. inversion Ec'; subst. discriminate. }
      destruct Hi as [Hi|[Hi|[Hi|Hi]]]; subst items.
      + exact (X _ S1 E).
      + exact (X _ S2 E).
      + rewrite Hlist in E. discriminate.
      + rewrite Hmlsd in E. discriminate.
  Qed.

  Lemma shape_stor : file_first cstor \/ stream_first cstor \/ stream_only cstor.
  Proof. destruct Hstor; auto. Qed.
  Lemma shape_retr : file_first cretr \/ stream_first cretr \/ stream_only cretr.
  Proof. destruct Hretr; auto. Qed.

  (* ---- decorators *)
  Lemma fdecos_spec ds arg body : forall w,
    (forall w1, frame w w1 -> fw_faults w1 = fw_faults w -> hspec w1 (body w1)) ->
    hspec w (fdecos users conds wrapped ds arg w body).
  Proof.
    induction ds as [|d ds IH]; intros w Hb; cbn [fdecos].
    - apply Hb; [apply frame_refl|reflexivity].
    - destruct d as [fields wait fc|cs|ps| |n].
      + destruct (find _ fields); [reflexivity|]. apply IH. exact Hb.
      + pose proof (fconds_spec cs (resolve (s_cwd (fw_s w)) arg) w) as S.
        destruct (fconds conds wrapped cs (resolve (s_cwd (fw_s w)) arg) w) as [b w'|pio w'].
        * destruct S as [F E]. destruct b; [|cbn; exact E].
          apply (hspec_transport w w'); [exact F|exact E|]. apply IH.
          intros w1 F1 E1. apply Hb; [eapply frame_trans; eauto|congruence].
        * apply hspec_of_rspec_fault. exact S.
      + destruct ps as [|f ps'].
        * reflexivity.
        * destruct (cur_user users (fw_s w)); [|reflexivity].
          destruct (if String.eqb f "readable" then _ else _); [apply IH; exact Hb|reflexivity].
      + apply IH; exact Hb.
      + apply IH; exact Hb.
  Qed.

  (* ---- bodies *)
  Definition self_ok (self : string -> text -> dataact -> bool -> fw -> res bool) : Prop :=
    forall n a d ap w, hspec w (self n a d ap w).

  Local Ltac fault_h :=
    cbn; split; [lia|]; split; [reflexivity|]; split; [repeat split|]; split; [reflexivity|];
    split; [left; reflexivity|]; left; repeat split.

  Lemma fbody_spec self name arg d appe w :
    self_ok self -> hspec w (fbody users wrapped cstor cretr clist cmlsd blk self name arg d appe w).
  Proof.
    intro SO. unfold fbody.
    destruct (String.eqb name "mkd").
    { match goal with |- context[call wrapped "mkdir" ?op w] =>
        destruct (call_cases "mkdir" op w ltac:(wr)) as [[a [f ->]]| ->] end; [reflexivity|fault_h]. }
    destruct (String.eqb name "rmd").
    { match goal with |- context[call wrapped "rmdir" ?op w] =>
        destruct (call_cases "rmdir" op w ltac:(wr)) as [[a [f ->]]| ->] end; [reflexivity|fault_h]. }
    destruct (String.eqb name "dele").
    { match goal with |- context[call wrapped "unlink" ?op w] =>
        destruct (call_cases "unlink" op w ltac:(wr)) as [[a [f ->]]| ->] end; [reflexivity|fault_h]. }
    destruct (String.eqb name "rnto").
    { destruct (s_rnfr (fw_s w)) as [src|] eqn:R; [|reflexivity].
      match goal with |- context[call wrapped "rename" ?op ?w0] =>
        destruct (call_cases "rename" op w0 ltac:(wr)) as [[a [f ->]]| ->] end; [reflexivity|].
      cbn. split; [lia|]. split; [reflexivity|]. split; [repeat split|]. split; [reflexivity|].
      split; [right; split; [reflexivity|eexists; reflexivity]|]. left. repeat split. }
    destruct (String.eqb name "mlst").
    { pose proof (mlsx_entry_spec (resolve (s_cwd (fw_s w)) arg) w) as S.
      destruct (mlsx_entry wrapped (resolve (s_cwd (fw_s w)) arg) w) as [b w'|pio w'].
      - destruct S as [_ E]. exact E.
      - apply hspec_of_rspec_fault. exact S. }
    destruct (String.eqb name "list").
    { apply (spawn_spec clist); [auto|]. intros w1 D1. apply scoped_spec; [right; right; exact Hlist|exact D1|].
      intros pos w2. apply list_loop_spec. }
    destruct (String.eqb name "mlsd").
    { apply (spawn_spec cmlsd); [auto|]. intros w1 D1. apply scoped_spec; [right; right; exact Hmlsd|exact D1|].
      intros pos w2. apply list_loop_spec. }
    destruct (String.eqb name "retr").
    { apply (spawn_spec cretr); [auto|]. intros w1 D1. apply scoped_spec; [exact shape_retr|exact D1|].
      intros pos w2. apply retr_body_spec. }
    destruct (String.eqb name "stor").
    { match goal with |- context[call wrapped "is_dir" ?op w] =>
        destruct (call_cases "is_dir" op w ltac:(wr)) as [[a [f ->]]| ->] end; [|fault_h].
      destruct a; [|reflexivity].
      set (w' := upd_fs (tick "is_dir" false w) f).
      apply (hspec_transport w w'); [repeat split|reflexivity|].
      apply (spawn_spec cstor); [auto|]. intros w1 D1. apply scoped_spec; [exact shape_stor|exact D1|].
      intros pos w2. apply stor_body_spec. }
    destruct (String.eqb name "cdup"); [apply SO|].
    destruct (String.eqb name "appe"); [apply SO|].
    destruct (body users no_self name arg d appe (to_world w)) as [[x o] keep]. reflexivity.
  Qed.

  Lemma fhandler_spec fuel : self_ok (fhandler users table conds wrapped cstor cretr clist cmlsd blk fuel).
  Proof.
    induction fuel as [|f IH]; intros n a d ap w; cbn [fhandler]; [reflexivity|].
    destruct (handler_of table n) as [[ds dl]|]; [|reflexivity].
    apply fdecos_spec. intros w1 F1 E1. apply fbody_spec. exact IH.
  Qed.
End P.
