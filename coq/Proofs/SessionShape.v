(* C05: shape theorems of the sequential reference model (Model/Session.v with ref_table). *)
From Coq Require Import ZArith List Bool String Lia.
From Verif Require Import Lib.Sx Lib.PyStr Lib.Facts Model.Session Proofs.PyStrFacts Proofs.SessionGuard Proofs.SessionLogin.
Import ListNotations.
Open Scope list_scope.
Open Scope Z_scope.

Local Notation tbl := (list (string * (string * list deco * option string))).

(* ------------------------------------------------------------------ reply shapes *)
Definition finals : list text :=
  map t_of ["200"; "215"; "221"; "226"; "227"; "229"; "230"; "250"; "257"; "331"; "350"; "451";
            "501"; "502"; "503"; "522"; "530"; "550"]%string.
Definition xfer_finals : list text := map t_of ["226"; "200"; "425"; "451"]%string.

(* exactly one final reply; transfer commands: one 150 mark, then exactly one completion reply *)
Definition shape_ok (o : out) : bool :=
  match o_codes o with
  | [x] => existsb (text_eqb x) finals
  | [m; x] => text_eqb m (t_of "150") && existsb (text_eqb x) xfer_finals
  | _ => false
  end.

Fixpoint codes_eqb (a b : list text) : bool :=
  match a, b with
  | [], [] => true
  | x :: a', y :: b' => text_eqb x y && codes_eqb a' b'
  | _, _ => false
  end.

(* the session is ended by the server only after QUIT (221) *)
Definition ends_ok (h : string) (arg : text) (o : out) (keep : bool) : bool :=
  keep
  || (String.eqb h "quit" && codes_eqb (o_codes o) [t_of "221"]).

Lemma codes_eqb_single l c : codes_eqb l [c] = true -> l = [c].
Proof.
  destruct l as [|x [|y r]]; cbn; intro H; try discriminate.
  - rewrite andb_true_r in H. apply text_eqb_eq in H. subst. reflexivity.
  - rewrite andb_false_r in H. discriminate.
Qed.

Definition good (h : string) (arg : text) (r : result) : Prop :=
  let '(_, o, keep) := r in shape_ok o = true /\ ends_ok h arg o keep = true.

(* REST whose argument passes the handler's guard (isascii() and isdigit()) but makes int() raise: impossible.
   (Before the repair of F09 the guard was isdigit() alone, which superscript digits pass and int() rejects.) *)
Definition rest_crash (arg : text) : Prop :=
  str_isascii arg && str_isdigit arg = true /\ int_of_digits arg = None.

Definition ascii_digits_have_values : bool :=
  forallb (fun c => implb (is_digit_char c) (match decimal_val c with Some _ => true | None => false end))
          (map Z.of_nat (seq 0 128)).

Lemma ascii_digits_have_values_ok : ascii_digits_have_values = true.
Proof. vm_compute. reflexivity. Qed.

Lemma ascii_digit_value c : (0 <=? c) && (c <? 128) = true -> is_digit_char c = true -> decimal_val c <> None.
Proof.
  intros R D. pose proof ascii_digits_have_values_ok as H. unfold ascii_digits_have_values in H.
  rewrite forallb_forall in H. specialize (H c).
  assert (I : In c (map Z.of_nat (seq 0 128))).
  { apply andb_true_iff in R as [R1 R2]. apply Z.leb_le in R1. apply Z.ltb_lt in R2.
    replace c with (Z.of_nat (Z.to_nat c)) by lia. apply in_map. apply in_seq. lia. }
  specialize (H I). rewrite D in H. cbn [implb] in H. destruct (decimal_val c); [discriminate|discriminate].
Qed.

Lemma int_of_digits_some s : forall a,
  forallb (fun c => (0 <=? c) && (c <? 128)) s = true -> forallb is_digit_char s = true ->
  fold_left (fun acc c => match acc, decimal_val c with
                          | Some a, Some d => Some (a * 10 + d)
                          | _, _ => None end) s (Some a) <> None.
Proof.
  induction s as [|c s IH]; intros a A D; cbn [fold_left]; [discriminate|].
  cbn [forallb] in A, D. apply andb_true_iff in A as [Ac As]. apply andb_true_iff in D as [Dc Ds].
  destruct (decimal_val c) as [v|] eqn:V; [apply IH; assumption|].
  exfalso. exact (ascii_digit_value c Ac Dc V).
Qed.

Theorem rest_never_crashes arg : ~ rest_crash arg.
Proof.
  intros [G N]. apply andb_true_iff in G as [A D]. unfold str_isascii in A. unfold str_isdigit in D.
  destruct arg as [|c r]; [discriminate|]. unfold int_of_digits in N.
  exact (int_of_digits_some (c :: r) 0 A D N).
Qed.

(* login state is well formed: a user index is valid, and logged in implies a user *)
Definition wf_sess (users : list user) (s : sess) : Prop :=
  match s_user s with
  | Some i => nth_error users i <> None
  | None => s_logged s = false
  end.

(* ------------------------------------------------------------------ decorator stacks *)
Definition conn_codes_ok (ds : list deco) : bool :=
  forallb (fun d => match d with
                    | DConn _ _ fc => String.eqb fc "503"
                    | DPathPerm [] => false
                    | _ => true end) ds.

Definition no_perm (ds : list deco) : bool :=
  forallb (fun d => match d with DPathPerm _ => false | _ => true end) ds.

Definition decos_wf (ds : list deco) : bool := conn_codes_ok ds && (no_perm ds || guarded ds).

Section WithUsers.
  Variable users : list user.

  Lemma run_conds_frame cs p w :
    w_s (fst (run_conds cs p w)) = w_s w /\ w_fs (fst (run_conds cs p w)) = w_fs w.
  Proof.
    revert w. induction cs as [|c cs IH]; intro w; cbn [run_conds]; [split; reflexivity|].
    destruct (probe c p (w_fs w)) as [[[m v] fl]|]; [|split; reflexivity].
    destruct (Bool.eqb v fl); [split; reflexivity|].
    destruct (IH (log_call w m p)) as [A B]. rewrite A, B. split; reflexivity.
  Qed.

  (* a well-formed stack either refuses with exactly one 503/550 and keeps the session, or runs the
     body on a world with the same session record and the same tree *)
  Lemma run_decos_cases ds arg w body (logged_known : bool) :
    conn_codes_ok ds = true ->
    (no_perm ds = true \/ logged_known = true) ->
    (logged_known = true -> cur_user users (w_s w) <> None) ->
    (exists w' c, (c = t_of "503" \/ c = t_of "550") /\ w_s w' = w_s w /\ w_fs w' = w_fs w /\
                  run_decos users ds arg w body = (w', mk_out [c], true))
    \/ (exists w', w_s w' = w_s w /\ w_fs w' = w_fs w /\ run_decos users ds arg w body = body w').
  Proof.
    revert w. induction ds as [|d ds IH]; intros w CC NP CU; cbn [run_decos].
    - right. exists w. repeat split.
    - cbn [conn_codes_ok forallb] in CC. apply andb_true_iff in CC as [Cd Cr].
      destruct d as [fields wait fc|cs|ps| |n].
      + destruct (find _ fields).
        * left. exists w, (t_of fc). apply String.eqb_eq in Cd. subst fc. repeat split. left; reflexivity.
        * apply IH; [exact Cr| |exact CU].
          destruct NP as [NP|NP]; [left|right; exact NP]. cbn [no_perm forallb] in NP.
          apply andb_true_iff in NP as [_ NP]. exact NP.
      + destruct (run_conds_frame cs (resolve (s_cwd (w_s w)) arg) w) as [A B].
        destruct (run_conds cs (resolve (s_cwd (w_s w)) arg) w) as [w' ok]. cbn [fst] in A, B.
        destruct ok.
        * assert (NP' : no_perm ds = true \/ logged_known = true).
          { destruct NP as [NP|NP]; [left|right; exact NP]. cbn [no_perm forallb] in NP.
            apply andb_true_iff in NP as [_ NP]. exact NP. }
          assert (CU' : logged_known = true -> cur_user users (w_s w') <> None) by (rewrite A; exact CU).
          destruct (IH w' Cr NP' CU') as [[w2 [c [Hc [S2 [F2 E2]]]]]|[w2 [S2 [F2 E2]]]].
          -- left. exists w2, c. repeat split; try congruence; try exact Hc.
          -- right. exists w2. repeat split; congruence.
        * left. exists w', (t_of "550"). repeat split; try assumption. right; reflexivity.
      + destruct NP as [NP|NP]; [cbn [no_perm forallb] in NP; discriminate|].
        specialize (CU NP). destruct ps as [|f ps']; [discriminate|].
        destruct (cur_user users (w_s w)) as [u|] eqn:CUe; [|congruence].
        destruct (if String.eqb f "readable" then _ else _).
        * apply IH; [exact Cr|right; exact NP|intros _; rewrite CUe; discriminate].
        * left. exists w, (t_of "550"). repeat split. right; reflexivity.
      + apply IH; [exact Cr| |exact CU].
        destruct NP as [NP|NP]; [left|right; exact NP]. cbn [no_perm forallb] in NP.
        apply andb_true_iff in NP as [_ NP]. exact NP.
      + apply IH; [exact Cr| |exact CU].
        destruct NP as [NP|NP]; [left|right; exact NP]. cbn [no_perm forallb] in NP.
        apply andb_true_iff in NP as [_ NP]. exact NP.
  Qed.

  Lemma refusal_good h arg w' c :
    c = t_of "503" \/ c = t_of "550" -> good h arg (w', mk_out [c], true).
  Proof. intros [->| ->]; split; reflexivity. Qed.

  (* when the first decorator is the login guard and it passes, the user is known *)
  Lemma guarded_run ds arg w body :
    decos_wf ds = true -> wf_sess users (w_s w) ->
    (exists w' c, (c = t_of "503" \/ c = t_of "550") /\ w_s w' = w_s w /\ w_fs w' = w_fs w /\
                  run_decos users ds arg w body = (w', mk_out [c], true))
    \/ (exists w', w_s w' = w_s w /\ w_fs w' = w_fs w /\ run_decos users ds arg w body = body w').
  Proof.
    intros WF WS. unfold decos_wf in WF. apply andb_true_iff in WF as [CC NG].
    apply orb_true_iff in NG as [NP|G].
    - apply (run_decos_cases ds arg w body false CC); [left; exact NP|discriminate].
    - destruct ds as [|d ds]; [discriminate|]. destruct d as [fields wait fc| | | |]; try discriminate.
      destruct wait; [discriminate|]. cbn [guarded] in G.
      cbn [conn_codes_ok forallb] in CC. apply andb_true_iff in CC as [Cd Cr].
      cbn [run_decos].
      destruct (find (fun f => negb (has_field (w_s w) f)) fields) eqn:F.
      + left. exists w, (t_of fc). apply String.eqb_eq in Cd. subst fc. repeat split. left; reflexivity.
      + assert (L : s_logged (w_s w) = true).
        { unfold mem_s in G. apply existsb_exists in G as [x [Hin Hx]]. apply String.eqb_eq in Hx. subst x.
          pose proof (find_none _ _ F _ Hin) as N. cbn in N. unfold has_field in N. cbn in N.
          destruct (s_logged (w_s w)); [reflexivity|discriminate]. }
        apply (run_decos_cases ds arg w body true Cr); [right; reflexivity|].
        intros _. unfold cur_user, wf_sess in *. destruct (s_user (w_s w)) as [i|]; [exact WS|congruence].
  Qed.
End WithUsers.

(* ------------------------------------------------------------------ bodies *)
Ltac brk2 :=
  repeat (match goal with
          | |- context[match ?x with _ => _ end] =>
              lazymatch x with
              | context[match _ with _ => _ end] => fail
              | _ => destruct x eqn:?
              end
          end; cbn [fst snd mk_out o_codes reply] in *).

Section Bodies.
  Variable users : list user.

  Definition self_good (self : string -> text -> dataact -> bool -> world -> result) : Prop :=
    forall a d ap w, wf_sess users (w_s w) ->
      good "cwd" a (self "cwd"%string a d ap w) /\ good "stor" a (self "stor"%string a d ap w).

  Lemma good_keep h h' arg arg' w o : good h arg (w, o, true) -> good h' arg' (w, o, true).
  Proof. intros [A _]. split; [exact A|reflexivity]. Qed.

  Definition known_names : list string :=
    ["user"; "pass_"; "quit"; "pwd"; "cwd"; "cdup"; "mkd"; "rmd"; "dele"; "rnfr"; "rnto"; "mlst"; "list";
     "mlsd"; "retr"; "stor"; "appe"; "type"; "pbsz"; "prot"; "pasv"; "epsv"; "abor"; "rest"; "syst"]%string.

  Lemma body_good self h arg d appe w :
    mem_s h known_names = true ->
    (String.eqb h "cdup" || String.eqb h "appe" = true -> self_good self) -> wf_sess users (w_s w) ->
    (String.eqb h "rest" = true -> ~ rest_crash arg) ->
    good h arg (body users self h arg d appe w).
  Proof.
    intros K SG WS NC. unfold body.
    destruct (String.eqb h "user") eqn:E1.
    { brk2; split; reflexivity. }
    destruct (String.eqb h "pass_") eqn:E2.
    { unfold reply. brk2; split; reflexivity. }
    destruct (String.eqb h "quit") eqn:E3.
    { split; [reflexivity|]. unfold ends_ok. rewrite E3. reflexivity. }
    destruct (String.eqb h "pwd") eqn:?; [split; reflexivity|].
    destruct (String.eqb h "cwd") eqn:?; [split; reflexivity|].
    destruct (String.eqb h "cdup") eqn:?.
    { specialize (SG eq_refl). destruct (SG (path_str (removelast (s_cwd (w_s w)))) d false w WS) as [G _].
      destruct (self "cwd"%string (path_str (removelast (s_cwd (w_s w)))) d false w) as [[w1 o] keep].
      destruct G as [A B]. split; [exact A|].
      unfold ends_ok in *. cbn [String.eqb Ascii.eqb Bool.eqb andb orb] in B.
      rewrite !orb_false_r in B. rewrite B. reflexivity. }
    destruct (String.eqb h "mkd") eqn:?; [brk2; split; reflexivity|].
    destruct (String.eqb h "rmd") eqn:?; [brk2; split; reflexivity|].
    destruct (String.eqb h "dele") eqn:?; [brk2; split; reflexivity|].
    destruct (String.eqb h "rnfr") eqn:?; [split; reflexivity|].
    destruct (String.eqb h "rnto") eqn:?; [unfold reply; brk2; split; reflexivity|].
    destruct (String.eqb h "mlst") eqn:?; [split; reflexivity|].
    destruct (String.eqb h "list") eqn:?; [unfold with_data; brk2; split; reflexivity|].
    destruct (String.eqb h "mlsd") eqn:?; [unfold with_data; brk2; split; reflexivity|].
    destruct (String.eqb h "retr") eqn:?; [unfold with_data; brk2; split; reflexivity|].
    destruct (String.eqb h "stor") eqn:?; [unfold with_data; brk2; split; reflexivity|].
    destruct (String.eqb h "appe") eqn:?.
    { rewrite orb_true_r in SG. specialize (SG eq_refl). destruct (SG arg d true w WS) as [_ G].
      destruct (self "stor"%string arg d true w) as [[w1 o] keep].
      destruct G as [A B]. split; [exact A|].
      unfold ends_ok in *. cbn [String.eqb Ascii.eqb Bool.eqb andb orb] in B.
      rewrite !orb_false_r in B. rewrite B. reflexivity. }
    destruct (String.eqb h "type") eqn:?; [unfold reply; brk2; split; reflexivity|].
    destruct (String.eqb h "pbsz") eqn:?; [split; reflexivity|].
    destruct (String.eqb h "prot") eqn:?; [unfold reply; brk2; split; reflexivity|].
    destruct (String.eqb h "pasv") eqn:?; [split; reflexivity|].
    destruct (String.eqb h "epsv") eqn:E4.
    { destruct arg as [|a0 ar]; split; reflexivity. }
    destruct (String.eqb h "abor") eqn:?; [split; reflexivity|].
    destruct (String.eqb h "rest") eqn:E5.
    { destruct (str_isascii arg && str_isdigit arg) eqn:D.
      - destruct (Z.of_nat (List.length arg) <=? 18)%Z; cbn [andb]; [|split; reflexivity].
        destruct (int_of_digits arg) eqn:I; [split; reflexivity|].
        exfalso. apply (NC eq_refl). split; assumption.
      - cbn [andb]. split; reflexivity. }
    destruct (String.eqb h "syst") eqn:?; [split; reflexivity|].
    (* a handler the model does not know: excluded by [known_names] *)
    exfalso. unfold mem_s, known_names in K. cbn [existsb] in K.
    repeat match goal with H : String.eqb h _ = false |- _ => rewrite H in K; clear H end.
    discriminate.
  Qed.
End Bodies.


(* ------------------------------------------------------------------ no handler sets the ended flag *)
Definition same_ended (w w' : world) : Prop := s_ended (w_s w') = s_ended (w_s w).

Ltac brk3 :=
  repeat (match goal with
          | |- context[match ?x with _ => _ end] =>
              lazymatch x with
              | context[match _ with _ => _ end] => fail
              | _ => destruct x eqn:?
              end
          end; cbn [fst snd res_world w_s w_fs w_log s_ended set_sess set_fs log_call
                    set_cwd set_rnfr set_rest set_passive set_data set_login reply] in *).

Section Ended.
  Variable users : list user.
  Variable t : tbl.

  Lemma run_decos_same_ended ds arg w body :
    (forall w1, w_s w1 = w_s w -> same_ended w (res_world (body w1))) ->
    same_ended w (res_world (run_decos users ds arg w body)).
  Proof.
    revert w. induction ds as [|d ds IH]; intros w Hb; cbn [run_decos].
    - apply Hb. reflexivity.
    - destruct d as [fields wait fc|cs|ps| |n].
      + destruct (find _ fields); [reflexivity|]. apply IH. exact Hb.
      + pose proof (run_conds_sess cs (resolve (s_cwd (w_s w)) arg) w) as E.
        destruct (run_conds cs (resolve (s_cwd (w_s w)) arg) w) as [w' ok]. cbn [fst] in E.
        destruct ok.
        * unfold same_ended in *. rewrite <- E. apply IH. intros w1 H1. rewrite E. apply Hb. congruence.
        * unfold same_ended, res_world. cbn. rewrite E. reflexivity.
      + destruct ps as [|f ps']; [reflexivity|].
        destruct (cur_user users (w_s w)); [|reflexivity].
        destruct (if String.eqb f "readable" then _ else _); [apply IH; exact Hb|reflexivity].
      + apply IH; exact Hb.
      + apply IH; exact Hb.
  Qed.

  Lemma body_same_ended self h arg d appe w0 w :
    (forall n a d' ap w', same_ended w' (res_world (self n a d' ap w'))) ->
    w_s w = w_s w0 ->
    same_ended w0 (res_world (body users self h arg d appe w)).
  Proof.
    intros SO E. unfold same_ended. rewrite <- E. clear E w0. unfold body.
    destruct (String.eqb h "user"); [unfold res_world; brk3; reflexivity|].
    destruct (String.eqb h "pass_"); [unfold res_world; brk3; reflexivity|].
    destruct (String.eqb h "quit"); [reflexivity|].
    destruct (String.eqb h "pwd"); [reflexivity|].
    destruct (String.eqb h "cwd"); [reflexivity|].
    destruct (String.eqb h "cdup"); [apply SO|].
    destruct (String.eqb h "mkd"); [unfold res_world; brk3; reflexivity|].
    destruct (String.eqb h "rmd"); [unfold res_world; brk3; reflexivity|].
    destruct (String.eqb h "dele"); [unfold res_world; brk3; reflexivity|].
    destruct (String.eqb h "rnfr"); [reflexivity|].
    destruct (String.eqb h "rnto"); [unfold res_world; brk3; reflexivity|].
    destruct (String.eqb h "mlst"); [reflexivity|].
    destruct (String.eqb h "list"); [unfold res_world, with_data; brk3; reflexivity|].
    destruct (String.eqb h "mlsd"); [unfold res_world, with_data; brk3; reflexivity|].
    destruct (String.eqb h "retr"); [unfold res_world, with_data; brk3; reflexivity|].
    destruct (String.eqb h "stor"); [unfold res_world, with_data; brk3; reflexivity|].
    destruct (String.eqb h "appe"); [apply SO|].
    destruct (String.eqb h "type"); [unfold res_world; brk3; reflexivity|].
    destruct (String.eqb h "pbsz"); [reflexivity|].
    destruct (String.eqb h "prot"); [unfold res_world; brk3; reflexivity|].
    destruct (String.eqb h "pasv"); [reflexivity|].
    destruct (String.eqb h "epsv"); [unfold res_world; brk3; reflexivity|].
    destruct (String.eqb h "abor"); [reflexivity|].
    destruct (String.eqb h "rest"); [unfold res_world; brk3; reflexivity|].
    destruct (String.eqb h "syst"); reflexivity.
  Qed.

  Lemma handler_same_ended fuel n a d ap w : same_ended w (res_world (handler users t fuel n a d ap w)).
  Proof.
    revert n a d ap w. induction fuel as [|f IH]; intros n a d ap w; cbn [handler]; [reflexivity|].
    destruct (handler_of t n) as [[ds dl]|]; [|reflexivity].
    apply run_decos_same_ended. intros w1 E. apply body_same_ended; [exact IH|exact E].
  Qed.
End Ended.

(* ------------------------------------------------------------------ handlers and steps *)
Definition entry_wf (e : string * (string * list deco * option string)) : bool :=
  let '(_, (h, ds, _)) := e in decos_wf ds && mem_s h known_names.

Definition table_ok (t : tbl) : bool :=
  forallb entry_wf t
  && match handler_of t "cwd", handler_of t "stor" with Some _, Some _ => true | _, _ => false end.

Section Steps.
  Variable users : list user.
  Variable t : tbl.
  Hypothesis TOK : table_ok t = true.

  Lemma handler_of_wf h ds dl : handler_of t h = Some (ds, dl) -> decos_wf ds = true /\ mem_s h known_names = true.
  Proof.
    unfold handler_of. destruct (find _ t) as [[vb [[h' ds'] dl']]|] eqn:F; [|discriminate].
    intro E. inversion E; subst. apply find_some in F as [Hin Hn]. cbn in Hn. apply String.eqb_eq in Hn. subst h'.
    pose proof TOK as T0. unfold table_ok in T0. apply andb_true_iff in T0 as [A _]. rewrite forallb_forall in A.
    specialize (A _ Hin). cbn in A. apply andb_true_iff in A. exact A.
  Qed.

  Lemma handler_direct f h arg d appe w :
    String.eqb h "cdup" || String.eqb h "appe" = false ->
    handler_of t h <> None -> wf_sess users (w_s w) ->
    (String.eqb h "rest" = true -> ~ rest_crash arg) ->
    good h arg (handler users t (S f) h arg d appe w).
  Proof.
    intros ND HN WS NC. rewrite handler_unfold.
    destruct (handler_of t h) as [[ds dl]|] eqn:Hh; [|congruence].
    destruct (handler_of_wf _ _ _ Hh) as [WF K].
    destruct (guarded_run users ds arg w (body users (handler users t f) h arg d appe) WF WS)
      as [[w' [c [Hc [S' [F' ->]]]]]|[w' [S' [F' ->]]]].
    - apply refusal_good. exact Hc.
    - apply body_good; [exact K|rewrite ND; discriminate|rewrite S'; exact WS|exact NC].
  Qed.

  Lemma self_good_handler f : self_good users (handler users t (S f)).
  Proof.
    intros a d ap w WS. pose proof TOK as T0. unfold table_ok in T0. apply andb_true_iff in T0 as [_ B].
    destruct (handler_of t "cwd") eqn:C; [|discriminate]. destruct (handler_of t "stor") eqn:S; [|discriminate].
    split; apply handler_direct; try reflexivity; try congruence; cbn; discriminate.
  Qed.

  Theorem handler_good f h arg d appe w :
    handler_of t h <> None -> wf_sess users (w_s w) ->
    (String.eqb h "rest" = true -> ~ rest_crash arg) ->
    good h arg (handler users t (S (S f)) h arg d appe w).
  Proof.
    intros HN WS NC. rewrite handler_unfold.
    destruct (handler_of t h) as [[ds dl]|] eqn:Hh; [|congruence].
    destruct (handler_of_wf _ _ _ Hh) as [WF K].
    destruct (guarded_run users ds arg w (body users (handler users t (S f)) h arg d appe) WF WS)
      as [[w' [c [Hc [S' [F' ->]]]]]|[w' [S' [F' ->]]]].
    - apply refusal_good. exact Hc.
    - apply body_good; [exact K|intros _; apply self_good_handler|rewrite S'; exact WS|exact NC].
  Qed.

  Lemma verb_handler_of v h : verb_handler t v = Some h -> handler_of t h <> None.
  Proof.
    unfold verb_handler. destruct (find _ t) as [[vb [[h' ds] dl]]|] eqn:F; [|discriminate].
    intro E. inversion E; subst. apply find_some in F as [Hin _].
    unfold handler_of. destruct (find (fun e => let '(_, (h0, _, _)) := e in String.eqb h0 h) t) eqn:G.
    - destruct p as [? [[? ?] ?]]. discriminate.
    - exfalso. pose proof (find_none _ _ G _ Hin) as N. cbn in N. rewrite String.eqb_refl in N. discriminate.
  Qed.

  (* C05: every command of a live session gets exactly one final reply (transfer commands: one 150
     mark then exactly one completion reply), and the session is ended by the server only after QUIT
     (221) or EPSV <arg> (522) — for every world with a well-formed login state, every event except
     the REST-crash input *)
  Theorem step_reply_shape w e :
    wf_sess users (w_s w) -> s_ended (w_s w) = false ->
    text_eqb (e_verb e) V_DATACONN = false ->
    shape_ok (snd (step users t w e)) = true /\
    (s_ended (w_s (fst (step users t w e))) = true ->
       verb_handler t (e_verb e) = Some "quit"%string /\ o_codes (snd (step users t w e)) = [t_of "221"]).
  Proof.
    intros WS NE ND. unfold step. rewrite NE, ND.
    destruct (verb_handler t (e_verb e)) as [h|] eqn:V.
    2:{ cbn. split; [reflexivity|]. rewrite NE. discriminate. }
    set (w0 := if is_transfer (e_verb e) then w else set_sess w (set_rest (w_s w) 0)).
    assert (WS0 : wf_sess users (w_s w0)) by (unfold w0; destruct (is_transfer (e_verb e)); exact WS).
    assert (NE0 : s_ended (w_s w0) = false) by (unfold w0; destruct (is_transfer (e_verb e)); exact NE).
    assert (NC' : String.eqb h "rest" = true -> ~ rest_crash (e_arg e)) by (intros _; apply rest_never_crashes).
    pose proof (handler_good 1 h (e_arg e) (e_data e) false w0 (verb_handler_of _ _ V) WS0 NC') as G.
    destruct (handler users t 3 h (e_arg e) (e_data e) false w0) as [[w1 o] keep] eqn:R.
    destruct G as [A B]. cbv zeta. cbn [fst snd]. split; [exact A|].
    destruct keep.
    - (* the handler kept the session: the ended flag is only set by end_sess *)
      intro En. exfalso.
      pose proof (handler_same_ended users t 3 h (e_arg e) (e_data e) false w0) as SE.
      rewrite R in SE. unfold same_ended, res_world in SE. cbn [fst] in SE.
      destruct (is_transfer (e_verb e)); cbn in En; congruence.
    - intros _. unfold ends_ok in B. cbn [orb] in B.
      apply andb_true_iff in B as [Hq Hc]. apply String.eqb_eq in Hq. subst h. split; [reflexivity|].
      apply codes_eqb_single. exact Hc.
  Qed.
End Steps.

(* ------------------------------------------------------------------ restart offset frame *)
Ltac brk4 :=
  repeat (match goal with
          | |- context[match ?x with _ => _ end] =>
              lazymatch x with
              | context[match _ with _ => _ end] => fail
              | _ => destruct x eqn:?
              end
          end; cbn [fst snd res_world w_s w_fs w_log s_rest set_sess set_fs log_call
                    set_cwd set_rnfr set_rest set_passive set_data set_login reply] in *).

Section RestFrame.
  Variable users : list user.
  Variable t : tbl.

  Definition same_rest (w w' : world) : Prop := s_rest (w_s w') = s_rest (w_s w).

  Lemma run_decos_same_rest ds arg w body :
    (forall w1, w_s w1 = w_s w -> same_rest w (res_world (body w1))) ->
    same_rest w (res_world (run_decos users ds arg w body)).
  Proof.
    revert w. induction ds as [|d ds IH]; intros w Hb; cbn [run_decos].
    - apply Hb. reflexivity.
    - destruct d as [fields wait fc|cs|ps| |n].
      + destruct (find _ fields); [reflexivity|]. apply IH. exact Hb.
      + pose proof (run_conds_sess cs (resolve (s_cwd (w_s w)) arg) w) as E.
        destruct (run_conds cs (resolve (s_cwd (w_s w)) arg) w) as [w' ok]. cbn [fst] in E.
        destruct ok.
        * unfold same_rest in *. rewrite <- E. apply IH. intros w1 H1. rewrite E. apply Hb. congruence.
        * unfold same_rest, res_world. cbn. rewrite E. reflexivity.
      + destruct ps as [|f ps']; [reflexivity|].
        destruct (cur_user users (w_s w)); [|reflexivity].
        destruct (if String.eqb f "readable" then _ else _); [apply IH; exact Hb|reflexivity].
      + apply IH; exact Hb.
      + apply IH; exact Hb.
  Qed.

  Lemma body_same_rest self h arg d appe w0 w :
    String.eqb h "rest" = false ->
    (forall a d' ap w', same_rest w' (res_world (self "cwd"%string a d' ap w')) /\
                        same_rest w' (res_world (self "stor"%string a d' ap w'))) ->
    w_s w = w_s w0 ->
    same_rest w0 (res_world (body users self h arg d appe w)).
  Proof.
    intros NR SO E. unfold same_rest. rewrite <- E. clear E w0. unfold body.
    destruct (String.eqb h "user"); [unfold res_world; brk4; reflexivity|].
    destruct (String.eqb h "pass_"); [unfold res_world; brk4; reflexivity|].
    destruct (String.eqb h "quit"); [reflexivity|].
    destruct (String.eqb h "pwd"); [reflexivity|].
    destruct (String.eqb h "cwd"); [reflexivity|].
    destruct (String.eqb h "cdup"); [apply SO|].
    destruct (String.eqb h "mkd"); [unfold res_world; brk4; reflexivity|].
    destruct (String.eqb h "rmd"); [unfold res_world; brk4; reflexivity|].
    destruct (String.eqb h "dele"); [unfold res_world; brk4; reflexivity|].
    destruct (String.eqb h "rnfr"); [reflexivity|].
    destruct (String.eqb h "rnto"); [unfold res_world; brk4; reflexivity|].
    destruct (String.eqb h "mlst"); [reflexivity|].
    destruct (String.eqb h "list"); [unfold res_world, with_data; brk4; reflexivity|].
    destruct (String.eqb h "mlsd"); [unfold res_world, with_data; brk4; reflexivity|].
    destruct (String.eqb h "retr"); [unfold res_world, with_data; brk4; reflexivity|].
    destruct (String.eqb h "stor"); [unfold res_world, with_data; brk4; reflexivity|].
    destruct (String.eqb h "appe"); [apply SO|].
    destruct (String.eqb h "type"); [unfold res_world; brk4; reflexivity|].
    destruct (String.eqb h "pbsz"); [reflexivity|].
    destruct (String.eqb h "prot"); [unfold res_world; brk4; reflexivity|].
    destruct (String.eqb h "pasv"); [reflexivity|].
    destruct (String.eqb h "epsv"); [unfold res_world; brk4; reflexivity|].
    destruct (String.eqb h "abor"); [reflexivity|].
    rewrite NR.
    destruct (String.eqb h "syst"); reflexivity.
  Qed.

  Lemma handler_same_rest fuel n a d ap w :
    String.eqb n "rest" = false -> same_rest w (res_world (handler users t fuel n a d ap w)).
  Proof.
    revert n a d ap w. induction fuel as [|f IH]; intros n a d ap w NR; cbn [handler]; [reflexivity|].
    destruct (handler_of t n) as [[ds dl]|]; [|reflexivity].
    apply run_decos_same_rest. intros w1 E. apply body_same_rest; [exact NR| |exact E].
    intros a' d' ap' w'. split; apply IH; reflexivity.
  Qed.

  (* the restart offset applies to the immediately following command only: it is cleared by EVERY supported
     command other than REST itself -- the three transfer verbs included, which see it (the dispatcher hands it
     over) and leave it cleared; unknown verbs (502) do not touch it *)
  Theorem rest_cleared_by_every_command w e h :
    s_ended (w_s w) = false -> text_eqb (e_verb e) V_DATACONN = false ->
    verb_handler t (e_verb e) = Some h -> String.eqb h "rest" = false ->
    s_rest (w_s (fst (step users t w e))) = 0.
  Proof.
    intros NE ND V NR. unfold step. rewrite NE, ND, V.
    destruct (is_transfer (e_verb e)) eqn:NT.
    - destruct (handler users t 3 h (e_arg e) (e_data e) false w) as [[w1 o] keep].
      cbv zeta. cbn [fst]. destruct keep; reflexivity.
    - pose proof (handler_same_rest 3 h (e_arg e) (e_data e) false (set_sess w (set_rest (w_s w) 0)) NR) as SR.
      destruct (handler users t 3 h (e_arg e) (e_data e) false (set_sess w (set_rest (w_s w) 0))) as [[w1 o] keep].
      unfold same_rest, res_world in SR. cbv zeta. cbn [fst] in SR |- *. destruct keep; cbn; exact SR.
  Qed.

  (* a transfer verb's handler runs on the world it found: it sees the pending offset *)
  Theorem transfer_sees_offset w e h :
    s_ended (w_s w) = false -> text_eqb (e_verb e) V_DATACONN = false ->
    verb_handler t (e_verb e) = Some h -> is_transfer (e_verb e) = true ->
    snd (step users t w e) = snd (fst (handler users t 3 h (e_arg e) (e_data e) false w)).
  Proof.
    intros NE ND V NT. unfold step. rewrite NE, ND, V, NT.
    destruct (handler users t 3 h (e_arg e) (e_data e) false w) as [[w1 o] keep]. reflexivity.
  Qed.
End RestFrame.

(* ------------------------------------------------------------------ generic one-liners *)
Section Generic.
  Variable users : list user.
  Variable t : tbl.

  (* an unsupported verb: 502, nothing changes (not even the restart offset), the session continues *)
  Theorem unknown_verb_502 w e :
    s_ended (w_s w) = false -> text_eqb (e_verb e) V_DATACONN = false ->
    verb_handler t (e_verb e) = None ->
    step users t w e = (w, mk_out [t_of "502"]).
  Proof. intros NE ND V. unfold step. rewrite NE, ND, V. reflexivity. Qed.

  (* an out-of-sequence command: the first decorator is a connection guard with a missing field; nothing
     changes except that the pending restart offset is dropped *)
  Theorem out_of_sequence w e h fields fc ds dl f :
    s_ended (w_s w) = false -> text_eqb (e_verb e) V_DATACONN = false ->
    verb_handler t (e_verb e) = Some h ->
    handler_of t h = Some (DConn fields false fc :: ds, dl) ->
    In f fields -> has_field (w_s w) f = false ->
    step users t w e = (set_sess w (set_rest (w_s w) 0), mk_out [t_of fc]).
  Proof.
    intros NE ND V Hh Hin Hf. unfold step. rewrite NE, ND, V.
    set (w0 := if is_transfer (e_verb e) then w else set_sess w (set_rest (w_s w) 0)).
    rewrite (handler_unfold users t 2 h), Hh. cbn [run_decos].
    assert (Hf0 : has_field (w_s w0) f = false).
    { unfold w0. destruct (is_transfer (e_verb e)); [exact Hf|].
      unfold has_field in *. cbn [w_s set_sess set_rest s_logged s_user s_passive s_data s_rnfr]. exact Hf. }
    destruct (find (fun f0 => negb (has_field (w_s w0) f0)) fields) eqn:F.
    - cbv zeta. unfold w0. destruct (is_transfer (e_verb e)); reflexivity.
    - exfalso. pose proof (find_none _ _ F _ Hin) as N. cbn in N. rewrite Hf0 in N. discriminate.
  Qed.

  (* RNTO consumes the pending rename whenever its body runs *)
  Lemma rnto_consumes self arg d appe w :
    s_rnfr (w_s (res_world (body users self "rnto" arg d appe w))) = None.
  Proof.
    unfold body, res_world, reply. cbn [String.eqb Ascii.eqb Bool.eqb].
    destruct (s_rnfr (w_s w)) eqn:R; [|exact R].
    destruct (rename l (resolve (s_cwd (w_s w)) arg) (w_fs w)); reflexivity.
  Qed.

  (* USER always drops a pending rename source (it is a real path under the previous login's base) *)
  Lemma user_drops_rnfr self arg d appe w :
    s_rnfr (w_s (res_world (body users self "user" arg d appe w))) = None.
  Proof.
    unfold body, res_world. cbn [String.eqb Ascii.eqb Bool.eqb].
    destruct (find_user users 0 arg None) as [i|]; [|reflexivity].
    destruct (nth_error users i) as [u|]; [|reflexivity].
    destruct (u_login u); destruct (u_password u); reflexivity.
  Qed.

  (* a (re-)login that finds a user resets the working directory to that user's home *)
  Lemma user_resets_cwd self arg d appe w i u :
    find_user users 0 arg None = Some i -> nth_error users i = Some u ->
    s_cwd (w_s (res_world (body users self "user" arg d appe w))) = u_home u.
  Proof.
    intros F N. unfold body, res_world. cbn [String.eqb Ascii.eqb Bool.eqb]. rewrite F, N.
    destruct (u_login u); destruct (u_password u); reflexivity.
  Qed.
End Generic.

(* ------------------------------------------------------------------ well-formedness is invariant *)
Section Wf.
  Variable users : list user.
  Variable t : tbl.
  Hypothesis LE : login_entries_ok t = true.

  Definition wf_login (st : option nat * bool) : Prop :=
    match st with
    | (Some i, _) => nth_error users i <> None
    | (None, l) => l = false
    end.

  Lemma wf_of_login w : wf_sess users (w_s w) <-> wf_login (login_of w).
  Proof. unfold wf_sess, wf_login, login_of. destruct (s_user (w_s w)); tauto. Qed.

  Theorem step_wf w e : wf_sess users (w_s w) -> wf_sess users (w_s (fst (step users t w e))).
  Proof.
    intro WS. pose proof (step_login_ok users t LE w e) as SK.
    apply wf_of_login. destruct (wf_of_login w) as [W1 _]. specialize (W1 WS). clear WS. rename W1 into WS.
    destruct SK as [E|[[_ E]|[_ E]]]; rewrite E; clear E.
    - exact WS.
    - unfold user_spec, wf_login. destruct (find_user users 0 (e_arg e) None) as [i|]; [|reflexivity].
      destruct (nth_error users i) as [u|] eqn:N; [|reflexivity].
      destruct (u_login u); destruct (u_password u); rewrite N; discriminate.
    - unfold pass_spec, wf_login in *. destruct (login_of w) as [[i|] [|]]; try exact WS.
      destruct (nth_error users i) as [u|] eqn:N; [|exfalso; apply WS; reflexivity].
      destruct (opt_text_eqb (u_password u) (Some (e_arg e))); rewrite N; discriminate.
  Qed.

  Theorem run_wf es w : wf_sess users (w_s w) -> wf_sess users (w_s (fst (run users t w es))).
  Proof.
    revert w. induction es as [|e es IH]; intros w WS; cbn [run]; [exact WS|].
    pose proof (step_wf w e WS) as W1. destruct (step users t w e) as [w1 o]. cbn [fst] in W1.
    specialize (IH w1 W1). destruct (run users t w1 es) as [w2 os]. exact IH.
  Qed.
End Wf.
