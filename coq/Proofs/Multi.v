(* C17: concurrent sessions do not interfere — proofs over Model/Multi.v for ANY dispatch table.
   1. locality: a step of session i changes no other session's record.
   2. step_frame: a step whose tree footprint lies below an existing directory a factors through
      a's subtree (same replies / data / session record / ghost log on any two trees that agree at
      a; the tree changes by the same graft at a).
   3. disjoint_commute: steps of different sessions with footprints in incomparable directories commute.
   4. isolation: any interleaving of n sessions, each of whose SOLO runs stays inside its own
      directory, gives every session its solo transcript and solo final record, and the final tree
      is the initial tree with every session's directory replaced by its solo result. *)
From Coq Require Import ZArith List Bool String Lia Arith.
From Verif Require Import Lib.Sx Lib.PyStr Lib.Facts Model.Session Model.Multi.
From Verif Require Import Proofs.PyStrFacts Proofs.TreeFrame.
Import ListNotations.
Open Scope list_scope.
Open Scope Z_scope.

Local Notation tbl := (list (string * (string * list deco * option string))).

(* ------------------------------------------------------------------ upd *)
Section Upd.
  Context {A : Type}.
  Implicit Types (l : list A) (x y : A) (i j : nat).

  Lemma nth_upd_other l i j x : i <> j -> nth_error (upd i x l) j = nth_error l j.
  Proof.
    revert i j. induction l as [|h l IH]; intros i j N; [destruct i; reflexivity|].
    destruct i, j; cbn; try reflexivity; [contradiction|]. apply IH. congruence.
  Qed.

  Lemma nth_upd_same l i x :
    nth_error (upd i x l) i = match nth_error l i with Some _ => Some x | None => None end.
  Proof.
    revert i. induction l as [|h l IH]; intro i; [destruct i; reflexivity|].
    destruct i; cbn; [reflexivity|]. apply IH.
  Qed.

  Lemma upd_oob l i x : nth_error l i = None -> upd i x l = l.
  Proof.
    revert i. induction l as [|h l IH]; intros i H; [destruct i; reflexivity|].
    destruct i; cbn in *; [discriminate|]. rewrite (IH i H). reflexivity.
  Qed.

  Lemma upd_length l i x : List.length (upd i x l) = List.length l.
  Proof. revert i. induction l as [|h l IH]; intro i; destruct i; cbn; try reflexivity. rewrite IH. reflexivity. Qed.

  Lemma upd_comm l i j x y : i <> j -> upd i x (upd j y l) = upd j y (upd i x l).
  Proof.
    revert i j. induction l as [|h l IH]; intros i j N; [destruct i, j; reflexivity|].
    destruct i, j; cbn; try reflexivity; [contradiction|]. rewrite IH by congruence. reflexivity.
  Qed.
End Upd.

Lemma gstate_eta g : g = {| g_fs := g_fs g; g_ss := g_ss g |}.
Proof. destruct g; reflexivity. Qed.

(* ------------------------------------------------------------------ 1. locality *)
Theorem locality users (t : tbl) g i ev j :
  i <> j -> nth_error (g_ss (fst (gstep users t g i ev))) j = nth_error (g_ss g) j.
Proof.
  intro N. unfold gstep. destruct (nth_error (g_ss g) i) as [[s l]|]; [|reflexivity].
  destruct ev as [e|].
  - destruct (step users t _ e) as [w o]. cbn. apply nth_upd_other. exact N.
  - cbn. apply nth_upd_other. exact N.
Qed.

(* ------------------------------------------------------------------ 2. the frame of one step *)
Ltac brk :=
  repeat (match goal with
          | |- context[match ?x with _ => _ end] =>
              lazymatch x with
              | context[match _ with _ => _ end] => fail
              | _ => destruct x eqn:?
              end
          end; cbn [fst snd w_s w_fs w_log set_sess set_fs log_call lift] in *).

Section Frame.
  Variable users : list user.
  Variable t : tbl.
  Variables (a : list text) (n1 n2 z1 z2 : node).
  Hypothesis Na : a <> [].
  Hypothesis H1 : lookup a n1 = Some z1.
  Hypothesis H2 : lookup a n2 = Some z2.

  (* two worlds with the same session record and ghost log whose trees are n1 / n2 with the SAME
     subtree grafted at a *)
  Definition WR (w1 w2 : world) : Prop :=
    w_s w1 = w_s w2 /\ w_log w1 = w_log w2 /\
    exists sub, w_fs w1 = graft a sub n1 /\ w_fs w2 = graft a sub n2.

  Definition RR (r1 r2 : result) : Prop :=
    WR (fst (fst r1)) (fst (fst r2)) /\ snd (fst r1) = snd (fst r2) /\ snd r1 = snd r2.

  Ltac rr := unfold RR, WR; cbn [fst snd w_s w_fs w_log set_sess set_fs log_call];
             repeat split; try reflexivity; try (eexists; split; reflexivity).

  Lemma probe_g c q sub :
    probe c (a ++ q) (graft a sub n1) = probe c (a ++ q) (graft a sub n2).
  Proof.
    unfold probe.
    rewrite !(exists_g a n1 z1 H1), !(exists_g a n2 z2 H2), !(is_dir_g a n1 z1 H1), !(is_dir_g a n2 z2 H2),
            !(is_file_g a n1 z1 H1), !(is_file_g a n2 z2 H2). reflexivity.
  Qed.

  Lemma run_conds_frame cs q : forall w1 w2,
    WR w1 w2 ->
    WR (fst (run_conds cs (a ++ q) w1)) (fst (run_conds cs (a ++ q) w2)) /\
    snd (run_conds cs (a ++ q) w1) = snd (run_conds cs (a ++ q) w2) /\
    w_s (fst (run_conds cs (a ++ q) w1)) = w_s w1.
  Proof.
    induction cs as [|c cs IH]; intros w1 w2 W; cbn [run_conds].
    - split; [exact W|split; reflexivity].
    - pose proof W as W0. destruct W as (Es & El & sub & E1 & E2).
      rewrite E1, E2, probe_g.
      destruct (probe c (a ++ q) (graft a sub n2)) as [[[m v] fl]|].
      2:{ cbn [fst snd]. split; [exact W0|split; reflexivity]. }
      assert (W' : WR (log_call w1 m (a ++ q)) (log_call w2 m (a ++ q))).
      { unfold WR. cbn. repeat split; [exact Es|rewrite El; reflexivity|]. exists sub. split; assumption. }
      destruct (Bool.eqb v fl).
      + cbn [fst snd]. split; [exact W'|split; reflexivity].
      + destruct (IH _ _ W') as (A & B & C). split; [exact A|split; [exact B|exact C]].
  Qed.

  Definition under (p : list text) : Prop := exists q, p = a ++ q.

  Lemma run_decos_frame ds arg bd : forall w1 w2,
    WR w1 w2 ->
    (existsb is_pathcond ds = true -> under (resolve (s_cwd (w_s w1)) arg)) ->
    (forall v1 v2, WR v1 v2 -> w_s v1 = w_s w1 -> RR (bd v1) (bd v2)) ->
    RR (run_decos users ds arg w1 bd) (run_decos users ds arg w2 bd).
  Proof.
    induction ds as [|d ds IH]; intros w1 w2 W P Hb; cbn [run_decos].
    - apply Hb; [exact W|reflexivity].
    - pose proof W as (Es & El & sub & E1 & E2).
      destruct d as [fields wait fc|cs|ps| |nm].
      + rewrite <- Es. destruct (find _ fields).
        * rr; try assumption. exists sub. split; assumption.
        * apply IH; assumption.
      + rewrite <- Es. destruct (P eq_refl) as [q Eq]. rewrite Eq.
        destruct (run_conds_frame cs q w1 w2 W) as (A & B & C).
        destruct (run_conds cs (a ++ q) w1) as [w1' ok1]. destruct (run_conds cs (a ++ q) w2) as [w2' ok2].
        cbn [fst snd] in A, B, C. subst ok2. destruct ok1.
        * apply IH; [exact A| |].
          -- intro X. rewrite C. apply P. cbn. reflexivity.
          -- intros v1 v2 V E. apply Hb; [exact V|congruence].
        * unfold RR. cbn [fst snd]. split; [exact A|split; reflexivity].
      + rewrite <- Es. destruct ps as [|f ps'].
        * rr; try assumption. exists sub. split; assumption.
        * destruct (cur_user users (w_s w1)).
          2:{ rr; try assumption. exists sub. split; assumption. }
          destruct (if String.eqb f "readable" then _ else _).
          -- apply IH; [exact W| |exact Hb]. intro X. apply P. cbn. exact X.
          -- rr; try assumption. exists sub. split; assumption.
      + apply IH; [exact W| |exact Hb]. intro X. apply P. cbn. exact X.
      + apply IH; [exact W| |exact Hb]. intro X. apply P. cbn. exact X.
  Qed.

  Lemma removelast_snoc2 (q : list text) x : removelast (a ++ q ++ [x]) = a ++ q.
  Proof. rewrite app_assoc. apply removelast_snoc. Qed.

  Lemma forallb1 p : forallb (is_prefix a) [p] = true -> under p.
  Proof. cbn. rewrite andb_true_r. apply is_prefix_app. Qed.

  Lemma parent_under p : is_prefix a (removelast p) = true -> exists q x, p = a ++ q ++ [x].
  Proof.
    intro H. apply is_prefix_app in H as [q Eq]. destruct (snoc_of_parent a p q Na Eq) as [x E].
    exists q, x. exact E.
  Qed.

  Lemma body_frame self selffp name arg d appe w1 w2 :
    WR w1 w2 ->
    (forall nm ar dd ap, forallb (is_prefix a) (selffp nm ar) = true ->
                         RR (self nm ar dd ap w1) (self nm ar dd ap w2)) ->
    forallb (is_prefix a) (bfp selffp name arg (s_cwd (w_s w1)) (s_rnfr (w_s w1))) = true ->
    RR (body users self name arg d appe w1) (body users self name arg d appe w2).
  Proof.
    intros W Hself F.
    destruct w1 as [s1 f1 l1], w2 as [s2 f2 l2].
    pose proof W as W0.
    destruct W as (Es & El & sub & E1 & E2). cbn [w_s w_fs w_log] in *. subst s2 l2 f1 f2.
    unfold body, bfp in *. cbv zeta in *. cbn [w_s w_fs w_log] in *.
    destruct (String.eqb name "user"); [unfold lift; brk; rr|].
    destruct (String.eqb name "pass_"); [unfold reply; unfold lift; brk; rr|].
    destruct (String.eqb name "quit"); [rr|].
    destruct (String.eqb name "pwd"); [rr|].
    destruct (String.eqb name "cwd"); [rr|].
    destruct (String.eqb name "cdup"); [apply Hself; exact F|].
    destruct (String.eqb name "mkd").
    { apply forallb1 in F as [q Eq]. rewrite Eq.
      rewrite (mkdir_p_g a n1 z1 H1), (mkdir_p_g a n2 z2 H2). unfold lift; brk; rr. }
    destruct (String.eqb name "rmd").
    { cbn in F. rewrite andb_true_r in F. apply parent_under in F as (q & x & Eq). rewrite Eq.
      rewrite (rmdir_g a n1 z1 H1), (rmdir_g a n2 z2 H2). unfold lift; brk; rr. }
    destruct (String.eqb name "dele").
    { cbn in F. rewrite andb_true_r in F. apply parent_under in F as (q & x & Eq). rewrite Eq.
      rewrite (unlink_g a n1 z1 H1), (unlink_g a n2 z2 H2). unfold lift; brk; rr. }
    destruct (String.eqb name "rnfr"); [rr|].
    destruct (String.eqb name "rnto").
    { destruct (s_rnfr s1) as [src|]; [|unfold reply; rr].
      cbn in F. rewrite andb_true_r in F. apply andb_true_iff in F as [Fs Fd].
      apply parent_under in Fs as (qs & xs & Eqs). apply parent_under in Fd as (qd & xd & Eqd).
      rewrite Eqs, Eqd.
      rewrite (rename_g a n1 z1 H1), (rename_g a n2 z2 H2). unfold lift; brk; rr. }
    destruct (String.eqb name "mlst"); [rr|].
    destruct (String.eqb name "list").
    { apply forallb1 in F as [q Eq]. rewrite Eq. unfold with_data, listing_of. cbn [w_s w_fs w_log set_sess log_call].
      rewrite (lookup_g a n1 z1 H1), (lookup_g a n2 z2 H2). unfold lift; brk; rr. }
    destruct (String.eqb name "mlsd").
    { apply forallb1 in F as [q Eq]. rewrite Eq. unfold with_data, listing_of. cbn [w_s w_fs w_log set_sess log_call].
      rewrite (lookup_g a n1 z1 H1), (lookup_g a n2 z2 H2). unfold lift; brk; rr. }
    destruct (String.eqb name "retr").
    { apply forallb1 in F as [q Eq]. rewrite Eq. unfold with_data. cbn [w_s w_fs w_log set_sess log_call].
      rewrite (lookup_g a n1 z1 H1), (lookup_g a n2 z2 H2). unfold lift; brk; rr. }
    destruct (String.eqb name "stor").
    { cbn in F. rewrite andb_true_r in F. apply parent_under in F as (q & x & Eq). rewrite Eq.
      rewrite removelast_snoc2. unfold with_data. cbn [w_s w_fs w_log set_sess log_call].
      rewrite (is_dir_g a n1 z1 H1), (is_dir_g a n2 z2 H2).
      rewrite (store_g a n1 z1 H1), (store_g a n2 z2 H2). unfold lift; brk; rr. }
    destruct (String.eqb name "appe"); [apply Hself; exact F|].
    destruct (String.eqb name "type"); [unfold reply; unfold lift; brk; rr|].
    destruct (String.eqb name "pbsz"); [unfold reply; rr|].
    destruct (String.eqb name "prot"); [unfold reply; unfold lift; brk; rr|].
    destruct (String.eqb name "pasv"); [rr|].
    destruct (String.eqb name "epsv"); [unfold lift; brk; rr|].
    destruct (String.eqb name "abor"); [unfold reply; rr|].
    destruct (String.eqb name "rest"); [unfold lift; brk; rr|].
    destruct (String.eqb name "syst"); [unfold reply; rr|].
    rr.
  Qed.

  Lemma handler_frame fuel : forall name arg d ap w1 w2,
    WR w1 w2 ->
    forallb (is_prefix a) (hfp t fuel (s_cwd (w_s w1)) (s_rnfr (w_s w1)) name arg) = true ->
    RR (handler users t fuel name arg d ap w1) (handler users t fuel name arg d ap w2).
  Proof.
    induction fuel as [|f IH]; intros name arg d ap w1 w2 W F; cbn [handler hfp] in *.
    - unfold RR. cbn [fst snd]. split; [exact W|split; reflexivity].
    - destruct (handler_of t name) as [[ds dl]|]; [|unfold RR; cbn [fst snd]; split; [exact W|split; reflexivity]].
      rewrite forallb_app in F. apply andb_true_iff in F as [Fd Fb].
      apply run_decos_frame; [exact W| |].
      + intro X. rewrite X in Fd. apply forallb1 in Fd. exact Fd.
      + intros v1 v2 V E.
        apply body_frame with (selffp := hfp t f (s_cwd (w_s v1)) (s_rnfr (w_s v1))); [exact V| |].
        * intros nm ar dd ap' Fs. apply IH; [exact V|exact Fs].
        * rewrite E. exact Fb.
  Qed.

  Theorem step_frame w1 w2 e :
    WR w1 w2 ->
    forallb (is_prefix a) (sfp t (w_s w1) e) = true ->
    WR (fst (step users t w1 e)) (fst (step users t w2 e)) /\
    snd (step users t w1 e) = snd (step users t w2 e).
  Proof.
    intros W F. pose proof W as (Es & El & sub & E1 & E2).
    unfold step, sfp in *. rewrite <- Es.
    destruct (s_ended (w_s w1)); [split; [exact W|reflexivity]|].
    destruct (text_eqb (e_verb e) V_DATACONN).
    { destruct (s_passive (w_s w1) && negb (s_data (w_s w1))); cbn [fst snd]; (split; [|reflexivity]);
        [|exact W].
      unfold WR. cbn [w_s w_fs w_log set_sess]. split; [reflexivity|]. split; [exact El|]. exists sub. split; assumption. }
    destruct (verb_handler t (e_verb e)) as [h|]; [|split; [exact W|reflexivity]].
    set (v1 := if is_transfer (e_verb e) then w1 else set_sess w1 (set_rest (w_s w1) 0)).
    set (v2 := if is_transfer (e_verb e) then w2 else set_sess w2 (set_rest (w_s w1) 0)).
    assert (V : WR v1 v2).
    { unfold v1, v2. destruct (is_transfer (e_verb e)); [exact W|].
      unfold WR. cbn [w_s w_fs w_log set_sess]. split; [reflexivity|]. split; [exact El|]. exists sub. split; assumption. }
    assert (C : s_cwd (w_s v1) = s_cwd (w_s w1) /\ s_rnfr (w_s v1) = s_rnfr (w_s w1)).
    { unfold v1. destruct (is_transfer (e_verb e)); split; reflexivity. }
    destruct C as [C1 C2].
    assert (F' : forallb (is_prefix a) (hfp t 3 (s_cwd (w_s v1)) (s_rnfr (w_s v1)) h (e_arg e)) = true)
      by (rewrite C1, C2; exact F).
    pose proof (handler_frame 3 h (e_arg e) (e_data e) false v1 v2 V F') as R.
    destruct (handler users t 3 h (e_arg e) (e_data e) false v1) as [[x1 o1] k1].
    destruct (handler users t 3 h (e_arg e) (e_data e) false v2) as [[x2 o2] k2].
    destruct R as (Wx & Eo & Ek). cbn [fst snd] in *. subst o2 k2.
    split; [|reflexivity].
    (* the dispatcher clears the restart offset after a transfer command too (transfer_offset hand-over) *)
    assert (Wy : WR (if is_transfer (e_verb e) then set_sess x1 (set_rest (w_s x1) 0) else x1)
                    (if is_transfer (e_verb e) then set_sess x2 (set_rest (w_s x2) 0) else x2)).
    { destruct (is_transfer (e_verb e)); [|exact Wx].
      destruct Wx as (Es' & El' & sub' & E1' & E2').
      unfold WR. cbn [w_s w_fs w_log set_sess]. rewrite Es'. split; [reflexivity|]. split; [exact El'|]. exists sub'. split; assumption. }
    destruct k1; [exact Wy|].
    destruct Wy as (Es' & El' & sub' & E1' & E2').
    unfold WR. cbn [w_s w_fs w_log set_sess]. rewrite Es'. split; [reflexivity|]. split; [exact El'|]. exists sub'. split; assumption.
  Qed.
End Frame.

(* ---- at the level of the global state *)
Section GFrame.
  Variable users : list user.
  Variable t : tbl.

  Theorem gstep_frame a G1 G2 i ev sub :
    a <> [] ->
    lookup a (g_fs G1) = Some sub -> lookup a (g_fs G2) = Some sub ->
    nth_error (g_ss G1) i = nth_error (g_ss G2) i ->
    gfp_in t a G1 i ev = true ->
    exists sub' x,
      fst (gstep users t G1 i ev) = {| g_fs := graft a sub' (g_fs G1); g_ss := upd i x (g_ss G1) |} /\
      fst (gstep users t G2 i ev) = {| g_fs := graft a sub' (g_fs G2); g_ss := upd i x (g_ss G2) |} /\
      snd (gstep users t G1 i ev) = snd (gstep users t G2 i ev).
  Proof.
    intros Na L1 L2 Ess F. unfold gstep, gfp_in in *. rewrite <- Ess.
    destruct (nth_error (g_ss G1) i) as [[s l]|] eqn:N1.
    2:{ exists sub, (init_sess, []). cbn [fst snd].
        rewrite !graft_same by assumption. rewrite !upd_oob by congruence.
        repeat split; apply gstate_eta. }
    destruct ev as [e|].
    - cbn [fp_in] in F.
      assert (W : WR a (g_fs G1) (g_fs G2)
                     {| w_s := s; w_fs := g_fs G1; w_log := l |} {| w_s := s; w_fs := g_fs G2; w_log := l |}).
      { unfold WR. cbn. repeat split. exists sub. rewrite !graft_same by assumption. split; reflexivity. }
      destruct (step_frame users t a (g_fs G1) (g_fs G2) sub sub Na L1 L2 _ _ e W F) as [Wr Eo].
      destruct (step users t {| w_s := s; w_fs := g_fs G1; w_log := l |} e) as [x1 o1].
      destruct (step users t {| w_s := s; w_fs := g_fs G2; w_log := l |} e) as [x2 o2].
      cbn [fst snd] in *. destruct Wr as (Es & El & sub' & E1 & E2). subst o2.
      exists sub', (w_s x1, w_log x1). rewrite <- Es, <- El, E1, E2. repeat split.
    - exists sub, (end_sess s, l). cbn [fst snd]. rewrite !graft_same by assumption. repeat split.
  Qed.

  (* ---------------------------------------------------------------- 3. commutation *)
  Theorem disjoint_commute a b G i j ev1 ev2 sa sb :
    i <> j -> incomparable a b = true ->
    lookup a (g_fs G) = Some sa -> lookup b (g_fs G) = Some sb ->
    gfp_in t a G i ev1 = true -> gfp_in t b G j ev2 = true ->
    let Ga := gstep users t G i ev1 in
    let Gab := gstep users t (fst Ga) j ev2 in
    let Gb := gstep users t G j ev2 in
    let Gba := gstep users t (fst Gb) i ev1 in
    fst Gab = fst Gba /\ snd Ga = snd Gba /\ snd Gb = snd Gab.
  Proof.
    intros Nij Inc La Lb Fa Fb Ga Gab Gb Gba.
    destruct (incomparable_nonempty a b Inc) as [Na Nb].
    assert (Inc' : incomparable b a = true) by (rewrite incomparable_sym; exact Inc).
    (* shape of Gb from the frame of j on (G, G) *)
    destruct (gstep_frame b G G j ev2 sb Nb Lb Lb eq_refl Fb) as (sb1 & y1 & Eb1 & _ & _).
    (* frame of i between G and Gb *)
    assert (La' : lookup a (g_fs (fst Gb)) = Some sa).
    { unfold Gb. rewrite Eb1. cbn [g_fs]. rewrite lookup_graft_other by exact Inc'. exact La. }
    assert (Si : nth_error (g_ss G) i = nth_error (g_ss (fst Gb)) i).
    { unfold Gb. symmetry. apply locality. congruence. }
    destruct (gstep_frame a G (fst Gb) i ev1 sa Na La La' Si Fa) as (sa' & x & Ea & Eba & Eoa).
    (* frame of j between G and Ga *)
    assert (Lb' : lookup b (g_fs (fst Ga)) = Some sb).
    { unfold Ga. rewrite Ea. cbn [g_fs]. rewrite lookup_graft_other by exact Inc. exact Lb. }
    assert (Sj : nth_error (g_ss G) j = nth_error (g_ss (fst Ga)) j).
    { unfold Ga. symmetry. apply locality. exact Nij. }
    destruct (gstep_frame b G (fst Ga) j ev2 sb Nb Lb Lb' Sj Fb) as (sb' & y & Eb & Eab & Eob).
    fold Ga in Ea, Eab, Eoa, Eob. fold Gb in Eb, Eba, Eoa, Eob. fold Gab in Eab, Eob. fold Gba in Eba, Eoa.
    repeat split; [|exact Eoa|exact Eob].
    rewrite Eab, Eba, Ea, Eb. cbn [g_fs g_ss].
    rewrite (graft_comm a b sa' sb' (g_fs G) Inc), (upd_comm (g_ss G) i j x y Nij). reflexivity.
  Qed.
End GFrame.

(* ------------------------------------------------------------------ 4. interleavings *)
Lemma only_cons_same {A} i (x : A) r : only i ((i, x) :: r) = (i, x) :: only i r.
Proof. unfold only. cbn. rewrite Nat.eqb_refl. reflexivity. Qed.

Lemma only_cons_other {A} i j (x : A) r : i <> j -> only j ((i, x) :: r) = only j r.
Proof. intro N. unfold only. cbn. destruct (Nat.eqb_spec i j); [contradiction|reflexivity]. Qed.

Section Runs.
  Variable users : list user.
  Variable t : tbl.

  Lemma grun_cons_fst g i ev r :
    fst (grun users t g ((i, ev) :: r)) = fst (grun users t (fst (gstep users t g i ev)) r).
  Proof. cbn [grun]. destruct (gstep users t g i ev) as [g1 o]. cbn [fst snd]. destruct (grun users t g1 r). reflexivity. Qed.

  Lemma grun_cons_snd g i ev r :
    snd (grun users t g ((i, ev) :: r)) =
    (i, snd (gstep users t g i ev)) :: snd (grun users t (fst (gstep users t g i ev)) r).
  Proof. cbn [grun]. destruct (gstep users t g i ev) as [g1 o]. cbn [fst snd]. destruct (grun users t g1 r). reflexivity. Qed.

  Variable dirs : list (list text).
  Variable t0 : node.
  Hypothesis PW : pairwise_incomparable dirs = true.
  Hypothesis EX : forall a, In a dirs -> exists s, lookup a t0 = Some s.
  Hypothesis NE : forall a, In a dirs -> a <> [].

  Lemma pw_other : forall l i j a b,
    pairwise_incomparable l = true -> i <> j ->
    nth_error l i = Some a -> nth_error l j = Some b -> incomparable a b = true.
  Proof.
    induction l as [|h l IH]; intros i j a b P N Hi Hj; [destruct i; discriminate|].
    cbn in P. apply andb_true_iff in P as [Ph Pl]. rewrite forallb_forall in Ph.
    destruct i, j; cbn in Hi, Hj.
    - contradiction.
    - inversion Hi; subst. apply Ph. eapply nth_error_In. exact Hj.
    - inversion Hj; subst. rewrite incomparable_sym. apply Ph. eapply nth_error_In. exact Hi.
    - eapply IH; [exact Pl| |exact Hi|exact Hj]. intro E. apply N. congruence.
  Qed.

  Lemma lookup_grafts_other a (l : list (list text * node)) n :
    (forall b s, In (b, s) l -> incomparable b a = true) -> lookup a (grafts l n) = lookup a n.
  Proof.
    induction l as [|[b s] l IH]; intro H; cbn; [reflexivity|].
    rewrite lookup_graft_other by (eapply H; left; reflexivity).
    apply IH. intros b' s' Hin. eapply H. right. exact Hin.
  Qed.

  (* the subtree at session i's directory in a tree of grafts *)
  Lemma lookup_grafts : forall ds subs i a s n,
    pairwise_incomparable ds = true -> (exists z, lookup a n = Some z) ->
    nth_error ds i = Some a -> nth_error subs i = Some s ->
    lookup a (grafts (combine ds subs) n) = Some s.
  Proof.
    induction ds as [|d ds IH]; intros subs i a s n P Ez Hi Hs; [destruct i; discriminate|].
    destruct subs as [|s0 subs]; [destruct i; discriminate|].
    cbn in P. apply andb_true_iff in P as [Pd Pl]. rewrite forallb_forall in Pd.
    destruct i; cbn in Hi, Hs; cbn [combine grafts].
    - inversion Hi; inversion Hs; subst.
      destruct Ez as [z Ez].
      eapply lookup_graft_same. rewrite lookup_grafts_other; [exact Ez|].
      intros b s' Hin. rewrite incomparable_sym. apply Pd. apply in_combine_l in Hin. exact Hin.
    - rewrite lookup_graft_other by (apply Pd; eapply nth_error_In; exact Hi).
      eapply IH; eauto.
  Qed.

  Lemma graft_into_grafts : forall ds subs i a s' n,
    pairwise_incomparable ds = true -> List.length subs = List.length ds ->
    nth_error ds i = Some a ->
    graft a s' (grafts (combine ds subs) n) = grafts (combine ds (upd i s' subs)) n.
  Proof.
    induction ds as [|d ds IH]; intros subs i a s' n P Len Hi; [destruct i; discriminate|].
    destruct subs as [|s0 subs]; [discriminate|].
    cbn in P. apply andb_true_iff in P as [Pd Pl]. rewrite forallb_forall in Pd.
    destruct i; cbn in Hi; cbn [combine grafts upd].
    - inversion Hi; subst. apply graft_graft.
    - rewrite graft_comm by (rewrite incomparable_sym; apply Pd; eapply nth_error_In; exact Hi).
      rewrite (IH subs i a s' n Pl) by (cbn in Len; congruence || exact Hi). reflexivity.
  Qed.

  (* the interleaved state G and the SOLO states So i, tied by the per-directory subtrees *)
  Definition Inv (G : gstate) (So : nat -> gstate) (subs : list node) : Prop :=
    List.length subs = List.length dirs /\
    g_fs G = grafts (combine dirs subs) t0 /\
    forall i a s, nth_error dirs i = Some a -> nth_error subs i = Some s ->
                  g_fs (So i) = graft a s t0 /\ nth_error (g_ss (So i)) i = nth_error (g_ss G) i.

  Lemma Inv_ext G So So' subs : (forall i, So i = So' i) -> Inv G So subs -> Inv G So' subs.
  Proof.
    intros E (A & B & C). repeat split; try assumption; rewrite <- E; eapply C; eassumption.
  Qed.

  Lemma sim : forall es G So subs,
    Inv G So subs ->
    (forall i a, nth_error dirs i = Some a -> run_in users t a (So i) (only i es) = true) ->
    (forall i ev, In (i, ev) es -> (i < List.length dirs)%nat) ->
    exists subs',
      Inv (fst (grun users t G es)) (fun i => fst (grun users t (So i) (only i es))) subs' /\
      forall i, (i < List.length dirs)%nat ->
                proj i (snd (grun users t G es)) = map snd (snd (grun users t (So i) (only i es))).
  Proof.
    induction es as [|[i ev] r IH]; intros G So subs I RI LT.
    - exists subs. split; [exact I|]. intros; reflexivity.
    - destruct I as (Len & Efs & Each).
      assert (Li : (i < List.length dirs)%nat) by (eapply LT; left; reflexivity).
      destruct (nth_error dirs i) as [a|] eqn:Da; [|apply nth_error_None in Da; lia].
      destruct (nth_error subs i) as [s|] eqn:Sa; [|apply nth_error_None in Sa; lia].
      destruct (Each i a s Da Sa) as [Efi Esi].
      assert (Ina : In a dirs) by (eapply nth_error_In; exact Da).
      pose proof (NE a Ina) as Na. destruct (EX a Ina) as [z Ez].
      assert (LG : lookup a (g_fs G) = Some s).
      { rewrite Efs. eapply lookup_grafts; [exact PW|exists z; exact Ez|exact Da|exact Sa]. }
      assert (LS : lookup a (g_fs (So i)) = Some s).
      { rewrite Efi. eapply lookup_graft_same. exact Ez. }
      pose proof (RI i a Da) as Ri. rewrite only_cons_same in Ri. cbn [run_in] in Ri.
      apply andb_true_iff in Ri as [Fi Rr].
      destruct (gstep_frame users t a (So i) G i ev s Na LS LG Esi Fi) as (sub' & x & ES & EG & EO).
      set (So' := fun j => if Nat.eqb j i then fst (gstep users t (So i) i ev) else So j).
      destruct (IH (fst (gstep users t G i ev)) So' (upd i sub' subs)) as (subs' & I' & O').
      + unfold Inv. split; [rewrite upd_length; exact Len|]. split.
        * rewrite EG. cbn [g_fs]. rewrite Efs. apply graft_into_grafts; [exact PW|exact Len|exact Da].
        * intros j b sj Db Sj. unfold So'. destruct (Nat.eqb_spec j i) as [Eji|Nji]; [subst j|].
          -- rewrite Da in Db. inversion Db; subst b. rewrite nth_upd_same, Sa in Sj. inversion Sj; subst sj.
             rewrite ES, EG. cbn [g_fs g_ss]. split; [rewrite Efi; apply graft_graft|].
             rewrite !nth_upd_same, Esi. reflexivity.
          -- rewrite nth_upd_other in Sj by congruence. destruct (Each j b sj Db Sj) as [A B].
             split; [exact A|]. rewrite EG. cbn [g_ss]. rewrite nth_upd_other by congruence. exact B.
      + intros j b Db. unfold So'. destruct (Nat.eqb_spec j i) as [Eji|Nji]; [subst j|].
        * rewrite Da in Db. inversion Db; subst b. exact Rr.
        * specialize (RI j b Db). rewrite only_cons_other in RI by congruence. exact RI.
      + intros j ev' Hin. eapply LT. right. exact Hin.
      + exists subs'. split.
        * rewrite grun_cons_fst. eapply Inv_ext; [|exact I']. intro j. unfold So'.
          destruct (Nat.eqb_spec j i) as [Eji|Nji]; [subst j|].
          -- rewrite only_cons_same, grun_cons_fst. reflexivity.
          -- rewrite only_cons_other by congruence. reflexivity.
        * intros j Lj. rewrite grun_cons_snd. unfold proj. specialize (O' j Lj). unfold proj, So' in O'.
          destruct (Nat.eqb_spec j i) as [Eji|Nji]; [subst j|].
          -- rewrite !only_cons_same, grun_cons_snd. cbn [map snd]. rewrite O', EO. reflexivity.
          -- rewrite !(only_cons_other i j) by congruence. exact O'.
  Qed.

  Lemma combine_map {A B} (f : A -> B) (l : list A) : combine l (map f l) = map (fun x => (x, f x)) l.
  Proof. induction l as [|x l IH]; cbn; [reflexivity|]. rewrite IH. reflexivity. Qed.

  (* ---------------------------------------------------------------- isolation
     n sessions (n = length dirs); session i works under the pre-existing directory dirs[i]; the
     directories are pairwise incomparable.  Hypothesis on the SOLO runs only: every step of session
     i running alone from the initial state has its footprint inside dirs[i].  Then for ANY
     interleaving es (including QUIT and GDrop events anywhere):
       - session i's transcript (reply codes, PWD text, data bytes, listings) is its solo transcript;
       - its final record (login, cwd, pending rename, restart offset, listener, data, ended) is its solo one;
       - there are subtrees s_i with:  solo_i's final tree = t0 with dirs[i] replaced by s_i, and the
         interleaved final tree = t0 with EVERY dirs[i] replaced by s_i  (union of the solo effects). *)
  Theorem isolation ss0 es :
    let g0 := {| g_fs := t0; g_ss := ss0 |} in
    (forall i a, nth_error dirs i = Some a -> run_in users t a g0 (only i es) = true) ->
    (forall i ev, In (i, ev) es -> (i < List.length dirs)%nat) ->
    exists subs,
      List.length subs = List.length dirs /\
      g_fs (fst (grun users t g0 es)) = grafts (combine dirs subs) t0 /\
      forall i a, nth_error dirs i = Some a ->
        let solo := grun users t g0 (only i es) in
        proj i (snd (grun users t g0 es)) = map snd (snd solo) /\
        nth_error (g_ss (fst (grun users t g0 es))) i = nth_error (g_ss (fst solo)) i /\
        exists s, nth_error subs i = Some s /\
                  g_fs (fst solo) = graft a s t0 /\
                  lookup a (g_fs (fst (grun users t g0 es))) = Some s /\
                  lookup a (g_fs (fst solo)) = Some s.
  Proof.
    intros g0 RI LT.
    destruct (sim es g0 (fun _ => g0) (map (fun a => sub_at a t0) dirs)) as (subs & (Len & Efs & Each) & O).
    - unfold Inv. split; [apply map_length|]. split.
      + cbn [g_fs g0]. rewrite combine_map, grafts_same; [reflexivity|exact EX].
      + intros i a s Da Sa. split; [|reflexivity].
        rewrite nth_error_map, Da in Sa. cbn in Sa. inversion Sa; subst s.
        cbn [g_fs g0]. symmetry. apply graft_same.
        destruct (EX a (nth_error_In _ _ Da)) as [z Ez]. unfold sub_at. rewrite Ez. reflexivity.
    - exact RI.
    - exact LT.
    - exists subs. split; [exact Len|]. split; [exact Efs|].
      intros i a Da solo.
      assert (Li : (i < List.length dirs)%nat) by (apply nth_error_Some; congruence).
      destruct (nth_error subs i) as [s|] eqn:Sa; [|apply nth_error_None in Sa; lia].
      destruct (Each i a s Da Sa) as [Efi Esi].
      destruct (EX a (nth_error_In _ _ Da)) as [z Ez].
      split; [apply O; exact Li|]. split; [symmetry; exact Esi|].
      exists s. split; [reflexivity|]. split; [exact Efi|]. split.
      + rewrite Efs. eapply lookup_grafts; [exact PW|exists z; exact Ez|exact Da|exact Sa].
      + unfold solo. rewrite Efi. eapply lookup_graft_same. exact Ez.
  Qed.
End Runs.
