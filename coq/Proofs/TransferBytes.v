(* Proofs about Model/TransferBytes.v (C01). *)
From Coq Require Import ZArith Bool Arith String List Lia.
From Verif Require Import Lib.Sx Lib.Facts Lib.XferFacts Model.Bytes Model.TransferBytes Proofs.Bytes.
Import ListNotations.
Open Scope string_scope.
Open Scope list_scope.
Open Scope nat_scope.

(* ------------------------------------------------------------------------------------------ *)
(* A conforming read trace for the byte stream `s` and block size `block`:
   the successive values returned by read(block) are non-empty blocks of at most `block` bytes
   whose concatenation is `s`, followed by ONE empty read (EOF).  This is the assumption on
   read(): it returns an empty value only at EOF and hands the stream out in order, each byte
   once.  asyncio.StreamReader.read(n>=1), io.BytesIO.read(n) and a regular file's read(n)
   guarantee it (TRUSTED: read_conforming). *)
Definition conforming (block : nat) (s : bytes) (reads : list bytes) : Prop :=
  exists chunks,
    reads = chunks ++ [[]]
    /\ concat chunks = s
    /\ Forall (fun c => c <> [] /\ length c <= block) chunks.

Definition nonempty (c : bytes) : Prop := c <> [].

Lemma conforming_nonempty : forall block (chunks : list bytes),
  Forall (fun c => c <> [] /\ length c <= block) chunks -> Forall nonempty chunks.
Proof.
  intros block chunks H. eapply Forall_impl; [|exact H]. intros c [Hc _]. exact Hc.
Qed.

(* ------------------------------------------------------------------------------------------ *)
(* the network model only produces conforming traces                                           *)

Lemma deliver_preserves : forall k buf net b1 n1,
  deliver k buf net = (b1, n1) -> b1 ++ concat n1 = buf ++ concat net.
Proof.
  induction k as [|k IH]; intros buf net b1 n1 H.
  - cbn in H. injection H as <- <-. reflexivity.
  - destruct net as [|s net'].
    + cbn in H. injection H as <- <-. reflexivity.
    + cbn [deliver] in H. apply IH in H. rewrite H. cbn [concat]. now rewrite app_assoc.
Qed.

Lemma wait_data_preserves : forall net buf b2 n2,
  wait_data buf net = (b2, n2) -> b2 ++ concat n2 = buf ++ concat net.
Proof.
  induction net as [|s net' IH]; intros buf b2 n2 H.
  - destruct buf; cbn in H; injection H as <- <-; reflexivity.
  - destruct buf as [|x buf].
    + cbn [wait_data] in H. apply IH in H. rewrite H. reflexivity.
    + cbn in H. injection H as <- <-. reflexivity.
Qed.

(* after the blocking wait an empty buffer means the network is exhausted: EOF *)
Lemma wait_data_eof : forall net buf n2, wait_data buf net = ([], n2) -> n2 = [].
Proof.
  induction net as [|s net' IH]; intros buf n2 H.
  - destruct buf; cbn in H; inversion H; reflexivity.
  - destruct buf as [|x buf].
    + cbn [wait_data] in H. now apply IH in H.
    + cbn in H. discriminate.
Qed.

Lemma sock_read_spec : forall block o buf net d b' n',
  1 <= block ->
  sock_read block o buf net = (d, (b', n')) ->
  d ++ b' ++ concat n' = buf ++ concat net
  /\ length d <= block
  /\ (d = [] -> buf ++ concat net = []).
Proof.
  intros block o buf net d b' n' Hb H. unfold sock_read in H.
  destruct (deliver (fst o) buf net) as [b1 n1] eqn:Hd.
  destruct (wait_data b1 n1) as [b2 n2] eqn:Hw.
  injection H as <- <- <-.
  apply deliver_preserves in Hd. pose proof (wait_data_preserves _ _ _ _ Hw) as Hp.
  repeat split.
  - rewrite app_assoc, firstn_skipn. congruence.
  - rewrite firstn_length. pose proof (take_len_le_block block (snd o) (length b2) Hb). lia.
  - intro Hnil. apply firstn_pos_nil in Hnil; [|apply take_len_pos].
    subst b2. apply wait_data_eof in Hw. subst n2. rewrite <- Hd, <- Hp. reflexivity.
Qed.

Lemma sock_reads_conforming : forall fuel block oracle buf net,
  1 <= block ->
  length (buf ++ concat net) < fuel ->
  conforming block (buf ++ concat net) (sock_reads fuel block oracle buf net).
Proof.
  induction fuel as [|f IH]; intros block oracle buf net Hb Hf; [lia|].
  cbn [sock_reads].
  set (o := match oracle with [] => (0, block) | x :: _ => x end).
  destruct (sock_read block o buf net) as [d [b' n']] eqn:Hr.
  destruct (sock_read_spec _ _ _ _ _ _ _ Hb Hr) as [Hcat [Hlen Hnil]].
  destruct d as [|x d].
  - exists []. rewrite (Hnil eq_refl). repeat split. constructor.
  - assert (Hf' : length (b' ++ concat n') < f).
    { rewrite <- Hcat in Hf. rewrite app_length in Hf. cbn [length] in Hf. lia. }
    destruct (IH block (tl oracle) b' n' Hb Hf') as [chunks [Hreads [Hconcat Hall]]].
    exists ((x :: d) :: chunks). repeat split.
    + rewrite Hreads. reflexivity.
    + cbn [concat]. rewrite Hconcat. exact Hcat.
    + constructor; [split; [congruence|exact Hlen]|exact Hall].
Qed.

Lemma sock_trace_conforming : forall block oracle segs,
  1 <= block -> conforming block (concat segs) (sock_trace block oracle segs).
Proof.
  intros block oracle segs Hb. unfold sock_trace.
  change (concat segs) with ([] ++ concat segs) at 2.
  apply sock_reads_conforming; [exact Hb|]. cbn [app]. lia.
Qed.

Lemma cut_by_concat : forall sizes s, concat (cut_by sizes s) = s.
Proof.
  induction sizes as [|n r IH]; intros s.
  - destruct s; cbn; [reflexivity|now rewrite app_nil_r].
  - destruct s as [|x s]; [reflexivity|]. cbn [cut_by concat]. rewrite IH. apply firstn_skipn.
Qed.

Lemma cut_by_nonempty : forall sizes s, Forall nonempty (cut_by sizes s).
Proof.
  induction sizes as [|n r IH]; intros s.
  - destruct s; cbn; constructor; [unfold nonempty; congruence|constructor].
  - destruct s as [|x s]; [constructor|]. cbn [cut_by]. constructor; [|apply IH].
    unfold nonempty. destruct (Nat.max 1 n) eqn:E; [lia|]. cbn. congruence.
Qed.

(* ------------------------------------------------------------------------------------------ *)
(* backend reads are conforming too                                                            *)

Lemma h_read_spec : forall block r h d h',
  1 <= block ->
  h_read block r h = (d, h') ->
  h_content h' = h_content h
  /\ d ++ skipn (h_pos h') (h_content h) = skipn (h_pos h) (h_content h)
  /\ h_pos h' = h_pos h + length d
  /\ length d <= block
  /\ (d = [] -> skipn (h_pos h) (h_content h) = []).
Proof.
  intros block r [content pos] d h' Hb H. unfold h_read in H. cbn [h_content h_pos] in *.
  injection H as <- <-. cbn [h_content h_pos].
  set (avail := skipn pos content).
  set (n := take_len block r (length avail)).
  repeat split.
  - rewrite <- (skipn_skipn' (length (firstn n avail)) pos). fold avail.
    rewrite skipn_firstn_length. apply firstn_skipn.
  - rewrite firstn_length. pose proof (take_len_le_block block r (length avail) Hb). fold n in H. lia.
  - intro Hnil. apply firstn_pos_nil in Hnil; [exact Hnil|apply take_len_pos].
Qed.

Lemma file_reads_conforming : forall fuel block oracle h,
  1 <= block ->
  length (skipn (h_pos h) (h_content h)) < fuel ->
  conforming block (skipn (h_pos h) (h_content h)) (file_reads fuel block oracle h).
Proof.
  induction fuel as [|f IH]; intros block oracle h Hb Hf; [lia|].
  cbn [file_reads].
  set (r := match oracle with [] => block | x :: _ => x end).
  destruct (h_read block r h) as [d h'] eqn:Hr.
  destruct (h_read_spec _ _ _ _ _ Hb Hr) as [Hc [Hcat [Hpos [Hlen Hnil]]]].
  destruct d as [|x d].
  - exists []. rewrite (Hnil eq_refl). repeat split. constructor.
  - assert (Hf' : length (skipn (h_pos h') (h_content h')) < f).
    { rewrite Hc. rewrite <- Hcat in Hf. rewrite app_length in Hf. cbn [length] in Hf. lia. }
    destruct (IH block (tl oracle) h' Hb Hf') as [chunks [Hreads [Hconcat Hall]]].
    exists ((x :: d) :: chunks). repeat split.
    + rewrite Hreads. reflexivity.
    + cbn [concat]. rewrite Hconcat, Hc. exact Hcat.
    + constructor; [split; [congruence|exact Hlen]|exact Hall].
Qed.

Lemma file_trace_conforming : forall block oracle h,
  1 <= block ->
  conforming block (skipn (h_pos h) (h_content h)) (file_trace block oracle h).
Proof.
  intros block oracle h Hb. unfold file_trace. apply file_reads_conforming; [exact Hb|].
  rewrite skipn_length. lia.
Qed.

(* ------------------------------------------------------------------------------------------ *)
(* the iterator on a conforming trace: nothing is truncated                                    *)

Lemma iter_blocks_chunks : forall chunks rest,
  Forall nonempty chunks -> iter_blocks (chunks ++ [] :: rest) = chunks.
Proof.
  induction chunks as [|c r IH]; intros rest H; [reflexivity|].
  inversion H as [|? ? Hc Hr]; subst. cbn [app iter_blocks].
  destruct c as [|x c]; [now elim Hc|]. now rewrite IH.
Qed.

(* early_stop_impossible: on a conforming trace the iterator yields blocks whose concatenation
   is the WHOLE stream: the first empty read is the EOF *)
Lemma iter_blocks_conforming : forall block s reads,
  conforming block s reads ->
  concat (iter_blocks reads) = s
  /\ Forall (fun c => c <> [] /\ length c <= block) (iter_blocks reads).
Proof.
  intros block s reads [chunks [Hr [Hc Hall]]]. subst reads.
  rewrite iter_blocks_chunks by (eapply conforming_nonempty; exact Hall).
  split; assumption.
Qed.

(* the loops are folds over the yielded blocks *)
Lemma stor_loop_iter : forall reads h,
  stor_loop h reads = fold_left (fun h d => h_write d h) (iter_blocks reads) h.
Proof.
  induction reads as [|d r IH]; intros h; [reflexivity|].
  cbn [stor_loop iter_blocks]. destruct d as [|x d]; [reflexivity|]. cbn [fold_left]. apply IH.
Qed.

Lemma send_loop_iter : forall reads sent, send_loop sent reads = sent ++ concat (iter_blocks reads).
Proof.
  induction reads as [|d r IH]; intros sent; cbn [send_loop iter_blocks].
  - cbn. now rewrite app_nil_r.
  - destruct d as [|x d]; [cbn; now rewrite app_nil_r|].
    rewrite IH. cbn [concat]. now rewrite app_assoc.
Qed.

Lemma stor_loop_conforming : forall block s reads h,
  conforming block s reads ->
  stor_loop h reads = mkH (write_at (h_pos h) s (h_content h)) (h_pos h + length s).
Proof.
  intros block s reads h Hc. rewrite stor_loop_iter, fold_write_concat.
  destruct (iter_blocks_conforming _ _ _ Hc) as [-> _]. reflexivity.
Qed.

Lemma send_loop_conforming : forall block s reads sent,
  conforming block s reads -> send_loop sent reads = sent ++ s.
Proof.
  intros block s reads sent Hc. rewrite send_loop_iter.
  destruct (iter_blocks_conforming _ _ _ Hc) as [-> _]. reflexivity.
Qed.

(* ------------------------------------------------------------------------------------------ *)
(* mode tables                                                                                 *)

(* the open-mode table selects r+b exactly under a restart offset, the verb's own mode otherwise *)
Definition stor_table_ok (table : list string) : Prop :=
  forall vm, select_mode table vm true = Some RPB /\ select_mode table vm false = Some vm.

Definition retr_table_ok (table : list string) : Prop :=
  forall restart, select_mode table RB restart = Some RB.

Definition check_stor_table (table : list string) : bool :=
  forallb (fun vm =>
    match select_mode table vm true, select_mode table vm false with
    | Some RPB, Some m => match vm, m with WB, WB | AB, AB | RPB, RPB | RB, RB => true | _, _ => false end
    | _, _ => false
    end) [WB; AB; RPB; RB].

Definition check_retr_table (table : list string) : bool :=
  forallb (fun r => match select_mode table RB r with Some RB => true | _ => false end) [true; false].

Lemma check_stor_table_sound : forall table, check_stor_table table = true -> stor_table_ok table.
Proof.
  intros table H vm. unfold check_stor_table in H. rewrite forallb_forall in H.
  assert (Hin : In vm [WB; AB; RPB; RB]) by (destruct vm; cbn; tauto).
  specialize (H vm Hin).
  destruct (select_mode table vm true) as [[]|]; try discriminate.
  destruct (select_mode table vm false) as [m|]; try discriminate.
  destruct vm, m; try discriminate; split; reflexivity.
Qed.

Lemma check_retr_table_sound : forall table, check_retr_table table = true -> retr_table_ok table.
Proof.
  intros table H restart. unfold check_retr_table in H. rewrite forallb_forall in H.
  assert (Hin : In restart [true; false]) by (destruct restart; cbn; tauto).
  specialize (H restart Hin).
  destruct (select_mode table RB restart) as [[]|]; try discriminate. reflexivity.
Qed.

Lemma expected_stor_table_ok : stor_table_ok expected_stor_modes.
Proof. apply check_stor_table_sound. vm_compute. reflexivity. Qed.

Lemma expected_retr_table_ok : retr_table_ok expected_retr_modes.
Proof. apply check_retr_table_sound. vm_compute. reflexivity. Qed.

(* ------------------------------------------------------------------------------------------ *)
(* the workers on conforming traces                                                            *)

Definition store_mode (m : mode) : Prop := m = WB \/ m = AB.

Theorem stor_worker_exact : forall table vm off old block payload reads,
  stor_table_ok table ->
  store_mode vm ->
  conforming block payload reads ->
  stor_worker table vm off old reads = Some (spec_store vm off payload old).
Proof.
  intros table vm off old block payload reads Ht Hvm Hc. unfold stor_worker.
  destruct (Ht vm) as [Hr Hn].
  destruct off as [|off'].
  - cbn [Nat.eqb negb]. rewrite Hn. f_equal.
    rewrite (stor_loop_conforming _ _ _ _ Hc). cbn [h_content].
    destruct Hvm as [-> | ->]; cbn [h_open h_pos h_content spec_store].
    + apply write_at_0_nil.
    + apply write_at_end.
  - cbn [Nat.eqb negb]. rewrite Hr. f_equal.
    rewrite (stor_loop_conforming _ _ _ _ Hc). reflexivity.
Qed.

Theorem retr_worker_exact : forall table off content block oracle,
  retr_table_ok table ->
  1 <= block ->
  retr_worker table off content block oracle = Some (spec_retr off content).
Proof.
  intros table off content block oracle Ht Hb. unfold retr_worker. rewrite Ht. f_equal.
  set (h1 := if negb (off =? 0) then h_seek off (h_open RB content) else h_open RB content).
  assert (Hh : skipn (h_pos h1) (h_content h1) = spec_retr off content).
  { subst h1. destruct off; reflexivity. }
  rewrite (send_loop_conforming block _ _ [] (file_trace_conforming block oracle h1 Hb)).
  cbn [app]. exact Hh.
Qed.

(* ------------------------------------------------------------------------------------------ *)
(* end to end                                                                                  *)

(* stor_exact: every payload, every segmentation of it, every schedule of arrivals and read
   sizes, every block size >= 1, both verbs, every offset, every pre-existing content *)
Theorem stor_exact : forall table vm off old block payload segs oracle,
  stor_table_ok table ->
  store_mode vm ->
  1 <= block ->
  concat segs = payload ->
  e2e_stor table vm off old block segs oracle = Some (spec_store vm off payload old).
Proof.
  intros table vm off old block payload segs oracle Ht Hvm Hb Hseg. unfold e2e_stor.
  apply stor_worker_exact with (block := block); try assumption.
  rewrite <- Hseg. now apply sock_trace_conforming.
Qed.

(* the same with the client's own chunking of its writes made explicit *)
Theorem stor_exact_client_chunks : forall table vm off old block chunks segs oracle,
  stor_table_ok table -> store_mode vm -> 1 <= block ->
  concat segs = client_wire chunks ->
  e2e_stor table vm off old block segs oracle = Some (spec_store vm off (concat chunks) old).
Proof. intros. now apply stor_exact. Qed.

(* an empty chunk written by the caller queues nothing on the real stream, while the iterator-style
   loop of the model would stop on it: client_send is the model of the caller's loop over NON-EMPTY
   chunks; client_wire (= concat) is the wire for any chunk list *)
Lemma client_send_nonempty : forall chunks,
  Forall nonempty chunks -> client_send chunks = client_wire chunks.
Proof.
  intros chunks H. unfold client_send, client_wire. rewrite send_loop_iter. cbn [app].
  now rewrite iter_blocks_chunks.
Qed.

Theorem retr_exact : forall table off content block foracle cuts cblock coracle,
  retr_table_ok table ->
  1 <= block -> 1 <= cblock ->
  e2e_retr table off content block foracle cuts cblock coracle = Some (spec_retr off content).
Proof.
  intros table off content block foracle cuts cblock coracle Ht Hb Hcb. unfold e2e_retr.
  rewrite (retr_worker_exact _ _ _ _ _ Ht Hb). f_equal. unfold client_recv.
  pose proof (sock_trace_conforming cblock coracle (cut_by cuts (spec_retr off content)) Hcb) as Hc.
  rewrite cut_by_concat in Hc.
  now rewrite (send_loop_conforming _ _ _ [] Hc).
Qed.

(* any segmentation, not only those produced by cut_by *)
Theorem retr_exact_segs : forall table off content block foracle segs cblock coracle wire,
  retr_table_ok table -> 1 <= block -> 1 <= cblock ->
  retr_worker table off content block foracle = Some wire ->
  concat segs = wire ->
  client_recv (sock_trace cblock coracle segs) = spec_retr off content.
Proof.
  intros table off content block foracle segs cblock coracle wire Ht Hb Hcb Hw Hs.
  rewrite (retr_worker_exact _ _ _ _ _ Ht Hb) in Hw. injection Hw as <-.
  unfold client_recv. pose proof (sock_trace_conforming cblock coracle segs Hcb) as Hc.
  rewrite Hs in Hc. now rewrite (send_loop_conforming _ _ _ [] Hc).
Qed.

(* chunking_irrelevant: two runs that differ in block size, segmentation, schedules, read sizes
   and client chunking store / deliver the same bytes *)
Theorem stor_chunking_irrelevant : forall table vm off old payload
    block1 segs1 oracle1 block2 segs2 oracle2,
  stor_table_ok table -> store_mode vm ->
  1 <= block1 -> 1 <= block2 ->
  concat segs1 = payload -> concat segs2 = payload ->
  e2e_stor table vm off old block1 segs1 oracle1 = e2e_stor table vm off old block2 segs2 oracle2.
Proof.
  intros. rewrite (stor_exact table vm off old block1 payload segs1 oracle1) by assumption.
  now rewrite (stor_exact table vm off old block2 payload segs2 oracle2) by assumption.
Qed.

Theorem retr_chunking_irrelevant : forall table off content
    block1 foracle1 cuts1 cblock1 coracle1 block2 foracle2 cuts2 cblock2 coracle2,
  retr_table_ok table ->
  1 <= block1 -> 1 <= cblock1 -> 1 <= block2 -> 1 <= cblock2 ->
  e2e_retr table off content block1 foracle1 cuts1 cblock1 coracle1
  = e2e_retr table off content block2 foracle2 cuts2 cblock2 coracle2.
Proof. intros. now rewrite !retr_exact by assumption. Qed.

(* high-level upload(): local file read in blocks, each written to the stream *)
Theorem upload_exact : forall table vm off old local cblock coracle block segs oracle,
  stor_table_ok table -> store_mode vm -> 1 <= cblock -> 1 <= block ->
  concat segs = client_upload_wire local cblock coracle ->
  e2e_stor table vm off old block segs oracle = Some (spec_store vm off local old).
Proof.
  intros table vm off old local cblock coracle block segs oracle Ht Hvm Hcb Hb Hs.
  apply stor_exact; try assumption. rewrite Hs. unfold client_upload_wire.
  pose proof (file_trace_conforming cblock coracle (h_open RB local) Hcb) as Hc.
  change (skipn (h_pos (h_open RB local)) (h_content (h_open RB local))) with local in Hc.
  now rewrite (send_loop_conforming _ _ _ [] Hc).
Qed.

(* high-level download(): the blocks read from the data connection written to a fresh file *)
Theorem download_exact : forall table off content block foracle segs cblock coracle wire,
  retr_table_ok table -> 1 <= block -> 1 <= cblock ->
  retr_worker table off content block foracle = Some wire ->
  concat segs = wire ->
  client_download_file (sock_trace cblock coracle segs) = spec_retr off content.
Proof.
  intros table off content block foracle segs cblock coracle wire Ht Hb Hcb Hw Hs.
  rewrite (retr_worker_exact _ _ _ _ _ Ht Hb) in Hw. injection Hw as <-.
  unfold client_download_file. pose proof (sock_trace_conforming cblock coracle segs Hcb) as Hc.
  rewrite Hs in Hc. rewrite (stor_loop_conforming _ _ _ _ Hc).
  cbn [h_open h_pos h_content]. apply write_at_0_nil.
Qed.

(* early_stop_impossible, stated for the network model: the blocks the `async for` sees are the
   whole payload, whatever the segmentation and schedule *)
Theorem early_stop_impossible : forall block oracle segs,
  1 <= block ->
  concat (iter_blocks (sock_trace block oracle segs)) = concat segs
  /\ Forall (fun c => c <> [] /\ length c <= block) (iter_blocks (sock_trace block oracle segs)).
Proof.
  intros block oracle segs Hb. apply iter_blocks_conforming. now apply sock_trace_conforming.
Qed.

(* ... and the hypothesis matters: a read that returns empty before EOF truncates the file *)
Lemma nonconforming_truncates :
  h_content (stor_loop (h_open WB []) [[1%Z]; []; [2%Z]; []]) = [1%Z].
Proof. reflexivity. Qed.

(* ------------------------------------------------------------------------------------------ *)
(* reply_after_close and visible_after_226                                                     *)

Lemma v_run_app : forall old s1 s2, v_run old (s1 ++ s2) = fold_left v_step s2 (v_run old s1).
Proof. intros. unfold v_run. apply fold_left_app. Qed.

(* writes: the handle follows stor_loop; the visible content is not constrained *)
Lemma write_steps_handle : forall blocks flushes v,
  v_handle (fold_left v_step (write_steps blocks flushes) v)
  = fold_left (fun h d => h_write d h) blocks (v_handle v)
  /\ v_file_open (fold_left v_step (write_steps blocks flushes) v) = v_file_open v
  /\ v_at_reply (fold_left v_step (write_steps blocks flushes) v) = v_at_reply v.
Proof.
  induction blocks as [|d r IH]; intros flushes v; [cbn; auto|].
  cbn [write_steps fold_left].
  destruct (IH (tl flushes) (v_step v (SWrite d (hd false flushes)))) as [H1 [H2 H3]].
  rewrite H1, H2, H3. cbn. auto.
Qed.

(* ctx lists a file context: leaving the contexts closes the file *)
Definition has_file (ctx : list string) : bool := existsb (fun c => negb (String.eqb c "STREAM")) ctx.

Definition is_exit (s : step) : Prop := s = SCloseStream \/ s = SCloseFile.
Definition settled (v : vstate) : Prop :=
  v_visible v = h_content (v_handle v) /\ v_file_open v = false.

Lemma exit_fold_keeps : forall l v, Forall is_exit l ->
  v_handle (fold_left v_step l v) = v_handle v
  /\ v_at_reply (fold_left v_step l v) = v_at_reply v
  /\ (settled v -> settled (fold_left v_step l v)).
Proof.
  induction l as [|s l IH]; intros v H; [cbn; auto|].
  inversion H as [|? ? Hs Hl]; subst. cbn [fold_left].
  destruct (IH (v_step v s) Hl) as [A [B C]].
  destruct Hs as [-> | ->].
  - cbn [v_step] in *. auto.
  - rewrite A, B. cbn [v_step v_handle v_at_reply]. split; [reflexivity|split; [reflexivity|]].
    intros _. apply C. split; reflexivity.
Qed.

Lemma exit_fold_closes : forall l v, Forall is_exit l -> In SCloseFile l ->
  settled (fold_left v_step l v).
Proof.
  induction l as [|s l IH]; intros v H Hin; [contradiction|].
  inversion H as [|? ? Hs Hl]; subst. cbn [fold_left].
  destruct Hin as [-> | Hin].
  - apply (exit_fold_keeps l _ Hl). split; reflexivity.
  - now apply IH.
Qed.

Lemma exit_steps_close : forall ctx v,
  has_file ctx = true ->
  settled (fold_left v_step (exit_steps ctx) v)
  /\ v_handle (fold_left v_step (exit_steps ctx) v) = v_handle v
  /\ v_at_reply (fold_left v_step (exit_steps ctx) v) = v_at_reply v.
Proof.
  intros ctx v Hf.
  assert (Hall : Forall is_exit (exit_steps ctx)).
  { unfold exit_steps. apply Forall_forall. intros s Hs. apply in_map_iff in Hs.
    destruct Hs as [c [<- _]]. unfold is_exit. destruct (String.eqb c "STREAM"); auto. }
  assert (Hin : In SCloseFile (exit_steps ctx)).
  { unfold has_file in Hf. apply existsb_exists in Hf. destruct Hf as [c [Hc Hn]].
    unfold exit_steps. apply in_map_iff. exists c. split; [|now apply in_rev in Hc].
    apply negb_true_iff in Hn. now rewrite Hn. }
  destruct (exit_fold_keeps _ v Hall) as [A [B _]].
  repeat split; try assumption; now apply exit_fold_closes.
Qed.

(* reply_after_close: when the completion reply follows the outermost `async with`
   (w_reply_after_ctx) the 226 is queued with the file closed and every other opener already
   sees the final content -- for every flush behaviour of the backend *)
Theorem reply_after_close : forall ctx m off old blocks flushes,
  has_file ctx = true ->
  v_at_reply (v_run old (stor_script true ctx m off blocks flushes))
  = Some (h_content (fold_left (fun h d => h_write d h) blocks
                               (if off =? 0 then h_open m old else h_seek off (h_open m old))),
          false).
Proof.
  intros ctx m off old blocks flushes Hf. unfold stor_script.
  rewrite v_run_app, !fold_left_app.
  set (v1 := v_run old [SOpen m]).
  set (v2 := fold_left v_step (if off =? 0 then [] else [SSeek off]) v1).
  assert (Hv2 : v_handle v2 = (if off =? 0 then h_open m old else h_seek off (h_open m old))
                /\ v_at_reply v2 = None).
  { subst v2 v1. destruct (off =? 0); cbn; auto. }
  destruct Hv2 as [Hh2 Hr2].
  destruct (write_steps_handle blocks flushes v2) as [Hh3 [_ Hr3]].
  set (v3 := fold_left v_step (write_steps blocks flushes) v2) in *.
  destruct (exit_steps_close ctx v3 Hf) as [[Hvis Hopen] [Hh4 _]].
  cbn [fold_left v_step v_at_reply]. rewrite Hvis, Hopen, Hh4, Hh3, Hh2. reflexivity.
Qed.

(* visible_after_226: with the reply after the contexts, what any other session can read when
   the 226 is queued is exactly the specified file *)
Theorem visible_after_226 : forall table vm off old block payload reads ctx flushes m,
  stor_table_ok table -> store_mode vm ->
  conforming block payload reads ->
  has_file ctx = true ->
  select_mode table vm (negb (off =? 0)) = Some m ->
  v_at_reply (v_run old (stor_script true ctx m off (iter_blocks reads) flushes))
  = Some (spec_store vm off payload old, false).
Proof.
  intros table vm off old block payload reads ctx flushes m Ht Hvm Hc Hf Hm.
  rewrite reply_after_close by assumption. f_equal. f_equal.
  pose proof (stor_worker_exact table vm off old block payload reads Ht Hvm Hc) as Hw.
  unfold stor_worker in Hw. rewrite Hm in Hw. injection Hw as Hw.
  rewrite stor_loop_iter in Hw. rewrite <- Hw.
  destruct off; reflexivity.
Qed.

(* the structural fact is necessary: with the reply inside the `async with` a backend that
   buffers shows other sessions a stale file at the time of the 226 *)
Lemma reply_inside_ctx_stale :
  v_at_reply (v_run [9%Z] (stor_script false ["FILE"; "STREAM"] WB 0 [[1%Z]; [2%Z]] []))
  = Some ([], true).
Proof. reflexivity. Qed.

(* what a later observer gets once the visible content is the specified file *)
Theorem later_retr_sees_new_content : forall rtable vm off payload old off' block foracle cuts cblock coracle,
  retr_table_ok rtable -> 1 <= block -> 1 <= cblock ->
  e2e_retr rtable off' (spec_store vm off payload old) block foracle cuts cblock coracle
  = Some (skipn off' (spec_store vm off payload old)).
Proof. intros. now apply retr_exact. Qed.

(* ------------------------------------------------------------------------------------------ *)
(* the restart offset across the commands the client sends                                     *)

Definition exempt_ok (table : list (string * string)) (exempt : list string) : Prop :=
  mem_s "type" exempt = false /\ mem_s "stor" exempt = true /\ mem_s "appe" exempt = true
  /\ mem_s "retr" exempt = true
  /\ assoc_s "type" table <> None /\ assoc_s "rest" table <> None.

Definition check_exempt (table : list (string * string)) (exempt : list string) : bool :=
  negb (mem_s "type" exempt) && mem_s "stor" exempt && mem_s "appe" exempt && mem_s "retr" exempt
  && match assoc_s "type" table with Some _ => true | None => false end
  && match assoc_s "rest" table with Some _ => true | None => false end.

Lemma check_exempt_sound : forall t e, check_exempt t e = true -> exempt_ok t e.
Proof.
  intros t e H. unfold check_exempt in H. rewrite !andb_true_iff, negb_true_iff in H.
  destruct H as [[[[[H1 H2] H3] H4] H5] H6]. unfold exempt_ok.
  repeat split; try assumption.
  - destruct (assoc_s "type" t); [discriminate|discriminate].
  - destruct (assoc_s "rest" t); [discriminate|discriminate].
Qed.

Definition transfer_verb (v : string) : Prop := v = "stor" \/ v = "appe" \/ v = "retr".

(* REST o issued by get_stream reaches the transfer command, whatever happened before *)
Theorem rest_survives : forall table exempt hist off0 passive verb off,
  exempt_ok table exempt -> transfer_verb verb ->
  offset_after table exempt (hist ++ get_stream_cmds passive verb off) off0 = off.
Proof.
  intros table exempt hist off0 passive verb off [Ht [Hs [Ha [Hr [Htt Htr]]]]] Hv.
  unfold offset_after, get_stream_cmds. rewrite fold_left_app.
  set (o1 := fold_left (disp_step table exempt) hist off0).
  assert (Hverb : mem_s verb exempt = true) by (destruct Hv as [->|[->| ->]]; assumption).
  cbn [app fold_left disp_step].
  destruct (assoc_s "type" table) as [tt|]; [|congruence]. rewrite Ht.
  assert (Hp : match assoc_s passive table with
               | Some _ => if mem_s passive exempt then 0 else 0
               | None => 0
               end = 0).
  { destruct (assoc_s passive table); [destruct (mem_s passive exempt)|]; reflexivity. }
  rewrite Hp.
  destruct (assoc_s "rest" table) as [tr|] eqn:Erest; [|congruence].
  destruct off as [|off']; cbn [Nat.eqb app fold_left disp_step]; rewrite ?Erest, Hverb;
    destruct (assoc_s verb table); reflexivity.
Qed.

(* in particular a plain transfer (offset 0) issued through the client after a completed
   REST + transfer pair is served from offset 0 *)
Corollary plain_after_restart_pair : forall table exempt passive1 verb1 off1 passive2 verb2,
  exempt_ok table exempt -> transfer_verb verb1 -> transfer_verb verb2 ->
  offset_after table exempt (get_stream_cmds passive1 verb1 off1 ++ get_stream_cmds passive2 verb2 0) 0 = 0.
Proof. intros. now apply rest_survives. Qed.

(* F14 (belongs to C05, recorded there): without a non-exempt command in between the offset is
   re-used -- stated here only to delimit what rest_survives does NOT say *)
Lemma offset_reused_without_reset :
  offset_after [("rest", "rest"); ("retr", "retr")] ["retr"; "stor"; "appe"]
               [CRest 4; CVerb "retr"; CVerb "retr"] 0 = 4.
Proof. reflexivity. Qed.

(* a verb that is not in the table is answered 502 and does not touch the offset *)
Lemma unknown_verb_keeps_offset :
  offset_after [("rest", "rest"); ("retr", "retr")] ["retr"; "stor"; "appe"]
               [CRest 4; CVerb "noop"; CVerb "retr"] 0 = 4.
Proof. reflexivity. Qed.

(* ------------------------------------------------------------------------------------------ *)
(* the closed check on today's source implies the parametric hypotheses                        *)
Lemma list_string_eqb_eq : forall a b, list_string_eqb a b = true -> a = b.
Proof.
  induction a as [|x a IH]; intros [|y b] H; try reflexivity; try discriminate.
  unfold list_string_eqb in H. cbn [length Nat.eqb combine forallb fst snd] in H.
  rewrite !andb_true_iff in H. destruct H as [Hl [Hxy Hr]].
  apply String.eqb_eq in Hxy. subst y. f_equal. apply IH.
  unfold list_string_eqb. now rewrite Hl, Hr.
Qed.

Theorem check_dispatch_facts_sound : forall ws hs d,
  check_dispatch_facts ws hs d = true ->
  (exists sw, find_worker "stor_worker" ws = Some sw
              /\ stor_table_ok (w_open_modes sw) /\ w_reply_after_ctx sw = true)
  /\ (exists rw, find_worker "retr_worker" ws = Some rw
              /\ retr_table_ok (w_open_modes rw) /\ w_reply_after_ctx rw = true)
  /\ (exists ap, find_handler "appe" hs = Some ap /\ h_delegate ap = Some "stor")
  /\ exempt_ok (d_table d) (d_reset_exempt d)
  /\ d_reset_exempt d = ["retr"; "stor"; "appe"].
Proof.
  intros ws hs d H. unfold check_dispatch_facts in H. rewrite !andb_true_iff in H.
  destruct H as [[[[[[[Hs Hr] Ha] _] _] He] Htab] _].
  assert (W : forall name modes, check_worker ws name modes = true ->
              exists w, find_worker name ws = Some w /\ w_open_modes w = modes
                        /\ w_reply_after_ctx w = true).
  { intros name modes Hc. unfold check_worker in Hc.
    destruct (find_worker name ws) as [w|]; [|discriminate]. exists w.
    rewrite !andb_true_iff in Hc. destruct Hc as [[[[Hm Hra] _] _] _].
    apply list_string_eqb_eq in Hm. subst. auto. }
  apply list_string_eqb_eq in He.
  split; [|split; [|split; [|split]]].
  - destruct (W _ _ Hs) as [w [Hf [Hm Hra]]]. exists w. rewrite Hm.
    split; [exact Hf|split; [exact expected_stor_table_ok|assumption]].
  - destruct (W _ _ Hr) as [w [Hf [Hm Hra]]]. exists w. rewrite Hm.
    split; [exact Hf|split; [exact expected_retr_table_ok|assumption]].
  - destruct (find_handler "appe" hs) as [h|]; [|discriminate]. exists h. split; [reflexivity|].
    destruct (h_delegate h) as [t|]; [|discriminate]. apply String.eqb_eq in Ha. now subst.
  - rewrite forallb_forall in Htab.
    assert (Hin : forall v, In v ["stor"; "appe"; "retr"; "rest"; "type"; "pasv"; "epsv"] ->
                  assoc_s v (d_table d) <> None).
    { intros v Hv. specialize (Htab v Hv). destruct (assoc_s v (d_table d)); [discriminate|discriminate]. }
    rewrite He. unfold exempt_ok. repeat split; try reflexivity; apply Hin; cbn; tauto.
  - exact He.
Qed.

Lemma check_xfer_verb_modes : forall f, check_xfer_facts f = true ->
  verb_mode f "stor" = Some WB /\ verb_mode f "appe" = Some AB.
Proof.
  intros f H. unfold check_xfer_facts, check_xfer_modes in H. rewrite !andb_true_iff in H.
  destruct H as [[[[Hs Ha] _] _] _]. apply String.eqb_eq in Hs. apply String.eqb_eq in Ha.
  unfold verb_mode. rewrite Hs, Ha. split; reflexivity.
Qed.

Lemma check_xfer_ctx : forall f, check_xfer_facts f = true -> has_file (xf_stor_ctx f) = true.
Proof.
  intros f H. unfold check_xfer_facts, check_xfer_modes in H. rewrite !andb_true_iff in H.
  destruct H as [[[[_ _] Hc] _] _]. unfold ctx_roles_ok in Hc. rewrite !andb_true_iff in Hc.
  destruct Hc as [[_ Hfile] _]. unfold mem_s in Hfile. apply existsb_exists in Hfile.
  destruct Hfile as [c [Hin Hc]]. apply String.eqb_eq in Hc. subst c.
  unfold has_file. apply existsb_exists. exists "FILE". split; [exact Hin|reflexivity].
Qed.

Lemma verb_mode_store : forall f verb vm, check_xfer_facts f = true ->
  verb_mode f verb = Some vm -> store_mode vm /\ (verb = "stor" /\ vm = WB \/ verb = "appe" /\ vm = AB).
Proof.
  intros f verb vm Hc Hv. destruct (check_xfer_verb_modes f Hc) as [Hs Ha].
  unfold verb_mode in *. cbn [String.eqb Ascii.eqb Bool.eqb] in Hs, Ha.
  destruct (String.eqb verb "stor") eqn:E1.
  - apply String.eqb_eq in E1. subst verb. rewrite Hs in Hv. injection Hv as <-.
    split; [left; reflexivity|left; split; reflexivity].
  - destruct (String.eqb verb "appe") eqn:E2; [|discriminate].
    apply String.eqb_eq in E2. subst verb. rewrite Ha in Hv. injection Hv as <-.
    split; [right; reflexivity|right; split; reflexivity].
Qed.

(* ------------------------------------------------------------------------------------------ *)
(* the theorems with the structural hypotheses replaced by the closed checks on the extracted facts *)
Section Checked.
  Variables (ws : list worker) (hs : list handler) (d : dispatcher_facts) (f : xfer_facts).
  Hypothesis Hdisp : check_dispatch_facts ws hs d = true.
  Hypothesis Hxfer : check_xfer_facts f = true.

  Theorem stor_exact_checked : forall sw verb vm off old block payload segs oracle,
    find_worker "stor_worker" ws = Some sw ->
    verb_mode f verb = Some vm ->
    1 <= block ->
    concat segs = payload ->
    e2e_stor (w_open_modes sw) vm off old block segs oracle = Some (spec_store vm off payload old).
  Proof.
    intros sw verb vm off old block payload segs oracle Hsw Hvm Hb Hs.
    destruct (check_dispatch_facts_sound _ _ _ Hdisp) as [[sw' [Hsw' [Ht _]]] _].
    rewrite Hsw in Hsw'. injection Hsw' as <-.
    destruct (verb_mode_store _ _ _ Hxfer Hvm) as [Hst _].
    now apply stor_exact.
  Qed.

  Theorem retr_exact_checked : forall rw off content block foracle cuts cblock coracle,
    find_worker "retr_worker" ws = Some rw ->
    1 <= block -> 1 <= cblock ->
    e2e_retr (w_open_modes rw) off content block foracle cuts cblock coracle
    = Some (spec_retr off content).
  Proof.
    intros rw off content block foracle cuts cblock coracle Hrw Hb Hcb.
    destruct (check_dispatch_facts_sound _ _ _ Hdisp) as [_ [[rw' [Hrw' [Ht _]]] _]].
    rewrite Hrw in Hrw'. injection Hrw' as <-.
    now apply retr_exact.
  Qed.

  Theorem visible_after_226_checked : forall sw verb vm m off old block payload segs oracle flushes,
    find_worker "stor_worker" ws = Some sw ->
    verb_mode f verb = Some vm ->
    1 <= block -> concat segs = payload ->
    select_mode (w_open_modes sw) vm (negb (off =? 0)) = Some m ->
    v_at_reply (v_run old (stor_script (w_reply_after_ctx sw) (xf_stor_ctx f) m off
                                       (iter_blocks (sock_trace block oracle segs)) flushes))
    = Some (spec_store vm off payload old, false).
  Proof.
    intros sw verb vm m off old block payload segs oracle flushes Hsw Hvm Hb Hs Hm.
    destruct (check_dispatch_facts_sound _ _ _ Hdisp) as [[sw' [Hsw' [Ht Hra]]] _].
    rewrite Hsw in Hsw'. injection Hsw' as <-. rewrite Hra.
    pose proof (check_xfer_ctx _ Hxfer) as Hfile.
    destruct (verb_mode_store _ _ _ Hxfer Hvm) as [Hst _].
    apply visible_after_226 with (table := w_open_modes sw) (block := block); try assumption.
    rewrite <- Hs. now apply sock_trace_conforming.
  Qed.

  Theorem rest_survives_checked : forall hist off0 passive verb off,
    transfer_verb verb ->
    offset_after (d_table d) (d_reset_exempt d) (hist ++ get_stream_cmds passive verb off) off0 = off.
  Proof.
    intros. destruct (check_dispatch_facts_sound _ _ _ Hdisp) as [_ [_ [_ [He _]]]].
    now apply rest_survives.
  Qed.
End Checked.
