(* Proofs about Model/TransferBytes.v (C01). *)
From Coq Require Import ZArith Bool Arith String List Lia.
From Verif Require Import Lib.Sx Lib.Facts Lib.XferFacts Model.Bytes Model.TransferBytes Proofs.Bytes.
Import ListNotations.
Open Scope string_scope.
Open Scope list_scope.
Open Scope nat_scope.

(* ------------------------------------------------------------------------------------------ *)
(* A conforming read trace for the byte stream `s` and block size `block`:
   the successive values returned by read(block) are non-empty blocks of at most `block` bytes
   whose concatenation is `s`, followed by ONE empty read (EOF).  This is the assumption on
   read(): it returns an empty value only at EOF and hands the stream out in order, each byte
   once.  asyncio.StreamReader.read(n>=1), io.BytesIO.read(n) and a regular file's read(n)
   guarantee it (TRUSTED: read_conforming). *)
Definition conforming (block : nat) (s : bytes) (reads : list bytes) : Prop :=
  exists chunks,
    reads = chunks ++ [[]]
    /\ concat chunks = s
    /\ Forall (fun c => c <> [] /\ length c <= block) chunks.

Definition nonempty (c : bytes) : Prop := c <> [].

Lemma conforming_nonempty : forall block (chunks : list bytes),
  Forall (fun c => c <> [] /\ length c <= block) chunks -> Forall nonempty chunks.
Proof.
  intros block chunks H. eapply Forall_impl; [|exact H]. intros c [Hc _]. exact Hc.
Qed.

(* ------------------------------------------------------------------------------------------ *)
(* the network model only produces conforming traces                                           *)

Lemma deliver_preserves : forall k buf net b1 n1,
  deliver k buf net = (b1, n1) -> b1 ++ concat n1 = buf ++ concat net.
Proof.
  induction k as [|k IH]; intros buf net b1 n1 H.
  - cbn in H. injection H as <- <-. reflexivity.
  - destruct net as [|s net'].
    + cbn in H. injection H as <- <-. reflexivity.
    + cbn [deliver] in H. apply IH in H. rewrite H. cbn [concat]. now rewrite app_assoc.
Qed.

Lemma wait_data_preserves : forall net buf b2 n2,
  wait_data buf net = (b2, n2) -> b2 ++ concat n2 = buf ++ concat net.
Proof.
  induction net as [|s net' IH]; intros buf b2 n2 H.
  - destruct buf; cbn in H; injection H as <- <-; reflexivity.
  - destruct buf as [|x buf].
    + cbn [wait_data] in H. apply IH in H. rewrite H. reflexivity.
    + cbn in H. injection H as <- <-. reflexivity.
Qed.

(* after the blocking wait an empty buffer means the network is exhausted: EOF *)
Lemma wait_data_eof : forall net buf n2, wait_data buf net = ([], n2) -> n2 = [].
Proof.
  induction net as [|s net' IH]; intros buf n2 H.
  - destruct buf; cbn in H; inversion H; reflexivity.
  - destruct buf as [|x buf].
    + cbn [wait_data] in H. now apply IH in H.
    + cbn in H. discriminate.
Qed.

Lemma sock_read_spec : forall block o buf net d b' n',
  1 <= block ->
  sock_read block o buf net = (d, (b', n')) ->
  d ++ b' ++ concat n' = buf ++ concat net
  /\ length d <= block
  /\ (d = [] -> buf ++ concat net = []).
Proof.
  intros block o buf net d b' n' Hb H. unfold sock_read in H.
  destruct (deliver (fst o) buf net) as [b1 n1] eqn:Hd.
  destruct (wait_data b1 n1) as [b2 n2] eqn:Hw.
  injection H as <- <- <-.
  apply deliver_preserves in Hd. pose proof (wait_data_preserves _ _ _ _ Hw) as Hp.
  repeat split.
  - rewrite app_assoc, firstn_skipn. congruence.
  - rewrite firstn_length. pose proof (take_len_le_block block (snd o) (length b2) Hb). lia.
  - intro Hnil. apply firstn_pos_nil in Hnil; [|apply take_len_pos].
    subst b2. apply wait_data_eof in Hw. subst n2. rewrite <- Hd, <- Hp. reflexivity.
Qed.

Lemma sock_reads_conforming : forall fuel block oracle buf net,
  1 <= block ->
  length (buf ++ concat net) < fuel ->
  conforming block (buf ++ concat net) (sock_reads fuel block oracle buf net).
Proof.
  induction fuel as [|f IH]; intros block oracle buf net Hb Hf; [lia|].
  cbn [sock_reads].
  set (o := match oracle with [] => (0, block) | x :: _ => x end).
  destruct (sock_read block o buf net) as [d [b' n']] eqn:Hr.
  destruct (sock_read_spec _ _ _ _ _ _ _ Hb Hr) as [Hcat [Hlen Hnil]].
  destruct d as [|x d].
  - exists []. rewrite (Hnil eq_refl). repeat split. constructor.
  - assert (Hf' : length (b' ++ concat n') < f).
    { rewrite <- Hcat in Hf. rewrite app_length in Hf. cbn [length] in Hf. lia. }
    destruct (IH block (tl oracle) b' n' Hb Hf') as [chunks [Hreads [Hconcat Hall]]].
    exists ((x :: d) :: chunks). repeat split.
    + rewrite Hreads. reflexivity.
    + cbn [concat]. rewrite Hconcat. exact Hcat.
    + constructor; [split; [congruence|exact Hlen]|exact Hall].
Qed.

Lemma sock_trace_conforming : forall block oracle segs,
  1 <= block -> conforming block (concat segs) (sock_trace block oracle segs).
Proof.
  intros block oracle segs Hb. unfold sock_trace.
  change (concat segs) with ([] ++ concat segs) at 2.
  apply sock_reads_conforming; [exact Hb|]. cbn [app]. lia.
Qed.

Lemma cut_by_concat : forall sizes s, concat (cut_by sizes s) = s.
Proof.
  induction sizes as [|n r IH]; intros s.
  - destruct s; cbn; [reflexivity|now rewrite app_nil_r].
  - destruct s as [|x s]; [reflexivity|]. cbn [cut_by concat]. rewrite IH. apply firstn_skipn.
Qed.

Lemma cut_by_nonempty : forall sizes s, Forall nonempty (cut_by sizes s).
Proof.
  induction sizes as [|n r IH]; intros s.
  - destruct s; cbn; constructor; [unfold nonempty; congruence|constructor].
  - destruct s as [|x s]; [constructor|]. cbn [cut_by]. constructor; [|apply IH].
    unfold nonempty. destruct (Nat.max 1 n) eqn:E; [lia|]. cbn. congruence.
Qed.

(* ------------------------------------------------------------------------------------------ *)
(* backend reads are conforming too                                                            *)

Lemma h_read_spec : forall block r h d h',
  1 <= block ->
  h_read block r h = (d, h') ->
  h_content h' = h_content h
  /\ d ++ skipn (h_pos h') (h_content h) = skipn (h_pos h) (h_content h)
  /\ h_pos h' = h_pos h + length d
  /\ length d <= block
  /\ (d = [] -> skipn (h_pos h) (h_content h) = []).
Proof.
  intros block r [content pos] d h' Hb H. unfold h_read in H. cbn [h_content h_pos] in *.
  injection H as <- <-. cbn [h_content h_pos].
  set (avail := skipn pos content).
  set (n := take_len block r (length avail)).
  repeat split.
  - rewrite <- (skipn_skipn' (length (firstn n avail)) pos). fold avail.
    rewrite skipn_firstn_length. apply firstn_skipn.
  - rewrite firstn_length. pose proof (take_len_le_block block r (length avail) Hb). fold n in H. lia.
  - intro Hnil. apply firstn_pos_nil in Hnil; [exact Hnil|apply take_len_pos].
Qed.

Lemma file_reads_conforming : forall fuel block oracle h,
  1 <= block ->
  length (skipn (h_pos h) (h_content h)) < fuel ->
  conforming block (skipn (h_pos h) (h_content h)) (file_reads fuel block oracle h).
Proof.
  induction fuel as [|f IH]; intros block oracle h Hb Hf; [lia|].
  cbn [file_reads].
  set (r := match oracle with [] => block | x :: _ => x end).
  destruct (h_read block r h) as [d h'] eqn:Hr.
  destruct (h_read_spec _ _ _ _ _ Hb Hr) as [Hc [Hcat [Hpos [Hlen Hnil]]]].
  destruct d as [|x d].
  - exists []. rewrite (Hnil eq_refl). repeat split. constructor.
  - assert (Hf' : length (skipn (h_pos h') (h_content h')) < f).
    { rewrite Hc. rewrite <- Hcat in Hf. rewrite app_length in Hf. cbn [length] in Hf. lia. }
    destruct (IH block (tl oracle) h' Hb Hf') as [chunks [Hreads [Hconcat Hall]]].
    exists ((x :: d) :: chunks). repeat split.
    + rewrite Hreads. reflexivity.
    + cbn [concat]. rewrite Hconcat, Hc. exact Hcat.
    + constructor; [split; [congruence|exact Hlen]|exact Hall].
Qed.

Lemma file_trace_conforming : forall block oracle h,
  1 <= block ->
  conforming block (skipn (h_pos h) (h_content h)) (file_trace block oracle h).
Proof.
  intros block oracle h Hb. unfold file_trace. apply file_reads_conforming; [exact Hb|].
  rewrite skipn_length. lia.
Qed.

(* ------------------------------------------------------------------------------------------ *)
(* the iterator on a conforming trace: nothing is truncated                                    *)

Lemma iter_blocks_chunks : forall chunks rest,
  Forall nonempty chunks -> iter_blocks (chunks ++ [] :: rest) = chunks.
Proof.
  induction chunks as [|c r IH]; intros rest H; [reflexivity|].
  inversion H as [|? ? Hc Hr]; subst. cbn [app iter_blocks].
  destruct c as [|x c]; [now elim Hc|]. now rewrite IH.
Qed.

(* early_stop_impossible: on a conforming trace the iterator yields blocks whose concatenation
   is the WHOLE stream: the first empty read is the EOF *)
Lemma iter_blocks_conforming : forall block s reads,
  conforming block s reads ->
  concat (iter_blocks reads) = s
  /\ Forall (fun c => c <> [] /\ length c <= block) (iter_blocks reads).
Proof.
  intros block s reads [chunks [Hr [Hc Hall]]]. subst reads.
  rewrite iter_blocks_chunks by (eapply conforming_nonempty; exact Hall).
  split; assumption.
Qed.

(* the loops are folds over the yielded blocks *)
Lemma stor_loop_iter : forall reads h,
  stor_loop h reads = fold_left (fun h d => h_write d h) (iter_blocks reads) h.
Proof.
  induction reads as [|d r IH]; intros h; [reflexivity|].
  cbn [stor_loop iter_blocks]. destruct d as [|x d]; [reflexivity|]. cbn [fold_left]. apply IH.
Qed.

Lemma send_loop_iter : forall reads sent, send_loop sent reads = sent ++ concat (iter_blocks reads).
Proof.
  induction reads as [|d r IH]; intros sent; cbn [send_loop iter_blocks].
  - cbn. now rewrite app_nil_r.
  - destruct d as [|x d]; [cbn; now rewrite app_nil_r|].
    rewrite IH. cbn [concat]. now rewrite app_assoc.
Qed.

Lemma stor_loop_conforming : forall block s reads h,
  conforming block s reads ->
  stor_loop h reads = mkH (write_at (h_pos h) s (h_content h)) (h_pos h + length s).
Proof.
  intros block s reads h Hc. rewrite stor_loop_iter, fold_write_concat.
  destruct (iter_blocks_conforming _ _ _ Hc) as [-> _]. reflexivity.
Qed.

Lemma send_loop_conforming : forall block s reads sent,
  conforming block s reads -> send_loop sent reads = sent ++ s.
Proof.
  intros block s reads sent Hc. rewrite send_loop_iter.
  destruct (iter_blocks_conforming _ _ _ Hc) as [-> _]. reflexivity.
Qed.

(* ------------------------------------------------------------------------------------------ *)
(* mode tables                                                                                 *)

(* the open-mode table selects r+b exactly under a restart offset, the verb's own mode otherwise *)
Definition stor_table_ok (table : list string) : Prop :=
  forall vm, select_mode table vm true = Some RPB /\ select_mode table vm false = Some vm.

Definition retr_table_ok (table : list string) : Prop :=
  forall restart, select_mode table RB restart = Some RB.

Definition check_stor_table (table : list string) : bool :=
  forallb (fun vm =>
    match select_mode table vm true, select_mode table vm false with
    | Some RPB, Some m => match vm, m with WB, WB | AB, AB | RPB, RPB | RB, RB => true | _, _ => false end
    | _, _ => false
    end) [WB; AB; RPB; RB].

Definition check_retr_table (table : list string) : bool :=
  forallb (fun r => match select_mode table RB r with Some RB => true | _ => false end) [true; false].

Lemma check_stor_table_sound : forall table, check_stor_table table = true -> stor_table_ok table.
Proof.
  intros table H vm. unfold check_stor_table in H. rewrite forallb_forall in H.
  assert (Hin : In vm [WB; AB; RPB; RB]) by (destruct vm; cbn; tauto).
  specialize (H vm Hin).
  destruct (select_mode table vm true) as [[]|]; try discriminate.
  destruct (select_mode table vm false) as [m|]; try discriminate.
  destruct vm, m; try discriminate; split; reflexivity.
Qed.

Lemma check_retr_table_sound : forall table, check_retr_table table = true -> retr_table_ok table.
Proof.
  intros table H restart. unfold check_retr_table in H. rewrite forallb_forall in H.
  assert (Hin : In restart [true; false]) by (destruct restart; cbn; tauto).
  specialize (H restart Hin).
  destruct (select_mode table RB restart) as [[]|]; try discriminate. reflexivity.
Qed.

Lemma expected_stor_table_ok : stor_table_ok expected_stor_modes.
Proof. apply check_stor_table_sound. vm_compute. reflexivity. Qed.

Lemma expected_retr_table_ok : retr_table_ok expected_retr_modes.
Proof. apply check_retr_table_sound. vm_compute. reflexivity. Qed.

(* ------------------------------------------------------------------------------------------ *)
(* the workers on conforming traces                                                            *)

Definition store_mode (m : mode) : Prop := m = WB \/ m = AB.

Theorem stor_worker_exact : forall table vm off old block payload reads,
  stor_table_ok table ->
  store_mode vm ->
  conforming block payload reads ->
  stor_worker table vm off old reads = Some (spec_store vm off payload old).
Proof.
  intros table vm off old block payload reads Ht Hvm Hc. unfold stor_worker.
  destruct (Ht vm) as [Hr Hn].
  destruct off as [|off'].
  - cbn [Nat.eqb negb]. rewrite Hn. f_equal.
    rewrite (stor_loop_conforming _ _ _ _ Hc). cbn [h_content].
    destruct Hvm as [-> | ->]; cbn [h_open h_pos h_content spec_store].
    + apply write_at_0_nil.
    + apply write_at_end.
  - cbn [Nat.eqb negb]. rewrite Hr. f_equal.
    rewrite (stor_loop_conforming _ _ _ _ Hc). reflexivity.
Qed.

Theorem retr_worker_exact : forall table off content block oracle,
  retr_table_ok table ->
  1 <= block ->
  retr_worker table off content block oracle = Some (spec_retr off content).
Proof.
  intros table off content block oracle Ht Hb. unfold retr_worker. rewrite Ht. f_equal.
  set (h1 := if negb (off =? 0) then h_seek off (h_open RB content) else h_open RB content).
  assert (Hh : skipn (h_pos h1) (h_content h1) = spec_retr off content).
  { subst h1. destruct off; reflexivity. }
  rewrite (send_loop_conforming block _ _ [] (file_trace_conforming block oracle h1 Hb)).
  cbn [app]. exact Hh.
Qed.

(* the file may be missing: REST n (n > 0) + STOR/APPE on a missing path ends with 451, creates
   nothing and sends no 226; without an offset the file is created and holds the payload; on an
   existing file stor_worker_on is stor_worker *)
Theorem stor_worker_on_existing : forall table vm off old reads,
  stor_worker_on table vm off (Some old) reads
  = match stor_worker table vm off old reads with Some c => Some (Some c) | None => None end.
Proof.
  intros. unfold stor_worker_on, stor_worker.
  destruct (select_mode table vm (negb (off =? 0))); reflexivity.
Qed.

Theorem stor_worker_on_missing : forall table vm off block payload reads,
  stor_table_ok table -> store_mode vm -> conforming block payload reads ->
  stor_worker_on table vm off None reads
  = Some (if off =? 0 then Some payload else None).
Proof.
  intros table vm off block payload reads Ht Hvm Hc. unfold stor_worker_on.
  destruct (Ht vm) as [Hr Hn]. destruct off as [|off'].
  - cbn [Nat.eqb negb]. rewrite Hn.
    assert (Ho : h_open_opt vm None = Some (h_open vm [])) by (destruct Hvm as [-> | ->]; reflexivity).
    rewrite Ho. do 2 f_equal.
    rewrite (stor_loop_conforming _ _ _ _ Hc). cbn [h_content].
    destruct Hvm as [-> | ->]; cbn [h_open h_pos h_content length]; apply write_at_0_nil.
  - cbn [Nat.eqb negb]. rewrite Hr. reflexivity.
Qed.

(* ------------------------------------------------------------------------------------------ *)
(* end to end                                                                                  *)

(* stor_exact: every payload, every segmentation of it, every schedule of arrivals and read
   sizes, every block size >= 1, both verbs, every offset, every pre-existing content *)
Theorem stor_exact : forall table vm off old block payload segs oracle,
  stor_table_ok table ->
  store_mode vm ->
  1 <= block ->
  concat segs = payload ->
  e2e_stor table vm off old block segs oracle = Some (spec_store vm off payload old).
Proof.
  intros table vm off old block payload segs oracle Ht Hvm Hb Hseg. unfold e2e_stor.
  apply stor_worker_exact with (block := block); try assumption.
  rewrite <- Hseg. now apply sock_trace_conforming.
Qed.

(* the same with the client's own chunking of its writes made explicit *)
Theorem stor_exact_client_chunks : forall table vm off old block chunks segs oracle,
  stor_table_ok table -> store_mode vm -> 1 <= block ->
  concat segs = client_wire chunks ->
  e2e_stor table vm off old block segs oracle = Some (spec_store vm off (concat chunks) old).
Proof. intros. now apply stor_exact. Qed.

(* an empty chunk written by the caller queues nothing on the real stream, while the iterator-style
   loop of the model would stop on it: client_send is the model of the caller's loop over NON-EMPTY
   chunks; client_wire (= concat) is the wire for any chunk list *)
Lemma client_send_nonempty : forall chunks,
  Forall nonempty chunks -> client_send chunks = client_wire chunks.
Proof.
  intros chunks H. unfold client_send, client_wire. rewrite send_loop_iter. cbn [app].
  now rewrite iter_blocks_chunks.
Qed.

Theorem retr_exact : forall table off content block foracle cuts cblock coracle,
  retr_table_ok table ->
  1 <= block -> 1 <= cblock ->
  e2e_retr table off content block foracle cuts cblock coracle = Some (spec_retr off content).
Proof.
  intros table off content block foracle cuts cblock coracle Ht Hb Hcb. unfold e2e_retr.
  rewrite (retr_worker_exact _ _ _ _ _ Ht Hb). f_equal. unfold client_recv.
  pose proof (sock_trace_conforming cblock coracle (cut_by cuts (spec_retr off content)) Hcb) as Hc.
  rewrite cut_by_concat in Hc.
  now rewrite (send_loop_conforming _ _ _ [] Hc).
Qed.

(* any segmentation, not only those produced by cut_by *)
Theorem retr_exact_segs : forall table off content block foracle segs cblock coracle wire,
  retr_table_ok table -> 1 <= block -> 1 <= cblock ->
  retr_worker table off content block foracle = Some wire ->
  concat segs = wire ->
  client_recv (sock_trace cblock coracle segs) = spec_retr off content.
Proof.
  intros table off content block foracle segs cblock coracle wire Ht Hb Hcb Hw Hs.
  rewrite (retr_worker_exact _ _ _ _ _ Ht Hb) in Hw. injection Hw as <-.
  unfold client_recv. pose proof (sock_trace_conforming cblock coracle segs Hcb) as Hc.
  rewrite Hs in Hc. now rewrite (send_loop_conforming _ _ _ [] Hc).
Qed.

(* chunking_irrelevant: two runs that differ in block size, segmentation, schedules, read sizes
   and client chunking store / deliver the same bytes *)
Theorem stor_chunking_irrelevant : forall table vm off old payload
    block1 segs1 oracle1 block2 segs2 oracle2,
  stor_table_ok table -> store_mode vm ->
  1 <= block1 -> 1 <= block2 ->
  concat segs1 = payload -> concat segs2 = payload ->
  e2e_stor table vm off old block1 segs1 oracle1 = e2e_stor table vm off old block2 segs2 oracle2.
Proof.
  intros. rewrite (stor_exact table vm off old block1 payload segs1 oracle1) by assumption.
  now rewrite (stor_exact table vm off old block2 payload segs2 oracle2) by assumption.
Qed.

Theorem retr_chunking_irrelevant : forall table off content
    block1 foracle1 cuts1 cblock1 coracle1 block2 foracle2 cuts2 cblock2 coracle2,
  retr_table_ok table ->
  1 <= block1 -> 1 <= cblock1 -> 1 <= block2 -> 1 <= cblock2 ->
  e2e_retr table off content block1 foracle1 cuts1 cblock1 coracle1
  = e2e_retr table off content block2 foracle2 cuts2 cblock2 coracle2.
Proof. intros. now rewrite !retr_exact by assumption. Qed.

(* ------------------------------------------------------------------------------------------ *)
(* consumption programs: whatever the caller's program, it consumes exactly what was to come   *)

Section ConsumeProofs.
  Variables (St Or : Type).
  Variable rd : nat -> Or -> St -> bytes * St.
  Variable rest : St -> bytes.
  Variable dflt : Or.
  Hypothesis rd_ok : forall block o s d s', 1 <= block -> rd block o s = (d, s') -> d ++ rest s' = rest s.

  Lemma iter_take_ok : forall k block os s d s',
    1 <= block -> iter_take St Or rd dflt k block os s = (d, s') -> d ++ rest s' = rest s.
  Proof.
    induction k as [|k IH]; intros block os s d s' Hb H; cbn [iter_take] in H.
    - injection H as <- <-. reflexivity.
    - destruct (rd block (hd dflt os) s) as [d1 s1] eqn:Hr.
      pose proof (rd_ok _ _ _ _ _ Hb Hr) as H1.
      destruct d1 as [|x d1].
      + injection H as <- <-. exact H1.
      + destruct (iter_take St Or rd dflt k block (tl os) s1) as [r s2] eqn:Hi.
        injection H as <- <-. pose proof (IH _ _ _ _ _ Hb Hi) as H2.
        rewrite <- H1, <- H2. now rewrite app_assoc.
  Qed.

  Theorem consume_exact : forall prog s,
    Forall cop_ok prog -> consume St Or rd rest dflt prog s = rest s.
  Proof.
    unfold consume. induction prog as [|op p IH]; intros s Hok; cbn [consume_with]; [reflexivity|].
    inversion Hok as [|? ? Hop Hp]; subst.
    destruct (cop_run St Or rd (iter_take St Or rd dflt) op s) as [d s'] eqn:Hr.
    rewrite (IH _ Hp). destruct op as [block k os|n o]; cbn [cop_run cop_ok] in Hr, Hop.
    - exact (iter_take_ok _ _ _ _ _ _ Hop Hr).
    - exact (rd_ok _ _ _ _ _ Hop Hr).
  Qed.
End ConsumeProofs.

Lemma sock_rd_ok : forall block o s d s',
  1 <= block -> sock_rd block o s = (d, s') -> d ++ sock_rest s' = sock_rest s.
Proof.
  intros block o [buf net] d [b' n'] Hb H. unfold sock_rd in H. cbn [fst snd] in H.
  unfold sock_rest. cbn [fst snd]. now destruct (sock_read_spec _ _ _ _ _ _ _ Hb H) as [Hc _].
Qed.

Lemma file_rd_ok : forall block r h d h',
  1 <= block -> h_read block r h = (d, h') -> d ++ file_rest h' = file_rest h.
Proof.
  intros block r h d h' Hb H. unfold file_rest.
  destruct (h_read_spec _ _ _ _ _ Hb H) as [Hc [Hd _]]. now rewrite Hc.
Qed.

Theorem sock_consume_exact : forall prog segs,
  Forall cop_ok prog -> sock_consume prog segs = concat segs.
Proof.
  intros prog segs H. unfold sock_consume.
  now rewrite (consume_exact _ _ sock_rd sock_rest (0, 0) sock_rd_ok prog ([], segs) H).
Qed.

Theorem file_consume_exact : forall prog h,
  Forall cop_ok prog -> file_consume prog h = skipn (h_pos h) (h_content h).
Proof.
  intros prog h H. unfold file_consume.
  now rewrite (consume_exact _ _ h_read file_rest 0 file_rd_ok prog h H).
Qed.

(* download side: the server's bytes, any segmentation, any consumption program *)
Theorem retr_consume_exact : forall table off content block foracle segs wire prog,
  retr_table_ok table -> 1 <= block ->
  retr_worker table off content block foracle = Some wire ->
  concat segs = wire ->
  Forall cop_ok prog ->
  sock_consume prog segs = spec_retr off content.
Proof.
  intros table off content block foracle segs wire prog Ht Hb Hw Hs Hp.
  rewrite (retr_worker_exact _ _ _ _ _ Ht Hb) in Hw. injection Hw as <-.
  now rewrite sock_consume_exact.
Qed.

Theorem retr_consume_program_irrelevant : forall segs prog1 prog2,
  Forall cop_ok prog1 -> Forall cop_ok prog2 -> sock_consume prog1 segs = sock_consume prog2 segs.
Proof. intros. now rewrite !sock_consume_exact. Qed.

(* the statement is not vacuous about the iterator: with the prefetching iterator a loop left after one
   block followed by read() loses the block whose read was already started *)
Lemma prefetching_iterator_loses_a_block :
  consume_with _ _ sock_rd sock_rest (iter_take_prefetching _ _ sock_rd (0, 0)) [CIter 2 1 [(0, 2); (0, 2)]] ([], [[1;2;3;4;5;6;7]%Z])
  = [1;2;5;6;7]%Z.
Proof. vm_compute. reflexivity. Qed.

(* high-level upload(): local file read in blocks, each written to the stream *)
Theorem upload_exact : forall table vm off old local cblock coracle block segs oracle,
  stor_table_ok table -> store_mode vm -> 1 <= cblock -> 1 <= block ->
  concat segs = client_upload_wire local cblock coracle ->
  e2e_stor table vm off old block segs oracle = Some (spec_store vm off local old).
Proof.
  intros table vm off old local cblock coracle block segs oracle Ht Hvm Hcb Hb Hs.
  apply stor_exact; try assumption. rewrite Hs. unfold client_upload_wire.
  pose proof (file_trace_conforming cblock coracle (h_open RB local) Hcb) as Hc.
  change (skipn (h_pos (h_open RB local)) (h_content (h_open RB local))) with local in Hc.
  now rewrite (send_loop_conforming _ _ _ [] Hc).
Qed.

(* high-level download(): the blocks read from the data connection written to a fresh file *)
Theorem download_exact : forall table off content block foracle segs cblock coracle wire,
  retr_table_ok table -> 1 <= block -> 1 <= cblock ->
  retr_worker table off content block foracle = Some wire ->
  concat segs = wire ->
  client_download_file (sock_trace cblock coracle segs) = spec_retr off content.
Proof.
  intros table off content block foracle segs cblock coracle wire Ht Hb Hcb Hw Hs.
  rewrite (retr_worker_exact _ _ _ _ _ Ht Hb) in Hw. injection Hw as <-.
  unfold client_download_file. pose proof (sock_trace_conforming cblock coracle segs Hcb) as Hc.
  rewrite Hs in Hc. rewrite (stor_loop_conforming _ _ _ _ Hc).
  cbn [h_open h_pos h_content]. apply write_at_0_nil.
Qed.

(* early_stop_impossible, stated for the network model: the blocks the `async for` sees are the
   whole payload, whatever the segmentation and schedule *)
Theorem early_stop_impossible : forall block oracle segs,
  1 <= block ->
  concat (iter_blocks (sock_trace block oracle segs)) = concat segs
  /\ Forall (fun c => c <> [] /\ length c <= block) (iter_blocks (sock_trace block oracle segs)).
Proof.
  intros block oracle segs Hb. apply iter_blocks_conforming. now apply sock_trace_conforming.
Qed.

(* ... and the hypothesis matters: a read that returns empty before EOF truncates the file *)
Lemma nonconforming_truncates :
  h_content (stor_loop (h_open WB []) [[1%Z]; []; [2%Z]; []]) = [1%Z].
Proof. reflexivity. Qed.

(* ------------------------------------------------------------------------------------------ *)
(* reply_after_close and visible_after_226                                                     *)

Lemma v_run_app : forall old s1 s2, v_run old (s1 ++ s2) = fold_left v_step s2 (v_run old s1).
Proof. intros. unfold v_run. apply fold_left_app. Qed.

(* writes: the handle follows stor_loop; the visible content is not constrained *)
Lemma write_steps_handle : forall blocks flushes v,
  v_handle (fold_left v_step (write_steps blocks flushes) v)
  = fold_left (fun h d => h_write d h) blocks (v_handle v)
  /\ v_file_open (fold_left v_step (write_steps blocks flushes) v) = v_file_open v
  /\ v_at_reply (fold_left v_step (write_steps blocks flushes) v) = v_at_reply v.
Proof.
  induction blocks as [|d r IH]; intros flushes v; [cbn; auto|].
  cbn [write_steps fold_left].
  destruct (IH (tl flushes) (v_step v (SWrite d (hd false flushes)))) as [H1 [H2 H3]].
  rewrite H1, H2, H3. cbn. auto.
Qed.

(* ctx lists a file context: leaving the contexts closes the file *)
Definition has_file (ctx : list string) : bool := existsb (fun c => negb (String.eqb c "STREAM")) ctx.

Definition is_exit (s : step) : Prop := s = SCloseStream \/ s = SCloseFile.
Definition settled (v : vstate) : Prop :=
  v_visible v = h_content (v_handle v) /\ v_file_open v = false.

Lemma exit_fold_keeps : forall l v, Forall is_exit l ->
  v_handle (fold_left v_step l v) = v_handle v
  /\ v_at_reply (fold_left v_step l v) = v_at_reply v
  /\ (settled v -> settled (fold_left v_step l v)).
Proof.
  induction l as [|s l IH]; intros v H; [cbn; auto|].
  inversion H as [|? ? Hs Hl]; subst. cbn [fold_left].
  destruct (IH (v_step v s) Hl) as [A [B C]].
  destruct Hs as [-> | ->].
  - cbn [v_step] in *. auto.
  - rewrite A, B. cbn [v_step v_handle v_at_reply]. split; [reflexivity|split; [reflexivity|]].
    intros _. apply C. split; reflexivity.
Qed.

Lemma exit_fold_closes : forall l v, Forall is_exit l -> In SCloseFile l ->
  settled (fold_left v_step l v).
Proof.
  induction l as [|s l IH]; intros v H Hin; [contradiction|].
  inversion H as [|? ? Hs Hl]; subst. cbn [fold_left].
  destruct Hin as [-> | Hin].
  - apply (exit_fold_keeps l _ Hl). split; reflexivity.
  - now apply IH.
Qed.

Lemma exit_steps_close : forall ctx v,
  has_file ctx = true ->
  settled (fold_left v_step (exit_steps ctx) v)
  /\ v_handle (fold_left v_step (exit_steps ctx) v) = v_handle v
  /\ v_at_reply (fold_left v_step (exit_steps ctx) v) = v_at_reply v.
Proof.
  intros ctx v Hf.
  assert (Hall : Forall is_exit (exit_steps ctx)).
  { unfold exit_steps. apply Forall_forall. intros s Hs. apply in_map_iff in Hs.
    destruct Hs as [c [<- _]]. unfold is_exit. destruct (String.eqb c "STREAM"); auto. }
  assert (Hin : In SCloseFile (exit_steps ctx)).
  { unfold has_file in Hf. apply existsb_exists in Hf. destruct Hf as [c [Hc Hn]].
    unfold exit_steps. apply in_map_iff. exists c. split; [|now apply in_rev in Hc].
    apply negb_true_iff in Hn. now rewrite Hn. }
  destruct (exit_fold_keeps _ v Hall) as [A [B _]].
  repeat split; try assumption; now apply exit_fold_closes.
Qed.

(* reply_after_close: when the completion reply follows the outermost `async with`
   (w_reply_after_ctx) the 226 is queued with the file closed and every other opener already
   sees the final content -- for every flush behaviour of the backend *)
Theorem reply_after_close : forall ctx m off old blocks flushes,
  has_file ctx = true ->
  v_at_reply (v_run old (stor_script true ctx m off blocks flushes))
  = Some (h_content (fold_left (fun h d => h_write d h) blocks
                               (if off =? 0 then h_open m old else h_seek off (h_open m old))),
          false).
Proof.
  intros ctx m off old blocks flushes Hf. unfold stor_script.
  rewrite v_run_app, !fold_left_app.
  set (v1 := v_run old [SOpen m]).
  set (v2 := fold_left v_step (if off =? 0 then [] else [SSeek off]) v1).
  assert (Hv2 : v_handle v2 = (if off =? 0 then h_open m old else h_seek off (h_open m old))
                /\ v_at_reply v2 = None).
  { subst v2 v1. destruct (off =? 0); cbn; auto. }
  destruct Hv2 as [Hh2 Hr2].
  destruct (write_steps_handle blocks flushes v2) as [Hh3 [_ Hr3]].
  set (v3 := fold_left v_step (write_steps blocks flushes) v2) in *.
  destruct (exit_steps_close ctx v3 Hf) as [[Hvis Hopen] [Hh4 _]].
  cbn [fold_left v_step v_at_reply]. rewrite Hvis, Hopen, Hh4, Hh3, Hh2. reflexivity.
Qed.

(* visible_after_226: with the reply after the contexts, what any other session can read when
   the 226 is queued is exactly the specified file *)
Theorem visible_after_226 : forall table vm off old block payload reads ctx flushes m,
  stor_table_ok table -> store_mode vm ->
  conforming block payload reads ->
  has_file ctx = true ->
  select_mode table vm (negb (off =? 0)) = Some m ->
  v_at_reply (v_run old (stor_script true ctx m off (iter_blocks reads) flushes))
  = Some (spec_store vm off payload old, false).
Proof.
  intros table vm off old block payload reads ctx flushes m Ht Hvm Hc Hf Hm.
  rewrite reply_after_close by assumption. f_equal. f_equal.
  pose proof (stor_worker_exact table vm off old block payload reads Ht Hvm Hc) as Hw.
  unfold stor_worker in Hw. rewrite Hm in Hw. injection Hw as Hw.
  rewrite stor_loop_iter in Hw. rewrite <- Hw.
  destruct off; reflexivity.
Qed.

(* the structural fact is necessary: with the reply inside the `async with` a backend that
   buffers shows other sessions a stale file at the time of the 226 *)
(* who looked before (or during) the transfer does not matter: observations change nothing, so a
   script with stat / listing steps inserted ANYWHERE ends where the script without them ends *)
Lemma observe_irrelevant : forall script v,
  fold_left v_step script v = fold_left v_step (strip_observe script) v.
Proof.
  induction script as [|s r IH]; intros v; [reflexivity|].
  destruct s; cbn [strip_observe filter is_observe negb fold_left]; apply IH.
Qed.

Theorem visible_after_226_observed : forall table vm off old block payload reads ctx flushes m script,
  stor_table_ok table -> store_mode vm -> has_file ctx = true ->
  conforming block payload reads ->
  select_mode table vm (negb (off =? 0)) = Some m ->
  strip_observe script = stor_script true ctx m off (iter_blocks reads) flushes ->
  v_at_reply (v_run old script) = Some (spec_store vm off payload old, false)
  /\ observed_size (v_run old script) = length (spec_store vm off payload old).
Proof.
  intros table vm off old block payload reads ctx flushes m script Ht Hvm Hf Hc Hm Hs.
  unfold v_run. rewrite observe_irrelevant, Hs.
  pose proof (visible_after_226 table vm off old block payload reads ctx flushes m Ht Hvm Hc Hf Hm) as H.
  unfold v_run in H. split; [exact H|].
  (* after the reply nothing else happens: the visible content is the one recorded at the reply *)
  unfold observed_size, stor_script in *. 
  rewrite !fold_left_app in *. cbn [fold_left v_step v_at_reply v_visible] in *.
  injection H as H _. exact (f_equal (@length _) H).
Qed.

(* a failing close: no completion reply.  (The converse reading: a 226 was sent => every close
   succeeded => C01_visible_after_226.) *)
Lemma no_reply_step_keeps : forall l v,
  Forall (fun s => s <> SReply) l -> v_at_reply (fold_left v_step l v) = v_at_reply v.
Proof.
  induction l as [|s r IH]; intros v H; [reflexivity|].
  inversion H as [|? ? Hs Hr]; subst. cbn [fold_left]. rewrite (IH _ Hr).
  destruct s; try reflexivity. now elim Hs.
Qed.

Lemma write_steps_no_reply : forall blocks flushes, Forall (fun s => s <> SReply) (write_steps blocks flushes).
Proof.
  induction blocks as [|d r IH]; intros flushes; cbn [write_steps]; constructor; [discriminate|apply IH].
Qed.

Theorem close_failure_no_reply : forall ctx m off old blocks flushes k,
  v_at_reply (v_run old (stor_script_close_fails ctx m off blocks flushes k)) = None.
Proof.
  intros. unfold v_run. rewrite no_reply_step_keeps; [reflexivity|].
  unfold stor_script_close_fails. repeat (apply Forall_app; split).
  - constructor; [discriminate|constructor].
  - destruct (off =? 0); repeat constructor; discriminate.
  - apply write_steps_no_reply.
  - apply Forall_forall. intros s Hs. apply in_map_iff in Hs. destruct Hs as [c [<- _]].
    destruct (String.eqb c "STREAM"); discriminate.
Qed.

Lemma reply_inside_ctx_stale :
  v_at_reply (v_run [9%Z] (stor_script false ["FILE"; "STREAM"] WB 0 [[1%Z]; [2%Z]] []))
  = Some ([], true).
Proof. reflexivity. Qed.

(* what a later observer gets once the visible content is the specified file *)
Theorem later_retr_sees_new_content : forall rtable vm off payload old off' block foracle cuts cblock coracle,
  retr_table_ok rtable -> 1 <= block -> 1 <= cblock ->
  e2e_retr rtable off' (spec_store vm off payload old) block foracle cuts cblock coracle
  = Some (skipn off' (spec_store vm off payload old)).
Proof. intros. now apply retr_exact. Qed.

(* ------------------------------------------------------------------------------------------ *)
(* the restart offset across the commands the client sends                                     *)

Definition transfer_verb (v : string) : Prop := v = "stor" \/ v = "appe" \/ v = "retr".

Definition client_verbs : list string := ["stor"; "appe"; "retr"; "rest"; "type"; "pasv"; "epsv"].

(* what the theorems need of the dispatcher's three lists: no verb keeps the pending offset
   (EXEMPT empty), the offset is handed to the three transfer verbs and not to REST, and the verbs
   the client sends are known *)
Definition offsets_ok (table : list (string * string)) (handed exempt : list string) : Prop :=
  (forall v, mem_s v exempt = false)
  /\ mem_s "rest" handed = false
  /\ (forall v, transfer_verb v -> mem_s v handed = true)
  /\ (forall v, In v client_verbs -> assoc_s v table <> None).

Definition check_offsets (table : list (string * string)) (handed exempt : list string) : bool :=
  match exempt with [] => true | _ :: _ => false end
  && negb (mem_s "rest" handed)
  && mem_s "stor" handed && mem_s "appe" handed && mem_s "retr" handed
  && forallb (fun v => match assoc_s v table with Some _ => true | None => false end) client_verbs.

Lemma check_offsets_sound : forall t h e, check_offsets t h e = true -> offsets_ok t h e.
Proof.
  intros t h e H. unfold check_offsets in H. rewrite !andb_true_iff, negb_true_iff in H.
  destruct H as [[[[[He Hr] Hs] Ha] Hre] Ht]. unfold offsets_ok. repeat split.
  - intro v. destruct e; [reflexivity|discriminate].
  - exact Hr.
  - intros v [->|[->| ->]]; assumption.
  - intros v Hv. rewrite forallb_forall in Ht. specialize (Ht v Hv).
    destruct (assoc_s v t); [discriminate|discriminate].
Qed.

Lemma disp_verb_known : forall table handed exempt s v,
  (forall x, mem_s x exempt = false) -> assoc_s v table <> None ->
  disp_verb table handed exempt s v
  = mkO 0 (if mem_s v handed then o_restart s else o_transfer s).
Proof.
  intros table handed exempt s v He Hv. unfold disp_verb.
  destruct (assoc_s v table); [|congruence]. now rewrite He.
Qed.

(* any command other than REST leaves a cleared pending offset cleared *)
Definition not_rest (c : cmdk) : Prop := match c with CRest _ => False | CVerb _ => True end.

Lemma cleared_stays_cleared : forall table handed exempt mid s,
  (forall x, mem_s x exempt = false) ->
  Forall not_rest mid -> o_restart s = 0 ->
  o_restart (fold_left (disp_step table handed exempt) mid s) = 0.
Proof.
  intros table handed exempt. induction mid as [|c r IH]; intros s He Hm Hs; [exact Hs|].
  inversion Hm as [|? ? Hc Hr]; subst. cbn [fold_left]. apply IH; [exact He|exact Hr|].
  destruct c as [n|v]; [now elim Hc|]. cbn [disp_step]. unfold disp_verb.
  destruct (assoc_s v table); [|exact Hs]. cbn [o_restart]. now rewrite He.
Qed.

(* REST o issued by get_stream reaches the transfer command it precedes, whatever happened
   before, and is consumed by it: afterwards nothing is pending *)
Theorem rest_applies_to_next_transfer : forall table handed exempt hist s0 passive verb off,
  offsets_ok table handed exempt -> transfer_verb verb ->
  offset_after table handed exempt (hist ++ get_stream_cmds passive verb off) s0 = mkO 0 off.
Proof.
  intros table handed exempt hist s0 passive verb off [He [Hr [Hh Ht]]] Hv.
  unfold offset_after, get_stream_cmds. rewrite fold_left_app.
  set (o1 := fold_left (disp_step table handed exempt) hist s0).
  assert (Hverb : mem_s verb handed = true) by (apply Hh; exact Hv).
  assert (Hvt : assoc_s verb table <> None).
  { apply Ht. unfold client_verbs. destruct Hv as [->|[->| ->]]; cbn; tauto. }
  assert (Htype : assoc_s "type" table <> None) by (apply Ht; unfold client_verbs; cbn; tauto).
  assert (Hrest : assoc_s "rest" table <> None) by (apply Ht; unfold client_verbs; cbn; tauto).
  cbn [app fold_left disp_step].
  rewrite (disp_verb_known _ _ _ o1 "type" He Htype).
  set (o2 := mkO 0 _).
  assert (H3 : o_restart (disp_verb table handed exempt o2 passive) = 0).
  { unfold disp_verb. destruct (assoc_s passive table); [|reflexivity]. cbn [o_restart]. now rewrite He. }
  set (o3 := disp_verb table handed exempt o2 passive) in *.
  destruct off as [|off']; cbn [Nat.eqb app fold_left disp_step].
  - rewrite (disp_verb_known _ _ _ o3 verb He Hvt), Hverb, H3. reflexivity.
  - destruct (assoc_s "rest" table) as [tr|] eqn:Erest; [|congruence].
    rewrite (disp_verb_known _ _ _ _ verb He Hvt), Hverb. reflexivity.
Qed.

(* ... and to that command ONLY: once any known command has been dispatched after the last REST,
   a transfer command is served from 0 -- in particular the second of two back-to-back transfer
   commands (x itself a transfer verb, mid empty), and a transfer after `REST n; PWD` *)
Theorem offset_applies_to_next_command_only : forall table handed exempt hist s0 x mid verb,
  offsets_ok table handed exempt ->
  assoc_s x table <> None -> Forall not_rest mid -> transfer_verb verb ->
  offset_after table handed exempt (hist ++ [CVerb x] ++ mid ++ [CVerb verb]) s0 = mkO 0 0.
Proof.
  intros table handed exempt hist s0 x mid verb [He [Hr [Hh Ht]]] Hx Hm Hv.
  unfold offset_after. rewrite !fold_left_app.
  set (o1 := fold_left (disp_step table handed exempt) hist s0).
  cbn [fold_left disp_step]. rewrite (disp_verb_known _ _ _ o1 x He Hx).
  set (o2 := mkO 0 _).
  assert (H0 : o_restart (fold_left (disp_step table handed exempt) mid o2) = 0)
    by (apply cleared_stays_cleared; [exact He|exact Hm|reflexivity]).
  assert (Hvt : assoc_s verb table <> None).
  { apply Ht. unfold client_verbs. destruct Hv as [->|[->| ->]]; cbn; tauto. }
  rewrite (disp_verb_known _ _ _ _ verb He Hvt), (Hh verb Hv), H0. reflexivity.
Qed.

(* the second of two back-to-back transfers through the client API starts at 0 *)
Corollary second_transfer_starts_at_0 : forall table handed exempt hist s0 passive verb1 off1 verb2,
  offsets_ok table handed exempt -> transfer_verb verb1 -> transfer_verb verb2 ->
  offset_after table handed exempt ((hist ++ get_stream_cmds passive verb1 off1) ++ [CVerb verb2]) s0 = mkO 0 0.
Proof.
  intros table handed exempt hist s0 passive verb1 off1 verb2 Hok Hv1 Hv2.
  unfold offset_after. rewrite fold_left_app.
  fold (offset_after table handed exempt (hist ++ get_stream_cmds passive verb1 off1) s0).
  rewrite (rest_applies_to_next_transfer _ _ _ _ _ _ _ _ Hok Hv1).
  destruct Hok as [He [Hr [Hh Ht]]].
  assert (Hvt : assoc_s verb2 table <> None).
  { apply Ht. unfold client_verbs. destruct Hv2 as [->|[->| ->]]; cbn; tauto. }
  cbn [fold_left disp_step]. rewrite (disp_verb_known _ _ _ _ verb2 He Hvt), (Hh verb2 Hv2). reflexivity.
Qed.

(* a plain transfer (offset 0) issued through the client after a completed REST + transfer pair
   is served from offset 0 *)
Corollary plain_after_restart_pair : forall table handed exempt s0 passive1 verb1 off1 passive2 verb2,
  offsets_ok table handed exempt -> transfer_verb verb1 -> transfer_verb verb2 ->
  offset_after table handed exempt (get_stream_cmds passive1 verb1 off1 ++ get_stream_cmds passive2 verb2 0) s0 = mkO 0 0.
Proof. intros. now apply rest_applies_to_next_transfer. Qed.

(* the former F14 witness: REST 4; RETR; RETR -- the workers read 4, then 0 *)
Lemma back_to_back_trace :
  transfer_trace [("rest", "rest"); ("retr", "retr")] ["retr"; "stor"; "appe"] []
                 [CRest 4; CVerb "retr"; CVerb "retr"] (mkO 0 0) = [4; 0].
Proof. reflexivity. Qed.

(* with the lists of the pre-F14 source (nothing handed, the three transfer verbs exempt from the
   reset, workers reading restart_offset themselves) the pending offset is still 4 when the
   second RETR's worker looks: why EXEMPT must be empty *)
Lemma exempt_list_reuses_offset :
  o_restart (offset_after [("rest", "rest"); ("retr", "retr")] [] ["retr"; "stor"; "appe"]
                          [CRest 4; CVerb "retr"; CVerb "retr"] (mkO 0 0)) = 4.
Proof. reflexivity. Qed.

(* a verb that is not in the table is answered 502 and does not touch the pending offset *)
Lemma unknown_verb_keeps_offset :
  transfer_trace [("rest", "rest"); ("retr", "retr")] ["retr"; "stor"; "appe"] []
                 [CRest 4; CVerb "noop"; CVerb "retr"] (mkO 0 0) = [4].
Proof. reflexivity. Qed.

(* ------------------------------------------------------------------------------------------ *)
(* the closed check on today's source implies the parametric hypotheses                        *)
Lemma list_string_eqb_eq : forall a b, list_string_eqb a b = true -> a = b.
Proof.
  induction a as [|x a IH]; intros [|y b] H; try reflexivity; try discriminate.
  unfold list_string_eqb in H. cbn [length Nat.eqb combine forallb fst snd] in H.
  rewrite !andb_true_iff in H. destruct H as [Hl [Hxy Hr]].
  apply String.eqb_eq in Hxy. subst y. f_equal. apply IH.
  unfold list_string_eqb. now rewrite Hl, Hr.
Qed.

Theorem check_dispatch_facts_sound : forall ws hs d,
  check_dispatch_facts ws hs d = true ->
  (exists sw, find_worker "stor_worker" ws = Some sw
              /\ stor_table_ok (w_open_modes sw) /\ w_reply_after_ctx sw = true)
  /\ (exists rw, find_worker "retr_worker" ws = Some rw
              /\ retr_table_ok (w_open_modes rw) /\ w_reply_after_ctx rw = true)
  /\ (exists ap, find_handler "appe" hs = Some ap /\ h_delegate ap = Some "stor")
  /\ offsets_ok (d_table d) (d_offset_handed d) (d_reset_exempt d).
Proof.
  intros ws hs d H. unfold check_dispatch_facts in H. rewrite !andb_true_iff in H.
  destruct H as [[[[[[[[Hs Hr] Ha] _] _] He] Hh] Htab] _].
  assert (W : forall name modes, check_worker ws name modes = true ->
              exists w, find_worker name ws = Some w /\ w_open_modes w = modes
                        /\ w_reply_after_ctx w = true).
  { intros name modes Hc. unfold check_worker in Hc.
    destruct (find_worker name ws) as [w|]; [|discriminate]. exists w.
    rewrite !andb_true_iff in Hc. destruct Hc as [[[[Hm Hra] _] _] _].
    apply list_string_eqb_eq in Hm. subst. auto. }
  apply list_string_eqb_eq in He. apply list_string_eqb_eq in Hh.
  split; [|split; [|split]].
  - destruct (W _ _ Hs) as [w [Hf [Hm Hra]]]. exists w. rewrite Hm.
    split; [exact Hf|split; [exact expected_stor_table_ok|assumption]].
  - destruct (W _ _ Hr) as [w [Hf [Hm Hra]]]. exists w. rewrite Hm.
    split; [exact Hf|split; [exact expected_retr_table_ok|assumption]].
  - destruct (find_handler "appe" hs) as [h|]; [|discriminate]. exists h. split; [reflexivity|].
    destruct (h_delegate h) as [t|]; [|discriminate]. apply String.eqb_eq in Ha. now subst.
  - apply check_offsets_sound. rewrite He, Hh. unfold check_offsets.
    cbn [mem_s existsb String.eqb Ascii.eqb Bool.eqb negb orb andb].
    rewrite forallb_forall in Htab. apply forallb_forall. intros v Hv.
    assert (Hin : In v ["stor"; "appe"; "retr"; "rest"; "type"; "pasv"; "epsv"]) by exact Hv.
    specialize (Htab v Hin). destruct (assoc_s v (d_table d)); [reflexivity|discriminate].
Qed.

Lemma check_xfer_verb_modes : forall f, check_xfer_facts f = true ->
  verb_mode f "stor" = Some WB /\ verb_mode f "appe" = Some AB.
Proof.
  intros f H. unfold check_xfer_facts, check_xfer_modes in H. rewrite !andb_true_iff in H.
  destruct H as [[[[Hs Ha] _] _] _]. apply String.eqb_eq in Hs. apply String.eqb_eq in Ha.
  unfold verb_mode. rewrite Hs, Ha. split; reflexivity.
Qed.

Lemma check_xfer_ctx : forall f, check_xfer_facts f = true -> has_file (xf_stor_ctx f) = true.
Proof.
  intros f H. unfold check_xfer_facts, check_xfer_modes in H. rewrite !andb_true_iff in H.
  destruct H as [[[[_ _] Hc] _] _]. unfold ctx_roles_ok in Hc. rewrite !andb_true_iff in Hc.
  destruct Hc as [[_ Hfile] _]. unfold mem_s in Hfile. apply existsb_exists in Hfile.
  destruct Hfile as [c [Hin Hc]]. apply String.eqb_eq in Hc. subst c.
  unfold has_file. apply existsb_exists. exists "FILE". split; [exact Hin|reflexivity].
Qed.

Lemma verb_mode_store : forall f verb vm, check_xfer_facts f = true ->
  verb_mode f verb = Some vm -> store_mode vm /\ (verb = "stor" /\ vm = WB \/ verb = "appe" /\ vm = AB).
Proof.
  intros f verb vm Hc Hv. destruct (check_xfer_verb_modes f Hc) as [Hs Ha].
  unfold verb_mode in *. cbn [String.eqb Ascii.eqb Bool.eqb] in Hs, Ha.
  destruct (String.eqb verb "stor") eqn:E1.
  - apply String.eqb_eq in E1. subst verb. rewrite Hs in Hv. injection Hv as <-.
    split; [left; reflexivity|left; split; reflexivity].
  - destruct (String.eqb verb "appe") eqn:E2; [|discriminate].
    apply String.eqb_eq in E2. subst verb. rewrite Ha in Hv. injection Hv as <-.
    split; [right; reflexivity|right; split; reflexivity].
Qed.

(* ------------------------------------------------------------------------------------------ *)
(* the theorems with the structural hypotheses replaced by the closed checks on the extracted facts *)
Section Checked.
  Variables (ws : list worker) (hs : list handler) (d : dispatcher_facts) (f : xfer_facts).
  Hypothesis Hdisp : check_dispatch_facts ws hs d = true.
  Hypothesis Hxfer : check_xfer_facts f = true.

  Theorem stor_exact_checked : forall sw verb vm off old block payload segs oracle,
    find_worker "stor_worker" ws = Some sw ->
    verb_mode f verb = Some vm ->
    1 <= block ->
    concat segs = payload ->
    e2e_stor (w_open_modes sw) vm off old block segs oracle = Some (spec_store vm off payload old).
  Proof.
    intros sw verb vm off old block payload segs oracle Hsw Hvm Hb Hs.
    destruct (check_dispatch_facts_sound _ _ _ Hdisp) as [[sw' [Hsw' [Ht _]]] _].
    rewrite Hsw in Hsw'. injection Hsw' as <-.
    destruct (verb_mode_store _ _ _ Hxfer Hvm) as [Hst _].
    now apply stor_exact.
  Qed.

  Theorem retr_exact_checked : forall rw off content block foracle cuts cblock coracle,
    find_worker "retr_worker" ws = Some rw ->
    1 <= block -> 1 <= cblock ->
    e2e_retr (w_open_modes rw) off content block foracle cuts cblock coracle
    = Some (spec_retr off content).
  Proof.
    intros rw off content block foracle cuts cblock coracle Hrw Hb Hcb.
    destruct (check_dispatch_facts_sound _ _ _ Hdisp) as [_ [[rw' [Hrw' [Ht _]]] _]].
    rewrite Hrw in Hrw'. injection Hrw' as <-.
    now apply retr_exact.
  Qed.

  Theorem visible_after_226_checked : forall sw verb vm m off old block payload segs oracle flushes,
    find_worker "stor_worker" ws = Some sw ->
    verb_mode f verb = Some vm ->
    1 <= block -> concat segs = payload ->
    select_mode (w_open_modes sw) vm (negb (off =? 0)) = Some m ->
    v_at_reply (v_run old (stor_script (w_reply_after_ctx sw) (xf_stor_ctx f) m off
                                       (iter_blocks (sock_trace block oracle segs)) flushes))
    = Some (spec_store vm off payload old, false).
  Proof.
    intros sw verb vm m off old block payload segs oracle flushes Hsw Hvm Hb Hs Hm.
    destruct (check_dispatch_facts_sound _ _ _ Hdisp) as [[sw' [Hsw' [Ht Hra]]] _].
    rewrite Hsw in Hsw'. injection Hsw' as <-. rewrite Hra.
    pose proof (check_xfer_ctx _ Hxfer) as Hfile.
    destruct (verb_mode_store _ _ _ Hxfer Hvm) as [Hst _].
    apply visible_after_226 with (table := w_open_modes sw) (block := block); try assumption.
    rewrite <- Hs. now apply sock_trace_conforming.
  Qed.

  Lemma offsets_ok_checked : offsets_ok (d_table d) (d_offset_handed d) (d_reset_exempt d).
  Proof. exact (proj2 (proj2 (proj2 (check_dispatch_facts_sound _ _ _ Hdisp)))). Qed.

  Theorem rest_applies_to_next_transfer_checked : forall hist s0 passive verb off,
    transfer_verb verb ->
    offset_after (d_table d) (d_offset_handed d) (d_reset_exempt d)
                 (hist ++ get_stream_cmds passive verb off) s0 = mkO 0 off.
  Proof. intros. apply rest_applies_to_next_transfer; [exact offsets_ok_checked|assumption]. Qed.

  Theorem offset_applies_to_next_command_only_checked : forall hist s0 x mid verb,
    assoc_s x (d_table d) <> None -> Forall not_rest mid -> transfer_verb verb ->
    offset_after (d_table d) (d_offset_handed d) (d_reset_exempt d)
                 (hist ++ [CVerb x] ++ mid ++ [CVerb verb]) s0 = mkO 0 0.
  Proof. intros. apply offset_applies_to_next_command_only; try assumption. exact offsets_ok_checked. Qed.

  Theorem second_transfer_starts_at_0_checked : forall hist s0 passive verb1 off1 verb2,
    transfer_verb verb1 -> transfer_verb verb2 ->
    offset_after (d_table d) (d_offset_handed d) (d_reset_exempt d)
                 ((hist ++ get_stream_cmds passive verb1 off1) ++ [CVerb verb2]) s0 = mkO 0 0.
  Proof. intros. apply second_transfer_starts_at_0; try assumption. exact offsets_ok_checked. Qed.
End Checked.
