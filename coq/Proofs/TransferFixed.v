(* TransferFixed: what the repaired shapes of server.py buy (stream-first `async with`, abor() ignoring finished
   tasks, the dispatcher answering a cancelled transfer task).  Generic over the facts F. *)
From Coq Require Import ZArith List Bool String Arith Lia.
From Verif Require Import Lib.Sx Lib.Facts Model.Transfer Proofs.Transfer.
Import ListNotations.
Open Scope list_scope.

Lemma sf_cases : forall l, sf_shape l = true -> l = [CStream] \/ l = [CStream; CFile].
Proof. intros l H. destruct l as [|[] [|[] [|? ?]]]; simpl in H; try discriminate; auto. Qed.

Lemma sf_shape_ok : forall l, sf_shape l = true -> ctx_shape_ok l = true.
Proof. intros l H. destruct (sf_cases l H) as [-> | ->]; reflexivity. Qed.

Ltac split_vars :=
  repeat match goal with
         | |- context [match ?v with _ => _ end] => is_var v; destruct v; simpl
         | |- context [if ?v then _ else _] => is_var v; destruct v; simpl
         end.

(* a worker that is not suspended runs on to its next suspension point (or to its end) without abandoning the
   stream, and that point is never a hole *)
Lemma skip_sf : forall cc wf w,
  sf_shape (wf_ctx wf) = true -> stage_ok wf (w_stage w) = true -> w_leak w = false ->
  w_leak (fst (skipC cc wf (skip_fuel wf) w)) = false
  /\ stage_ok wf (w_stage (fst (skipC cc wf (skip_fuel wf) w))) = true
  /\ (terminal (w_stage (fst (skipC cc wf (skip_fuel wf) w))) || parks wf (w_stage (fst (skipC cc wf (skip_fuel wf) w)))) = true
  /\ hole_stage wf (w_stage (fst (skipC cc wf (skip_fuel wf) w))) = false.
Proof.
  intros cc [ctx df wo hw ra dc wfl] [k st x l m r] Hs Hk Hl. simpl in *. subst l.
  destruct (sf_cases ctx Hs) as [-> | ->]; clear Hs;
  destruct st as [| b | | i | | n | i | | | | e0 | ]; simpl in Hk;
  try (destruct i as [|[|i]]; simpl in Hk; try discriminate Hk);
  destruct x as [[]|]; destruct hw, ra, cc; cbv; repeat split; reflexivity.
Qed.

Lemma wstep_sf : forall cc wf d w,
  sf_shape (wf_ctx wf) = true -> stage_ok wf (w_stage w) = true -> w_leak w = false ->
  w_leak (fst (fst (wstepC cc wf d w))) = false.
Proof.
  intros cc [ctx df wo hw ra dc wfl] d [k st x l m r] Hs Hk Hl. simpl in *. subst l.
  destruct (sf_cases ctx Hs) as [-> | ->]; clear Hs;
  destruct st as [| b | | i | | n | i | | | | e0 | ]; simpl in Hk;
  try (destruct i as [|[|i]]; simpl in Hk; try discriminate Hk);
  destruct x as [[]|]; destruct hw, ra, cc, d; try destruct b; try destruct r; cbv; reflexivity.
Qed.

(* raising at a suspension point (or on a finished task) *)
Lemma raise_sf : forall cc wf e w,
  sf_shape (wf_ctx wf) = true -> stage_ok wf (w_stage w) = true -> w_leak w = false ->
  (terminal (w_stage w) || parks wf (w_stage w)) = true ->
  w_leak (fst (raise_at cc wf e w)) = false.
Proof.
  intros cc [ctx df wo hw ra dc wfl] e [k st x l m r] Hs Hk Hl Hp. simpl in *. subst l.
  destruct (sf_cases ctx Hs) as [-> | ->]; clear Hs;
  destruct st as [| b | | i | | n | i | | | | e0 | ]; simpl in Hk, Hp;
  try (destruct i as [|[|i]]; simpl in Hk, Hp; try discriminate Hk); try discriminate Hp;
  destruct x as [[]|]; destruct e, hw, ra, cc, wo; cbv; reflexivity.
Qed.

Lemma throw_sf : forall cc wf e w,
  sf_shape (wf_ctx wf) = true -> stage_ok wf (w_stage w) = true -> w_leak w = false ->
  w_leak (fst (throwC cc wf e w)) = false.
Proof.
  intros cc wf e w Hs Hk Hl. unfold throwC.
  destruct (skip_sf cc wf w Hs Hk Hl) as (A & B & C & _).
  destruct (skipC cc wf (skip_fuel wf) w) as [w1 r1]. simpl in *.
  pose proof (raise_sf cc wf e w1 Hs B A C) as R.
  destruct (raise_at cc wf e w1) as [w2 r2]. exact R.
Qed.

Lemma no_hole_sf : forall cc wf w,
  sf_shape (wf_ctx wf) = true -> stage_ok wf (w_stage w) = true -> w_leak w = false -> holeC cc wf w = false.
Proof. intros cc wf w Hs Hk Hl. rewrite holeC_eq. apply (skip_sf cc wf w Hs Hk Hl). Qed.

(* ------------------------------------------------------------------ invariant of the repaired shapes *)
Lemma sf_wf : forall F w, stream_first_ok F = true -> sf_shape (wf_ctx (wfof F w)) = true.
Proof.
  unfold stream_first_ok, wfof; intros F w H. simpl in H. rewrite !andb_true_iff in H.
  destruct H as (A & B & C & D & _). destruct (w_kind w); assumption.
Qed.

(* a worker is clean: stage inside its context list, stream not abandoned *)
Definition wclean (F : cfg) (w : wrk) : bool := wok F w && negb (w_leak w).
(* nothing abandoned by an earlier worker; a live session has lost no port and owns no stray listener *)
Definition sclean (s : sess) : bool :=
  negb (leaked s) && (negb (alive s) || (negb (port_lost s) && negb (orphan s))).
Definition clean (F : cfg) (st : state) : bool := sclean (ss st) && forallb (wclean F) (ws st).

Lemma wclean_inv : forall F w, wclean F w = true -> stage_ok (wfof F w) (w_stage w) = true /\ w_leak w = false.
Proof. unfold wclean, wok; intros F w H. apply andb_prop in H. destruct H as [A B]. apply negb_true_iff in B. auto. Qed.

Lemma wclean_step : forall F d w, stream_first_ok F = true -> wclean F w = true ->
  wclean F (fst (fst (wstep F d w))) = true.
Proof.
  intros F d w Hs H. destruct (wclean_inv F w H) as [Hk Hl]. unfold wclean, wstep.
  rewrite (wok_keeps F w _ (wstep_keeps (c_cancel_codes F) (wfof F w) d w) Hk).
  rewrite (wstep_sf _ _ d w (sf_wf F w Hs) Hk Hl). reflexivity.
Qed.

Lemma wclean_throw : forall F e w, stream_first_ok F = true -> wclean F w = true ->
  wclean F (fst (throw F e w)) = true.
Proof.
  intros F e w Hs H. destruct (wclean_inv F w H) as [Hk Hl]. unfold wclean, throw.
  rewrite (wok_keeps F w _ (throw_keeps (c_cancel_codes F) (wfof F w) e w) Hk).
  rewrite (throw_sf _ _ e w (sf_wf F w Hs) Hk Hl). reflexivity.
Qed.

Lemma act_leaked : forall a acc, leaked (fst (fst (act a acc))) = leaked (fst (fst acc)).
Proof. intros a [[s c] w]; destruct a; simpl; try reflexivity; destruct (lst s); try reflexivity; destruct c; reflexivity. Qed.

Lemma run_fin_leaked : forall fin s, leaked (fst (fst (run_fin fin s))) = leaked s.
Proof.
  intros fin s. unfold run_fin.
  assert (G : forall l acc, leaked (fst (fst (fold_left (fun acc st => if forallb (guard_holds s) (fst st) then act (snd st) acc else acc) l acc))) = leaked (fst (fst acc))).
  { induction l; intros acc; simpl; [reflexivity|]. rewrite IHl. destruct (forallb (guard_holds s) (fst a)); [apply act_leaked | reflexivity]. }
  rewrite G. reflexivity.
Qed.

Lemma giveback_leaked : forall F s, leaked (giveback_pre F s) = leaked s.
Proof. intros F s. unfold giveback_pre. destruct (c_giveback F); [|reflexivity]. destruct (lst s); reflexivity. Qed.

Lemma end_session_clean : forall F st, stream_first_ok F = true -> clean F st = true -> clean F (end_session F st) = true.
Proof.
  intros F st Hs H. unfold clean in *. apply andb_prop in H; destruct H as [Hss Hws].
  unfold end_session.
  pose proof (run_fin_leaked (c_fin F) (giveback_pre F (ss st))) as L. rewrite giveback_leaked in L.
  destruct (run_fin (c_fin F) (giveback_pre F (ss st))) as [[s c] w]; simpl in *.
  unfold sclean in *; simpl. rewrite L. apply andb_prop in Hss; destruct Hss as [Hl _]. rewrite Hl. simpl.
  destruct c; [|assumption]. apply forallb_map_keep; [|assumption].
  intros w0 Hw0. apply (wclean_throw F ECancel w0 Hs Hw0).
Qed.

Lemma reap_clean : forall F l, forallb (wclean F) l = true ->
  forallb (wclean F) (fst (fst (fst (reap F l)))) = true /\ snd (reap F l) = false.
Proof.
  induction l; intros H; simpl in *; [auto|].
  apply andb_prop in H; destruct H as [H1 H2]. specialize (IHl H2).
  destruct (reap F l) as [[[keep rs] ok] lk]. simpl in IHl. destruct IHl as [I1 I2]. subst lk.
  destruct (wclean_inv F a H1) as [_ Hl].
  destruct (terminal (w_stage a)).
  - destruct (w_stage a); simpl; rewrite ?Hl; auto; destruct (on_task_exn F _); simpl; rewrite ?Hl; auto.
  - simpl. rewrite H1. auto.
Qed.

Lemma upd_nth_clean : forall F (g : wrk -> wrk) l i w, forallb (wclean F) l = true -> nth_error l i = Some w ->
  wclean F (g w) = true -> forallb (wclean F) (upd_nth i (fun _ => g w) l) = true.
Proof.
  intros F g l. induction l; intros i w H E Hg; destruct i; simpl in *; try discriminate; auto.
  - apply andb_prop in H; destruct H. apply andb_true_intro; auto.
  - apply andb_prop in H; destruct H. apply andb_true_intro; split; eauto.
Qed.

Lemma step_clean : forall F st ev, stream_first_ok F = true -> clean F st = true -> clean F (fst (step F st ev)) = true.
Proof.
  intros F st ev Hs H. unfold step.
  destruct (alive (ss st)) eqn:Ha; simpl.
  - destruct ev; try assumption; try (apply end_session_clean; assumption);
      unfold clean in *; apply andb_prop in H; destruct H as [Hss Hws]; unfold sclean in *; rewrite Ha in Hss; simpl in Hss.
    + (* Greet *) simpl. rewrite Hss, Hws. reflexivity.
    + (* Login *) simpl. rewrite Hss, Hws. reflexivity.
    + (* Pasv *) destruct (lst (ss st)); simpl; rewrite ?Ha; simpl; rewrite Hss, Hws; reflexivity.
    + (* LStep *) destruct (lst (ss st)); simpl; rewrite ?Ha; simpl; rewrite Hss, Hws; reflexivity.
    + (* DataArrives *) destruct (lst (ss st)) as [| | |[] p]; simpl; rewrite ?Ha; simpl; try (rewrite Hss, Hws; reflexivity).
      destruct (data (ss st)); simpl; rewrite ?Ha; simpl; rewrite Hss; simpl; [exact Hws|].
      apply forallb_map_keep; [|assumption]. intros w Hw. unfold wake, wclean, wok, wfof in *.
      destruct w as [k s x l m r]; destruct s; simpl in *; auto.
    + (* Spawn *) destruct (lst (ss st)); simpl; rewrite ?Ha; simpl; rewrite Hss; simpl; try exact Hws.
      rewrite forallb_app. rewrite Hws. reflexivity.
    + (* WStep *)
      destruct (nth_error (ws st) i) as [w|] eqn:E; simpl; [|rewrite Ha; simpl; rewrite Hss, Hws; reflexivity].
      pose proof (wclean_step F (data (ss st)) w Hs (nth_error_forallb _ _ _ _ Hws E)) as K.
      destruct (wstep F (data (ss st)) w) as [[w' t] r]. simpl in *.
      destruct t; simpl; rewrite Ha; simpl; rewrite Hss; simpl;
        apply (upd_nth_clean F (fun _ => w') (ws st) i w Hws E K).
    + (* WThrow *)
      destruct (nth_error (ws st) i) as [w|] eqn:E; simpl; [|rewrite Ha; simpl; rewrite Hss, Hws; reflexivity].
      pose proof (wclean_throw F e w Hs (nth_error_forallb _ _ _ _ Hws E)) as K.
      destruct (throw F e w) as [w' r]. simpl in *. rewrite Ha; simpl; rewrite Hss; simpl.
      apply (upd_nth_clean F (fun _ => w') (ws st) i w Hws E K).
    + (* WaitTimeout *)
      destruct (nth_error (ws st) i) as [w|] eqn:E; simpl; [|rewrite Ha; simpl; rewrite Hss, Hws; reflexivity].
      destruct (w_stage w) as [ | [|] | | | | | | | | | | ] eqn:Es; simpl; rewrite Ha; simpl; rewrite Hss; simpl; try exact Hws.
      apply forallb_upd_nth; [|assumption].
      intros w0 Hw0. destruct (wclean_inv F w0 Hw0) as [_ Hl]. unfold wclean, wok. destruct w0; simpl in *. rewrite Hl. reflexivity.
    + (* Abor *)
      destruct (match c_abor F with AbTruthy => _ | AbNotDone => _ | AbUnknown => _ end); simpl; rewrite Ha; simpl; rewrite Hss; simpl; [|exact Hws].
      apply forallb_map_keep; [|assumption]. intros w0 Hw0. apply (wclean_throw F ECancel w0 Hs Hw0).
    + (* Reap *)
      destruct (reap_clean F (ws st) Hws) as [R1 R2].
      destruct (reap F (ws st)) as [[[keep rs] ok] lk]. simpl in R1, R2. subst lk.
      assert (C : clean F {| ss := set_leaked (ss st) false; ws := keep |} = true).
      { unfold clean, sclean; simpl. rewrite orb_false_r, Ha. simpl. rewrite Hss. exact R1. }
      destruct ok; simpl; [exact C|]. apply end_session_clean; assumption.
  - destruct ev; try assumption.
    destruct (nth_error (ws st) i) as [w|] eqn:E; [|assumption].
    unfold clean in *; apply andb_prop in H; destruct H as [Hss Hws].
    pose proof (wclean_step F false w Hs (nth_error_forallb _ _ _ _ Hws E)) as K.
    destruct (wstep F false w) as [[w' t] r]. simpl in *. rewrite Hss. simpl.
    apply (upd_nth_clean F (fun _ => w') (ws st) i w Hws E K).
Qed.

Lemma run_clean : forall F evs st, stream_first_ok F = true -> clean F st = true -> clean F (fst (run F st evs)) = true.
Proof.
  induction evs; intros st Hs H; simpl; [assumption|].
  pose proof (step_clean F st a Hs H) as H1. destruct (step F st a) as [st1 r1]. simpl in H1.
  specialize (IHevs st1 Hs H1). destruct (run F st1 evs); simpl in *; assumption.
Qed.

Lemma reachable_clean : forall F st, stream_first_ok F = true -> reachable F st -> clean F st = true.
Proof. intros F st Hs (p & evs & ->). apply run_clean; [assumption | reflexivity]. Qed.

(* on the repaired shapes the only hole left is the listener start-up *)
Lemma clean_hole_free : forall F st, stream_first_ok F = true -> clean F st = true -> alive (ss st) = true ->
  startup_free (ss st) = true -> hole_free F st = true.
Proof.
  intros F st Hs H Ha Hf. unfold clean in H. apply andb_prop in H; destruct H as [Hss Hws].
  unfold sclean in Hss. rewrite Ha in Hss. simpl in Hss.
  apply andb_prop in Hss; destruct Hss as [Hl Hpo]. apply andb_prop in Hpo; destruct Hpo as [Hp Ho].
  unfold hole_free, sess_hole_free. rewrite Hp, Ho, Hl. simpl.
  unfold startup_free in Hf. rewrite Hf. simpl.
  rewrite forallb_forall in Hws. apply forallb_forall. intros w Hin.
  destruct (wclean_inv F w (Hws w Hin)) as [Hk Hlk]. rewrite Hlk. simpl.
  unfold hole. rewrite (no_hole_sf _ _ w (sf_wf F w Hs) Hk Hlk). reflexivity.
Qed.

Lemma repaired12_inv : forall F, repaired12 F = true -> sound12 F = true /\ stream_first_ok F = true.
Proof. unfold repaired12; intros F H; apply andb_prop in H; assumption. Qed.

(* C12 on the repaired shapes: from EVERY reachable live state, whatever the workers are doing, for every way of
   ending; the only premise left is that no listener start-up is in progress (F5, not repaired) *)
Theorem end_releases_all_repaired : forall F st ev,
  repaired12 F = true -> reachable F st -> alive (ss st) = true -> startup_free (ss st) = true -> ends ev = true ->
  ledger_empty (ledger F (unwind F (fst (step F st ev)))) = true.
Proof.
  intros F st ev Hr Hre Ha Hf He. destruct (repaired12_inv F Hr) as [H12 Hs].
  apply (end_releases_all_reachable F st ev H12 Hre Ha); [|exact He].
  apply clean_hole_free; auto. apply reachable_clean; assumption.
Qed.

Theorem reap_end_releases_repaired : forall F st,
  repaired12 F = true -> reachable F st -> alive (ss st) = true -> startup_free (ss st) = true ->
  alive (ss (fst (step F st Reap))) = false ->
  ledger_empty (ledger F (unwind F (fst (step F st Reap)))) = true.
Proof.
  intros F st Hr Hre Ha Hf. destruct (repaired12_inv F Hr) as [H12 Hs].
  apply (reap_end_releases F st H12 Hre Ha).
  apply clean_hole_free; auto. apply reachable_clean; assumption.
Qed.

Theorem unwinding_terminates_repaired : forall F st w,
  repaired12 F = true -> reachable F st -> In w (ws st) ->
  terminal (w_stage (fst (wrun F (List.length (wf_ctx (wfof F w)) + 1) (fst (cancel F w))))) = true.
Proof.
  intros F st w Hr Hre Hin. destruct (repaired12_inv F Hr) as [H12 Hs].
  pose proof (reachable_clean F st Hs Hre) as C. unfold clean in C. apply andb_prop in C; destruct C as [_ Hws].
  rewrite forallb_forall in Hws. destruct (wclean_inv F w (Hws w Hin)) as [Hk Hl].
  apply (unwinding_terminates_reachable F st w Hre Hin Hl).
  unfold hole. apply (no_hole_sf _ _ w (sf_wf F w Hs) Hk Hl).
Qed.

Theorem server_close_completes_repaired : forall F srv,
  repaired12 F = true ->
  Forall (fun st => reachable F st /\ alive (ss st) = true /\ startup_free (ss st) = true) (sessions srv) ->
  server_ledger_empty F (server_close F srv) = true.
Proof.
  intros F srv Hr Hall. destruct (repaired12_inv F Hr) as [H12 Hs].
  apply (server_close_completes F srv H12).
  eapply Forall_impl; [|exact Hall]. intros st (A & B & C). repeat split; auto.
  apply clean_hole_free; auto. apply reachable_clean; assumption.
Qed.

(* ------------------------------------------------------------------ C14 on the repaired shapes *)
Lemma repaired14_inv : forall F, repaired14 F = true ->
  sound14 F = true /\ stream_first_ok F = true /\ c_abor F = AbNotDone /\ cancelled_task_ok F = true.
Proof.
  unfold repaired14; intros F H. rewrite !andb_true_iff in H. destruct H as (((A & B) & C) & D).
  repeat split; auto. unfold abor_notdone in C. destruct (c_abor F); try discriminate; reflexivity.
Qed.

Lemma parked_self : forall F w, parks (wfof F w) (w_stage w) = true -> parked_stage F w = w_stage w.
Proof.
  intros F w Hp. unfold parked_stage. destruct (skip_fuel_S (wfof F w)) as [n ->].
  rewrite (skip_park _ _ n w Hp). reflexivity.
Qed.

(* every worker the abor handler can meet is one ABOR deals with correctly *)
Lemma abor_safe_repaired : forall F w, repaired14 F = true -> wclean F w = true -> at_rest F w = true ->
  abor_safe F w = true.
Proof.
  intros F w Hr Hc Hrest. destruct (repaired14_inv F Hr) as (H14 & Hs & Hab & Hct).
  destruct (wclean_inv F w Hc) as [Hk Hl].
  unfold at_rest in Hrest. apply andb_prop in Hrest. destruct Hrest as [Hpf Hrest]. apply negb_true_iff in Hpf.
  unfold abor_safe. rewrite Hl. simpl. rewrite Hab.
  destruct (terminal (w_stage w)) eqn:Ht.
  - unfold pending_failure in Hpf. destruct (w_stage w); simpl in *; try discriminate; reflexivity.
  - simpl in Hrest. fold (wfof F w) in Hrest. rewrite (parked_self F w Hrest).
    pose proof (no_hole_sf (c_cancel_codes F) _ w (sf_wf F w Hs) Hk Hl) as Hh. fold (hole F w) in Hh.
    destruct (w_stage w) eqn:Es; simpl in *; try discriminate; rewrite ?Hct, ?Hh, ?orb_true_r; reflexivity.
Qed.

(* THE FULL STATEMENT, all stages: ABOR met by the dispatcher in ANY reachable state of a live session with at most
   one transfer, the worker being wherever another task can find it (R1: suspended, not started or finished) and not
   already failed on its own *)
Theorem abor_any_moment_repaired : forall F st,
  repaired14 F = true -> reachable F st -> alive (ss st) = true -> (List.length (ws st) <= 1)%nat ->
  forallb (at_rest F) (ws st) = true -> abor_ok F st.
Proof.
  intros F st Hr Hre Ha Hlen Hrest. destruct (repaired14_inv F Hr) as (H14 & Hs & _).
  apply (abor_any_moment_partial F st H14 (reachable_ok F st Hre) Ha Hlen).
  pose proof (reachable_clean F st Hs Hre) as C. unfold clean in C. apply andb_prop in C; destruct C as [_ Hws].
  rewrite forallb_forall in *. intros w Hin. apply abor_safe_repaired; auto.
Qed.

Theorem abor_in_body_repaired : forall F st w,
  repaired14 F = true -> reachable F st -> alive (ss st) = true -> ws st = [w] ->
  in_body (parked_stage F w) = true ->
  snd (abor_run F st) = [426%Z; 226%Z]
  /\ fst (abor_run F st) = {| ss := ss st; ws := [] |}
  /\ (exists w', ws (unwind F (fst (step F st Abor))) = [w'] /\ good_w F w' /\ same_data w w').
Proof.
  intros F st w Hr Hre Ha Hw Hb. destruct (repaired14_inv F Hr) as (H14 & Hs & _).
  pose proof (reachable_clean F st Hs Hre) as C. unfold clean in C. apply andb_prop in C; destruct C as [_ Hws].
  rewrite Hw in Hws. simpl in Hws. rewrite andb_true_r in Hws. destruct (wclean_inv F w Hws) as [Hk Hl].
  apply (abor_in_body F st w H14 (reachable_ok F st Hre) Ha Hw Hb Hl).
  unfold hole. apply (no_hole_sf _ _ w (sf_wf F w Hs) Hk Hl).
Qed.

(* ------------------------------------------------------------------ ABOR with ANY number of transfers alive *)
Lemma abor_busy_unwind : forall F st, alive (ss st) = true -> c_abor F = AbNotDone ->
  existsb (fun w => negb (terminal (w_stage w))) (ws st) = true ->
  ws (unwind F (fst (step F st Abor))) = map (ended_w F) (ws st)
  /\ ss (fst (step F st Abor)) = ss st.
Proof.
  intros F st Ha Hab Hb. unfold step. rewrite Ha. simpl. rewrite Hab, Hb. simpl.
  unfold unwind, map_cancel. simpl. rewrite map_map. split; reflexivity.
Qed.

(* "stops the transfer and closes its data connection, leaves only a prefix": for every reachable live state with
   ANY number of workers of which at least one is not finished, after ABOR and the unwinding every worker is
   terminal and holds neither its data stream nor a file, what it had moved is unchanged, and the session record is
   untouched *)
Theorem abor_stops_all_repaired : forall F st,
  repaired14 F = true -> reachable F st -> alive (ss st) = true ->
  existsb (fun w => negb (terminal (w_stage w))) (ws st) = true ->
  Forall (good_w F) (ws (unwind F (fst (step F st Abor))))
  /\ Forall2 same_data (ws st) (ws (unwind F (fst (step F st Abor))))
  /\ ss (unwind F (fst (step F st Abor))) = ss st.
Proof.
  intros F st Hr Hre Ha Hb. destruct (repaired14_inv F Hr) as (H14 & Hs & Hab & _).
  destruct (abor_busy_unwind F st Ha Hab Hb) as [Ew Es]. rewrite Ew.
  pose proof (reachable_clean F st Hs Hre) as C. unfold clean in C. apply andb_prop in C; destruct C as [_ Hws].
  rewrite forallb_forall in Hws.
  assert (G : forall w, In w (ws st) -> good_w F (ended_w F w) /\ same_data w (ended_w F w)).
  { intros w Hin. destruct (wclean_inv F w (Hws w Hin)) as [Hk Hl].
    destruct (ended_w_good F w Hk Hl) as (A & B & _); [|auto].
    unfold hole. apply (no_hole_sf _ _ w (sf_wf F w Hs) Hk Hl). }
  split; [|split].
  - apply Forall_forall. intros x Hin. apply in_map_iff in Hin. destruct Hin as (w & <- & Hin). apply (G w Hin).
  - clear - G. induction (ws st) as [|a l IH]; simpl; constructor.
    + apply (G a). left; reflexivity.
    + apply IH. intros w Hin. apply G. right; assumption.
  - exact Es.
Qed.
