(* C13: proofs over Model/FaultsRound.v - a backend failure of one task is contained also when other tasks of
   the same session finish in the same wake-up of the dispatcher. *)
From Coq Require Import ZArith List Bool String Arith Lia.
From Verif Require Import Lib.Sx Lib.Facts Model.Session Model.Faults Model.FaultsCheck Model.FaultsRound.
From Verif Require Import Proofs.Faults Proofs.FaultsStep.
Import ListNotations.
Open Scope list_scope.
Open Scope nat_scope.

Definition tdec := list_eq_dec Z.eq_dec.
Definition n451 (l : list text) : nat := count_occ tdec l c451.
Definition n502 (l : list text) : nat := count_occ tdec l (code "502").

Definition is_pio (o : outcome) : bool := match o with ORaise true => true | _ => false end.
Definition is_line (o : outcome) : bool := match o with OLine _ => true | _ => false end.
Definition is_known_line (o : outcome) : bool := match o with OLine true => true | _ => false end.
Definition is_unknown_line (o : outcome) : bool := match o with OLine false => true | _ => false end.
(* a result that makes the dispatcher leave its loop: a handler returning False (QUIT), a non-PathIOError *)
Definition is_ender (o : outcome) : bool := match o with OBool false | ORaise false => true | _ => false end.
Definition cnt (f : outcome -> bool) (l : list outcome) : nat := List.length (filter f l).

Lemma n451_app a b : n451 (a ++ b) = n451 a + n451 b.
Proof. unfold n451. apply count_occ_app. Qed.
Lemma n502_app a b : n502 (a ++ b) = n502 a + n502 b.
Proof. unfold n502. apply count_occ_app. Qed.

Section R.
  Variable react : option (list string).
  Hypothesis Hr : react_ok react = true.

  Lemma on_exc_pio st :
    on_exc react true st = r_reply st [c451].
  Proof.
    destruct (react_ok_sound _ Hr) as (acts & E & R & M). unfold on_exc. rewrite E, R, M. reflexivity.
  Qed.

  (* generalised over the state the wake-up starts from *)
  Lemma per_task_spec done : forall st,
    r_alive st = true -> forallb (fun o => negb (is_ender o)) done = true ->
    let st' := round_per_task react done st in
    n451 (r_codes st') = n451 (r_codes st) + cnt is_pio done /\
    n502 (r_codes st') = n502 (r_codes st) + cnt is_unknown_line done /\
    List.length (r_codes st') = List.length (r_codes st) + cnt is_pio done + cnt is_unknown_line done /\
    r_spawned st' = r_spawned st + cnt is_known_line done /\
    r_reparse st' = r_reparse st + cnt is_line done /\
    r_alive st' = true.
  Proof.
    induction done as [|o r IH]; intros st A N; cbn [round_per_task].
    - unfold cnt. cbn. repeat split; try lia. exact A.
    - rewrite A. cbn [negb]. cbn [forallb] in N. apply andb_prop in N as [No Nr].
      destruct o as [[|]|[|]|[|]]; try discriminate.
      + (* PathIOError *) rewrite on_exc_pio.
        destruct (IH (r_reply st [c451]) A Nr) as (a & b & c & d & e & f).
        unfold cnt in *. cbn [filter is_pio is_unknown_line is_known_line is_line List.length].
        cbn [r_reply r_codes r_spawned r_reparse] in *. rewrite n451_app, n502_app, app_length in *.
        change (n451 [c451]) with 1 in a. change (n502 [c451]) with 0 in b. cbn [List.length] in c.
        repeat split; try lia. exact f.
      + (* a handler returned True *)
        destruct (IH st A Nr) as (a & b & c & d & e & f). unfold cnt in *. cbn. repeat split; try lia. exact f.
      + (* a known command line *)
        destruct (IH (on_result (OLine true) st) A Nr) as (a & b & c & d & e & f).
        unfold cnt in *. cbn [filter is_pio is_unknown_line is_known_line is_line List.length].
        cbn [on_result r_codes r_spawned r_reparse] in *. repeat split; try lia. exact f.
      + (* an unknown verb: 502 *)
        destruct (IH (on_result (OLine false) st) A Nr) as (a & b & c & d & e & f).
        unfold cnt in *. cbn [filter is_pio is_unknown_line is_known_line is_line List.length].
        cbn [on_result r_codes r_spawned r_reparse] in *. rewrite n451_app, n502_app, app_length in *.
        change (n451 [code "502"]) with 0 in a. change (n502 [code "502"]) with 1 in b. cbn [List.length] in c.
        repeat split; try lia. exact f.
  Qed.

  (* one wake-up, ANY set of finished tasks in ANY order (none of which ends the session by itself): every task
     that raised a PathIOError is answered by its own 451, every command line is dispatched (or answered 502)
     and parse_command is re-armed for each, nothing else is said, the dispatcher stays in its loop *)
  Theorem round_contained done :
    forallb (fun o => negb (is_ender o)) done = true ->
    let st := round react true done in
    n451 (r_codes st) = cnt is_pio done /\ n502 (r_codes st) = cnt is_unknown_line done /\
    List.length (r_codes st) = cnt is_pio done + cnt is_unknown_line done /\
    r_spawned st = cnt is_known_line done /\ r_reparse st = cnt is_line done /\ r_alive st = true.
  Proof.
    intro N. exact (per_task_spec done r0 eq_refl N).
  Qed.

  (* with the try around the collection of all results the same does NOT hold: two failures, one 451; a
     failure next to a command line, the line is dropped and parse_command is never re-armed *)
  Lemma batch_drops :
    n451 (r_codes (round react false [ORaise true; ORaise true])) = 1 /\
    r_reparse (round react false [ORaise true; OLine true]) = 0 /\
    r_spawned (round react false [OLine true; ORaise true]) = 0.
  Proof.
    unfold round, round_batch. cbn [first_raise find]. rewrite on_exc_pio. repeat split.
  Qed.
End R.
