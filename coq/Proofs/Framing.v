(* Proofs about Model/Framing.v (C06) *)
From Coq Require Import ZArith List Bool Lia.
From Verif Require Import Lib.Sx Lib.PyStr Model.Framing Proofs.PyStrFacts.
Import ListNotations.
Open Scope Z_scope.

Definition lf_free (l : text) : Prop := forallb (fun c => negb (c =? LF)) l = true.
Definition good_code (code : text) : Prop :=
  length code = 3%nat /\ forallb is_ascii_digit code = true.

Lemma split_last_app {A} (b : list A) (t : A) : split_last (b ++ [t]) = Some (b, t).
Proof.
  induction b as [|x b IH]; cbn; [reflexivity|].
  rewrite IH. destruct (b ++ [t]) eqn:E; [destruct b; discriminate|]. reflexivity.
Qed.

Lemma split_last_some {A} (l : list A) : l <> [] -> exists b t, l = b ++ [t] /\ split_last l = Some (b, t).
Proof.
  intro H. destruct (exists_last H) as [b [t ->]]. exists b, t. split; [reflexivity|apply split_last_app].
Qed.

(* ---- split_lines on a wire ---- *)
Lemma split_lines_line l k : lf_free l -> split_lines (l ++ eol ++ k) = (l ++ eol) :: split_lines k.
Proof.
  unfold lf_free. induction l as [|c l IH]; intro H.
  - cbn. reflexivity.
  - cbn in H. apply andb_true_iff in H as [Hc Hl]. apply negb_true_iff in Hc.
    cbn [app split_lines]. rewrite Hc. rewrite (IH Hl). reflexivity.
Qed.

Lemma split_lines_wire ls k :
  Forall lf_free ls -> split_lines (wire ls ++ k) = map (fun l => l ++ eol) ls ++ split_lines k.
Proof.
  induction 1 as [|l ls Hl Hls IH]; cbn [wire flat_map map app]; [reflexivity|].
  rewrite <- !app_assoc. rewrite (split_lines_line l _ Hl). fold (wire ls). rewrite IH. reflexivity.
Qed.

(* ---- what the client sees on one wire line ---- *)
Lemma sp_space : is_space SP = true. Proof. exact is_space_SP. Qed.
Lemma dash_nospace : is_space DASH = false. Proof. exact is_space_DASH. Qed.
Lemma sp_nodigit : is_digit_char SP = false. Proof. exact is_digit_SP. Qed.
Lemma eol_spaces : forallb is_space eol = true.
Proof. vm_compute. reflexivity. Qed.

Lemma rstrip_eol s : rstrip (s ++ eol) = rstrip s.
Proof. apply rstrip_app_spaces, eol_spaces. Qed.

Lemma good_code_rstrip code : good_code code -> rstrip code = code.
Proof. intros [_ H]. apply all_ascii_digit_rstrip; exact H. Qed.

Lemma good_code_isdigit code : good_code code -> str_isdigit code = true.
Proof. intros [Hl H]. apply all_ascii_digit_isdigit; [destruct code; [discriminate|congruence]|exact H]. Qed.

Lemma firstn3_code code x : good_code code -> firstn 3 (code ++ x) = code.
Proof.
  intros [Hl _]. destruct code as [|a [|b [|c [|d r]]]]; try discriminate. reflexivity.
Qed.

Lemma skipn3_code code x : good_code code -> skipn 3 (code ++ x) = x.
Proof.
  intros [Hl _]. destruct code as [|a [|b [|c [|d r]]]]; try discriminate. reflexivity.
Qed.

Lemma rstrip_code_line code x : good_code code -> rstrip ((code ++ x) ++ eol) = code ++ rstrip x.
Proof. intro H. rewrite rstrip_eol. apply rstrip_app_l. apply good_code_rstrip; exact H. Qed.

Lemma rstrip_dash l : rstrip (DASH :: l) = DASH :: rstrip l.
Proof. apply rstrip_cons_nonspace. apply dash_nospace. Qed.

Lemma starts_dash_rstrip_sp l : starts_with [DASH] (rstrip (SP :: l)) = false.
Proof.
  cbn [rstrip]. destruct (rstrip l); [rewrite sp_space|]; reflexivity.
Qed.

Lemma sp_line_not_digit l : str_isdigit (firstn 3 (rstrip (SP :: l))) = false.
Proof.
  cbn [rstrip]. destruct (rstrip l) as [|x r].
  - rewrite sp_space. reflexivity.
  - cbn. rewrite sp_nodigit. reflexivity.
Qed.

(* the three kinds of wire line, as seen by the loop *)
Lemma loop_dash code acc l rest :
  good_code code ->
  parse_loop code acc (((code ++ DASH :: l) ++ eol) :: rest)
  = parse_loop code (rstrip (DASH :: l) :: acc) rest.
Proof.
  intro H. cbn [parse_loop].
  rewrite (rstrip_code_line code _ H), (firstn3_code _ _ H), (skipn3_code _ _ H).
  rewrite (good_code_isdigit _ H), text_eqb_refl, rstrip_dash. cbn [starts_with].
  rewrite Z.eqb_refl. reflexivity.
Qed.

Lemma loop_final code acc l rest :
  good_code code ->
  parse_loop code acc (((code ++ SP :: l) ++ eol) :: rest)
  = POk code (rev (rstrip (SP :: l) :: acc)) rest.
Proof.
  intro H. cbn [parse_loop].
  rewrite (rstrip_code_line code _ H), (firstn3_code _ _ H), (skipn3_code _ _ H).
  rewrite (good_code_isdigit _ H), text_eqb_refl, starts_dash_rstrip_sp. reflexivity.
Qed.

Lemma loop_body code acc l rest :
  parse_loop code acc (((SP :: l) ++ eol) :: rest)
  = parse_loop code (rstrip (SP :: l) :: acc) rest.
Proof.
  cbn [parse_loop]. rewrite rstrip_eol, sp_line_not_digit, firstn_skipn. reflexivity.
Qed.

Lemma first_dash code l rest :
  good_code code ->
  parse_response (((code ++ DASH :: l) ++ eol) :: rest)
  = parse_loop code [rstrip (DASH :: l)] rest.
Proof.
  intro H. cbn [parse_response].
  rewrite (rstrip_code_line code _ H), (firstn3_code _ _ H), (skipn3_code _ _ H).
  rewrite rstrip_dash. cbn [starts_with]. rewrite Z.eqb_refl. reflexivity.
Qed.

Lemma first_final code l rest :
  good_code code ->
  parse_response (((code ++ SP :: l) ++ eol) :: rest)
  = POk code [rstrip (SP :: l)] rest.
Proof.
  intro H. cbn [parse_response].
  rewrite (rstrip_code_line code _ H), (firstn3_code _ _ H), (skipn3_code _ _ H).
  rewrite starts_dash_rstrip_sp, (good_code_isdigit _ H). reflexivity.
Qed.

(* ---- runs of continuation lines ---- *)
Lemma loop_dash_run code body acc rest :
  good_code code ->
  parse_loop code acc (map (fun l => l ++ eol) (map (fun l => code ++ DASH :: l) body) ++ rest)
  = parse_loop code (rev (map (fun l => rstrip (DASH :: l)) body) ++ acc) rest.
Proof.
  intro H. revert acc. induction body as [|b body IH]; intro acc; cbn [map app rev]; [reflexivity|].
  rewrite (loop_dash code acc b _ H). rewrite IH. rewrite <- app_assoc. reflexivity.
Qed.

Lemma loop_body_run code body acc rest :
  parse_loop code acc (map (fun l => l ++ eol) (map (fun l => SP :: l) body) ++ rest)
  = parse_loop code (rev (map (fun l => rstrip (SP :: l)) body) ++ acc) rest.
Proof.
  revert acc. induction body as [|b body IH]; intro acc; cbn [map app rev]; [reflexivity|].
  rewrite (loop_body code acc b). rewrite IH. rewrite <- app_assoc. reflexivity.
Qed.

(* what the client must decode, per framing mode: each line intact up to the one-character
   separator and Python's rstrip of trailing whitespace *)
Definition decoded_info (lines : list text) (list_mode : bool) : list text :=
  match split_last lines with
  | None => []
  | Some (init, tail) =>
      if list_mode then
        match init with
        | [] => []
        | head :: body =>
            rstrip (DASH :: head) :: map (fun l => rstrip (SP :: l)) body ++ [rstrip (SP :: tail)]
        end
      else map (fun l => rstrip (DASH :: l)) init ++ [rstrip (SP :: tail)]
  end.

Lemma lf_free_app a b : lf_free a -> lf_free b -> lf_free (a ++ b).
Proof. unfold lf_free. intros. rewrite forallb_app. apply andb_true_iff; split; assumption. Qed.

Lemma good_code_lf_free code : good_code code -> lf_free code.
Proof.
  intros [_ H]. unfold lf_free. rewrite forallb_forall in *. intros x Hx. specialize (H x Hx).
  unfold is_ascii_digit in H. apply andb_true_iff in H as [H1 H2].
  apply negb_true_iff. apply Z.eqb_neq. unfold LF. lia.
Qed.

Lemma lf_free_single c : c <> LF -> lf_free [c].
Proof. intro H. unfold lf_free. cbn. apply Z.eqb_neq in H. rewrite H. reflexivity. Qed.

Lemma lf_free_cons c l : c <> LF -> lf_free l -> lf_free (c :: l).
Proof. intros Hc Hl. change (c :: l) with ([c] ++ l). apply lf_free_app; [apply lf_free_single; exact Hc|exact Hl]. Qed.

Lemma lf_free_hdr code c l : good_code code -> c <> LF -> lf_free l -> lf_free (code ++ c :: l).
Proof. intros H Hc Hl. apply lf_free_app; [apply good_code_lf_free; exact H|apply lf_free_cons; assumption]. Qed.

Lemma DASH_LF : DASH <> LF. Proof. unfold DASH, LF; lia. Qed.
Lemma SP_LF : SP <> LF. Proof. unfold SP, LF; lia. Qed.

Lemma Forall_lf_hdr code c ls : good_code code -> c <> LF -> Forall lf_free ls ->
  Forall lf_free (map (fun l => code ++ c :: l) ls).
Proof.
  intros H Hc Hl. rewrite Forall_map. eapply Forall_impl; [|exact Hl]. intros a Ha.
  apply lf_free_hdr; assumption.
Qed.

Lemma Forall_lf_sp ls : Forall lf_free ls -> Forall lf_free (map (fun l => SP :: l) ls).
Proof.
  intros Hl. rewrite Forall_map. eapply Forall_impl; [|exact Hl]. intros a Ha.
  apply lf_free_cons; [exact SP_LF|exact Ha].
Qed.

Theorem decode_encode_plain code lines k :
  good_code code -> lines <> [] -> Forall lf_free lines ->
  exists wl, write_response code lines false = Some wl /\
    parse_response (split_lines (wire wl ++ k)) = POk code (decoded_info lines false) (split_lines k).
Proof.
  intros Hc Hne Hlf.
  destruct (split_last_some lines Hne) as [body [tail [-> Hsl]]].
  unfold write_response, decoded_info. rewrite Hsl. eexists. split; [reflexivity|].
  apply Forall_app in Hlf as [Hb Ht]. inversion Ht as [|? ? Htl _]; subst.
  rewrite split_lines_wire.
  2:{ apply Forall_app. split; [apply Forall_lf_hdr; [exact Hc|exact DASH_LF|exact Hb]|].
      constructor; [|constructor]. apply lf_free_hdr; [exact Hc|exact SP_LF|exact Htl]. }
  rewrite map_app. cbn [map].
  destruct body as [|b body].
  - cbn [map]. rewrite app_nil_l. cbn [app]. apply first_final. exact Hc.
  - cbn [map]. rewrite <- !app_comm_cons. rewrite (first_dash code b _ Hc).
    rewrite <- app_assoc. rewrite (loop_dash_run code body _ _ Hc).
    rewrite <- app_comm_cons, app_nil_l. rewrite (loop_final code _ tail _ Hc).
    f_equal. cbn [rev]. rewrite rev_app_distr, rev_involutive. cbn [rev app].
    try rewrite <- app_assoc. reflexivity.
Qed.

Theorem decode_encode_list code lines k :
  good_code code -> (2 <= length lines)%nat -> Forall lf_free lines ->
  exists wl, write_response code lines true = Some wl /\
    parse_response (split_lines (wire wl ++ k)) = POk code (decoded_info lines true) (split_lines k).
Proof.
  intros Hc Hlen Hlf.
  assert (Hne : lines <> []) by (destruct lines; cbn in Hlen; [lia|congruence]).
  destruct (split_last_some lines Hne) as [init [tail [-> Hsl]]].
  destruct init as [|head body]; [cbn in Hlen; lia|].
  unfold write_response, decoded_info. rewrite Hsl. rewrite <- app_comm_cons.
  rewrite split_last_app. eexists. split; [reflexivity|].
  rewrite <- app_comm_cons in Hlf.
  inversion Hlf as [|? ? Hh Hrest]; subst.
  apply Forall_app in Hrest as [Hb Ht]. inversion Ht as [|? ? Htl _]; subst.
  rewrite split_lines_wire.
  2:{ constructor; [apply lf_free_hdr; [exact Hc|exact DASH_LF|exact Hh]|].
      apply Forall_app. split; [apply Forall_lf_sp; exact Hb|].
      constructor; [|constructor]. apply lf_free_hdr; [exact Hc|exact SP_LF|exact Htl]. }
  cbn [map]. rewrite map_app. cbn [map]. rewrite <- !app_comm_cons.
  rewrite (first_dash code head _ Hc).
  rewrite <- app_assoc. rewrite (loop_body_run code body).
  rewrite <- app_comm_cons, app_nil_l. rewrite (loop_final code _ tail _ Hc).
  f_equal. cbn [rev]. rewrite rev_app_distr, rev_involutive. cbn [rev app].
  try rewrite <- app_assoc. reflexivity.
Qed.

(* too few lines: the server itself raises (ValueError from tuple unpacking) *)
Lemma write_response_too_few code : write_response code [] false = None
  /\ write_response code [] true = None /\ forall l, write_response code [l] true = None.
Proof. repeat split. Qed.

(* a sequence of replies decodes reply by reply: exactly the reply's bytes are consumed *)
Definition reply := (text * list text * bool)%type.
Definition reply_ok (r : reply) : Prop :=
  let '(code, lines, lm) := r in
  good_code code /\ Forall lf_free lines /\ (if lm then 2 <= length lines else 1 <= length lines)%nat.
Definition reply_wire (r : reply) : text :=
  let '(code, lines, lm) := r in
  match write_response code lines lm with Some wl => wire wl | None => [] end.

Theorem decode_one (r : reply) k :
  reply_ok r ->
  parse_response (split_lines (reply_wire r ++ k))
  = POk (fst (fst r)) (decoded_info (snd (fst r)) (snd r)) (split_lines k).
Proof.
  destruct r as [[code lines] lm]. cbn [fst snd reply_ok reply_wire]. intros [Hc [Hlf Hlen]].
  destruct lm.
  - destruct (decode_encode_list code lines k Hc Hlen Hlf) as [wl [-> H]]. exact H.
  - assert (lines <> []) by (destruct lines; cbn in Hlen; [lia|congruence]).
    destruct (decode_encode_plain code lines k Hc H Hlf) as [wl [-> H']]. exact H'.
Qed.

(* ---- code mismatch ---- *)
Theorem mismatch_rejected code acc l rest :
  str_isdigit (firstn 3 (rstrip l)) = true ->
  text_eqb (firstn 3 (rstrip l)) code = false ->
  parse_loop code acc (l :: rest)
  = PStatusErr code (firstn 3 (rstrip l)) (rev (skipn 3 (rstrip l) :: acc)) rest.
Proof. intros H1 H2. cbn [parse_loop]. rewrite H1, H2. reflexivity. Qed.

(* a multi-line reply whose continuation carries another code: rejected, and exactly the lines
   up to and including the offending one are consumed, so the next reply decodes *)
Theorem mismatch_in_reply code other body bad k :
  good_code code -> good_code other -> other <> code ->
  Forall lf_free body -> lf_free bad ->
  forall head, lf_free head ->
  exists info,
    parse_response (split_lines (wire ((code ++ DASH :: head)
                                         :: map (fun l => code ++ DASH :: l) body
                                         ++ [other ++ SP :: bad]) ++ k))
    = PStatusErr code other info (split_lines k).
Proof.
  intros Hc Ho Hne Hb Hbad head Hh.
  rewrite split_lines_wire.
  2:{ constructor; [apply lf_free_hdr; [exact Hc|exact DASH_LF|exact Hh]|].
      apply Forall_app. split; [apply Forall_lf_hdr; [exact Hc|exact DASH_LF|exact Hb]|].
      constructor; [|constructor]. apply lf_free_hdr; [exact Ho|exact SP_LF|exact Hbad]. }
  cbn [map]. rewrite map_app. cbn [map]. rewrite <- !app_comm_cons.
  rewrite (first_dash code head _ Hc). rewrite <- app_assoc.
  rewrite (loop_dash_run code body _ _ Hc). rewrite <- app_comm_cons, app_nil_l.
  assert (E : rstrip ((other ++ SP :: bad) ++ eol) = other ++ rstrip (SP :: bad))
    by (apply rstrip_code_line; exact Ho).
  eexists. rewrite mismatch_rejected.
  - rewrite E, (firstn3_code _ _ Ho). reflexivity.
  - rewrite E, (firstn3_code _ _ Ho). apply good_code_isdigit; exact Ho.
  - rewrite E, (firstn3_code _ _ Ho). destruct (text_eqb other code) eqn:T; [|reflexivity].
    apply text_eqb_eq in T. contradiction.
Qed.

(* ---- Code.matches ---- *)
Theorem matches_spec mask code :
  matches mask code = true <->
  forall i, (i < Nat.min (length mask) (length code))%nat ->
       is_digit_char (nth i mask 0) = false \/ nth i mask 0 = nth i code 0.
Proof.
  revert code. induction mask as [|m ms IH]; intros [|c cs]; cbn [matches length Nat.min];
    try (split; [intros _ i Hi; lia|reflexivity]).
  rewrite andb_true_iff, IH. split.
  - intros [H1 H2] [|i] Hi; cbn [nth].
    + apply orb_true_iff in H1 as [H1|H1]; [left; apply negb_true_iff; exact H1|right; apply Z.eqb_eq; exact H1].
    + apply H2. lia.
  - intro H. split.
    + destruct (H 0%nat ltac:(lia)) as [H0|H0]; cbn [nth] in H0; apply orb_true_iff;
        [left; apply negb_true_iff; exact H0|right; apply Z.eqb_eq; exact H0].
    + intros i Hi. apply (H (S i)). lia.
Qed.

(* on a full 3-character mask this is "digit-for-digit, any non-digit is a wildcard" *)
Corollary matches_three m1 m2 m3 c1 c2 c3 :
  matches [m1; m2; m3] [c1; c2; c3] = true <->
  (is_digit_char m1 = false \/ m1 = c1) /\ (is_digit_char m2 = false \/ m2 = c2)
  /\ (is_digit_char m3 = false \/ m3 = c3).
Proof.
  cbn [matches]. rewrite !andb_true_iff, !orb_true_iff, !negb_true_iff, !Z.eqb_eq. tauto.
Qed.

(* ---- command(): wait / expect loop ---- *)
Lemma command_skip f e w ls c i rest :
  parse_response ls = POk c i rest -> any_matches w c = true ->
  command_recv (S f) e w ls = command_recv f e w rest.
Proof. intros H1 H2. cbn [command_recv]. rewrite H1, H2. reflexivity. Qed.

Lemma command_stop f e w ls c i rest :
  parse_response ls = POk c i rest -> any_matches w c = false ->
  command_recv (S f) e w ls =
  match e with [] => COk c i rest
          | _ => if any_matches e c then COk c i rest else CStatusErr rest end.
Proof. intros H1 H2. cbn [command_recv]. rewrite H1, H2. reflexivity. Qed.

Definition replies_wire (rs : list reply) : text := flat_map reply_wire rs.

(* skips exactly the replies matching a wait mask, returns the first that does not,
   raises iff no expected mask matches it; consumes exactly those replies *)
Theorem command_loop waits (last : reply) expected wait k fuel :
  Forall reply_ok waits -> reply_ok last ->
  Forall (fun r => any_matches wait (fst (fst r)) = true) waits ->
  any_matches wait (fst (fst last)) = false ->
  (length waits < fuel)%nat ->
  command_recv fuel expected wait (split_lines (replies_wire waits ++ reply_wire last ++ k))
  = match expected with
    | [] => COk (fst (fst last)) (decoded_info (snd (fst last)) (snd last)) (split_lines k)
    | _ => if any_matches expected (fst (fst last))
           then COk (fst (fst last)) (decoded_info (snd (fst last)) (snd last)) (split_lines k)
           else CStatusErr (split_lines k)
    end.
Proof.
  intros Hw Hl Hm Hnm. revert fuel. induction waits as [|r waits IH]; intros fuel Hf.
  - cbn [replies_wire flat_map app]. destruct fuel as [|f]; [cbn in Hf; lia|].
    erewrite command_stop; [reflexivity|apply decode_one; exact Hl|exact Hnm].
  - destruct fuel as [|f]; [cbn in Hf; lia|].
    inversion Hw as [|? ? Hr Hws]; subst. inversion Hm as [|? ? Hmr Hms]; subst.
    cbn [replies_wire flat_map]. rewrite <- app_assoc.
    erewrite command_skip; [|apply decode_one; exact Hr|exact Hmr].
    apply IH; [exact Hws|exact Hms|cbn in Hf; lia].
Qed.

(* ---- command line: what the client builds is what the server parses ---- *)
Theorem parse_command_build verb arg :
  verb <> [] ->
  forallb (fun c => negb (is_space c)) verb = true ->
  rstrip arg = arg ->
  parse_command (build_command verb arg) = Some (lower verb, arg).
Proof.
  intros Hne Hv Ha. unfold build_command, parse_command.
  destruct (verb ++ [SP] ++ arg ++ eol) eqn:E; [destruct verb; discriminate|]. rewrite <- E. clear E.
  replace (verb ++ [SP] ++ arg ++ eol) with ((verb ++ SP :: arg) ++ eol) by (rewrite <- app_assoc; reflexivity).
  rewrite rstrip_eol, (rstrip_app_l verb _ (rstrip_nonspace_all _ Hv)).
  assert (Hsp : forallb (fun x => negb (x =? SP)) verb = true).
  { rewrite forallb_forall in *. intros x Hx. specialize (Hv x Hx).
    apply negb_true_iff. apply negb_true_iff in Hv.
    destruct (x =? SP) eqn:T; [|reflexivity]. apply Z.eqb_eq in T. subst. rewrite sp_space in Hv. discriminate. }
  cbn [rstrip]. rewrite Ha. destruct arg as [|a arg'].
  - rewrite sp_space, app_nil_r. rewrite (partition_none _ _ Hsp). reflexivity.
  - rewrite (partition_app _ _ _ Hsp). reflexivity.
Qed.

(* ---- whole reply sequences on one stream ---- *)
(* an item of the stream: a well-formed reply, or a multi-line reply whose closing line
   carries another (numeric) code *)
Inductive item : Type :=
| Good (r : reply)
| Bad (code other head : text) (body : list text) (bad : text).

Definition item_ok (it : item) : Prop :=
  match it with
  | Good r => reply_ok r
  | Bad code other head body bad =>
      good_code code /\ good_code other /\ other <> code /\
      lf_free head /\ Forall lf_free body /\ lf_free bad
  end.

Definition item_wire (it : item) : text :=
  match it with
  | Good r => reply_wire r
  | Bad code other head body bad =>
      wire ((code ++ DASH :: head) :: map (fun l => code ++ DASH :: l) body ++ [other ++ SP :: bad])
  end.

Definition item_result (it : item) (p : presult) : Prop :=
  match it with
  | Good r => p = POk (fst (fst r)) (decoded_info (snd (fst r)) (snd r)) []
  | Bad code other _ _ _ => exists info, p = PStatusErr code other info []
  end.

Lemma item_step it k :
  item_ok it ->
  exists p, item_result it p /\
    forall f, parse_seq (S f) (split_lines (item_wire it ++ k)) = p :: parse_seq f (split_lines k).
Proof.
  destruct it as [r|code other head body bad]; cbn [item_ok item_wire item_result].
  - intro Hr. eexists. split; [reflexivity|]. intro f. cbn [parse_seq].
    rewrite (decode_one r k Hr). reflexivity.
  - intros [Hc [Ho [Hne [Hh [Hb Hbad]]]]].
    destruct (mismatch_in_reply code other body bad k Hc Ho Hne Hb Hbad head Hh) as [info Hi].
    exists (PStatusErr code other info []). split; [exists info; reflexivity|].
    intro f. cbn [parse_seq]. rewrite Hi. reflexivity.
Qed.

(* every item is decoded (or rejected) on its own, in order, whatever precedes and follows it,
   and the stream is exhausted exactly after the last one *)
Theorem decode_sequence items fuel :
  Forall item_ok items -> (length items < fuel)%nat ->
  exists results,
    parse_seq fuel (split_lines (flat_map item_wire items)) = results ++ [PReset]
    /\ Forall2 item_result items results.
Proof.
  intro Hok. revert fuel. induction items as [|it items IH]; intros fuel Hf.
  - destruct fuel as [|f]; [cbn in Hf; lia|]. exists []. split; [reflexivity|constructor].
  - destruct fuel as [|f]; [cbn in Hf; lia|].
    inversion Hok as [|? ? Hit Hrest]; subst.
    destruct (item_step it (flat_map item_wire items) Hit) as [p [Hp Hstep]].
    destruct (IH Hrest f ltac:(cbn in Hf; lia)) as [results [Hres Hall]].
    exists (p :: results). split; [|constructor; assumption].
    cbn [flat_map]. rewrite Hstep, Hres. reflexivity.
Qed.

(* the byte-stream form of the round trip: the concatenation of the encodings of ANY list of
   well-formed replies (no bound on the number of lines, on the length of a line or on the size of
   a reply) followed by any stream k is decoded, reply by reply, into exactly that list; the
   decoding of k starts exactly where the last encoding ends (nothing is left over, nothing of k is
   eaten) *)
Definition decoded (r : reply) : presult :=
  POk (fst (fst r)) (decoded_info (snd (fst r)) (snd r)) [].

Theorem decode_reply_stream_then (rs : list reply) (k : text) (f : nat) :
  Forall reply_ok rs ->
  parse_seq (length rs + f) (split_lines (replies_wire rs ++ k))
  = map decoded rs ++ parse_seq f (split_lines k).
Proof.
  intro Hok. induction rs as [|r rs IH].
  - reflexivity.
  - inversion Hok as [|? ? Hr Hrest]; subst.
    cbn [length Nat.add replies_wire flat_map map app]. rewrite <- app_assoc.
    cbn [parse_seq]. rewrite (decode_one r (flat_map reply_wire rs ++ k) Hr).
    fold (replies_wire rs). rewrite (IH Hrest). reflexivity.
Qed.

(* ... and when nothing follows, the stream is exhausted exactly after the last reply *)
Theorem decode_reply_stream (rs : list reply) :
  Forall reply_ok rs ->
  parse_seq (S (length rs)) (split_lines (replies_wire rs)) = map decoded rs ++ [PReset].
Proof.
  intro Hok. rewrite <- (app_nil_r (replies_wire rs)).
  replace (S (length rs)) with (length rs + 1)%nat by lia.
  rewrite (decode_reply_stream_then rs [] 1 Hok). reflexivity.
Qed.

(* two commands on one stream: the second starts exactly after the reply the first stopped at *)
Definition command_outcome (expected : list text) (last : reply) (rest : list text) : cresult :=
  match expected with
  | [] => COk (fst (fst last)) (decoded_info (snd (fst last)) (snd last)) rest
  | _ => if any_matches expected (fst (fst last))
         then COk (fst (fst last)) (decoded_info (snd (fst last)) (snd last)) rest
         else CStatusErr rest
  end.

Lemma command_loop' waits last expected wait k fuel :
  Forall reply_ok waits -> reply_ok last ->
  Forall (fun r => any_matches wait (fst (fst r)) = true) waits ->
  any_matches wait (fst (fst last)) = false ->
  (length waits < fuel)%nat ->
  command_recv fuel expected wait (split_lines (replies_wire waits ++ reply_wire last ++ k))
  = command_outcome expected last (split_lines k).
Proof. intros. unfold command_outcome. apply command_loop; assumption. Qed.

Lemma command_seq_single fuel e w ls :
  command_seq fuel [(e, w)] ls = [command_recv fuel e w ls].
Proof. cbn [command_seq]. destruct (command_recv fuel e w ls); reflexivity. Qed.

Lemma command_seq_cons fuel e w c cs ls last rest :
  command_recv fuel e w ls = command_outcome e last rest ->
  command_seq fuel ((e, w) :: c :: cs) ls
  = command_outcome e last [] :: command_seq fuel (c :: cs) rest.
Proof.
  intro H. cbn [command_seq]. rewrite H. unfold command_outcome.
  destruct e as [|m ms]; [reflexivity|].
  destruct (any_matches (m :: ms) (fst (fst last))); reflexivity.
Qed.

Theorem command_then_command waits1 last1 e1 w1 waits2 last2 e2 w2 k fuel :
  Forall reply_ok waits1 -> reply_ok last1 ->
  Forall (fun r => any_matches w1 (fst (fst r)) = true) waits1 ->
  any_matches w1 (fst (fst last1)) = false ->
  Forall reply_ok waits2 -> reply_ok last2 ->
  Forall (fun r => any_matches w2 (fst (fst r)) = true) waits2 ->
  any_matches w2 (fst (fst last2)) = false ->
  (length waits1 < fuel)%nat -> (length waits2 < fuel)%nat ->
  command_seq fuel [(e1, w1); (e2, w2)]
    (split_lines (replies_wire waits1 ++ reply_wire last1
                  ++ replies_wire waits2 ++ reply_wire last2 ++ k))
  = [command_outcome e1 last1 []; command_outcome e2 last2 (split_lines k)].
Proof.
  intros Hw1 Hl1 Hm1 Hn1 Hw2 Hl2 Hm2 Hn2 Hf1 Hf2.
  rewrite (command_seq_cons fuel e1 w1 (e2, w2) [] _ last1 _
             (command_loop' waits1 last1 e1 w1 _ fuel Hw1 Hl1 Hm1 Hn1 Hf1)).
  rewrite command_seq_single.
  rewrite (command_loop' waits2 last2 e2 w2 k fuel Hw2 Hl2 Hm2 Hn2 Hf2). reflexivity.
Qed.

(* ---- non-vacuity ---- *)
Example good_code_250 : good_code [50; 53; 48].
Proof. split; reflexivity. Qed.

Example roundtrip_example :
  exists wl, write_response [50;53;48] [[49;50;51;45;120]; [32]; [45]] true = Some wl /\
  parse_response (split_lines (wire wl ++ [50;50;54;32;13;10]))
  = POk [50;53;48] [[45;49;50;51;45;120]; []; [32;45]] [[50;50;54;32;13;10]].
Proof. eexists. split; vm_compute; reflexivity. Qed.
