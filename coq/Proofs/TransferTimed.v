(* Proofs about Model/TransferTimed.v (C01): time -- throttles, latency, silence, slow loop
   bodies -- does not enter the byte function. *)
From Coq Require Import ZArith QArith Bool Arith String List Lia.
From Verif Require Import Lib.Sx Lib.Facts Lib.XferFacts Model.Bytes Model.TransferBytes Model.TransferTimed
     Proofs.Bytes Proofs.TransferBytes.
Import ListNotations.
Open Scope list_scope.
Open Scope nat_scope.

Lemma net_bytes_cons : forall a s net, net_bytes ((a, s) :: net) = s ++ net_bytes net.
Proof. reflexivity. Qed.

Lemma arrive_preserves : forall t net buf b n,
  arrive t buf net = (b, n) -> b ++ net_bytes n = buf ++ net_bytes net.
Proof.
  induction net as [|[a s] net' IH]; intros buf b n H.
  - cbn in H. injection H as <- <-. reflexivity.
  - cbn [arrive] in H. destruct (Qle_bool a t).
    + apply IH in H. rewrite H, net_bytes_cons. now rewrite app_assoc.
    + injection H as <- <-. reflexivity.
Qed.

Lemma arrive_length : forall t net buf b n,
  arrive t buf net = (b, n) -> length buf <= length b.
Proof.
  induction net as [|[a s] net' IH]; intros buf b n H.
  - cbn in H. injection H as <- <-. lia.
  - cbn [arrive] in H. destruct (Qle_bool a t).
    + apply IH in H. rewrite app_length in H. lia.
    + injection H as <- <-. lia.
Qed.

Lemma wait_data_t_preserves : forall net t buf t' b n,
  wait_data_t t buf net = (t', (b, n)) -> b ++ net_bytes n = buf ++ net_bytes net.
Proof.
  induction net as [|[a s] net' IH]; intros t buf t' b n H.
  - destruct buf; cbn in H; injection H as _ <- <-; reflexivity.
  - destruct buf as [|x buf].
    + cbn [wait_data_t] in H. apply IH in H. rewrite H. reflexivity.
    + cbn in H. injection H as _ <- <-. reflexivity.
Qed.

(* after the blocking wait an empty buffer means the network is exhausted: EOF *)
Lemma wait_data_t_eof : forall net t buf t' n,
  wait_data_t t buf net = (t', ([], n)) -> n = [].
Proof.
  induction net as [|[a s] net' IH]; intros t buf t' n H.
  - destruct buf; cbn in H; inversion H; reflexivity.
  - destruct buf as [|x buf].
    + cbn [wait_data_t] in H. now apply IH in H.
    + cbn in H. discriminate.
Qed.

Definition pending {T} (x : rstate T) : bytes := r_buf x ++ net_bytes (r_net x).

Lemma timed_read_spec : forall T (tm : timing T) block r x t d x',
  1 <= block ->
  timed_read tm block r x = ((t, d), x') ->
  d ++ pending x' = pending x
  /\ length d <= block
  /\ (d = [] -> pending x = []).
Proof.
  intros T tm block r x t d x' Hb H. unfold timed_read in H.
  set (t1 := qmax (r_now x) (tm_wait tm (r_thr x) (r_now x))) in *.
  destruct (arrive t1 (r_buf x) (r_net x)) as [b1 n1] eqn:Ha.
  destruct (wait_data_t t1 b1 n1) as [t2 [b2 n2]] eqn:Hw.
  destruct (arrive t2 b2 n2) as [b3 n3] eqn:Ha2.
  injection H as <- <- <-. unfold pending. cbn [r_buf r_net].
  apply arrive_preserves in Ha. pose proof (wait_data_t_preserves _ _ _ _ _ _ Hw) as Hp.
  pose proof (arrive_preserves _ _ _ _ _ Ha2) as Hp2.
  repeat split.
  - rewrite app_assoc, firstn_skipn. congruence.
  - rewrite firstn_length. pose proof (take_len_le_block block r (length b3) Hb). lia.
  - intro Hnil. apply firstn_pos_nil in Hnil; [|apply take_len_pos].
    subst b3.
    (* nothing after the second arrival: b2 was empty too, so the wait ended at EOF *)
    assert (Hb2 : b2 = []).
    { apply arrive_length in Ha2. destruct b2; [reflexivity|cbn in Ha2; lia]. }
    subst b2. apply wait_data_t_eof in Hw. subst n2.
    rewrite <- Ha, <- Hp. reflexivity.
Qed.

Lemma timed_reads_conforming : forall T (tm : timing T) fuel block rs x,
  1 <= block ->
  length (pending x) < fuel ->
  conforming block (pending x) (map snd (timed_reads fuel tm block rs x)).
Proof.
  intros T tm. induction fuel as [|f IH]; intros block rs x Hb Hf; [lia|].
  cbn [timed_reads].
  set (r := match rs with [] => block | y :: _ => y end).
  destruct (timed_read tm block r x) as [[t d] x'] eqn:Hr.
  destruct (timed_read_spec _ _ _ _ _ _ _ _ Hb Hr) as [Hcat [Hlen Hnil]].
  destruct d as [|y d].
  - exists []. rewrite (Hnil eq_refl). repeat split. constructor.
  - assert (Hf' : length (pending x') < f).
    { rewrite <- Hcat in Hf. rewrite app_length in Hf. cbn [length] in Hf. lia. }
    destruct (IH block (tl rs) x' Hb Hf') as [chunks [Hreads [Hconcat Hall]]].
    exists ((y :: d) :: chunks). repeat split.
    + cbn [map snd]. rewrite Hreads. reflexivity.
    + cbn [concat]. rewrite Hconcat. exact Hcat.
    + constructor; [split; [congruence|exact Hlen]|exact Hall].
Qed.

(* whatever the timing and the arrival instants: the reads hand out exactly the bytes of the
   network, in order, in non-empty blocks of at most `block`, then one EOF *)
Theorem timed_trace_conforming : forall T (tm : timing T) block rs st t0 net,
  1 <= block ->
  conforming block (net_bytes net) (map snd (timed_trace tm block rs st t0 net)).
Proof.
  intros T tm block rs st t0 net Hb. unfold timed_trace.
  change (net_bytes net) with (pending (mkR st t0 [] net)) at 2.
  apply timed_reads_conforming; [exact Hb|]. unfold pending. cbn [r_buf r_net app]. lia.
Qed.

(* the sender's timing and the latencies stamp the blocks, nothing else *)
Lemma timed_send_blocks : forall T (tm : timing T) blocks st now lat i,
  map snd (timed_send tm st now lat i blocks) = blocks.
Proof.
  intros T tm. induction blocks as [|d r IH]; intros st now lat i; [reflexivity|].
  cbn [timed_send map snd]. now rewrite IH.
Qed.

Lemma timed_send_bytes : forall T (tm : timing T) blocks st now lat i,
  net_bytes (timed_send tm st now lat i blocks) = concat blocks.
Proof. intros. unfold net_bytes. now rewrite timed_send_blocks. Qed.

(* ------------------------------------------------------------------------------------------ *)
(* STOR / APPE *)
Theorem timed_stor_exact : forall T (tm : timing T) table vm off old block rs st t0 net,
  stor_table_ok table -> store_mode vm -> 1 <= block ->
  timed_stor tm table vm off old block rs st t0 net
  = Some (spec_store vm off (net_bytes net) old).
Proof.
  intros T tm table vm off old block rs st t0 net Ht Hm Hb. unfold timed_stor.
  eapply stor_worker_exact; [exact Ht|exact Hm|].
  apply timed_trace_conforming. exact Hb.
Qed.

(* two runs that differ in everything temporal (throttle state machines, arrival instants,
   block sizes, read sizes, start instants, segmentations) store the same bytes, and those are
   the bytes of the untimed model *)
Theorem stor_timing_irrelevant : forall T1 (tm1 : timing T1) T2 (tm2 : timing T2) table vm off old
    block1 rs1 st1 t1 net1 block2 rs2 st2 t2 net2,
  stor_table_ok table -> store_mode vm -> 1 <= block1 -> 1 <= block2 ->
  net_bytes net1 = net_bytes net2 ->
  timed_stor tm1 table vm off old block1 rs1 st1 t1 net1
  = timed_stor tm2 table vm off old block2 rs2 st2 t2 net2.
Proof.
  intros. rewrite !timed_stor_exact by assumption. congruence.
Qed.

Theorem timed_stor_is_untimed : forall T (tm : timing T) table vm off old block rs st t0 net
    block' segs oracle,
  stor_table_ok table -> store_mode vm -> 1 <= block -> 1 <= block' ->
  concat segs = net_bytes net ->
  timed_stor tm table vm off old block rs st t0 net = e2e_stor table vm off old block' segs oracle.
Proof.
  intros T tm table vm off old block rs st t0 net block' segs oracle Ht Hm Hb Hb' Hc.
  rewrite timed_stor_exact by assumption.
  symmetry. apply stor_exact; assumption.
Qed.

(* ------------------------------------------------------------------------------------------ *)
(* the client's chunks under the client's timing, any latencies, the server's timing *)
(* (a caller's empty chunk is a no-op write in the real client; the chunk list of the model is
   taken without empty chunks, as in stor_exact_client_chunks) *)
Lemma iter_blocks_nonempty_eof : forall chunks,
  Forall nonempty chunks -> iter_blocks (chunks ++ [[]]) = chunks.
Proof.
  induction chunks as [|c r IH]; intro H; [reflexivity|].
  inversion H as [|? ? Hc Hr]; subst. cbn [app iter_blocks].
  destruct c as [|y c]; [now elim Hc|]. now rewrite IH.
Qed.

Theorem timed_upload_exact : forall C (ctm : timing C) T (stm : timing T) table vm off old chunks
    cst ct0 lat block rs sst st0,
  stor_table_ok table -> store_mode vm -> 1 <= block ->
  Forall nonempty chunks ->
  timed_upload ctm stm table vm off old chunks cst ct0 lat block rs sst st0
  = Some (spec_store vm off (concat chunks) old).
Proof.
  intros C ctm T stm table vm off old chunks cst ct0 lat block rs sst st0 Ht Hm Hb Hne.
  unfold timed_upload. rewrite timed_stor_exact by assumption.
  now rewrite timed_send_bytes, iter_blocks_nonempty_eof.
Qed.

(* ------------------------------------------------------------------------------------------ *)
(* RETR end to end under two timings and any latencies *)
Theorem timed_retr_exact : forall T (stm : timing T) C (ctm : timing C) table off content block foracle
    sst st0 lat cblock crs cst ct0,
  retr_table_ok table -> 1 <= block -> 1 <= cblock ->
  timed_retr stm ctm table off content block foracle sst st0 lat cblock crs cst ct0
  = Some (spec_retr off content).
Proof.
  intros T stm C ctm table off content block foracle sst st0 lat cblock crs cst ct0 Ht Hb Hcb.
  pose proof (retr_worker_exact table off content block foracle Ht Hb) as Hw.
  unfold timed_retr. unfold retr_worker in Hw.
  destruct (select_mode table RB (negb (off =? 0))) as [m|]; [|discriminate].
  injection Hw as Hw. f_equal.
  set (h1 := if negb (off =? 0) then h_seek off (h_open m content) else h_open m content) in *.
  set (net := timed_send stm sst st0 lat 0 (iter_blocks (file_trace block foracle h1))).
  pose proof (timed_trace_conforming C ctm cblock crs cst ct0 net Hcb) as Hconf.
  unfold client_recv.
  rewrite (send_loop_conforming _ _ _ [] Hconf). cbn [app].
  unfold net. rewrite timed_send_bytes.
  rewrite send_loop_iter in Hw. cbn [app] in Hw. exact Hw.
Qed.

Theorem retr_timing_irrelevant : forall T1 (stm1 : timing T1) C1 (ctm1 : timing C1)
    T2 (stm2 : timing T2) C2 (ctm2 : timing C2) table off content
    block1 fo1 sst1 st1 lat1 cblock1 crs1 cst1 ct1
    block2 fo2 sst2 st2 lat2 cblock2 crs2 cst2 ct2,
  retr_table_ok table -> 1 <= block1 -> 1 <= cblock1 -> 1 <= block2 -> 1 <= cblock2 ->
  timed_retr stm1 ctm1 table off content block1 fo1 sst1 st1 lat1 cblock1 crs1 cst1 ct1
  = timed_retr stm2 ctm2 table off content block2 fo2 sst2 st2 lat2 cblock2 crs2 cst2 ct2.
Proof. intros. rewrite !timed_retr_exact by assumption. reflexivity. Qed.

(* ------------------------------------------------------------------------------------------ *)
(* time DOES change the read trace (so the theorems above are not about a model in which time
   is inert): the same three segments, read with block 4, early or late *)
Lemma timing_changes_the_trace :
  map snd (timed_trace scripted 4 [] [] 0%Q [(0%Q, [1%Z; 2%Z]); (5%Q, [3%Z]); (9%Q, [4%Z; 5%Z; 6%Z])])
    = [[1%Z; 2%Z]; [3%Z]; [4%Z; 5%Z; 6%Z]; []]
  /\ map snd (timed_trace scripted 4 [] [inject_Z 10] 0%Q [(0%Q, [1%Z; 2%Z]); (5%Q, [3%Z]); (9%Q, [4%Z; 5%Z; 6%Z])])
    = [[1%Z; 2%Z; 3%Z; 4%Z]; [5%Z; 6%Z]; []].
Proof. split; vm_compute; reflexivity. Qed.
