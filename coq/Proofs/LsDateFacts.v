(* Facts about Model/LsDate.v: the strptime model on the strings the server's formatter
   produces, then the half-year switch and the year inference, for all Z. *)
From Coq Require Import ZArith List Bool Lia.
From Verif Require Import Lib.Sx Lib.PyStr Lib.PyStr2 Lib.Civil Model.LsDate.
From Verif Require Import Proofs.PyStrFacts Proofs.PyStr2Facts Proofs.CivilSweep Proofs.CivilFacts.
Import ListNotations.
Open Scope Z_scope.

(* ---------------- the regex model: first match of a token sequence ---------------- *)
Definition first_is {A} (l : list A) (x : A) : Prop := exists tl, l = x :: tl.

Lemma match_seq_first t ts s m r g r' :
  first_is (tok_matches t s) (m, r) -> first_is (match_seq ts r) (g, r') ->
  first_is (match_seq (t :: ts) s) ((t, m) :: g, r').
Proof.
  intros [tl1 H1] [tl2 H2]. cbn [match_seq]. rewrite H1. cbn [flat_map fst snd]. rewrite H2.
  cbn [map fst snd app]. eexists. reflexivity.
Qed.

Lemma match_seq_nil s : first_is (match_seq [] s) ([], s).
Proof. eexists. reflexivity. Qed.

Ltac range_cases H :=
  apply in_zrange in H; cbn in H;
  repeat (destruct H as [H|H]; [subst|]); [..|contradiction].

(* --- month --- *)
Lemma tok_month Mo r : 1 <= Mo <= 12 -> first_is (tok_matches Tb (month_abbr Mo ++ r)) (month_abbr Mo, r).
Proof.
  intro H. assert (H' : 1 <= Mo < 1 + Z.of_nat 12) by (simpl; lia). clear H.
  range_cases H'; vm_compute; eexists; reflexivity.
Qed.

Lemma month_of_abbr Mo : 1 <= Mo <= 12 -> month_of_text (month_abbr Mo) = Mo.
Proof.
  intro H. assert (H' : 1 <= Mo < 1 + Z.of_nat 12) by (simpl; lia). clear H.
  range_cases H'; vm_compute; reflexivity.
Qed.

Lemma month_abbr_length Mo : 1 <= Mo <= 12 -> length (month_abbr Mo) = 3%nat.
Proof.
  intro H. assert (H' : 1 <= Mo < 1 + Z.of_nat 12) by (simpl; lia). clear H.
  range_cases H'; vm_compute; reflexivity.
Qed.

Lemma month_abbr_chars Mo c : 1 <= Mo <= 12 -> In c (month_abbr Mo) -> 65 <= c <= 122.
Proof.
  intro H. assert (H' : 1 <= Mo < 1 + Z.of_nat 12) by (simpl; lia). clear H.
  range_cases H';
    match goal with |- context [month_abbr ?k] =>
      let v := eval vm_compute in (month_abbr k) in change (month_abbr k) with v end;
    cbn; intuition lia.
Qed.

Lemma month_abbr_feb Mo : 1 <= Mo <= 12 -> starts_with [70; 101; 98] (month_abbr Mo) = (Mo =? 2).
Proof.
  intro H. assert (H' : 1 <= Mo < 1 + Z.of_nat 12) by (simpl; lia). clear H.
  range_cases H'; vm_compute; reflexivity.
Qed.

(* --- day (with the separator before it: "%e" pads with a space) --- *)
Definition sp_of (D : Z) : text := if D <? 10 then [32; 32] else [32].
Definition dtxt (D : Z) : text := if D <? 10 then [48 + D mod 10] else [48 + (D / 10) mod 10; 48 + D mod 10].

Lemma sp_day_eq D x : [32] ++ spad2 D ++ x = sp_of D ++ dtxt D ++ x.
Proof. unfold spad2, sp_of, dtxt. destruct (D <? 10); reflexivity. Qed.

Lemma tok_sp_day D r : 1 <= D <= 31 ->
  first_is (tok_matches TSp (sp_of D ++ dtxt D ++ 32 :: r)) (sp_of D, dtxt D ++ 32 :: r).
Proof.
  intro H. assert (H' : 1 <= D < 1 + Z.of_nat 31) by (simpl; lia). clear H.
  range_cases H'; vm_compute; eexists; reflexivity.
Qed.

Lemma tok_day D r : 1 <= D <= 31 ->
  first_is (tok_matches Td (dtxt D ++ 32 :: r)) (dtxt D, 32 :: r).
Proof.
  intro H. assert (H' : 1 <= D < 1 + Z.of_nat 31) by (simpl; lia). clear H.
  range_cases H'; vm_compute; eexists; reflexivity.
Qed.

Lemma int_dtxt D : 1 <= D <= 31 -> int_of_decimals (dtxt D) = D.
Proof.
  intro H. assert (H' : 1 <= D < 1 + Z.of_nat 31) by (simpl; lia). clear H.
  range_cases H'; vm_compute; reflexivity.
Qed.

(* --- hour, minute --- *)
Lemma tok_sp_hour h r : 0 <= h <= 23 ->
  first_is (tok_matches TSp (32 :: zfill2 h ++ 58 :: r)) ([32], zfill2 h ++ 58 :: r).
Proof.
  intro H. assert (H' : 0 <= h < 0 + Z.of_nat 24) by (simpl; lia). clear H.
  range_cases H'; vm_compute; eexists; reflexivity.
Qed.

Lemma tok_hour h r : 0 <= h <= 23 ->
  first_is (tok_matches TH (zfill2 h ++ 58 :: r)) (zfill2 h, 58 :: r).
Proof.
  intro H. assert (H' : 0 <= h < 0 + Z.of_nat 24) by (simpl; lia). clear H.
  range_cases H'; vm_compute; eexists; reflexivity.
Qed.

Lemma tok_minute mn : 0 <= mn <= 59 -> first_is (tok_matches TM (zfill2 mn)) (zfill2 mn, []).
Proof.
  intro H. assert (H' : 0 <= mn < 0 + Z.of_nat 60) by (simpl; lia). clear H.
  range_cases H'; vm_compute; eexists; reflexivity.
Qed.

Lemma int_zfill2 n : 0 <= n <= 99 -> int_of_decimals (zfill2 n) = n.
Proof.
  intro H. pose proof (forallb_zrange _ _ _ two_digit_sweep n ltac:(simpl; lia)) as S. cbv beta in S.
  apply andb_true_iff in S as [S _]. apply andb_true_iff in S as [S _]. apply Z.eqb_eq. exact S.
Qed.

Lemma tok_colon r : first_is (tok_matches (TLit 58) (58 :: r)) ([58], r).
Proof. vm_compute. eexists. reflexivity. Qed.

(* --- whitespace before a non-space character --- *)
Lemma tok_sp1 c r : is_space c = false -> first_is (tok_matches TSp (32 :: c :: r)) ([32], c :: r).
Proof.
  intro H. cbn [tok_matches sp_matches]. rewrite is_space_SP, H. cbn. eexists. reflexivity.
Qed.

Lemma tok_sp2 c r : is_space c = false ->
  first_is (tok_matches TSp (32 :: 32 :: c :: r)) ([32; 32], c :: r).
Proof.
  intro H. cbn [tok_matches sp_matches]. rewrite is_space_SP, H. cbn. eexists. reflexivity.
Qed.

(* --- year --- *)
Lemma tok_year a b c d r :
  is_decimal_char a = true -> is_decimal_char b = true -> is_decimal_char c = true ->
  is_decimal_char d = true ->
  first_is (tok_matches TY (a :: b :: c :: d :: r)) ([a; b; c; d], r).
Proof.
  intros Ha Hb Hc Hd. cbn [tok_matches alts_of flat_map match_alt]. unfold dec.
  rewrite Ha, Hb, Hc, Hd. cbn. eexists. reflexivity.
Qed.

Lemma digits4_decimal y :
  Forall (fun c => is_decimal_char c = true /\ is_space c = false) (digits4 y).
Proof.
  unfold digits4. repeat constructor;
    try (apply ascii_digit_is_decimal; apply mod10_digit);
    try (apply ascii_digit_not_space; apply mod10_digit).
Qed.

(* ---------------- strptime on the formatter's strings ---------------- *)
Definition fields_ok (t : dt) : Prop :=
  1 <= mo t <= 12 /\ 1 <= dy t <= 31 /\ 0 <= hh t <= 23 /\ 0 <= mi t <= 59.

Lemma valid_dt_fields t : valid_dt t = true -> fields_ok t.
Proof.
  intro V. destruct (valid_date_bounds _ _ _ (valid_dt_date t V)) as (Hm & Hd & _).
  destruct (valid_dt_time t V) as (Hh & Hmi & _). repeat split; lia.
Qed.

Definition hm_text (Mo D h mn : Z) : text :=
  month_abbr Mo ++ sp_of D ++ dtxt D ++ 32 :: zfill2 h ++ 58 :: zfill2 mn.

Lemma fmt_b_e_HM_shape t : fmt_b_e_HM t = hm_text (mo t) (dy t) (hh t) (mi t).
Proof.
  unfold fmt_b_e_HM, hm_text, SP, COLON. f_equal.
  rewrite (sp_day_eq (dy t)). reflexivity.
Qed.

Definition groups1 (Mo D h mn : Z) : list (tok * text) :=
  [(Tb, month_abbr Mo); (TSp, sp_of D); (Td, dtxt D); (TSp, [32]); (TH, zfill2 h);
   (TLit 58, [58]); (TM, zfill2 mn)].

Lemma match_fmt1 Mo D h mn :
  1 <= Mo <= 12 -> 1 <= D <= 31 -> 0 <= h <= 23 -> 0 <= mn <= 59 ->
  first_is (match_seq fmt1 (hm_text Mo D h mn)) (groups1 Mo D h mn, []).
Proof.
  intros HM HD Hh Hmn. unfold fmt1, hm_text, groups1, COLON.
  eapply match_seq_first; [apply tok_month; exact HM|].
  eapply match_seq_first; [apply tok_sp_day; exact HD|].
  eapply match_seq_first; [apply tok_day; exact HD|].
  eapply match_seq_first; [apply tok_sp_hour; exact Hh|].
  eapply match_seq_first; [apply tok_hour; exact Hh|].
  eapply match_seq_first; [apply tok_colon|].
  eapply match_seq_first; [apply tok_minute; exact Hmn|].
  apply match_seq_nil.
Qed.

Lemma strptime_fmt1 t :
  fields_ok t -> strptime fmt1 (fmt_b_e_HM t) = make_datetime 1900 (mo t) (dy t) (hh t) (mi t).
Proof.
  intros (HM & HD & Hh & Hmn). rewrite fmt_b_e_HM_shape.
  destruct (match_fmt1 _ _ _ _ HM HD Hh Hmn) as [tl E].
  unfold strptime. rewrite E. unfold groups1, group_int. cbn [group tok_eqb].
  rewrite (month_of_abbr _ HM), (int_dtxt _ HD), !int_zfill2 by lia. reflexivity.
Qed.

(* "%Y %b %d %H:%M" on  str(Y) + " " + "Feb 29 HH:MM" *)
Lemma strptime_fmt2_feb29 Y t :
  1000 <= Y <= 9999 -> mo t = 2 -> dy t = 29 -> 0 <= hh t <= 23 -> 0 <= mi t <= 59 ->
  strptime fmt2 (str_of_Z Y ++ [SP] ++ fmt_b_e_HM t) = make_datetime Y 2 29 (hh t) (mi t).
Proof.
  intros HY HM HD Hh Hmn. rewrite fmt_b_e_HM_shape, (str_of_Z_4 Y HY), HM, HD.
  destruct (match_fmt1 2 29 (hh t) (mi t) ltac:(lia) ltac:(lia) Hh Hmn) as [tl E].
  pose proof (digits4_decimal Y) as F. unfold digits4 in *.
  inversion F as [|a l [Fa _] F1]; subst. inversion F1 as [|b l [Fb _] F2]; subst.
  inversion F2 as [|c l [Fc _] F3]; subst. inversion F3 as [|d l [Fd _] _]; subst.
  assert (M : first_is (match_seq fmt2
               ([48 + (Y / 1000) mod 10; 48 + (Y / 100) mod 10; 48 + (Y / 10) mod 10; 48 + Y mod 10]
                ++ [SP] ++ hm_text 2 29 (hh t) (mi t)))
             ((TY, [48 + (Y / 1000) mod 10; 48 + (Y / 100) mod 10; 48 + (Y / 10) mod 10; 48 + Y mod 10])
                :: (TSp, [32]) :: groups1 2 29 (hh t) (mi t), [])).
  { change fmt2 with (TY :: TSp :: fmt1).
    eapply match_seq_first; [apply tok_year; assumption|].
    eapply match_seq_first; [|eexists; exact E].
    unfold hm_text. change (month_abbr 2) with [70; 101; 98]. apply tok_sp1. vm_compute. reflexivity. }
  destruct M as [tl2 M]. unfold strptime. rewrite M. unfold groups1, group_int. cbn [group tok_eqb].
  change [48 + (Y / 1000) mod 10; 48 + (Y / 100) mod 10; 48 + (Y / 10) mod 10; 48 + Y mod 10] with (digits4 Y).
  rewrite (int_of_digits4 Y HY), (month_of_abbr 2) by lia.
  rewrite (int_dtxt 29) by lia. rewrite !int_zfill2 by lia. reflexivity.
Qed.

(* "%b %d  %Y" on the year form *)
Lemma fmt_b_e_Y_shape t : 1000 <= yr t <= 9999 ->
  fmt_b_e_Y t = month_abbr (mo t) ++ sp_of (dy t) ++ dtxt (dy t) ++ 32 :: 32 :: digits4 (yr t).
Proof.
  intro HY. unfold fmt_b_e_Y, SP. rewrite (str_of_Z_4 _ HY). f_equal.
  rewrite (sp_day_eq (dy t)). reflexivity.
Qed.

Lemma strptime_fmt3 t :
  1000 <= yr t <= 9999 -> 1 <= mo t <= 12 -> 1 <= dy t <= 31 ->
  strptime fmt3 (fmt_b_e_Y t) = make_datetime (yr t) (mo t) (dy t) 0 0.
Proof.
  intros HY HM HD. rewrite (fmt_b_e_Y_shape t HY).
  pose proof (digits4_decimal (yr t)) as F. unfold digits4 in *.
  inversion F as [|a l [Fa Sa] F1]; subst. inversion F1 as [|b l [Fb _] F2]; subst.
  inversion F2 as [|c l [Fc _] F3]; subst. inversion F3 as [|d l [Fd _] _]; subst.
  set (Ys := [48 + (yr t / 1000) mod 10; 48 + (yr t / 100) mod 10; 48 + (yr t / 10) mod 10; 48 + yr t mod 10]).
  assert (M : first_is (match_seq fmt3 (month_abbr (mo t) ++ sp_of (dy t) ++ dtxt (dy t) ++ 32 :: 32 :: Ys))
             ([(Tb, month_abbr (mo t)); (TSp, sp_of (dy t)); (Td, dtxt (dy t)); (TSp, [32; 32]); (TY, Ys)], [])).
  { unfold fmt3.
    eapply match_seq_first; [apply tok_month; exact HM|].
    eapply match_seq_first; [apply tok_sp_day; exact HD|].
    eapply match_seq_first; [apply tok_day; exact HD|].
    eapply match_seq_first; [subst Ys; apply tok_sp2; exact Sa|].
    eapply match_seq_first; [subst Ys; apply tok_year; assumption|].
    apply match_seq_nil. }
  destruct M as [tl M]. unfold strptime. rewrite M. unfold group_int. cbn [group tok_eqb].
  subst Ys. change [48 + (yr t / 1000) mod 10; 48 + (yr t / 100) mod 10; 48 + (yr t / 10) mod 10; 48 + yr t mod 10]
    with (digits4 (yr t)).
  rewrite (int_of_digits4 _ HY), (month_of_abbr _ HM), (int_dtxt _ HD). reflexivity.
Qed.

(* ---------------- a format with a literal needs the literal in the input ---------------- *)
Lemma match_alt_split a s m r : match_alt a s = Some (m, r) -> s = m ++ r.
Proof.
  revert s m r. induction a as [|p a IH]; intros s m r H; cbn in H.
  - inversion H; subst. reflexivity.
  - destruct s as [|c s']; [discriminate|]. destruct (p c); [|discriminate].
    destruct (match_alt a s') as [[m' r']|] eqn:E; [|discriminate].
    inversion H; subst. cbn. f_equal. apply IH. exact E.
Qed.

Lemma sp_matches_split s m r : In (m, r) (sp_matches s) -> s = m ++ r.
Proof.
  revert m r. induction s as [|c s IH]; intros m r H; cbn in H; [contradiction|].
  destruct (is_space c); [|contradiction].
  apply in_app_or in H as [H|H].
  - apply in_map_iff in H as [[m' r'] [E H]]. cbn in E. inversion E; subst.
    cbn. f_equal. apply IH. exact H.
  - destruct H as [H|[]]. inversion H; subst. reflexivity.
Qed.

Lemma tok_matches_split t s m r : In (m, r) (tok_matches t s) -> s = m ++ r.
Proof.
  assert (G : forall alts, In (m, r) (flat_map (fun a => opt_list (match_alt a s)) alts) -> s = m ++ r).
  { intros alts H. apply in_flat_map in H as [a [_ H]].
    destruct (match_alt a s) as [[m' r']|] eqn:E; cbn in H; [|contradiction].
    destruct H as [H|[]]. inversion H; subst. eapply match_alt_split. exact E. }
  destruct t; cbn [tok_matches]; try apply G. apply sp_matches_split.
Qed.

Lemma tok_lit_head c s m r : In (m, r) (tok_matches (TLit c) s) -> exists s', s = c :: s'.
Proof.
  cbn. destruct s as [|x s']; cbn; [tauto|]. unfold one. destruct (x =? c) eqn:E; cbn; [|tauto].
  apply Z.eqb_eq in E. subst. intros _. eexists. reflexivity.
Qed.

Lemma match_seq_lit ts : forall s g r c,
  In (g, r) (match_seq ts s) -> In (TLit c) ts -> In c s.
Proof.
  induction ts as [|t ts IH]; intros s g r c H Hin; [contradiction|].
  cbn [match_seq] in H. apply in_flat_map in H as [[m r1] [Hm H]].
  apply in_map_iff in H as [[g' r'] [_ H]]. cbn [snd] in H.
  pose proof (tok_matches_split _ _ _ _ Hm) as Es.
  destruct Hin as [->|Hin].
  - destruct (tok_lit_head _ _ _ _ Hm) as [s' ->]. left. reflexivity.
  - rewrite Es. apply in_or_app. right. eapply IH; eassumption.
Qed.

Lemma strptime_needs_lit fmt c s : In (TLit c) fmt -> ~ In c s -> strptime fmt s = None.
Proof.
  intros Hin Hno. unfold strptime. destruct (match_seq fmt s) as [|[g r] tl] eqn:E; [reflexivity|].
  exfalso. apply Hno. eapply match_seq_lit; [rewrite E; left; reflexivity|exact Hin].
Qed.

Lemma spad2_chars D c : In c (spad2 D) -> c = 32 \/ is_ascii_digit c = true.
Proof.
  unfold spad2. destruct (D <? 10); cbn; intros [H|[H|[]]]; subst;
    try (left; reflexivity); right; apply mod10_digit.
Qed.

Lemma zfill2_chars n c : In c (zfill2 n) -> is_ascii_digit c = true.
Proof. unfold zfill2. cbn. intros [H|[H|[]]]; subst; apply mod10_digit. Qed.

Lemma ascii_digit_range c : is_ascii_digit c = true -> 48 <= c <= 57.
Proof. unfold is_ascii_digit. intro H. apply andb_true_iff in H as [A B]. apply Z.leb_le in A, B. lia. Qed.

(* the year form contains no colon *)
Lemma fmt_b_e_Y_no_colon t : 1 <= mo t <= 12 -> ~ In COLON (fmt_b_e_Y t).
Proof.
  intros HM H. unfold fmt_b_e_Y, COLON, SP in H.
  repeat (apply in_app_or in H as [H|H]).
  - pose proof (month_abbr_chars _ _ HM H). lia.
  - cbn in H. intuition lia.
  - apply spad2_chars in H as [H|H]; [lia|apply ascii_digit_range in H; lia].
  - cbn in H. intuition lia.
  - apply str_of_Z_chars in H as [H|H]; [lia|apply ascii_digit_range in H; lia].
Qed.
