(* Facts about Model/LsDate.v: the strptime model on the strings the server's formatter
   produces, then the half-year switch and the year inference, for all Z. *)
From Coq Require Import ZArith List Bool Lia.
From Verif Require Import Lib.Sx Lib.PyStr Lib.PyStr2 Lib.Civil Model.LsDate.
From Verif Require Import Proofs.PyStrFacts Proofs.PyStr2Facts Proofs.CivilSweep Proofs.CivilFacts.
Import ListNotations.
Open Scope Z_scope.

(* ---------------- the regex model: first match of a token sequence ---------------- *)
Definition first_is {A} (l : list A) (x : A) : Prop := exists tl, l = x :: tl.

Lemma match_seq_first t ts s m r g r' :
  first_is (tok_matches t s) (m, r) -> first_is (match_seq ts r) (g, r') ->
  first_is (match_seq (t :: ts) s) ((t, m) :: g, r').
Proof.
  intros [tl1 H1] [tl2 H2]. cbn [match_seq]. rewrite H1. cbn [flat_map fst snd]. rewrite H2.
  cbn [map fst snd app]. eexists. reflexivity.
Qed.

Lemma match_seq_nil s : first_is (match_seq [] s) ([], s).
Proof. eexists. reflexivity. Qed.

Ltac range_cases H :=
  apply in_zrange in H; cbn in H;
  repeat (destruct H as [H|H]; [subst|]); [..|contradiction].

(* --- month --- *)
Lemma tok_month Mo r : 1 <= Mo <= 12 -> first_is (tok_matches Tb (month_abbr Mo ++ r)) (month_abbr Mo, r).
Proof.
  intro H. assert (H' : 1 <= Mo < 1 + Z.of_nat 12) by (simpl; lia). clear H.
  range_cases H'; vm_compute; eexists; reflexivity.
Qed.

Lemma month_of_abbr Mo : 1 <= Mo <= 12 -> month_of_text (month_abbr Mo) = Mo.
Proof.
  intro H. assert (H' : 1 <= Mo < 1 + Z.of_nat 12) by (simpl; lia). clear H.
  range_cases H'; vm_compute; reflexivity.
Qed.

Lemma month_abbr_length Mo : 1 <= Mo <= 12 -> length (month_abbr Mo) = 3%nat.
Proof.
  intro H. assert (H' : 1 <= Mo < 1 + Z.of_nat 12) by (simpl; lia). clear H.
  range_cases H'; vm_compute; reflexivity.
Qed.

Lemma month_abbr_chars Mo c : 1 <= Mo <= 12 -> In c (month_abbr Mo) -> 65 <= c <= 122.
Proof.
  intro H. assert (H' : 1 <= Mo < 1 + Z.of_nat 12) by (simpl; lia). clear H.
  range_cases H';
    match goal with |- context [month_abbr ?k] =>
      let v := eval vm_compute in (month_abbr k) in change (month_abbr k) with v end;
    cbn; intuition lia.
Qed.

Lemma month_abbr_feb Mo : 1 <= Mo <= 12 -> starts_with [70; 101; 98] (month_abbr Mo) = (Mo =? 2).
Proof.
  intro H. assert (H' : 1 <= Mo < 1 + Z.of_nat 12) by (simpl; lia). clear H.
  range_cases H'; vm_compute; reflexivity.
Qed.

(* --- day (with the separator before it: "%e" pads with a space) --- *)
Definition sp_of (D : Z) : text := if D <? 10 then [32; 32] else [32].
Definition dtxt (D : Z) : text := if D <? 10 then [48 + D mod 10] else [48 + (D / 10) mod 10; 48 + D mod 10].

Lemma sp_day_eq D x : [32] ++ spad2 D ++ x = sp_of D ++ dtxt D ++ x.
Proof. unfold spad2, sp_of, dtxt. destruct (D <? 10); reflexivity. Qed.

Lemma tok_sp_day D r : 1 <= D <= 31 ->
  first_is (tok_matches TSp (sp_of D ++ dtxt D ++ 32 :: r)) (sp_of D, dtxt D ++ 32 :: r).
Proof.
  intro H. assert (H' : 1 <= D < 1 + Z.of_nat 31) by (simpl; lia). clear H.
  range_cases H'; vm_compute; eexists; reflexivity.
Qed.

Lemma tok_day D r : 1 <= D <= 31 ->
  first_is (tok_matches Td (dtxt D ++ 32 :: r)) (dtxt D, 32 :: r).
Proof.
  intro H. assert (H' : 1 <= D < 1 + Z.of_nat 31) by (simpl; lia). clear H.
  range_cases H'; vm_compute; eexists; reflexivity.
Qed.

Lemma int_dtxt D : 1 <= D <= 31 -> int_of_decimals (dtxt D) = D.
Proof.
  intro H. assert (H' : 1 <= D < 1 + Z.of_nat 31) by (simpl; lia). clear H.
  range_cases H'; vm_compute; reflexivity.
Qed.

(* --- hour, minute --- *)
Lemma tok_sp_hour h r : 0 <= h <= 23 ->
  first_is (tok_matches TSp (32 :: zfill2 h ++ 58 :: r)) ([32], zfill2 h ++ 58 :: r).
Proof.
  intro H. assert (H' : 0 <= h < 0 + Z.of_nat 24) by (simpl; lia). clear H.
  range_cases H'; vm_compute; eexists; reflexivity.
Qed.

Lemma tok_hour h r : 0 <= h <= 23 ->
  first_is (tok_matches TH (zfill2 h ++ 58 :: r)) (zfill2 h, 58 :: r).
Proof.
  intro H. assert (H' : 0 <= h < 0 + Z.of_nat 24) by (simpl; lia). clear H.
  range_cases H'; vm_compute; eexists; reflexivity.
Qed.

Lemma tok_minute mn : 0 <= mn <= 59 -> first_is (tok_matches TM (zfill2 mn)) (zfill2 mn, []).
Proof.
  intro H. assert (H' : 0 <= mn < 0 + Z.of_nat 60) by (simpl; lia). clear H.
  range_cases H'; vm_compute; eexists; reflexivity.
Qed.

Lemma int_zfill2 n : 0 <= n <= 99 -> int_of_decimals (zfill2 n) = n.
Proof.
  intro H. pose proof (forallb_zrange _ _ _ two_digit_sweep n ltac:(simpl; lia)) as S. cbv beta in S.
  apply andb_true_iff in S as [S _]. apply andb_true_iff in S as [S _]. apply Z.eqb_eq. exact S.
Qed.

Lemma tok_colon r : first_is (tok_matches (TLit 58) (58 :: r)) ([58], r).
Proof. vm_compute. eexists. reflexivity. Qed.

(* --- whitespace before a non-space character --- *)
Lemma tok_sp1 c r : is_space c = false -> first_is (tok_matches TSp (32 :: c :: r)) ([32], c :: r).
Proof.
  intro H. cbn [tok_matches sp_matches]. rewrite is_space_SP, H. cbn. eexists. reflexivity.
Qed.

Lemma tok_sp2 c r : is_space c = false ->
  first_is (tok_matches TSp (32 :: 32 :: c :: r)) ([32; 32], c :: r).
Proof.
  intro H. cbn [tok_matches sp_matches]. rewrite is_space_SP, H. cbn. eexists. reflexivity.
Qed.

(* --- year --- *)
Lemma tok_year a b c d r :
  is_decimal_char a = true -> is_decimal_char b = true -> is_decimal_char c = true ->
  is_decimal_char d = true ->
  first_is (tok_matches TY (a :: b :: c :: d :: r)) ([a; b; c; d], r).
Proof.
  intros Ha Hb Hc Hd. cbn [tok_matches alts_of flat_map match_alt]. unfold dec.
  rewrite Ha, Hb, Hc, Hd. cbn. eexists. reflexivity.
Qed.

Lemma digits4_decimal y :
  Forall (fun c => is_decimal_char c = true /\ is_space c = false) (digits4 y).
Proof.
  unfold digits4. repeat constructor;
    try (apply ascii_digit_is_decimal; apply mod10_digit);
    try (apply ascii_digit_not_space; apply mod10_digit).
Qed.

(* ---------------- strptime on the formatter's strings ---------------- *)
Definition fields_ok (t : dt) : Prop :=
  1 <= mo t <= 12 /\ 1 <= dy t <= 31 /\ 0 <= hh t <= 23 /\ 0 <= mi t <= 59.

Lemma valid_dt_fields t : valid_dt t = true -> fields_ok t.
Proof.
  intro V. destruct (valid_date_bounds _ _ _ (valid_dt_date t V)) as (Hm & Hd & _).
  destruct (valid_dt_time t V) as (Hh & Hmi & _). repeat split; lia.
Qed.

Definition hm_text (Mo D h mn : Z) : text :=
  month_abbr Mo ++ sp_of D ++ dtxt D ++ 32 :: zfill2 h ++ 58 :: zfill2 mn.

Lemma fmt_b_e_HM_shape t : fmt_b_e_HM t = hm_text (mo t) (dy t) (hh t) (mi t).
Proof.
  unfold fmt_b_e_HM, hm_text, SP, COLON. f_equal.
  rewrite (sp_day_eq (dy t)). reflexivity.
Qed.

Definition groups1 (Mo D h mn : Z) : list (tok * text) :=
  [(Tb, month_abbr Mo); (TSp, sp_of D); (Td, dtxt D); (TSp, [32]); (TH, zfill2 h);
   (TLit 58, [58]); (TM, zfill2 mn)].

Lemma match_fmt1 Mo D h mn :
  1 <= Mo <= 12 -> 1 <= D <= 31 -> 0 <= h <= 23 -> 0 <= mn <= 59 ->
  first_is (match_seq fmt1 (hm_text Mo D h mn)) (groups1 Mo D h mn, []).
Proof.
  intros HM HD Hh Hmn. unfold fmt1, hm_text, groups1, COLON.
  eapply match_seq_first; [apply tok_month; exact HM|].
  eapply match_seq_first; [apply tok_sp_day; exact HD|].
  eapply match_seq_first; [apply tok_day; exact HD|].
  eapply match_seq_first; [apply tok_sp_hour; exact Hh|].
  eapply match_seq_first; [apply tok_hour; exact Hh|].
  eapply match_seq_first; [apply tok_colon|].
  eapply match_seq_first; [apply tok_minute; exact Hmn|].
  apply match_seq_nil.
Qed.

Lemma strptime_fmt1 t :
  fields_ok t -> strptime fmt1 (fmt_b_e_HM t) = make_datetime 1900 (mo t) (dy t) (hh t) (mi t).
Proof.
  intros (HM & HD & Hh & Hmn). rewrite fmt_b_e_HM_shape.
  destruct (match_fmt1 _ _ _ _ HM HD Hh Hmn) as [tl E].
  unfold strptime. rewrite E. unfold groups1, group_int. cbn [group tok_eqb].
  rewrite (month_of_abbr _ HM), (int_dtxt _ HD), !int_zfill2 by lia. reflexivity.
Qed.

(* "%Y %b %d %H:%M" on  str(Y) + " " + "Feb 29 HH:MM" *)
Lemma strptime_fmt2_feb29 Y t :
  1000 <= Y <= 9999 -> mo t = 2 -> dy t = 29 -> 0 <= hh t <= 23 -> 0 <= mi t <= 59 ->
  strptime fmt2 (str_of_Z Y ++ [SP] ++ fmt_b_e_HM t) = make_datetime Y 2 29 (hh t) (mi t).
Proof.
  intros HY HM HD Hh Hmn. rewrite fmt_b_e_HM_shape, (str_of_Z_4 Y HY), HM, HD.
  destruct (match_fmt1 2 29 (hh t) (mi t) ltac:(lia) ltac:(lia) Hh Hmn) as [tl E].
  pose proof (digits4_decimal Y) as F. unfold digits4 in *.
  inversion F as [|a l [Fa _] F1]; subst. inversion F1 as [|b l [Fb _] F2]; subst.
  inversion F2 as [|c l [Fc _] F3]; subst. inversion F3 as [|d l [Fd _] _]; subst.
  assert (M : first_is (match_seq fmt2
               ([48 + (Y / 1000) mod 10; 48 + (Y / 100) mod 10; 48 + (Y / 10) mod 10; 48 + Y mod 10]
                ++ [SP] ++ hm_text 2 29 (hh t) (mi t)))
             ((TY, [48 + (Y / 1000) mod 10; 48 + (Y / 100) mod 10; 48 + (Y / 10) mod 10; 48 + Y mod 10])
                :: (TSp, [32]) :: groups1 2 29 (hh t) (mi t), [])).
  { change fmt2 with (TY :: TSp :: fmt1).
    eapply match_seq_first; [apply tok_year; assumption|].
    eapply match_seq_first; [|eexists; exact E].
    unfold hm_text. change (month_abbr 2) with [70; 101; 98]. apply tok_sp1. vm_compute. reflexivity. }
  destruct M as [tl2 M]. unfold strptime. rewrite M. unfold groups1, group_int. cbn [group tok_eqb].
  change [48 + (Y / 1000) mod 10; 48 + (Y / 100) mod 10; 48 + (Y / 10) mod 10; 48 + Y mod 10] with (digits4 Y).
  rewrite (int_of_digits4 Y HY), (month_of_abbr 2) by lia.
  rewrite (int_dtxt 29) by lia. rewrite !int_zfill2 by lia. reflexivity.
Qed.

(* "%b %d  %Y" on the year form *)
Lemma fmt_b_e_Y_shape t : 1000 <= yr t <= 9999 ->
  fmt_b_e_Y t = month_abbr (mo t) ++ sp_of (dy t) ++ dtxt (dy t) ++ 32 :: 32 :: digits4 (yr t).
Proof.
  intro HY. unfold fmt_b_e_Y, SP. rewrite (str_of_Z_4 _ HY). f_equal.
  rewrite (sp_day_eq (dy t)). reflexivity.
Qed.

Lemma strptime_fmt3 t :
  1000 <= yr t <= 9999 -> 1 <= mo t <= 12 -> 1 <= dy t <= 31 ->
  strptime fmt3 (fmt_b_e_Y t) = make_datetime (yr t) (mo t) (dy t) 0 0.
Proof.
  intros HY HM HD. rewrite (fmt_b_e_Y_shape t HY).
  pose proof (digits4_decimal (yr t)) as F. unfold digits4 in *.
  inversion F as [|a l [Fa Sa] F1]; subst. inversion F1 as [|b l [Fb _] F2]; subst.
  inversion F2 as [|c l [Fc _] F3]; subst. inversion F3 as [|d l [Fd _] _]; subst.
  set (Ys := [48 + (yr t / 1000) mod 10; 48 + (yr t / 100) mod 10; 48 + (yr t / 10) mod 10; 48 + yr t mod 10]).
  assert (M : first_is (match_seq fmt3 (month_abbr (mo t) ++ sp_of (dy t) ++ dtxt (dy t) ++ 32 :: 32 :: Ys))
             ([(Tb, month_abbr (mo t)); (TSp, sp_of (dy t)); (Td, dtxt (dy t)); (TSp, [32; 32]); (TY, Ys)], [])).
  { unfold fmt3.
    eapply match_seq_first; [apply tok_month; exact HM|].
    eapply match_seq_first; [apply tok_sp_day; exact HD|].
    eapply match_seq_first; [apply tok_day; exact HD|].
    eapply match_seq_first; [subst Ys; apply tok_sp2; exact Sa|].
    eapply match_seq_first; [subst Ys; apply tok_year; assumption|].
    apply match_seq_nil. }
  destruct M as [tl M]. unfold strptime. rewrite M. unfold group_int. cbn [group tok_eqb].
  subst Ys. change [48 + (yr t / 1000) mod 10; 48 + (yr t / 100) mod 10; 48 + (yr t / 10) mod 10; 48 + yr t mod 10]
    with (digits4 (yr t)).
  rewrite (int_of_digits4 _ HY), (month_of_abbr _ HM), (int_dtxt _ HD). reflexivity.
Qed.

(* ---------------- a format with a literal needs the literal in the input ---------------- *)
Lemma match_alt_split a s m r : match_alt a s = Some (m, r) -> s = m ++ r.
Proof.
  revert s m r. induction a as [|p a IH]; intros s m r H; cbn in H.
  - inversion H; subst. reflexivity.
  - destruct s as [|c s']; [discriminate|]. destruct (p c); [|discriminate].
    destruct (match_alt a s') as [[m' r']|] eqn:E; [|discriminate].
    inversion H; subst. cbn. f_equal. apply IH. exact E.
Qed.

Lemma sp_matches_split s m r : In (m, r) (sp_matches s) -> s = m ++ r.
Proof.
  revert m r. induction s as [|c s IH]; intros m r H; cbn in H; [contradiction|].
  destruct (is_space c); [|contradiction].
  apply in_app_or in H as [H|H].
  - apply in_map_iff in H as [[m' r'] [E H]]. cbn in E. inversion E; subst.
    cbn. f_equal. apply IH. exact H.
  - destruct H as [H|[]]. inversion H; subst. reflexivity.
Qed.

Lemma tok_matches_split t s m r : In (m, r) (tok_matches t s) -> s = m ++ r.
Proof.
  assert (G : forall alts, In (m, r) (flat_map (fun a => opt_list (match_alt a s)) alts) -> s = m ++ r).
  { intros alts H. apply in_flat_map in H as [a [_ H]].
    destruct (match_alt a s) as [[m' r']|] eqn:E; cbn in H; [|contradiction].
    destruct H as [H|[]]. inversion H; subst. eapply match_alt_split. exact E. }
  destruct t; cbn [tok_matches]; try apply G. apply sp_matches_split.
Qed.

Lemma tok_lit_head c s m r : In (m, r) (tok_matches (TLit c) s) -> exists s', s = c :: s'.
Proof.
  cbn. destruct s as [|x s']; cbn; [tauto|]. unfold one. destruct (x =? c) eqn:E; cbn; [|tauto].
  apply Z.eqb_eq in E. subst. intros _. eexists. reflexivity.
Qed.

Lemma match_seq_lit ts : forall s g r c,
  In (g, r) (match_seq ts s) -> In (TLit c) ts -> In c s.
Proof.
  induction ts as [|t ts IH]; intros s g r c H Hin; [contradiction|].
  cbn [match_seq] in H. apply in_flat_map in H as [[m r1] [Hm H]].
  apply in_map_iff in H as [[g' r'] [_ H]]. cbn [snd] in H.
  pose proof (tok_matches_split _ _ _ _ Hm) as Es.
  destruct Hin as [->|Hin].
  - destruct (tok_lit_head _ _ _ _ Hm) as [s' ->]. left. reflexivity.
  - rewrite Es. apply in_or_app. right. eapply IH; eassumption.
Qed.

Lemma strptime_needs_lit fmt c s : In (TLit c) fmt -> ~ In c s -> strptime fmt s = None.
Proof.
  intros Hin Hno. unfold strptime. destruct (match_seq fmt s) as [|[g r] tl] eqn:E; [reflexivity|].
  exfalso. apply Hno. eapply match_seq_lit; [rewrite E; left; reflexivity|exact Hin].
Qed.

Lemma spad2_chars D c : In c (spad2 D) -> c = 32 \/ is_ascii_digit c = true.
Proof.
  unfold spad2. destruct (D <? 10); cbn; intros [H|[H|[]]]; subst;
    try (left; reflexivity); right; apply mod10_digit.
Qed.

Lemma zfill2_chars n c : In c (zfill2 n) -> is_ascii_digit c = true.
Proof. unfold zfill2. cbn. intros [H|[H|[]]]; subst; apply mod10_digit. Qed.

Lemma ascii_digit_range c : is_ascii_digit c = true -> 48 <= c <= 57.
Proof. unfold is_ascii_digit. intro H. apply andb_true_iff in H as [A B]. apply Z.leb_le in A, B. lia. Qed.

(* the year form contains no colon *)
Lemma fmt_b_e_Y_no_colon t : 1 <= mo t <= 12 -> ~ In COLON (fmt_b_e_Y t).
Proof.
  intros HM H. unfold fmt_b_e_Y, COLON, SP in H.
  repeat (apply in_app_or in H as [H|H]).
  - pose proof (month_abbr_chars _ _ HM H). lia.
  - cbn in H. intuition lia.
  - apply spad2_chars in H as [H|H]; [lia|apply ascii_digit_range in H; lia].
  - cbn in H. intuition lia.
  - apply str_of_Z_chars in H as [H|H]; [lia|apply ascii_digit_range in H; lia].
Qed.

(* ---------------- the half-year switch and the year inference ---------------- *)
(* the half year of the property: 365.2425 days / 2, in seconds (the `ls` convention) *)
Definition half_year_spec : Z := 15778476.
(* how far below it the implementation's constant may lie: one day minus the admitted clock
   skew (1 h) minus the seconds lost by the minute format *)
Definition half_lo : Z := half_year_spec - 82740.
Definition DAY : Z := 86400.
Definition HOUR : Z := 3600.

Definition consts_ok (half two_years : Z) : bool :=
  (half_lo <=? half) && (half <=? half_year_spec) && (half_year_spec <=? two_years).

Lemma starts_with_feb29_HM t :
  fields_ok t -> starts_with FEB29 (fmt_b_e_HM t) = (mo t =? 2) && (dy t =? 29).
Proof.
  intros (HM & HD & _). rewrite fmt_b_e_HM_shape. unfold hm_text.
  destruct t as [Y Mo D h mn s]. cbn [mo dy hh mi] in *.
  assert (HM' : 1 <= Mo < 1 + Z.of_nat 12) by (simpl; lia).
  assert (HD' : 1 <= D < 1 + Z.of_nat 31) by (simpl; lia). clear HM HD.
  range_cases HM'; range_cases HD'; vm_compute; reflexivity.
Qed.

Lemma make_datetime_ok y m d h mn :
  1 <= y <= 9999 -> valid_date y m d = true -> make_datetime y m d h mn = Some (mkdt y m d h mn 0).
Proof.
  intros Hy V. unfold make_datetime. rewrite V.
  destruct (1 <=? y) eqn:A; [|apply Z.leb_gt in A; lia].
  destruct (y <=? 9999) eqn:B; [|apply Z.leb_gt in B; lia]. reflexivity.
Qed.

Lemma replace_year_ok d y :
  1 <= y <= 9999 -> valid_date y (mo d) (dy d) = true ->
  replace_year d y = Some (mkdt y (mo d) (dy d) (hh d) (mi d) (ss d)).
Proof.
  intros Hy V. unfold replace_year. rewrite V.
  destruct (1 <=? y) eqn:A; [|apply Z.leb_gt in A; lia].
  destruct (y <=? 9999) eqn:B; [|apply Z.leb_gt in B; lia]. reflexivity.
Qed.

Lemma recent_core half two tm tn :
  valid_dt tm = true -> valid_dt tn = true ->
  consts_ok half two = true ->
  epoch_of_civil tm <= epoch_of_civil tn ->
  epoch_of_civil tn - epoch_of_civil tm <= half_year_spec - DAY + HOUR - 1 ->
  1000 <= yr tm -> yr tn <= 9999 ->
  parse_ls_date_try half two (fmt_b_e_HM tm) tn = Some (minute_floor tm).
Proof.
  intros Vm Vn C Hle Hage HY HY'.
  unfold consts_ok in C. apply andb_true_iff in C as [C C3]. apply andb_true_iff in C as [C1 C2].
  apply Z.leb_le in C1, C2, C3. unfold half_lo, half_year_spec, DAY, HOUR in *.
  pose proof (year_close tm tn Vm Vn Hle ltac:(lia)) as EY.
  pose proof (valid_dt_fields tm Vm) as F.
  pose proof (valid_dt_date tm Vm) as Vd.
  destruct (valid_dt_time tm Vm) as (Hh & Hmi & Hs).
  unfold parse_ls_date_try. rewrite (starts_with_feb29_HM tm F).
  destruct tm as [Y Mo D h mn s]. destruct tn as [Y' Mo' D' h' mn' s'].
  cbn [yr mo dy hh mi ss] in *. unfold minute_floor. cbn [yr mo dy hh mi ss].
  destruct ((Mo =? 2) && (D =? 29)) eqn:FB.
  - (* Feb 29 *)
    apply andb_true_iff in FB as [E1 E2]. apply Z.eqb_eq in E1, E2. subst Mo D.
    pose proof (valid_feb29_leap Y Vd) as LY.
    assert (P : prev_leap 8 Y' = Y).
    { destruct EY as [->| ->]; cbn [prev_leap].
      - rewrite LY. reflexivity.
      - rewrite (is_leap_consecutive Y LY). replace (Y + 1 - 1) with Y by lia. rewrite LY. reflexivity. }
    rewrite P.
    rewrite (strptime_fmt2_feb29 Y (mkdt Y 2 29 h mn s)) by (cbn [mo dy hh mi]; lia).
    cbn [hh mi]. rewrite (make_datetime_ok Y 2 29 h mn) by (try lia; exact Vd).
    unfold epoch_of_civil in *. cbn [yr mo dy hh mi ss] in *.
    destruct (_ >? two) eqn:G; [apply Z.gtb_lt in G; lia|]. reflexivity.
  - (* any other day *)
    assert (N : Mo <> 2 \/ D <> 29).
    { apply andb_false_iff in FB as [E|E]; apply Z.eqb_neq in E; tauto. }
    rewrite (strptime_fmt1 (mkdt Y Mo D h mn s) F). cbn [mo dy hh mi].
    rewrite (make_datetime_ok 1900 Mo D h mn) by (try lia; exact (valid_date_other_year Y 1900 Mo D Vd N)).
    rewrite (replace_year_ok _ Y') by (cbn [mo dy]; try lia; exact (valid_date_other_year Y Y' Mo D Vd N)).
    cbn [mo dy hh mi ss].
    unfold epoch_of_civil in *. cbn [yr mo dy hh mi ss] in *.
    destruct EY as [->| ->].
    + destruct (_ >? half) eqn:G; [apply Z.gtb_lt in G; lia|].
      destruct (_ <? - half) eqn:G2; [apply Z.ltb_lt in G2; lia|]. reflexivity.
    + pose proof (dfc_next_year Y Mo D) as NY.
      destruct (_ >? half) eqn:G; [apply Z.gtb_lt in G; lia|].
      destruct (_ <? - half) eqn:G2; [|apply Z.ltb_ge in G2; lia].
      rewrite replace_year_ok; cbn [mo dy hh mi ss]; try lia.
      * replace (Y + 1 - 1) with Y by lia. reflexivity.
      * replace (Y + 1 - 1) with Y by lia. exact Vd.
Qed.

(* the server's side *)
Lemma build_recent half off mtime now :
  half_lo <= half -> now - half_year_spec + DAY < mtime <= now ->
  build_list_mtime half off mtime now = fmt_b_e_HM (civil_of_epoch (mtime + off)).
Proof.
  unfold half_lo, half_year_spec, DAY, build_list_mtime. intros H1 H2.
  destruct (now - half <? mtime) eqn:A; [|apply Z.ltb_ge in A; lia].
  destruct (mtime <=? now) eqn:B; [|apply Z.leb_gt in B; lia]. reflexivity.
Qed.

Lemma build_old_or_future half off mtime now :
  half <= half_year_spec -> mtime <= now - half_year_spec \/ now < mtime ->
  build_list_mtime half off mtime now = fmt_b_e_Y (civil_of_epoch (mtime + off)).
Proof.
  unfold half_year_spec, build_list_mtime. intros H1 H2.
  destruct (now - half <? mtime) eqn:A; [|reflexivity].
  destruct (mtime <=? now) eqn:B; [|reflexivity].
  apply Z.ltb_lt in A. apply Z.leb_le in B. lia.
Qed.

(* ls_date_recent *)
Theorem ls_date_recent half two off mtime now now' :
  consts_ok half two = true ->
  now <= now' <= now + HOUR ->
  now - half_year_spec + DAY < mtime <= now ->
  let tm := civil_of_epoch (mtime + off) in
  1000 <= yr tm -> yr (client_now off now') <= 9999 ->
  parse_ls_date_dt half two (build_list_mtime half off mtime now) (client_now off now')
  = Some (minute_floor tm).
Proof.
  intros C Hn Hm tm HY HY'.
  assert (C' := C). unfold consts_ok in C'. apply andb_true_iff in C' as [C' _].
  apply andb_true_iff in C' as [C1 _]. apply Z.leb_le in C1.
  rewrite (build_recent half off mtime now C1 Hm). fold tm.
  destruct (epoch_of_civil_of_epoch (mtime + off)) as [Em Vm]. fold tm in Em, Vm.
  unfold client_now in *. set (tn := civil_of_epoch (now' + off)) in *.
  destruct (epoch_of_civil_of_epoch (now' + off)) as [En Vn]. fold tn in En, Vn.
  unfold parse_ls_date_dt.
  rewrite (recent_core half two tm tn Vm Vn C); [reflexivity| | |exact HY|exact HY'];
    rewrite Em, En; unfold HOUR, DAY, half_year_spec in *; lia.
Qed.

(* ls_date_old_or_future: any client clock *)
Theorem ls_date_old_or_future half two off mtime now (nowdt : dt) :
  half <= half_year_spec ->
  mtime <= now - half_year_spec \/ now < mtime ->
  let tm := civil_of_epoch (mtime + off) in
  1000 <= yr tm <= 9999 ->
  parse_ls_date_dt half two (build_list_mtime half off mtime now) nowdt = Some (day_floor tm).
Proof.
  intros C Hm tm HY.
  rewrite (build_old_or_future half off mtime now C Hm). fold tm.
  destruct (epoch_of_civil_of_epoch (mtime + off)) as [_ Vm]. fold tm in Vm.
  destruct (valid_dt_fields tm Vm) as (HM & HD & _).
  pose proof (fmt_b_e_Y_no_colon tm HM) as NC.
  unfold parse_ls_date_dt.
  assert (T : parse_ls_date_try half two (fmt_b_e_Y tm) nowdt = None).
  { unfold parse_ls_date_try. destruct (starts_with FEB29 (fmt_b_e_Y tm)).
    - rewrite (strptime_needs_lit fmt2 COLON); [reflexivity|cbn; tauto|].
      intro H. apply in_app_or in H as [H|H].
      + apply str_of_Z_chars in H as [H|H]; [unfold COLON in H; lia|apply ascii_digit_range in H; unfold COLON in H; lia].
      + apply in_app_or in H as [H|H]; [cbn in H; unfold COLON, SP in H; intuition lia|exact (NC H)].
    - rewrite (strptime_needs_lit fmt1 COLON); [reflexivity|cbn; tauto|exact NC]. }
  rewrite T. rewrite (strptime_fmt3 tm ltac:(lia) HM HD).
  rewrite make_datetime_ok; [reflexivity|lia|exact (valid_dt_date tm Vm)].
Qed.

(* ---------------- what the floors mean in seconds ---------------- *)
Lemma ss_of_epoch e : ss (civil_of_epoch e) = e mod 60.
Proof.
  unfold civil_of_epoch. destruct (civil_from_days (e / 86400)) as [[y m] d]. cbn [ss].
  symmetry. apply Znumtheory.Zmod_div_mod; [lia|lia|]. exists 1440. reflexivity.
Qed.

Lemma epoch_minute_floor_t t : epoch_of_civil (minute_floor t) = epoch_of_civil t - ss t.
Proof. destruct t as [y m d h mn s]. unfold epoch_of_civil, minute_floor. cbn [yr mo dy hh mi ss]. lia. Qed.

Lemma epoch_minute_floor e : epoch_of_civil (minute_floor (civil_of_epoch e)) = e - e mod 60.
Proof.
  rewrite epoch_minute_floor_t, ss_of_epoch.
  destruct (epoch_of_civil_of_epoch e) as [E _]. rewrite E. reflexivity.
Qed.

Lemma epoch_day_floor_t t :
  0 <= hh t <= 23 -> 0 <= mi t <= 59 -> 0 <= ss t <= 59 ->
  epoch_of_civil (day_floor t) = epoch_of_civil t - epoch_of_civil t mod 86400.
Proof.
  destruct t as [y m d h mn s]. unfold epoch_of_civil, day_floor. cbn [yr mo dy hh mi ss]. intros Hh Hm Hs.
  assert (M : (days_from_civil y m d * 86400 + h * 3600 + mn * 60 + s) mod 86400 = h * 3600 + mn * 60 + s).
  { symmetry. apply (Z.mod_unique _ _ (days_from_civil y m d)); lia. }
  rewrite M. lia.
Qed.

Lemma epoch_day_floor e : epoch_of_civil (day_floor (civil_of_epoch e)) = e - e mod 86400.
Proof.
  destruct (epoch_of_civil_of_epoch e) as [E V]. destruct (valid_dt_time _ V) as (Hh & Hm & Hs).
  rewrite (epoch_day_floor_t _ Hh Hm Hs), E. reflexivity.
Qed.

(* text level *)
Corollary ls_date_recent_text half two off mtime now now' :
  consts_ok half two = true ->
  now <= now' <= now + HOUR ->
  now - half_year_spec + DAY < mtime <= now ->
  let tm := civil_of_epoch (mtime + off) in
  1000 <= yr tm -> yr (client_now off now') <= 9999 ->
  parse_ls_date half two (build_list_mtime half off mtime now) (client_now off now')
  = Some (format_date_time tm).
Proof.
  intros C Hn Hm tm HY HY'. unfold parse_ls_date.
  rewrite (ls_date_recent half two off mtime now now' C Hn Hm HY HY'). reflexivity.
Qed.

Corollary ls_date_old_or_future_text half two off mtime now nowdt :
  half <= half_year_spec ->
  mtime <= now - half_year_spec \/ now < mtime ->
  let tm := civil_of_epoch (mtime + off) in
  1000 <= yr tm <= 9999 ->
  parse_ls_date half two (build_list_mtime half off mtime now) nowdt
  = Some (fmt_14 (day_floor tm)).
Proof.
  intros C Hm tm HY. unfold parse_ls_date.
  rewrite (ls_date_old_or_future half two off mtime now nowdt C Hm HY). reflexivity.
Qed.

(* ---------------- inside the excluded window the year can be wrong ---------------- *)
(* (a) same year: 1 s younger than the half year, the seconds dropped by the minute format push
       the apparent age over the threshold; (b) across New Year: 1 h younger than the half year,
       365 d - HALF < age, so the year is not corrected back *)
Lemma window_witness_same_year :
  let half := half_year_spec in let two := 63115200 in
  let now := 1725148800 in let mtime := now - half + 1 in
  now - half < mtime <= now - half + DAY /\
  parse_ls_date_dt half two (build_list_mtime half 0 mtime now) (client_now 0 now)
  = Some (mkdt 2025 3 2 9 5 0) /\ yr (civil_of_epoch mtime) = 2024.
Proof. vm_compute. repeat split; congruence. Qed.

Lemma window_witness_new_year :
  let half := half_year_spec in let two := 63115200 in
  let now := 1740787200 in let mtime := now - half + 3600 in
  now - half < mtime <= now - half + DAY /\
  parse_ls_date_dt half two (build_list_mtime half 0 mtime now) (client_now 0 now)
  = Some (mkdt 2025 8 30 10 5 0) /\ yr (civil_of_epoch mtime) = 2024.
Proof. vm_compute. repeat split; congruence. Qed.
