(* IsoFacts: the type of the write-site facts that tools/py2v/gen_isolation.py extracts from
   /repo/src/aioftp/server.py (values live in the generated Gen/Isolation.v).  C17. *)
From Coq Require Import String List Bool.
Import ListNotations.

(* one place where a function of server.py writes to / mutates an object *)
Record wsite := {
  ws_fn : string;            (* "pasv", "pasv.handler", "stor.stor_worker", "dispatcher", "worker.wrapper" ... *)
  ws_base : string;          (* "connection" | "self" | "cls" | "local" | "free:<name>" | "global:<name>" | "expr" *)
  ws_path : string;          (* attribute / subscript path below the base ("throttle_per_user.[]") *)
  ws_kind : string;          (* "set" | "del" | "aug" | "call:<mutating method>" *)
  ws_roots : list string;    (* for local / expr: the names the object was computed from (self, connection, parameters, @module globals) *)
}.
