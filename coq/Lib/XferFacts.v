(* XferFacts: type of the structural facts about the data path that tools/py2v/gen_xfer.py
   extracts (values live in the generated Gen/Xfer.v).  Statement shapes are role-normalised
   strings: the variable bound to connection.data_connection prints as STREAM, the one bound to
   connection.path_io.open(..) as FILE, the loop variable as ITEM, `connection` as conn; so a
   renamed local does not change a fact, a changed statement does. *)
From Coq Require Import String List Bool ZArith.
Import ListNotations.
Open Scope string_scope.

(* the transfer loops as a PROGRAM (not only as text): a tiny statement language that the
   translator emits for the body of the workers' `async with` and of the client's upload() /
   download() file branches, and that Model/XferProg.v interprets.  Anything the translator
   cannot classify becomes XOther / XSOther, on which the interpreter gives no result. *)
Inductive xsimple : Type :=
| XSeek (target : string)                 (* await <target>.seek(conn.transfer_offset) *)
| XWrite (target : string)                (* await <target>.write(ITEM) *)
| XSOther (text : string).

Inductive xstmt : Type :=
| XDo (s : xsimple)
| XIfOffset (body : list xsimple)         (* if conn.transfer_offset: <body>      (no else) *)
| XForBlocks (src count : string) (body : list xsimple)
                                          (* async for ITEM in <src>.iter_by_block(<count>): <body>   (no else) *)
| XOther (text : string).

Record xfer_facts := {
  xf_stor_prog : list xstmt;              (* body of stor_worker's async with *)
  xf_retr_prog : list xstmt;              (* body of retr_worker's async with *)
  xf_upload_prog : string * list xstmt;   (* upload(): mode the local file is opened with, body of the async with *)
  xf_download_prog : string * list xstmt; (* download(): likewise *)
  (* server.py *)
  xf_stor_default_mode : string;          (* default of stor(..., mode=<>) *)
  xf_appe_mode : string;                  (* third argument of appe's `return await self.stor(connection, rest, <>)` *)
  xf_stor_body : list string;             (* statements inside stor_worker's async with *)
  xf_retr_body : list string;             (* statements inside retr_worker's async with *)
  xf_stor_ctx : list string;              (* items of stor_worker's async with, in order, by role *)
  xf_retr_ctx : list string;
  xf_stor_open : string;                  (* FILE = <> *)
  xf_retr_open : string;
  xf_rest_body : list string;             (* rest() *)
  xf_reset_stmt : list string;            (* the dispatcher statements that hand over / clear the offset, and what precedes them in their block *)
  xf_observer_state : list string;        (* sorted `self.<attr>` names used by build_mlsx_string, _build_mlsx_facts_from_stats, build_list_string, build_list_mtime, mlst, mlsd, list *)
  xf_worker_fs_calls : list string;       (* every connection.path_io call of stor_worker, "--", every one of retr_worker *)
  xf_file_ctx_aexit : list string;        (* AsyncPathIOContext.__aexit__: an exception of close() leaves the context *)
  xf_offset_init : list string;           (* the restart_offset= / transfer_offset= keywords of the dispatcher's Connection(...) *)
  xf_backend_wiring : list string;        (* the assignments of self.path_io_factory (Server.__init__) and connection.path_io (dispatcher): callee and positional arguments *)
  (* common.py *)
  xf_iter_anext : list string;            (* AsyncStreamIterator.__anext__ *)
  xf_iter_by_block_stream : list string;  (* ThrottleStreamIO.iter_by_block *)
  xf_throttle_read : list string;         (* ThrottleStreamIO.read *)
  xf_throttle_write : list string;
  xf_stream_read : list string;           (* StreamIO.read *)
  xf_stream_write : list string;
  xf_default_block_size : Z;
  (* pathio.py *)
  xf_nursery_call : list string;          (* PathIONursery.__call__: every instance shares one state *)
  xf_iter_by_block_file : list string;    (* AsyncPathIOContext.iter_by_block *)
  (* client.py *)
  xf_get_stream : list string;
  xf_passive_first_cmd : string;          (* first command of get_passive_connection *)
  xf_stream_verbs : list (string * list string);   (* upload_stream/append_stream/download_stream -> get_stream arguments *)
  xf_finish : list string;                (* DataConnectionThrottleStreamIO.finish *)
  xf_aexit : list string;                 (* DataConnectionThrottleStreamIO.__aexit__ *)
  xf_upload_file : list string;           (* the is_file branch of upload() after make_directory *)
  xf_download_file : list string;         (* the is_file branch of download() after mkdir *)
}.
