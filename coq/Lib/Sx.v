(* Sx: the one wire format between the harness and every executable model.
   A case is an s-expression of integers; text is a list of code points,
   bytes a list of integers below 256.  The OCaml driver and the Python
   harness (harness/sx.py) read and print exactly this type. *)
From Coq Require Import ZArith List Bool.
Import ListNotations.
Open Scope Z_scope.

Inductive sx : Type :=
| I (z : Z)
| L (l : list sx).

Definition text := list Z.

Definition sx_of_text (t : text) : sx := L (map I t).

Definition z_of_sx (s : sx) : Z := match s with I z => z | L _ => 0 end.

Definition text_of_sx (s : sx) : text :=
  match s with L l => map z_of_sx l | I _ => [] end.

Definition list_of_sx (s : sx) : list sx :=
  match s with L l => l | I _ => [] end.

Definition sx_of_bool (b : bool) : sx := I (if b then 1 else 0).
Definition bool_of_sx (s : sx) : bool := negb (Z.eqb (z_of_sx s) 0).

Definition sx_of_texts (l : list text) : sx := L (map sx_of_text l).
Definition texts_of_sx (s : sx) : list text := map text_of_sx (list_of_sx s).

Definition sx_of_option {A} (f : A -> sx) (o : option A) : sx :=
  match o with None => L [] | Some a => L [f a] end.

Definition nth_sx (n : nat) (s : sx) : sx := nth n (list_of_sx s) (L []).

(* error results: L [I (-1); I tag] *)
Definition sx_err (tag : Z) : sx := L [I (-1); I tag].
Definition sx_ok (s : sx) : sx := L [I 0; s].

Fixpoint sx_eqb (a b : sx) : bool :=
  match a, b with
  | I x, I y => x =? y
  | L l1, L l2 =>
      (fix go (l1 l2 : list sx) : bool :=
         match l1, l2 with
         | [], [] => true
         | x :: r1, y :: r2 => sx_eqb x y && go r1 r2
         | _, _ => false
         end) l1 l2
  | _, _ => false
  end.

(* indices (from 0) of the cases whose model result differs from `expected` *)
Fixpoint mismatches_from (run : Z -> sx -> sx) (i : Z) (cases : list (Z * sx * sx)) : list Z :=
  match cases with
  | [] => []
  | (fn, a, e) :: r =>
      if sx_eqb (run fn a) e then mismatches_from run (i + 1) r
      else i :: mismatches_from run (i + 1) r
  end.
