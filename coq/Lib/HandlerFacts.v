(* HandlerFacts: the statement / expression language into which tools/py2v/gen_handlers.py
   translates the BODY of each of the 25 command handlers of server.py (the code after the
   decorators; values live in the generated Gen/Handlers.v), and which Model/HandlerProg.v
   interprets over the world of Model/Session.v.

   Normalisation done by the translator (so that these do not change a program):
     * local variables are renamed x0, x1, ... in order of first binding; the handler's own
       argument is ERest, any further parameter (stor's `mode`) is EParam;
     * `a, b = e1, e2` is two lets; a local bound exactly once (at the top level of the body) to a
       string literal, or to a modelled expression that reads neither the connection nor a re-bound
       local, is inlined at its uses
       (`code, info = "250", ""; connection.response(code, info)` = `connection.response("250", "")`);
     * message texts (second argument of connection.response when it is a side-effect-free
       expression over constants, the argument and un-modelled locals) are EOpaque; lets of locals
       that no translated expression reads are dropped;
     * a run of consecutive attribute assignments / deletions on distinct connection attributes
       whose right-hand sides do not read the connection is sorted by attribute name.
   Anything the translator cannot classify becomes HOther / EOther / COther "<source text>", on
   which the interpreter gives NO result. *)
From Coq Require Import String List Bool ZArith.
Import ListNotations.
Open Scope string_scope.

Inductive hexpr : Type :=
| ELit (s : string)                (* string literal *)
| EBool (b : bool)
| EInt (z : Z)                     (* integer literal *)
| ERest                            (* the handler's argument `rest` *)
| EParam (x : string)              (* another parameter of the handler (stor's mode) *)
| EVar (x : string)                (* normalised local *)
| EAttr (a : string)               (* connection.<a> *)
| EUserHome                        (* connection.user.home_path *)
| EParent (e : hexpr)              (* <e>.parent *)
| EIntOf (e : hexpr)               (* int(<e>) *)
| EStr (e : hexpr)                 (* str(<e>) *)
| EDblQuote (e : hexpr)            (* <e>.replace(DQUOTE, DQUOTE DQUOTE): every double quote doubled *)
| EQuoted (e : hexpr)              (* the f-string DQUOTE {<e>} DQUOTE *)
| ENewStream                       (* ThrottleStreamIO(reader, writer, ...) in the passive listener's callback *)
| EOpaque                          (* side-effect-free expression the model does not look at (message text) *)
| EOther (text : string).

Inductive hcond : Type :=
| CIn (e : hexpr) (lits : list string)      (* <e> in ("I", "A") *)
| CEq (e : hexpr) (lit : string)            (* <e> == "P" *)
| CTruthy (e : hexpr)                       (* if <e>: *)
| CIsAscii (e : hexpr)                      (* <e>.isascii() *)
| CIsDigit (e : hexpr)                      (* <e>.isdigit() *)
| CLenLe (e : hexpr) (n : Z)                (* len(<e>) <= n *)
| CDone (attr : string)                     (* connection.future.<attr>.done() *)
| CNot (c : hcond)
| CAnd (a b : hcond)
| CStateIs (e : hexpr) (state : string)     (* <e> == AbstractUserManager.GetUserResponse.<state> *)
| CAuth (user pw : hexpr)                   (* await self.user_manager.authenticate(<user>, <pw>) *)
| CBackend (method : string) (arg : hexpr)  (* await connection.path_io.<method>(<arg>) *)
| CWorkersRunning                           (* any(not worker.done() for worker in connection.extra_workers) *)
| COther (text : string).

Inductive hstmt : Type :=
| HLet (x : string) (e : hexpr)
| HIf (c : hcond) (th el : list hstmt)
| HReply (code info : hexpr)                (* connection.response(<code>, <info>[, constant]) *)
| HReturn (b : bool)
| HSetAttr (a : string) (e : hexpr)         (* connection.<a> = <e> *)
| HDelAttr (a : string)                     (* del connection.<a> *)
| HGetPaths (real virt : string) (arg : hexpr)
                                            (* <real>, <virt> = self.get_paths(connection, <arg>) *)
| HBackend (method : string) (args : list hexpr) (kw : list (string * hexpr))
                                            (* await connection.path_io.<method>(<args>, <kw>) *)
| HHelper (dst helper : string) (args : list hexpr)
                                            (* <dst> = await self.<helper>(connection, <args>) *)
| HGetUser (st us info : string) (arg : hexpr)
                                            (* <st>, <us>, <info> = await self.user_manager.get_user(<arg>) *)
| HNotifyLogout                             (* await self.user_manager.notify_logout(connection.user) *)
| HSpawnWorker (w : string) (captures : list hexpr)
      (* coro = <w>(self, connection, rest); task = asyncio.create_task(coro); connection.extra_workers.add(task)
         -- <captures>: the handler's locals / extra parameters the nested worker reads *)
| HDelegate (h : string) (args : list hexpr)(* return await self.<h>(connection, <args>) *)
| HDefCallback (name : string) (body : list hstmt)
                                            (* async def <name>(reader, writer): <body>   (data-connection callback) *)
| HCloseWriter                              (* writer.close() inside the callback *)
| HStartPassive (attr callback : string) (noport : list hstmt)
      (* coro = self._start_passive_server(connection, <callback>)
         try: connection.<attr> = await coro
         except errors.NoAvailablePort: <noport> *)
| HPickSocket (text : string) (nosock : list hstmt)
      (* for sock in connection.passive_server.sockets: <text, ends in break>   else: <nosock> *)
| HCloseData                                (* connection.data_connection.close() *)
| HCancelWorkers                            (* for worker in connection.extra_workers: worker.cancel() *)
| HRaise (exc : string)
| HAbstract (kind text : string)            (* a statement that only touches state outside the model; kinds: "throttle" *)
| HOther (text : string).

(* one handler: extra parameters with their string defaults, body *)
Record hprog := { hp_params : list (string * string); hp_body : list hstmt }.

(* ------------------------------------------------------------------ structural equality *)
Definition leqb {A} (eqb : A -> A -> bool) : list A -> list A -> bool :=
  fix go (a b : list A) : bool :=
    match a, b with
    | [], [] => true
    | x :: a', y :: b' => eqb x y && go a' b'
    | _, _ => false
    end.

Fixpoint hexpr_eqb (a b : hexpr) : bool :=
  match a, b with
  | ELit s, ELit s' => String.eqb s s'
  | EBool x, EBool y => Bool.eqb x y
  | EInt x, EInt y => Z.eqb x y
  | ERest, ERest => true
  | EParam x, EParam y => String.eqb x y
  | EVar x, EVar y => String.eqb x y
  | EAttr x, EAttr y => String.eqb x y
  | EUserHome, EUserHome => true
  | EParent x, EParent y => hexpr_eqb x y
  | EIntOf x, EIntOf y => hexpr_eqb x y
  | EStr x, EStr y => hexpr_eqb x y
  | EDblQuote x, EDblQuote y => hexpr_eqb x y
  | EQuoted x, EQuoted y => hexpr_eqb x y
  | ENewStream, ENewStream => true
  | EOpaque, EOpaque => true
  | EOther x, EOther y => String.eqb x y
  | _, _ => false
  end.

Fixpoint hcond_eqb (a b : hcond) : bool :=
  match a, b with
  | CIn e l, CIn e' l' => hexpr_eqb e e' && leqb String.eqb l l'
  | CEq e l, CEq e' l' => hexpr_eqb e e' && String.eqb l l'
  | CTruthy e, CTruthy e' => hexpr_eqb e e'
  | CIsAscii e, CIsAscii e' => hexpr_eqb e e'
  | CIsDigit e, CIsDigit e' => hexpr_eqb e e'
  | CLenLe e n, CLenLe e' n' => hexpr_eqb e e' && Z.eqb n n'
  | CDone x, CDone y => String.eqb x y
  | CNot x, CNot y => hcond_eqb x y
  | CAnd x1 x2, CAnd y1 y2 => hcond_eqb x1 y1 && hcond_eqb x2 y2
  | CStateIs e s, CStateIs e' s' => hexpr_eqb e e' && String.eqb s s'
  | CAuth u p, CAuth u' p' => hexpr_eqb u u' && hexpr_eqb p p'
  | CBackend m e, CBackend m' e' => String.eqb m m' && hexpr_eqb e e'
  | CWorkersRunning, CWorkersRunning => true
  | COther x, COther y => String.eqb x y
  | _, _ => false
  end.

Definition kw_eqb (a b : string * hexpr) : bool := String.eqb (fst a) (fst b) && hexpr_eqb (snd a) (snd b).

Fixpoint hstmt_eqb (a b : hstmt) : bool :=
  let block := leqb hstmt_eqb in
  match a, b with
  | HLet x e, HLet x' e' => String.eqb x x' && hexpr_eqb e e'
  | HIf c t e, HIf c' t' e' => hcond_eqb c c' && block t t' && block e e'
  | HReply c i, HReply c' i' => hexpr_eqb c c' && hexpr_eqb i i'
  | HReturn x, HReturn y => Bool.eqb x y
  | HSetAttr x e, HSetAttr x' e' => String.eqb x x' && hexpr_eqb e e'
  | HDelAttr x, HDelAttr y => String.eqb x y
  | HGetPaths r v e, HGetPaths r' v' e' => String.eqb r r' && String.eqb v v' && hexpr_eqb e e'
  | HBackend m a k, HBackend m' a' k' => String.eqb m m' && leqb hexpr_eqb a a' && leqb kw_eqb k k'
  | HHelper d h a, HHelper d' h' a' => String.eqb d d' && String.eqb h h' && leqb hexpr_eqb a a'
  | HGetUser s u i e, HGetUser s' u' i' e' =>
      String.eqb s s' && String.eqb u u' && String.eqb i i' && hexpr_eqb e e'
  | HNotifyLogout, HNotifyLogout => true
  | HSpawnWorker w c, HSpawnWorker w' c' => String.eqb w w' && leqb hexpr_eqb c c'
  | HDelegate h a, HDelegate h' a' => String.eqb h h' && leqb hexpr_eqb a a'
  | HDefCallback n b, HDefCallback n' b' => String.eqb n n' && block b b'
  | HCloseWriter, HCloseWriter => true
  | HStartPassive x c n, HStartPassive x' c' n' => String.eqb x x' && String.eqb c c' && block n n'
  | HPickSocket t n, HPickSocket t' n' => String.eqb t t' && block n n'
  | HCloseData, HCloseData => true
  | HCancelWorkers, HCancelWorkers => true
  | HRaise x, HRaise y => String.eqb x y
  | HAbstract k t, HAbstract k' t' => String.eqb k k' && String.eqb t t'
  | HOther x, HOther y => String.eqb x y
  | _, _ => false
  end.

Definition param_eqb (a b : string * string) : bool := String.eqb (fst a) (fst b) && String.eqb (snd a) (snd b).

Definition hprog_eqb (a b : hprog) : bool :=
  leqb param_eqb (hp_params a) (hp_params b) && leqb hstmt_eqb (hp_body a) (hp_body b).

Definition named_prog_eqb (a b : string * hprog) : bool :=
  String.eqb (fst a) (fst b) && hprog_eqb (snd a) (snd b).

(* does a program contain a node without denotation? (for reports) *)
Fixpoint has_other (s : hstmt) : bool :=
  let block := existsb has_other in
  match s with
  | HOther _ => true
  | HIf (COther _) _ _ => true
  | HIf _ t e => block t || block e
  | HDefCallback _ b => block b
  | HStartPassive _ _ n => block n
  | HPickSocket _ n => block n
  | _ => false
  end.
