(* PyStr: the CPython str operations used by the anchored aioftp code, as total
   functions over text = list Z (code points).  Character classes come from
   Gen/Unicode.v, which tools/py2v regenerates from the running interpreter. *)
From Coq Require Import ZArith List Bool Lia.
From Verif Require Import Lib.Sx Gen.Unicode.
Import ListNotations.
Open Scope Z_scope.

Definition in_ranges (rs : list (Z * Z)) (c : Z) : bool :=
  existsb (fun r => (fst r <=? c) && (c <=? snd r)) rs.

Definition is_space (c : Z) : bool := existsb (Z.eqb c) space_chars.
Definition is_digit_char (c : Z) : bool := in_ranges digit_ranges c.
Definition is_decimal_char (c : Z) : bool := in_ranges decimal_ranges c.
Definition is_ascii_digit (c : Z) : bool := (48 <=? c) && (c <=? 57).

Arguments is_space : simpl never.
Arguments is_digit_char : simpl never.
Arguments is_decimal_char : simpl never.
Arguments in_ranges : simpl never.

(* str.isdigit(): non-empty and every character is a digit *)
Definition str_isdigit (s : text) : bool :=
  match s with [] => false | _ => forallb is_digit_char s end.

Fixpoint lstrip (s : text) : text :=
  match s with
  | [] => []
  | c :: r => if is_space c then lstrip r else s
  end.

Fixpoint rstrip (s : text) : text :=
  match s with
  | [] => []
  | c :: r =>
      match rstrip r with
      | [] => if is_space c then [] else [c]
      | r' => c :: r'
      end
  end.

Definition strip (s : text) : text := lstrip (rstrip s).

(* rstrip("\r\n") : strip a given character set on the right *)
Fixpoint rstrip_chars (cs : list Z) (s : text) : text :=
  match s with
  | [] => []
  | c :: r =>
      match rstrip_chars cs r with
      | [] => if existsb (Z.eqb c) cs then [] else [c]
      | r' => c :: r'
      end
  end.

Fixpoint text_eqb (a b : text) : bool :=
  match a, b with
  | [], [] => true
  | x :: a', y :: b' => (x =? y) && text_eqb a' b'
  | _, _ => false
  end.

Fixpoint starts_with (p s : text) : bool :=
  match p, s with
  | [], _ => true
  | x :: p', y :: s' => (x =? y) && starts_with p' s'
  | _ :: _, [] => false
  end.

(* s.partition(c) for a one-character separator: (before, found, after) *)
Fixpoint partition (c : Z) (s : text) : text * bool * text :=
  match s with
  | [] => ([], false, [])
  | x :: r =>
      if x =? c then ([], true, r)
      else let '(a, f, b) := partition c r in (x :: a, f, b)
  end.

(* s.split(c) for a one-character separator *)
Fixpoint split_on (c : Z) (s : text) : list text :=
  match s with
  | [] => [[]]
  | x :: r =>
      if x =? c then [] :: split_on c r
      else match split_on c r with
           | [] => [[x]]
           | h :: t => (x :: h) :: t
           end
  end.

(* s.index(c) *)
Fixpoint index_of (c : Z) (s : text) : option nat :=
  match s with
  | [] => None
  | x :: r => if x =? c then Some O
              else match index_of c r with Some n => Some (S n) | None => None end
  end.

Definition slice_to (n : nat) (s : text) : text := firstn n s.
Definition slice_from (n : nat) (s : text) : text := skipn n s.

Fixpoint assoc_lower (c : Z) (tbl : list (Z * list Z)) : option (list Z) :=
  match tbl with
  | [] => None
  | (k, v) :: r => if k =? c then Some v else assoc_lower c r
  end.

Definition lower_char (c : Z) : list Z :=
  if c <? 128 then
    (if (65 <=? c) && (c <=? 90) then [c + 32] else [c])
  else match assoc_lower c lower_table with Some v => v | None => [c] end.

Arguments lower_char : simpl never.
Definition lower (s : text) : text := flat_map lower_char s.

Definition join (sep : text) (l : list text) : text :=
  match l with
  | [] => []
  | h :: t => h ++ flat_map (fun x => sep ++ x) t
  end.

(* decimal value of str made of ASCII digits *)
Definition digit_val (c : Z) : Z := c - 48.
Definition int_of_ascii_digits (s : text) : Z :=
  fold_left (fun acc c => acc * 10 + digit_val c) s 0.

(* value of a Unicode decimal digit: offset in its 10-block *)
Definition decimal_val (c : Z) : option Z :=
  match find (fun r => (fst r <=? c) && (c <=? snd r)) decimal_ranges with
  | Some r => Some ((c - fst r) mod 10)
  | None => None
  end.

(* text of a non-negative integer, str(n) *)
Fixpoint digits_fuel (fuel : nat) (n : Z) (acc : text) : text :=
  match fuel with
  | O => acc
  | S f => let acc' := (48 + n mod 10) :: acc in
           if n / 10 =? 0 then acc' else digits_fuel f (n / 10) acc'
  end.
Definition str_of_nonneg (n : Z) : text := digits_fuel (S (Z.to_nat (Z.log2 n))) n [].
Definition str_of_Z (n : Z) : text :=
  if n <? 0 then 45 :: str_of_nonneg (- n) else str_of_nonneg n.

Definition ascii (l : list Z) : text := l.
