(* PosixPath: CPython 3.12 pathlib.PurePosixPath as used by the anchored aioftp code
   (Server.get_paths, Permission, User.get_permissions, client path handling).
   A path is its parsed form (anchor, tail parts), exactly what pathlib keeps in
   (_drv, _root, _tail) -- the POSIX drive is always ''.
     parse        = PurePosixPath(str)      (_parse_path + posixpath.splitroot)
     to_str       = str(p)                  (_format_parsed_parts, '.' for the empty path)
     joinp a b    = a / b                   (posixpath.join of the raw strings, re-parsed)
     parent, name, relative_to, is_relative_to, is_absolute, pparts (= p.parts)
   This is a model of the interpreter's library: validated against the real pathlib by the
   correspondence stream "pathlib" of harness/props/c02.py, not proved. *)
From Coq Require Import ZArith List Bool.
From Verif Require Import Lib.Sx Lib.PyStr.
Import ListNotations.
Open Scope Z_scope.

Definition SLASH : Z := 47.
Definition DOT : Z := 46.
Definition dot : text := [DOT].
Definition dotdot : text := [DOT; DOT].

(* anchor: 0 = relative (root ''), 1 = root '/', 2 = root '//' *)
Record ppath : Type := mkp { anchor : Z; parts : list text }.

(* posixpath.splitroot, without the (always empty) drive: (root kind, rest) *)
Definition splitroot (p : text) : Z * text :=
  match p with
  | [] => (0, p)
  | c0 :: r1 =>
      if c0 =? SLASH then
        match r1 with
        | [] => (1, r1)
        | c1 :: r2 =>
            if c1 =? SLASH then
              match r2 with
              | [] => (2, r2)                                   (* exactly '//' *)
              | c2 :: _ => if c2 =? SLASH then (1, r1) else (2, r2)
              end
            else (1, r1)
        end
      else (0, p)
  end.

(* `if x and x != '.'` *)
Definition keep_seg (x : text) : bool := negb (text_eqb x []) && negb (text_eqb x dot).

Definition parse (s : text) : ppath :=
  match s with
  | [] => mkp 0 []
  | _ => let '(a, rel) := splitroot s in mkp a (filter keep_seg (split_on SLASH rel))
  end.

Definition anchor_str (a : Z) : text :=
  if a =? 1 then [SLASH] else if a =? 2 then [SLASH; SLASH] else [].

Definition to_str (p : ppath) : text :=
  if anchor p =? 0 then
    match parts p with
    | [] => dot
    | _ => join [SLASH] (parts p)
    end
  else anchor_str (anchor p) ++ join [SLASH] (parts p).

(* a / b : an absolute right operand replaces the left one *)
Definition joinp (a b : ppath) : ppath :=
  if anchor b =? 0 then mkp (anchor a) (parts a ++ parts b) else b.

Definition is_absolute (p : ppath) : bool := negb (anchor p =? 0).

Definition parent (p : ppath) : ppath :=
  match parts p with
  | [] => p
  | _ => mkp (anchor p) (removelast (parts p))
  end.

Definition name (p : ppath) : text := last (parts p) [].

(* p.parts : the anchor, when there is one, is the first element *)
Definition pparts (p : ppath) : list text :=
  if anchor p =? 0 then parts p else anchor_str (anchor p) :: parts p.

Fixpoint is_prefix (a b : list text) : bool :=
  match a, b with
  | [], _ => true
  | x :: a', y :: b' => text_eqb x y && is_prefix a' b'
  | _ :: _, [] => false
  end.

(* other == p or other in p.parents  (equality is equality of str(); on parsed paths
   that is equality of anchor and tail) *)
Definition is_relative_to (p other : ppath) : bool :=
  (anchor other =? anchor p) && is_prefix (parts other) (parts p).

(* None = ValueError *)
Definition relative_to (p other : ppath) : option ppath :=
  if is_relative_to p other then Some (mkp 0 (skipn (length (parts other)) (parts p)))
  else None.

Definition ppath_eqb (a b : ppath) : bool :=
  (anchor a =? anchor b) && (Nat.eqb (length (parts a)) (length (parts b)))
  && is_prefix (parts a) (parts b).

(* ---- harness interface ---- *)
Definition sx_of_ppath (p : ppath) : sx := L [I (anchor p); sx_of_texts (parts p)].

Definition run_posixpath (fn : Z) (a : sx) : sx :=
  let s0 := text_of_sx (nth_sx 0 a) in
  let s1 := text_of_sx (nth_sx 1 a) in
  match fn with
  | 0 => sx_of_ppath (parse s0)
  | 1 => sx_of_text (to_str (parse s0))
  | 2 => let r := joinp (parse s0) (parse s1) in L [sx_of_ppath r; sx_of_text (to_str r)]
  | 3 => sx_of_ppath (parent (parse s0))
  | 4 => sx_of_text (name (parse s0))
  | 5 => sx_of_option sx_of_ppath (relative_to (parse s0) (parse s1))
  | 6 => sx_of_bool (is_relative_to (parse s0) (parse s1))
  | 7 => sx_of_bool (is_absolute (parse s0))
  | 8 => sx_of_texts (pparts (parse s0))
  | _ => sx_err 99
  end.
