(* WinPath: the fragment of CPython 3.12 pathlib.PureWindowsPath that Server.get_paths can
   reach through `base_path / str(relative)` and `real_path.is_relative_to(base_path)`
   when base_path is a drive-letter, rooted or relative path.
   OUTSIDE the fragment (wparse returns None, the harness counts and skips the model side):
   UNC / device paths, i.e. strings that start with two separators.
     wparse        = PureWindowsPath(str)   (_parse_path + ntpath.splitroot, '/' -> '\')
     wjoin a b     = a / b                  (ntpath.join of the raw strings, re-parsed; on the
                                             fragment that is this combination of the parsed forms)
     wto_str       = str(p)                 (_format_parsed_parts incl. the './C:x' rule)
     w_is_relative_to = other == p or other in p.parents, equality on str().lower()
   Validated against the real pathlib by the correspondence stream "winpath"; not proved.
   Not modelled: str.lower() is taken character-wise (PyStr.lower): the final-sigma rule is ignored. *)
From Coq Require Import ZArith List Bool.
From Verif Require Import Lib.Sx Lib.PyStr Lib.PosixPath.
Import ListNotations.
Open Scope Z_scope.

Definition BSL : Z := 92.
Definition COLON : Z := 58.
Definition is_sep (c : Z) : bool := (c =? BSL) || (c =? SLASH).

Record wpath : Type := mkw { wdrive : text; wroot : bool; wparts : list text }.

(* ntpath.splitroot on the fragment: (drive, has root, rest); None = UNC/device form *)
Definition wsplitroot (p : text) : option (text * bool * text) :=
  match p with
  | [] => Some ([], false, p)
  | c0 :: r1 =>
      if is_sep c0 then
        match r1 with
        | [] => Some ([], true, r1)
        | c1 :: _ => if is_sep c1 then None else Some ([], true, r1)
        end
      else
        match r1 with
        | [] => Some ([], false, p)
        | c1 :: r2 =>
            if c1 =? COLON then
              match r2 with
              | [] => Some ([c0; c1], false, r2)
              | c2 :: r3 => if is_sep c2 then Some ([c0; c1], true, r3) else Some ([c0; c1], false, r2)
              end
            else Some ([], false, p)
        end
  end.

(* path.replace('/', '\\') *)
Definition repl_alt (s : text) : text := map (fun c => if c =? SLASH then BSL else c) s.

Definition wparse (s : text) : option wpath :=
  match s with
  | [] => Some (mkw [] false [])
  | _ =>
      match wsplitroot (repl_alt s) with
      | None => None
      | Some (d, r, rel) => Some (mkw d r (filter keep_seg (split_on BSL rel)))
      end
  end.

(* a / b *)
Definition wjoin (a b : wpath) : wpath :=
  if wroot b then
    mkw (match wdrive b, wdrive a with
         | [], _ :: _ => wdrive a           (* `if p_drive or not result_drive` *)
         | _, _ => wdrive b
         end) true (wparts b)
  else
    match wdrive b with
    | [] => mkw (wdrive a) (wroot a) (wparts a ++ wparts b)
    | _ =>
        if text_eqb (wdrive b) (wdrive a) then mkw (wdrive a) (wroot a) (wparts a ++ wparts b)
        else if text_eqb (lower (wdrive b)) (lower (wdrive a))
             then mkw (wdrive b) (wroot a) (wparts a ++ wparts b)    (* same drive, other case *)
             else b                                                   (* different drive *)
    end.

Definition has_drive (x : text) : bool :=
  match x with
  | c0 :: c1 :: _ => negb (is_sep c0) && (c1 =? COLON)
  | _ => false
  end.

Definition wto_str (p : wpath) : text :=
  match wdrive p, wroot p with
  | [], false =>
      match wparts p with
      | [] => dot
      | h :: _ => if has_drive h then join [BSL] (dot :: wparts p) else join [BSL] (wparts p)
      end
  | _, _ => wdrive p ++ (if wroot p then [BSL] else []) ++ join [BSL] (wparts p)
  end.

Definition w_is_relative_to (p other : wpath) : bool :=
  let key := lower (wto_str other) in
  existsb (fun k => text_eqb (lower (wto_str (mkw (wdrive p) (wroot p) (firstn k (wparts p))))) key)
          (seq 0 (S (length (wparts p)))).

Definition w_is_absolute (p : wpath) : bool :=
  match wdrive p with [] => false | _ => wroot p end.

Definition w_pparts (p : wpath) : list text :=
  match wdrive p, wroot p with
  | [], false => wparts p
  | _, _ => (wdrive p ++ (if wroot p then [BSL] else [])) :: wparts p
  end.

(* ---- harness interface ---- *)
Definition sx_of_wpath (p : wpath) : sx :=
  L [sx_of_text (wdrive p); sx_of_bool (wroot p); sx_of_texts (wparts p)].

Definition sx_of_owpath (o : option wpath) : sx :=
  match o with Some p => sx_ok (L [sx_of_wpath p; sx_of_text (wto_str p); sx_of_texts (w_pparts p)]) | None => sx_err 7 end.

Definition run_winpath (fn : Z) (a : sx) : sx :=
  let s0 := text_of_sx (nth_sx 0 a) in
  let s1 := text_of_sx (nth_sx 1 a) in
  match fn with
  | 20 => sx_of_owpath (wparse s0)
  | 21 => match wparse s0, wparse s1 with
          | Some x, Some y => sx_of_owpath (Some (wjoin x y))
          | _, _ => sx_err 7
          end
  | 22 => match wparse s0, wparse s1 with
          | Some x, Some y => sx_ok (sx_of_bool (w_is_relative_to x y))
          | _, _ => sx_err 7
          end
  | _ => sx_err 99
  end.
