(* Civil: the proleptic Gregorian calendar on Z (Howard Hinnant's days_from_civil /
   civil_from_days), epoch seconds <-> broken-down time, leap years, month lengths and the
   C-locale month abbreviations.  This is the calendar of Python's datetime, time.gmtime and
   calendar.timegm (validated by correspondence in harness/props/c07.py; the round-trip lemmas
   are proved for all Z in Proofs/CivilFacts.v).  Definitions only. *)
From Coq Require Import ZArith List Bool.
From Verif Require Import Lib.Sx.
Import ListNotations.
Open Scope Z_scope.

Definition is_leap (y : Z) : bool :=
  ((y mod 4 =? 0) && negb (y mod 100 =? 0)) || (y mod 400 =? 0).

Definition days_in_month (y m : Z) : Z :=
  if m =? 2 then (if is_leap y then 29 else 28)
  else if (m =? 4) || (m =? 6) || (m =? 9) || (m =? 11) then 30
  else 31.

(* day of the March-based year: Mar 1 = 0 ... Feb 29 = 365 *)
Definition doy_of_md (m d : Z) : Z :=
  (153 * (if 2 <? m then m - 3 else m + 9) + 2) / 5 + d - 1.

(* days since 1970-01-01 of the civil date y-m-d *)
Definition days_from_civil (y m d : Z) : Z :=
  let y' := if m <=? 2 then y - 1 else y in
  let era := y' / 400 in
  let yoe := y' - era * 400 in
  let doe := yoe * 365 + yoe / 4 - yoe / 100 + doy_of_md m d in
  era * 146097 + doe - 719468.

(* the part of civil_from_days that depends on the day-of-era only: (year-of-era, m, d),
   year-of-era counted in March-based years *)
Definition civil_of_doe (doe : Z) : Z * Z * Z :=
  let yoe := (doe - doe / 1460 + doe / 36524 - doe / 146096) / 365 in
  let doy := doe - (365 * yoe + yoe / 4 - yoe / 100) in
  let mp := (5 * doy + 2) / 153 in
  let d := doy - (153 * mp + 2) / 5 + 1 in
  let m := if mp <? 10 then mp + 3 else mp - 9 in
  (yoe, m, d).

Definition civil_from_days (z : Z) : Z * Z * Z :=
  let z' := z + 719468 in
  let era := z' / 146097 in
  let doe := z' - era * 146097 in
  let '(yoe, m, d) := civil_of_doe doe in
  let y := yoe + era * 400 in
  ((if m <=? 2 then y + 1 else y), m, d).

(* broken-down time (a naive datetime / the fields of struct tm that aioftp uses) *)
Record dt : Type := mkdt { yr : Z; mo : Z; dy : Z; hh : Z; mi : Z; ss : Z }.

Definition epoch_of_civil (t : dt) : Z :=
  days_from_civil (yr t) (mo t) (dy t) * 86400 + hh t * 3600 + mi t * 60 + ss t.

Definition civil_of_epoch (e : Z) : dt :=
  let days := e / 86400 in
  let sod := e mod 86400 in
  let '(y, m, d) := civil_from_days days in
  mkdt y m d (sod / 3600) ((sod mod 3600) / 60) (sod mod 60).

Definition valid_date (y m d : Z) : bool :=
  (1 <=? m) && (m <=? 12) && (1 <=? d) && (d <=? days_in_month y m).

Definition valid_dt (t : dt) : bool :=
  valid_date (yr t) (mo t) (dy t)
  && (0 <=? hh t) && (hh t <=? 23) && (0 <=? mi t) && (mi t <=? 59)
  && (0 <=? ss t) && (ss t <=? 59).

Definition minute_floor (t : dt) : dt := mkdt (yr t) (mo t) (dy t) (hh t) (mi t) 0.
Definition day_floor (t : dt) : dt := mkdt (yr t) (mo t) (dy t) 0 0 0.

Definition dt_eqb (a b : dt) : bool :=
  (yr a =? yr b) && (mo a =? mo b) && (dy a =? dy b)
  && (hh a =? hh b) && (mi a =? mi b) && (ss a =? ss b).

(* "Jan" .. "Dec" (time.strftime("%b") in the C locale) *)
Definition month_abbrs : list text :=
  [ [74; 97; 110]; [70; 101; 98]; [77; 97; 114]; [65; 112; 114];
    [77; 97; 121]; [74; 117; 110]; [74; 117; 108]; [65; 117; 103];
    [83; 101; 112]; [79; 99; 116]; [78; 111; 118]; [68; 101; 99] ].

Definition month_abbr (m : Z) : text := nth (Z.to_nat (m - 1)) month_abbrs [].

Definition sx_of_dt (t : dt) : sx := L [I (yr t); I (mo t); I (dy t); I (hh t); I (mi t); I (ss t)].
Definition dt_of_sx (s : sx) : dt :=
  mkdt (z_of_sx (nth_sx 0 s)) (z_of_sx (nth_sx 1 s)) (z_of_sx (nth_sx 2 s))
       (z_of_sx (nth_sx 3 s)) (z_of_sx (nth_sx 4 s)) (z_of_sx (nth_sx 5 s)).
