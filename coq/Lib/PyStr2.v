(* PyStr2: further CPython str / printf operations used by the listing code (C07):
   indexing, slicing, substring search, fixed-width number formatting, int() of decimals,
   and the three-way result type of the client's line parsers.  Definitions only. *)
From Coq Require Import ZArith List Bool.
From Verif Require Import Lib.Sx Lib.PyStr.
Import ListNotations.
Open Scope Z_scope.

(* outcome of a Python function that may raise one of the exceptions parse_list_line catches *)
Inductive res (A : Type) : Type :=
| Ok (a : A)
| Err (tag : Z).          (* 1 ValueError, 2 KeyError, 3 IndexError *)
Arguments Ok {A} a.
Arguments Err {A} tag.
Definition E_VALUE : Z := 1.
Definition E_KEY : Z := 2.
Definition E_INDEX : Z := 3.

Definition bind {A B} (r : res A) (f : A -> res B) : res B :=
  match r with Ok a => f a | Err t => Err t end.

(* s[a:b] for 0 <= a <= b *)
Definition slice (a b : nat) (s : text) : text := firstn (b - a) (skipn a s).

(* s[n] for n >= 0 *)
Definition char_at (n : nat) (s : text) : option Z := nth_error s n.

(* s[-k] for k >= 1 *)
Definition char_from_end (k : nat) (s : text) : option Z :=
  if Nat.ltb (length s) k then None else nth_error s (length s - k).

(* s.find(p): first index where p occurs *)
Fixpoint find_sub (p s : text) : option nat :=
  if starts_with p s then Some O
  else match s with
       | [] => None
       | _ :: r => match find_sub p r with Some n => Some (S n) | None => None end
       end.

(* s.rindex(p): last index where p occurs *)
Fixpoint rfind_sub (p s : text) : option nat :=
  match s with
  | [] => if starts_with p [] then Some O else None
  | _ :: r =>
      match rfind_sub p r with
      | Some n => Some (S n)
      | None => if starts_with p s then Some O else None
      end
  end.

(* printf "%02d" for 0 <= n <= 99 *)
Definition zfill2 (n : Z) : text := [48 + (n / 10) mod 10; 48 + n mod 10].

(* printf "%2d" (strftime %e) for 0 <= n <= 99 *)
Definition spad2 (n : Z) : text :=
  if n <? 10 then [32; 48 + n mod 10] else [48 + (n / 10) mod 10; 48 + n mod 10].

(* int(s) for s made of Unicode decimal digits, optionally surrounded by whitespace
   (only what strptime's groups can hand to int()); non-decimals count as 0 *)
Definition int_of_decimals (s : text) : Z :=
  fold_left (fun acc c => acc * 10 + match decimal_val c with Some v => v | None => 0 end)
            (strip s) 0.

Definition ascii_lower_char (c : Z) : Z := if (65 <=? c) && (c <=? 90) then c + 32 else c.

(* dict[key] = value on an insertion-ordered association list *)
Fixpoint dict_set (k v : text) (d : list (text * text)) : list (text * text) :=
  match d with
  | [] => [(k, v)]
  | (k', v') :: r => if text_eqb k' k then (k', v) :: r else (k', v') :: dict_set k v r
  end.

Fixpoint dict_get (k : text) (d : list (text * text)) : option text :=
  match d with
  | [] => None
  | (k', v') :: r => if text_eqb k' k then Some v' else dict_get k r
  end.
