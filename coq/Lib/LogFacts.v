(* LogFacts: the types of the facts that tools/py2v/gen_logging.py extracts from
   /repo/src/aioftp/{server,client,common,pathio}.py (values live in the generated Gen/Logging.v).
   Identifiers / format strings are Coq strings; texts the model computes with are list Z. *)
From Coq Require Import String List Bool ZArith.
Import ListNotations.
Open Scope string_scope.

(* where a value handed to a logging call comes from (intra-procedural taint pass) *)
Inductive lsrc : Type :=
| SrcConst                 (* literal *)
| SrcLen                   (* len(anything) *)
| SrcStars                 (* "<literal>" * len(anything) *)
| SrcCensoredPrefix        (* command[:censor_after] on the branch where censor_after is truthy *)
| SrcPeerLine              (* server: the line read from the control connection (raw or decoded) *)
| SrcCmdVerb               (* text before the first space of a peer line *)
| SrcCmdRest               (* text after the first space of a peer line: a PASS argument lives here *)
| SrcCmdRestGuarded        (* CmdRest on the branch where cmd.lower() is NOT in censor_commands *)
| SrcClientCommand         (* client: the full command string about to be sent ("PASS " + password lives here) *)
| SrcClientCommandGuarded  (* ClientCommand on the branch where censor_after is falsy *)
| SrcReplyLine             (* server: a reply line handed to write_line; client: a line read from the server *)
| SrcAddr                  (* host / port from getsockname / get_extra_info *)
| SrcExcInfo               (* logger.exception / exc_info=True: traceback of the active exception *)
| SrcPath                  (* a path listed by the backend *)
| SrcUnknown (expr : string).

Record logsite := {
  ls_file : string;
  ls_func : string;                (* Class.method[.nested] *)
  ls_level : string;               (* debug / info / warning / exception ... *)
  ls_fmt : option string;          (* Some literal when the msg argument is a string literal *)
  ls_srcs : list lsrc;             (* sources of msg (first) and of every further argument, + ExcInfo *)
}.

Definition lsrc_allowed (s : lsrc) : bool :=
  match s with
  | SrcConst | SrcLen | SrcStars | SrcCensoredPrefix | SrcCmdVerb | SrcCmdRestGuarded
  | SrcClientCommandGuarded | SrcReplyLine | SrcAddr | SrcExcInfo | SrcPath => true
  | SrcPeerLine | SrcCmdRest | SrcClientCommand | SrcUnknown _ => false
  end.

Definition lsrc_is_exc (s : lsrc) : bool := match s with SrcExcInfo => true | _ => false end.
Definition lsrc_is_const (s : lsrc) : bool := match s with SrcConst => true | _ => false end.
