(* LogFacts: the types of the facts that tools/py2v/gen_logging.py extracts from
   /repo/src/aioftp/{server,client,common,pathio}.py (values live in the generated Gen/Logging.v).
   Identifiers / format strings are Coq strings; texts the model computes with are list Z. *)
From Coq Require Import String List Bool ZArith.
Import ListNotations.
Open Scope string_scope.

(* where a value handed to a logging call comes from (intra-procedural taint pass) *)
Inductive lsrc : Type :=
| SrcConst                 (* literal *)
| SrcLen                   (* len(anything) *)
| SrcStars                 (* "<literal>" * len(anything) *)
| SrcCensoredPrefix        (* command[:censor_after] on the branch where censor_after is truthy *)
| SrcPeerLine              (* server: the line read from the control connection (raw or decoded) *)
| SrcCmdVerb               (* text before the first space of a peer line *)
| SrcCmdRest               (* text after the first space of a peer line: a PASS argument lives here *)
| SrcCmdRestGuarded        (* CmdRest on the branch where cmd.lower() is NOT in censor_commands *)
| SrcClientCommand         (* client: the full command string about to be sent ("PASS " + password lives here) *)
| SrcClientCommandGuarded  (* ClientCommand on the branch where censor_after is falsy *)
| SrcReplyLine             (* server: a reply line handed to write_line; client: a line read from the server *)
| SrcAddr                  (* host / port from getsockname / get_extra_info *)
| SrcExcInfo               (* logger.exception / exc_info=True: traceback of the active exception *)
| SrcPath                  (* a path listed by the backend *)
| SrcUnknown (expr : string).

Record logsite := {
  ls_file : string;
  ls_func : string;                (* Class.method[.nested] *)
  ls_level : string;               (* debug / info / warning / exception ... *)
  ls_fmt : option string;          (* Some literal when the msg argument is a string literal *)
  ls_srcs : list lsrc;             (* sources of msg (first) and of every further argument, + ExcInfo *)
}.

Definition lsrc_allowed (s : lsrc) : bool :=
  match s with
  | SrcConst | SrcLen | SrcStars | SrcCensoredPrefix | SrcCmdVerb | SrcCmdRestGuarded
  | SrcClientCommandGuarded | SrcReplyLine | SrcAddr | SrcExcInfo | SrcPath => true
  | SrcPeerLine | SrcCmdRest | SrcClientCommand | SrcUnknown _ => false
  end.

Definition lsrc_is_exc (s : lsrc) : bool := match s with SrcExcInfo => true | _ => false end.
Definition lsrc_is_const (s : lsrc) : bool := match s with SrcConst => true | _ => false end.

(* ------------------------------------------------------------------ Client.login as a program
   code, info = await self.command(<first>, <expected>)
   while code.matches(<loop mask>):
       [censor_after = <reset>]                       (first statement of the loop body)
       if code == "<c1>": cmd = "<prefix1>" + <arg1> [; censor_after = <k1>]
       elif code == "<c2>": ...
       else: raise StatusCodeError(...)
       code, info = await self.command(cmd, <expected>, censor_after=censor_after)
   Texts are code points (list Z); a censor value None is represented by 0 (falsy). *)
Inductive login_arg : Type := ArgUser | ArgPassword | ArgAccount.

Record login_branch := {
  lb_code : list Z;                 (* the reply code this branch answers ("" for the first command) *)
  lb_prefix : list Z;               (* literal the command starts with *)
  lb_arg : login_arg;               (* the parameter appended to it *)
  lb_censor : option Z              (* Some k: the branch binds censor_after = k; None: it does not bind it *)
}.

Record login_prog := {
  lp_first : login_branch;          (* the command sent before the loop (never censored: command() default) *)
  lp_expected : list (list Z);      (* expected codes of every command of login *)
  lp_loop_mask : list Z;            (* while code.matches(mask) *)
  lp_init_censor : option Z;        (* censor_after bound to a constant before the loop *)
  lp_reset : option Z;              (* censor_after re-bound to a constant at the top of every iteration *)
  lp_branches : list login_branch
}.
