(* Facts: the types of the structural facts that tools/py2v extracts from /repo/src/aioftp/server.py
   (values live in the generated Gen/Dispatch.v).  Identifiers are Coq strings. *)
From Coq Require Import String List Bool ZArith.
Import ListNotations.
Local Open Scope string_scope.

(* one decorator of a handler / worker, in source order (outermost first) *)
Inductive deco : Type :=
| DConn (fields : list string) (wait : bool) (fail_code : string)  
| DPathCond (conds : list string)                                  
| DPathPerm (perms : list string)                                  
| DWorker                                                          
| DOther (name : string).

(* where the argument of a backend call on connection.path_io comes from *)
Inductive psrc : Type :=
| SReal            (* real_path from get_paths(connection, rest) in this function or its enclosing handler *)
| SRealParent      (* real_path.parent *)
| SListed          (* loop variable of `async for path in connection.path_io.list(real_path)` *)
| SRenameFrom      (* connection.rename_from (a real path stored by rnfr) *)
| SParam           (* the function's own `path` parameter (helpers build_*_string) *)
| SUnknown (expr : string).

Record bcall := { bc_method : string; bc_args : list psrc }.

Record handler := {
  h_name : string;
  h_decos : list deco;                  (* outermost first *)
  h_delegate : option string;           (* body is `return await self.X(connection, ...)` *)
  h_codes : list string;                (* literal reply codes queued by the body itself *)
  h_returns : list bool;                (* literal return values of the body *)
  h_backend : list bcall;               (* backend calls of the body itself (not of nested workers) *)
  h_helpers : list string;              (* self.<helper>(connection, ...) calls (build_mlsx_string ...) *)
  h_conn_sets : list string;            (* connection.<attr> = ... *)
  h_conn_dels : list string;            (* del connection.<attr> *)
  h_self_writes : list string;          (* writes to the server object: self.<attr> = / self.<attr>[..] = *)
  h_get_paths : bool;                   (* calls self.get_paths(connection, rest) *)
  h_spawns : list string;               (* nested worker functions scheduled into connection.extra_workers *)
  h_awaits : list string;               (* awaited callees, textual *)
  h_self_calls : list string;           (* calls on attributes of the server object, textual callee *)
  h_starts_passive : bool;              (* calls self._start_passive_server *)
}.

(* a nested *_worker function *)
Record worker := {
  w_name : string;
  w_owner : string;                     (* enclosing handler *)
  w_decos : list deco;
  w_detach_first : bool;                (* body starts: stream = connection.data_connection; del connection.data_connection *)
  w_ctx : list (list string);           (* every `async with`: its items in source order *)
  w_open_modes : list string;           (* mode expressions of path_io.open calls *)
  w_backend : list bcall;
  w_helpers : list string;
  w_codes : list string;
  w_reply_after_ctx : bool;             (* the completion response follows the outermost async with *)
  w_returns : list bool;
}.

Record dispatcher_facts := {
  d_table : list (string * string);     (* verb -> handler method name *)
  d_table_literal : bool;               (* dict literal of self.<method>, looked up with .get(cmd): no getattr dispatch *)
  d_task_except : list (string * list string); (* try around task.result(): class -> normalised actions *)
  d_outer_except : list (string * list string);(* around the loop: class -> actions *)
  d_finally : list string;              (* normalised statements of the finally block, in order *)
  d_reset_exempt : list string;         (* verbs after which restart_offset is NOT reset *)
  d_offset_handed : list string;        (* verbs to which the dispatcher hands the pending offset (transfer_offset) *)
  d_unknown_code : string;              (* reply for a verb missing from the table *)
  d_false_ends : bool;                  (* a handler result False makes the dispatcher return *)
  d_initial_pending : list string;      (* tasks created before the loop *)
  d_conn_init : list string;            (* keyword names of the Connection constructor call *)
}.

Definition deco_is_conn (d : deco) : bool := match d with DConn _ _ _ => true | _ => false end.

Fixpoint find_handler (n : string) (hs : list handler) : option handler :=
  match hs with
  | [] => None
  | h :: r => if String.eqb (h_name h) n then Some h else find_handler n r
  end.

Fixpoint find_worker (n : string) (ws : list worker) : option worker :=
  match ws with
  | [] => None
  | w :: r => if String.eqb (w_name w) n then Some w else find_worker n r
  end.

Fixpoint assoc_s {A} (k : string) (l : list (string * A)) : option A :=
  match l with
  | [] => None
  | (k', v) :: r => if String.eqb k k' then Some v else assoc_s k r
  end.

Definition mem_s (x : string) (l : list string) : bool := existsb (String.eqb x) l.
