(* PyStr3: further CPython 3.12 operations used by the client parsers (C19):
   indexing that can raise, substring index/rindex, bytes.decode (utf-8 strict, latin-1),
   int(str), str(PurePosixPath(s)), posixpath.join.  Total functions; `None` stands for
   the exception the Python operation raises (named at each use site in Model/Parsers.v). *)
From Coq Require Import ZArith List Bool Lia.
From Verif Require Import Lib.Sx Lib.PyStr Gen.Unicode.
Import ListNotations.
Open Scope Z_scope.

(* s[n]  (None = IndexError) *)
Definition char_at (n : nat) (s : text) : option Z := nth_error s n.

(* s[a:b] never raises *)
Definition slice (a b : nat) (s : text) : text := firstn (b - a) (skipn a s).

(* s[-k] for k >= 1  (None = IndexError) *)
Definition char_from_end (k : nat) (s : text) : option Z :=
  if (length s <? k)%nat then None else nth_error s (length s - k).

(* s.index(p) / s.rindex(p) for a substring p  (None = ValueError) *)
Fixpoint index_sub (p s : text) {struct s} : option nat :=
  if starts_with p s then Some O
  else match s with
       | [] => None
       | _ :: r => match index_sub p r with Some n => Some (S n) | None => None end
       end.

Fixpoint rindex_sub (p s : text) {struct s} : option nat :=
  match s with
  | [] => if starts_with p [] then Some O else None
  | _ :: r =>
      match rindex_sub p r with
      | Some n => Some (S n)
      | None => if starts_with p s then Some O else None
      end
  end.

Fixpoint lstrip_by (f : Z -> bool) (s : text) : text :=
  match s with
  | [] => []
  | c :: r => if f c then lstrip_by f r else s
  end.
Definition rstrip_by (f : Z -> bool) (s : text) : text := rev (lstrip_by f (rev s)).

Definition remove_char (c : Z) (s : text) : text := filter (fun x => negb (x =? c)) s.

Definition is_nil {A} (l : list A) : bool := match l with [] => true | _ => false end.

(* ---- bytes.decode ---- *)
Definition cont_byte (b : Z) : bool := (128 <=? b) && (b <=? 191).

(* strict UTF-8 as CPython decodes it: no overlong forms, no surrogates, <= U+10FFFF
   (None = UnicodeDecodeError) *)
Fixpoint utf8_decode (s : list Z) : option text :=
  match s with
  | [] => Some []
  | b0 :: r0 =>
      if (0 <=? b0) && (b0 <? 128) then
        match utf8_decode r0 with Some t => Some (b0 :: t) | None => None end
      else if (194 <=? b0) && (b0 <=? 223) then
        match r0 with
        | b1 :: r1 =>
            if cont_byte b1 then
              match utf8_decode r1 with
              | Some t => Some (((b0 - 192) * 64 + (b1 - 128)) :: t)
              | None => None
              end
            else None
        | [] => None
        end
      else if (224 <=? b0) && (b0 <=? 239) then
        match r0 with
        | b1 :: b2 :: r2 =>
            if ((if b0 =? 224 then 160 else 128) <=? b1)
               && (b1 <=? (if b0 =? 237 then 159 else 191)) && cont_byte b2 then
              match utf8_decode r2 with
              | Some t => Some (((b0 - 224) * 4096 + (b1 - 128) * 64 + (b2 - 128)) :: t)
              | None => None
              end
            else None
        | _ => None
        end
      else if (240 <=? b0) && (b0 <=? 244) then
        match r0 with
        | b1 :: b2 :: b3 :: r3 =>
            if ((if b0 =? 240 then 144 else 128) <=? b1)
               && (b1 <=? (if b0 =? 244 then 143 else 191)) && cont_byte b2 && cont_byte b3 then
              match utf8_decode r3 with
              | Some t => Some (((b0 - 240) * 262144 + (b1 - 128) * 4096
                                 + (b2 - 128) * 64 + (b3 - 128)) :: t)
              | None => None
              end
            else None
        | _ => None
        end
      else None
  end.

Definition latin1_decode (s : list Z) : option text :=
  if forallb (fun b => (0 <=? b) && (b <? 256)) s then Some s else None.

(* encoding selector used by the harness: 1 = latin-1, anything else = utf-8 *)
Definition decode_with (enc : Z) (b : list Z) : option text :=
  if enc =? 1 then latin1_decode b else utf8_decode b.

(* ---- int(str), base 10 (None = ValueError) ----
   CPython: code points >= 127 that are whitespace become ' ', decimals become ASCII digits;
   then ASCII whitespace (9..13, 32) is stripped, an optional sign, digits with single
   underscores between digits; more than 4300 digits is a ValueError too. *)
Definition int_space (c : Z) : bool :=
  if c <? 127 then (c =? 32) || ((9 <=? c) && (c <=? 13)) else is_space c.

Fixpoint int_digits (s : text) (prev_digit : bool) (acc n : Z) : option (Z * Z) :=
  match s with
  | [] => if prev_digit then Some (acc, n) else None
  | c :: r =>
      if c =? 95 then (if prev_digit then int_digits r false acc n else None)
      else match decimal_val c with
           | Some d => int_digits r true (acc * 10 + d) (n + 1)
           | None => None
           end
  end.

Definition int_max_str_digits : Z := 4300.

Definition int_unsigned (s : text) : option Z :=
  match int_digits s false 0 0 with
  | Some (v, n) => if n >? int_max_str_digits then None else Some v
  | None => None
  end.

Definition py_int (s : text) : option Z :=
  let t := rstrip_by int_space (lstrip_by int_space s) in
  match t with
  | 43 :: r => int_unsigned r
  | 45 :: r => match int_unsigned r with Some v => Some (- v) | None => None end
  | _ => int_unsigned t
  end.

(* ---- pathlib.PurePosixPath (CPython 3.12) at the level of str(path) ---- *)
Definition SLASH : Z := 47.
Definition DOT : Z := 46.

Definition posix_root (s : text) : text :=
  match s with
  | 47 :: 47 :: 47 :: _ => [SLASH]
  | 47 :: 47 :: _ => [SLASH; SLASH]
  | 47 :: _ => [SLASH]
  | _ => []
  end.

Definition posix_parts (s : text) : list text :=
  filter (fun p => negb (is_nil p || text_eqb p [DOT])) (split_on SLASH s).

(* str(PurePosixPath(s)) *)
Definition posix_norm (s : text) : text :=
  match posix_root s, posix_parts s with
  | [], [] => [DOT]
  | root, parts => root ++ join [SLASH] parts
  end.

(* posixpath.join(a, b) *)
Definition posix_join (a b : text) : text :=
  if starts_with [SLASH] b then b
  else if is_nil a then b
  else match char_from_end 1 a with
       | Some 47 => a ++ b
       | _ => a ++ SLASH :: b
       end.

(* str(PurePosixPath(a) / PurePosixPath(b)) *)
Definition posix_div (a b : text) : text := posix_norm (posix_join a b).

Definition is_dot_name (s : text) : bool := text_eqb s [DOT] || text_eqb s [DOT; DOT].
