(* PyStr4: extra helpers over Lib/PyStr.v used by the log-censoring model (C20):
   "*" * n, Python slicing with an int index (negative indices included), membership of a
   text in a tuple of texts, and the fragment of logging's `msg % args` that aioftp uses. *)
From Coq Require Import ZArith List Bool.
From Verif Require Import Lib.Sx Lib.PyStr.
Import ListNotations.
Open Scope Z_scope.

Definition STAR : Z := 42.
Definition PERCENT : Z := 37.
Definition LOWER_S : Z := 115.

(* "*" * n *)
Definition stars (n : nat) : text := repeat STAR n.

(* x in (a, b, ...) for str x and a tuple of str *)
Definition text_in (x : text) (l : list text) : bool := existsb (text_eqb x) l.

(* s[:k] and s[k:] for a Python int k: negative k counts from the end, everything is clamped *)
Definition clamp_index (k : Z) (n : nat) : nat :=
  if k <? 0 then Z.to_nat (Z.max 0 (Z.of_nat n + k)) else Nat.min (Z.to_nat k) n.
Definition py_slice_to (k : Z) (s : text) : text := firstn (clamp_index k (length s)) s.
Definition py_slice_from (k : Z) (s : text) : text := skipn (clamp_index k (length s)) s.

(* truthiness of an `int or None` value, None being represented by 0 (None and 0 are both falsy) *)
Definition truthy (k : Z) : bool := negb (k =? 0).

(* msg % args restricted to the "%s" directive with str arguments (the only directive whose
   arguments can be peer-controlled in aioftp).  Arguments are copied, never re-scanned.
   Other characters, and a "%s" with no argument left (Python: TypeError, never reached by
   the modelled records), are copied. *)
Fixpoint render_fmt (fmt : text) (args : list text) : text :=
  match fmt with
  | [] => []
  | c :: r =>
      if c =? PERCENT then
        match r with
        | d :: r' =>
            if d =? LOWER_S then
              match args with
              | a :: args' => a ++ render_fmt r' args'
              | [] => c :: d :: render_fmt r' []
              end
            else c :: render_fmt r args
        | [] => [c]
        end
      else c :: render_fmt r args
  end.

(* LogRecord.getMessage(): `msg % args` only when args is non-empty *)
Definition get_message (msg : text) (args : list text) : text :=
  match args with
  | [] => msg
  | _ => render_fmt msg args
  end.

(* repr() of a str made only of characters that repr copies (printable ASCII except quote and
   backslash): 'text'.  None outside that domain (the model does not reproduce repr's escaping). *)
Definition repr_plain_char (c : Z) : bool :=
  (32 <=? c) && (c <=? 126) && negb (c =? 39) && negb (c =? 92).
Definition simple_repr (s : text) : option text :=
  if forallb repr_plain_char s then Some (39 :: s ++ [39]) else None.
