(* Model of the passive data-port pool (C11):
     Server.__init__  available_data_ports (asyncio.PriorityQueue of (priority, port))  server.py:671-676
     Server._start_passive_server                                                        server.py:1416-1448
     Server.pasv / epsv                                                                  server.py:1450-1530
     dispatcher `finally` (close listener, put (0, port))                                server.py:989-993
     errors.NoAvailablePort(AIOFTPException, OSError)                                    errors.py:80-83
   _start_passive_server is a small-step machine: the two suspension points inside
   asyncio.start_server (1: before the bind, 2: after it, listener exists) are explicit; an adversary
   chooses the outcome of every bind (Ok | EADDRINUSE | another OSError) and the moment every session
   ends (which cancels the handler task at its suspension point).  Several sessions, and several
   start-ups of ONE session (a second PASV while the first listener is still being opened), run
   interleaved.  No proofs here. *)
From Coq Require Import ZArith List Bool String Ascii.
From Verif Require Import Lib.Sx Lib.Facts.
Import ListNotations.
Open Scope Z_scope.

(* ------------------------------------------------------------------ the priority queue *)
Definition item := (Z * Z)%type.     (* (priority, port), tuple order *)

Definition item_leb (a b : item) : bool :=
  (fst a <? fst b) || ((fst a =? fst b) && (snd a <=? snd b)).

(* the pool is kept sorted: put = ordered insert, get_nowait = head *)
Fixpoint put (x : item) (l : list item) : list item :=
  match l with
  | [] => [x]
  | y :: r => if item_leb x y then x :: l else y :: put x r
  end.

Definition ports_of (l : list item) : list Z := map snd l.

Fixpoint memz (x : Z) (l : list Z) : bool :=
  match l with [] => false | y :: r => (x =? y) || memz x r end.

(* ------------------------------------------------------------------ one listener start-up *)
Record startup := {
  su_viewed : list Z;      (* viewed_ports (the current port included) *)
  su_prio : Z;             (* priority the port had when taken *)
  su_port : Z;             (* port taken from the pool, not in the pool now *)
  su_point : Z;            (* suspended at point 1 (not bound yet) or 2 (listener bound, not returned) *)
  su_legacy : bool;        (* started by PASV (true) or EPSV (false): decides the reply on an IPv6 listener *)
}.

Definition mark (b : bool) (su : startup) : startup :=
  {| su_viewed := su_viewed su; su_prio := su_prio su; su_port := su_port su; su_point := su_point su;
     su_legacy := b |}.

Inductive head_result :=
| HStart (pool' : list item) (su : startup)        (* suspended in start_server *)
| HExit (pool' : list item) (lost : list Z).       (* NoAvailablePort leaves _start_passive_server *)

(* one pass through the top of the `while True` loop up to the await.  hier = NoAvailablePort is an
   OSError: the raise inside the try is caught by `except OSError`, which gives the port back
   (priority + 1) and re-raises (errno None != EADDRINUSE).  Otherwise nobody catches it. *)
Definition loop_head (hier : bool) (pool : list item) (viewed : list Z) : head_result :=
  match pool with
  | [] => HExit [] []                                (* QueueEmpty -> raise NoAvailablePort *)
  | (prio, port) :: rest =>
      if memz port viewed then
        if hier then HExit (put (prio + 1, port) rest) []
        else HExit rest [port]
      else HStart rest {| su_viewed := port :: viewed; su_prio := prio; su_port := port; su_point := 1;
                          su_legacy := false |}
  end.

(* ------------------------------------------------------------------ sessions *)
Record psess := {
  p_live : bool;
  p_passive : option Z;            (* connection.passive_server / passive_server_port *)
  p_inflight : list startup;       (* pasv/epsv handler tasks suspended inside start_server *)
}.

Record pstate := {
  pp_pool : list item;
  pp_sess : list psess;
  pp_orphans : list Z;             (* bound listeners no session owns *)
  pp_lost : list Z;                (* ports nobody will ever give back (ghost ledger) *)
}.

Record pconfig := {
  pc_ports : list Z;               (* data_ports *)
  pc_hier : bool;                  (* Gen: NoAvailablePort <= OSError *)
  pc_fin : list string;            (* Gen.Dispatch: d_finally dispatcher *)
  pc_loop_open : bool;
  pc_giveback : bool;              (* Gen.PortPool: _start_passive_server has the `except BaseException` give-back
                                      (close what is bound, put (priority, port), re-raise) and keeps the handle of
                                      the bound listener (start_serving split).  false on the current source (F5) *)
  pc_ipv6 : bool;                  (* the server listens on an IPv6 address: the sockets of a passive listener are
                                      AF_INET6, legacy PASV (which can only announce an IPv4 address) answers
                                      503 "this server started in ipv6 mode" and `return False` AFTER the listener
                                      was opened and stored - one more way for a session to end *)
  pc_recheck : bool;               (* Gen.PortPool: after the start-up, a listener stored meanwhile by an overlapping
                                      PASV/EPSV is kept and this one is given back.  false on the current source (F5b) *)
}.

Definition pinit (cfg : pconfig) : pstate :=
  {| pp_pool := fold_left (fun acc p => put (0, p) acc) (pc_ports cfg) [];
     pp_sess := []; pp_orphans := []; pp_lost := [] |}.

Fixpoint upd {A} (i : nat) (f : A -> A) (l : list A) : list A :=
  match l, i with
  | [], _ => []
  | x :: r, O => f x :: r
  | x :: r, S j => x :: upd j f r
  end.

Fixpoint remove_nth {A} (k : nat) (l : list A) : list A :=
  match l, k with
  | [], _ => []
  | _ :: r, O => r
  | x :: r, S j => x :: remove_nth j r
  end.

Definition opt_list (o : option Z) : list Z := match o with Some p => [p] | None => [] end.

(* ports a session holds: its listener's and those of its start-ups in flight *)
Definition sports (s : psess) : list Z := opt_list (p_passive s) ++ map su_port (p_inflight s).

(* every bound listener: owned ones, half-started ones (point 2), orphans *)
Definition bound_of (s : psess) : list Z :=
  opt_list (p_passive s) ++ map su_port (filter (fun su => su_point su =? 2) (p_inflight s)).
Definition listeners (st : pstate) : list Z := flat_map bound_of (pp_sess st) ++ pp_orphans st.

(* what the cancellation of start-ups in flight does to the pool: with the give-back handler every port goes back
   with the priority it was taken with; without it (current source) nothing happens *)
Definition give_back (cfg : pconfig) (infl : list startup) (pool : list item) : list item :=
  if pc_giveback cfg then fold_left (fun acc su => put (su_prio su, su_port su) acc) infl pool else pool.

(* ------------------------------------------------------------------ the finally block *)
Definition is_char (c : ascii) (n : nat) : bool := Nat.eqb (nat_of_ascii c) n.

Fixpoint split_arrow (s : string) : string * string :=
  match s with
  | EmptyString => (EmptyString, EmptyString)
  | String c r =>
      match r with
      | String c2 r2 =>
          if is_char c 61 && is_char c2 62 then (EmptyString, r2)
          else let (a, b) := split_arrow r in (String c a, b)
      | EmptyString => (String c EmptyString, EmptyString)
      end
  end.

Fixpoint split_comma (s : string) : list string :=
  match s with
  | EmptyString => [EmptyString]
  | String c r =>
      if is_char c 44 then EmptyString :: split_comma r
      else match split_comma r with
           | h :: t => String c h :: t
           | [] => [String c EmptyString]
           end
  end.

Definition nonempty (s : string) : bool := match s with EmptyString => false | _ => true end.

Inductive peff :=
| PNone
| PClose (guards : list string)          (* connection.passive_server.close() *)
| PPut (guards : list string)            (* put_nowait((0, connection.passive_server_port)) *)
| PPutOther (guards : list string).      (* some other put into the pool: not understood *)

Definition pclassify (stmt : string) : peff :=
  let (g, a) := split_arrow stmt in
  let gs := filter nonempty (split_comma g) in
  if String.eqb a "close:passive_server" then PClose gs
  else if String.eqb a "putport:0:passive_server_port" then PPut gs
  else if String.eqb a "putport:0:connection.passive_server_port" then PPut gs   (* same expression, no temporary *)
  else if String.prefix "putport:" a then PPutOther gs
  else PNone.

(* data ports are configured in this model (`ports`); unknown guards count as true *)
Definition pguard (cfg : pconfig) (s : psess) (g : string) : bool :=
  if String.eqb g "loop_open" then pc_loop_open cfg
  else if String.eqb g "has:passive_server" then match p_passive s with Some _ => true | None => false end
  else true.

Definition pguards (cfg : pconfig) (s : psess) (gs : list string) : bool := forallb (pguard cfg s) gs.

(* accumulator: (listener closed?, number of puts of (0, port)) *)
Definition papply (cfg : pconfig) (s : psess) (acc : bool * nat) (e : peff) : bool * nat :=
  match e with
  | PNone => acc
  | PClose gs => if pguards cfg s gs then (true, snd acc) else acc
  | PPut gs | PPutOther gs => if pguards cfg s gs then (fst acc, S (snd acc)) else acc
  end.

Definition prelevant (e : peff) : bool := match e with PNone => false | _ => true end.

Fixpoint put_n (n : nat) (x : item) (l : list item) : list item :=
  match n with O => l | S k => put_n k x (put x l) end.

(* the dispatcher's finally for session i, plus the cancellation of its pasv/epsv tasks: a task
   suspended inside start_server gets CancelledError there; that is not an OSError, nothing gives
   its port back, and at point 2 the listener that was already bound stays bound (pc_giveback = false,
   the current source); with the give-back handler the port returns with its priority and the bound
   listener, whose handle the coroutine holds, is closed *)
Definition end_psess (cfg : pconfig) (i : nat) (st : pstate) : pstate :=
  match nth_error (pp_sess st) i with
  | None => st
  | Some s =>
      if p_live s then
        let dead := {| p_live := false; p_passive := None; p_inflight := [] |} in
        let cancelled := if pc_giveback cfg then [] else map su_port (p_inflight s) in
        let half := if pc_giveback cfg then []
                    else map su_port (filter (fun su => su_point su =? 2) (p_inflight s)) in
        match p_passive s with
        | None =>
            {| pp_pool := give_back cfg (p_inflight s) (pp_pool st); pp_sess := upd i (fun _ => dead) (pp_sess st);
               pp_orphans := pp_orphans st ++ half; pp_lost := pp_lost st ++ cancelled |}
        | Some p =>
            let '(closed, n) := fold_left (papply cfg s) (map pclassify (pc_fin cfg)) (false, 0%nat) in
            {| pp_pool := give_back cfg (p_inflight s) (put_n n (0, p) (pp_pool st));
               pp_sess := upd i (fun _ => dead) (pp_sess st);
               pp_orphans := pp_orphans st ++ (if closed then [] else [p]) ++ half;
               pp_lost := pp_lost st ++ (match n with O => [p] | _ => [] end) ++ cancelled |}
        end
      else st
  end.

Fixpoint end_all (cfg : pconfig) (n : nat) (st : pstate) : pstate :=
  match n with O => st | S k => end_psess cfg k (end_all cfg k st) end.

(* ------------------------------------------------------------------ events *)
Inductive outcome := BindOk | AddrInUse | OtherOSError.

Inductive pevent :=
| PConnect                                  (* a new, logged-in session *)
| Pasv (i : nat) (legacy : bool)            (* PASV (legacy = true) or EPSV: same port logic, different reply on IPv6 *)
| Resume (i k : nat) (o : outcome)          (* the k-th start-up in flight of session i continues *)
| Work (i : nat)                            (* any other command / transfer: does not touch the pool *)
| ReUser (i : nat)                          (* USER again (re-login) on a session that may own a listener: Server.user
                                               touches neither passive_server nor passive_server_port nor the pool
                                               (check_pframe on Gen.Dispatch.handlers is the structural guard): the
                                               listener and its port stay with the session *)
| End_ (i : nat)                            (* QUIT, peer gone, timeout, handler error: the finally runs *)
| CloseAll.                                 (* Server.close() *)

Definition pout := (nat * Z)%type.

Definition set_psess (i : nat) (s : psess) (st : pstate) : pstate :=
  {| pp_pool := pp_pool st; pp_sess := upd i (fun _ => s) (pp_sess st);
     pp_orphans := pp_orphans st; pp_lost := pp_lost st |}.

Definition with_pool (pool : list item) (lost : list Z) (st : pstate) : pstate :=
  {| pp_pool := pool; pp_sess := pp_sess st; pp_orphans := pp_orphans st; pp_lost := pp_lost st ++ lost |}.

Definition plive (st : pstate) (i : nat) : option psess :=
  match nth_error (pp_sess st) i with
  | Some s => if p_live s then Some s else None
  | None => None
  end.

Fixpoint replace_nth {A} (k : nat) (x : A) (l : list A) : list A :=
  match l, k with
  | [], _ => []
  | _ :: r, O => x :: r
  | y :: r, S j => y :: replace_nth j x r
  end.

(* the reply after the listener is stored: 227/229, or - legacy PASV on an IPv6 listener - 503 and `return False` *)
Definition v6_reply (cfg : pconfig) (i : nat) (legacy : bool) (r : pstate * list pout) : pstate * list pout :=
  if pc_ipv6 cfg && legacy then (end_psess cfg i (fst r), [(i, 503)]) else r.

Definition pstep (cfg : pconfig) (st : pstate) (e : pevent) : pstate * list pout :=
  match e with
  | PConnect =>
      ({| pp_pool := pp_pool st;
          pp_sess := pp_sess st ++ [{| p_live := true; p_passive := None; p_inflight := [] |}];
          pp_orphans := pp_orphans st; pp_lost := pp_lost st |}, [])
  | Pasv i lg =>
      match plive st i with
      | Some s =>
          match p_passive s with
          | Some _ =>                               (* listen socket already exists *)
              if pc_ipv6 cfg && lg then (end_psess cfg i st, [(i, 503)]) else (st, [(i, 227)])
          | None =>
              match loop_head (pc_hier cfg) (pp_pool st) [] with
              | HStart pool' su =>
                  (set_psess i {| p_live := true; p_passive := None; p_inflight := p_inflight s ++ [mark lg su] |}
                             (with_pool pool' [] st), [])
              | HExit pool' lost =>                  (* 421 no free ports; return False ends the session *)
                  (end_psess cfg i (with_pool pool' lost st), [(i, 421)])
              end
          end
      | None => (st, [])
      end
  | Resume i k o =>
      match plive st i with
      | Some s =>
          match nth_error (p_inflight s) k with
          | Some su =>
              if su_point su =? 1 then
                (* the bind happens now; a port that is bound already cannot be bound again *)
                let o' := if memz (su_port su) (listeners st) then AddrInUse else o in
                match o' with
                | BindOk =>
                    (set_psess i {| p_live := true; p_passive := p_passive s;
                                    p_inflight := replace_nth k {| su_viewed := su_viewed su; su_prio := su_prio su;
                                                                   su_port := su_port su; su_point := 2;
                                                                   su_legacy := su_legacy su |}
                                                              (p_inflight s) |} st, [])
                | AddrInUse =>
                    let pool1 := put (su_prio su + 1, su_port su) (pp_pool st) in
                    match loop_head (pc_hier cfg) pool1 (su_viewed su) with
                    | HStart pool2 su' =>
                        (set_psess i {| p_live := true; p_passive := p_passive s;
                                        p_inflight := replace_nth k (mark (su_legacy su) su') (p_inflight s) |}
                                   (with_pool pool2 [] st), [])
                    | HExit pool2 lost =>
                        (end_psess cfg i
                           (set_psess i {| p_live := true; p_passive := p_passive s;
                                           p_inflight := remove_nth k (p_inflight s) |}
                                      (with_pool pool2 lost st)), [(i, 421)])
                    end
                | OtherOSError =>
                    (* given back with priority + 1, then re-raised: the handler dies, the dispatcher
                       logs the exception and the session ends without any reply *)
                    (end_psess cfg i
                       (set_psess i {| p_live := true; p_passive := p_passive s;
                                       p_inflight := remove_nth k (p_inflight s) |}
                                  (with_pool (put (su_prio su + 1, su_port su) (pp_pool st)) [] st)), [])
                end
              else
                (* start_server returns: passive_server_port = port; connection.passive_server = server.
                   A listener stored before (by an overlapping start-up) is overwritten: nobody owns it.
                   Then the reply: on an IPv6 listener legacy PASV finds no AF_INET socket: 503 and the session ends *)
                v6_reply cfg i (su_legacy su) (
                if pc_recheck cfg && (match p_passive s with Some _ => true | None => false end) then
                  (* fixed source: the listener stored meanwhile is kept, this one is closed and its port given back *)
                  ({| pp_pool := put (su_prio su, su_port su) (pp_pool st);
                      pp_sess := upd i (fun _ => {| p_live := true; p_passive := p_passive s;
                                                    p_inflight := remove_nth k (p_inflight s) |}) (pp_sess st);
                      pp_orphans := pp_orphans st; pp_lost := pp_lost st |}, [(i, 227)])
                else
                let old := opt_list (p_passive s) in
                ({| pp_pool := pp_pool st;
                    pp_sess := upd i (fun _ => {| p_live := true; p_passive := Some (su_port su);
                                                  p_inflight := remove_nth k (p_inflight s) |}) (pp_sess st);
                    pp_orphans := pp_orphans st ++ old; pp_lost := pp_lost st ++ old |}, [(i, 227)]))
          | None => (st, [])
          end
      | None => (st, [])
      end
  | Work i => (st, [])
  | ReUser i => (st, [])
  | End_ i => (end_psess cfg i st, [])
  | CloseAll => (end_all cfg (List.length (pp_sess st)) st, [])
  end.

Fixpoint prun (cfg : pconfig) (st : pstate) (evs : list pevent) : pstate :=
  match evs with
  | [] => st
  | e :: r => prun cfg (fst (pstep cfg st e)) r
  end.

Fixpoint ptrace (cfg : pconfig) (st : pstate) (evs : list pevent) : list (list pout * pstate) :=
  match evs with
  | [] => []
  | e :: r => let (st', o) := pstep cfg st e in (o, st') :: ptrace cfg st' r
  end.

(* "quiet": the event neither cancels a listener start-up (harmless once the give-back handler exists) nor
   starts a second one in the same session *)
Definition no_inflight (st : pstate) (i : nat) : bool :=
  match nth_error (pp_sess st) i with
  | Some s => match p_inflight s with [] => true | _ => false end
  | None => true
  end.

Definition quiet_ev (cfg : pconfig) (st : pstate) (e : pevent) : bool :=
  match e with
  | Pasv i _ => no_inflight st i
  | End_ i => pc_giveback cfg || no_inflight st i
  | CloseAll => pc_giveback cfg
                || forallb (fun s => match p_inflight s with [] => true | _ => false end) (pp_sess st)
  | _ => true
  end.

Fixpoint quiet_run (cfg : pconfig) (st : pstate) (evs : list pevent) : bool :=
  match evs with
  | [] => true
  | e :: r => quiet_ev cfg st e && quiet_run cfg (fst (pstep cfg st e)) r
  end.

(* ------------------------------------------------------------------ closed checks on Gen facts *)
Fixpoint slist_eqb (a b : list string) : bool :=
  match a, b with
  | [], [] => true
  | x :: a', y :: b' => String.eqb x y && slist_eqb a' b'
  | _, _ => false
  end.

Definition peff_eqb (a b : peff) : bool :=
  match a, b with
  | PNone, PNone => true
  | PClose g1, PClose g2 | PPut g1, PPut g2 | PPutOther g1, PPutOther g2 => slist_eqb g1 g2
  | _, _ => false
  end.

Fixpoint peffs_eqb (a b : list peff) : bool :=
  match a, b with
  | [], [] => true
  | x :: a', y :: b' => peff_eqb x y && peffs_eqb a' b'
  | _, _ => false
  end.

(* finally: close the listener and put (0, passive_server_port) back, once, iff passive_server is set *)
Definition check_pfinally (fin : list string) : bool :=
  peffs_eqb (filter prelevant (map pclassify fin))
    [PClose ["loop_open"; "has:passive_server"]%string;
     PPut ["loop_open"; "has:passive_server"; "ports"]%string].

(* class hierarchy of errors.py: is `c` a (transitive) subclass of `anc`? *)
Fixpoint is_subclass (fuel : nat) (bases : list (string * list string)) (c anc : string) : bool :=
  String.eqb c anc ||
  match fuel with
  | O => false
  | S f =>
      match assoc_s c bases with
      | Some bs => existsb (fun b => is_subclass f bases b anc) bs
      | None => false
      end
  end.

Definition ladder := list (string * list string).

Fixpoint ladder_eqb (a b : ladder) : bool :=
  match a, b with
  | [], [] => true
  | (x, xs) :: a', (y, ys) :: b' => String.eqb x y && slist_eqb xs ys && ladder_eqb a' b'
  | _, _ => false
  end.

(* the machine above is _start_passive_server: same try body, same except ladder, no finally/else;
   pasv and epsv turn NoAvailablePort into 421 + `return False` and catch nothing else *)
(* Two shapes are understood, and the flags the machine is run with must be the ones the shape justifies:
   - the current source (giveback = recheck = false): one await (start_server binds AND starts serving: both
     suspension points inside it, no handle outside), handlers QueueEmpty and OSError only;
   - the repaired source (giveback = true): handle initialised to None per iteration, start_server(start_serving=False)
     [suspension point 1, bind], then `await passive_server.start_serving()` [suspension point 2, handle held];
     OSError and BaseException handlers both close what is bound; BaseException puts (priority, port) and re-raises;
     optionally (recheck = true) the block that keeps a listener stored meanwhile and gives this one back. *)
Definition try_today : list string :=
  ["get"; "viewed?raise:errors.NoAvailablePort"; "view"; "await:start_server"; "setport"; "break"]%string.
Definition try_fixed (recheck : bool) : list string :=
  List.app ["init:none"; "get"; "viewed?raise:errors.NoAvailablePort"; "view"; "await:start_server:noserve"; "await:start_serving"]%string
   (List.app (if recheck then ["recheck:close,put:priority:port,return:connection.passive_server"]%string else [])
             ["setport"; "break"]%string).
Definition handlers_today : ladder :=
  [("asyncio.QueueEmpty", ["raise:errors.NoAvailablePort"]);
   ("OSError", ["put:priority + 1:port"; "unless:EADDRINUSE=>raise"])]%string.
Definition handlers_fixed : ladder :=
  [("asyncio.QueueEmpty", ["raise:errors.NoAvailablePort"]);
   ("OSError", ["closeif:passive_server"; "put:priority + 1:port"; "unless:EADDRINUSE=>raise"]);
   ("BaseException", ["closeif:passive_server"; "put:priority:port"; "raise"])]%string.

Definition check_ladder (try_body : list string) (hs : ladder) (has_finally has_else : bool)
                        (pe : list (string * ladder)) (giveback recheck : bool) : bool :=
  (if giveback then slist_eqb try_body (try_fixed recheck) && ladder_eqb hs handlers_fixed
   else negb recheck && slist_eqb try_body try_today && ladder_eqb hs handlers_today)
  && negb has_finally && negb has_else
  && match assoc_s "pasv" pe, assoc_s "epsv" pe with
     | Some a, Some b =>
         ladder_eqb a [("errors.NoAvailablePort", ["response:421"; "return:False"])]%string
         && ladder_eqb b [("errors.NoAvailablePort", ["response:421"; "return:False"])]%string
     | _, _ => false
     end.

(* frame: only pasv/epsv start a passive server or set connection.passive_server, nobody deletes it,
   no handler writes to the pool attribute of the server object *)
Definition check_pframe (hs : list handler) : bool :=
  forallb (fun h =>
    let is_p := String.eqb (h_name h) "pasv" || String.eqb (h_name h) "epsv" in
    (is_p || (negb (h_starts_passive h) && negb (mem_s "passive_server" (h_conn_sets h))
              && negb (mem_s "passive_server_port" (h_conn_sets h))))
    && negb (mem_s "passive_server" (h_conn_dels h))
    && negb (mem_s "passive_server_port" (h_conn_dels h))
    && negb (mem_s "available_data_ports" (h_self_writes h))) hs
  && match find_handler "pasv" hs, find_handler "epsv" hs with
     | Some a, Some b => h_starts_passive a && h_starts_passive b
     | _, _ => false
     end.

(* ------------------------------------------------------------------ harness interface *)
Definition string_of_text (t : text) : string :=
  fold_right (fun c s => String (ascii_of_N (Z.to_N c)) s) EmptyString t.

Definition nat_of_sx (s : sx) : nat := Z.to_nat (z_of_sx s).

(* config: [ports; hier; fin; loop_open; giveback; recheck; ipv6] *)
Definition pconfig_of_sx (s : sx) : pconfig :=
  {| pc_ports := map z_of_sx (list_of_sx (nth_sx 0 s));
     pc_hier := bool_of_sx (nth_sx 1 s);
     pc_fin := map (fun t => string_of_text (text_of_sx t)) (list_of_sx (nth_sx 2 s));
     pc_loop_open := bool_of_sx (nth_sx 3 s);
     pc_giveback := bool_of_sx (nth_sx 4 s);
     pc_recheck := bool_of_sx (nth_sx 5 s);
     pc_ipv6 := bool_of_sx (nth_sx 6 s) |}.

(* event: [tag; i; k; outcome] *)
Definition pevent_of_sx (s : sx) : pevent :=
  let i := nat_of_sx (nth_sx 1 s) in
  let k := nat_of_sx (nth_sx 2 s) in
  match z_of_sx (nth_sx 0 s) with
  | 0 => PConnect
  | 1 => Pasv i (negb (Nat.eqb k 0))
  | 2 => Resume i k (match z_of_sx (nth_sx 3 s) with 0 => BindOk | 1 => AddrInUse | _ => OtherOSError end)
  | 3 => Work i
  | 4 => End_ i
  | 5 => CloseAll
  | 6 => ReUser i
  | _ => Work i
  end.

Definition sx_of_zs (l : list Z) : sx := L (map I l).

Definition sx_of_startup (su : startup) : sx :=
  L [sx_of_zs (su_viewed su); I (su_prio su); I (su_port su); I (su_point su); sx_of_bool (su_legacy su)].

Definition sx_of_psess (s : psess) : sx :=
  L [sx_of_bool (p_live s); sx_of_option I (p_passive s); L (map sx_of_startup (p_inflight s))].

Definition sx_of_psnapshot (p : list pout * pstate) : sx :=
  let (o, st) := p in
  L [L (map (fun x => L [I (Z.of_nat (fst x)); I (snd x)]) o);
     L (map (fun it => L [I (fst it); I (snd it)]) (pp_pool st));
     L (map sx_of_psess (pp_sess st));
     sx_of_zs (pp_orphans st);
     sx_of_zs (pp_lost st)].

Definition run_portpool (fn : Z) (a : sx) : sx :=
  match fn with
  | 0 => (* [config; events] -> snapshot after every event *)
      let cfg := pconfig_of_sx (nth_sx 0 a) in
      L (map sx_of_psnapshot (ptrace cfg (pinit cfg) (map pevent_of_sx (list_of_sx (nth_sx 1 a)))))
  | 1 => sx_of_bool (check_pfinally (map (fun t => string_of_text (text_of_sx t)) (list_of_sx (nth_sx 0 a))))
  | 2 => (* quiet_run [config; events] *)
      let cfg := pconfig_of_sx (nth_sx 0 a) in
      sx_of_bool (quiet_run cfg (pinit cfg) (map pevent_of_sx (list_of_sx (nth_sx 1 a))))
  | _ => sx_err 99
  end.
