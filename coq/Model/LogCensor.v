(* Model of what aioftp hands to the logging module while a client logs in (C20):
     server: Server.parse_command (the "%s %s" record, censored when cmd.lower() is in
             censor_commands), Server.write_line (every reply line), the dispatcher's
             connection records, the USER / PASS handlers' replies        (server.py)
     client: BaseClient.command (censor_after), BaseClient.parse_line (every reply line),
             Client.login ("PASS " + password, censor_after = 5)          (client.py)
   A log record is (msg, args) exactly as passed to logger.debug/info; its text is
   LogRecord.getMessage() = msg % args when args is non-empty, msg otherwise.
   Parametric in the facts regenerated from the source (Gen/Logging.v): the censor tuple,
   the PASS prefix and censor index of Client.login, the PASS reply texts.  No proofs here. *)
From Coq Require Import ZArith List Bool.
From Verif Require Import Lib.Sx Lib.PyStr Lib.PyStr4 Lib.LogFacts Model.Framing.
Import ListNotations.
Open Scope Z_scope.

Record logrec := { lr_msg : text; lr_args : list text }.
Definition lr_message (r : logrec) : text := get_message (lr_msg r) (lr_args r).

Definition fmt_server_cmd : text := [37; 115; 32; 37; 115].   (* "%s %s" *)
Definition fmt_client_cmd : text := [37; 115; 37; 115].       (* "%s%s"  *)

(* ------------------------------------------------------------------ server: parse_command *)
(* s = line.decode().rstrip(); cmd, _, rest = s.partition(" ") *)
Definition split_command (line : text) : text * text :=
  let '(cmd, _, rest) := partition SP (rstrip line) in (cmd, rest).

(* the record logged by parse_command for one non-empty line *)
Definition server_parse_command_log (censor : list text) (line : text) : logrec :=
  let '(cmd, rest) := split_command line in
  if text_in (lower cmd) censor
  then {| lr_msg := fmt_server_cmd; lr_args := [cmd; stars (length rest)] |}
  else {| lr_msg := fmt_server_cmd; lr_args := [cmd; rest] |}.

(* write_line: logger.debug(line) -- msg is the line itself, no args *)
Definition reply_log (line : text) : logrec := {| lr_msg := line; lr_args := [] |}.

(* ------------------------------------------------------------------ client: command / parse_line *)
(* BaseClient.command's logging branch; censor_after: None is represented by 0 *)
Definition client_command_log (command : text) (censor_after : Z) : logrec :=
  if truthy censor_after
  then {| lr_msg := fmt_client_cmd;
          lr_args := [py_slice_to censor_after command;
                      stars (length (py_slice_from censor_after command))] |}
  else {| lr_msg := command; lr_args := [] |}.

(* `if command:` -- nothing is logged (or sent) for an empty command *)
Definition client_command_records (command : text) (censor_after : Z) : list logrec :=
  match command with [] => [] | _ => [client_command_log command censor_after] end.

(* parse_line: s = line.decode().rstrip(); logger.debug(s).  `line` = reply line without its EOL *)
Definition client_reply_log (line : text) : logrec :=
  {| lr_msg := rstrip (line ++ eol); lr_args := [] |}.

(* Client.login's PASS command *)
Definition login_pass_command (prefix password : text) : text := prefix ++ password.
Definition client_login_pass_log (prefix : text) (k : Z) (password : text) : logrec :=
  client_command_log (login_pass_command prefix password) k.

(* ------------------------------------------------------------------ server: USER / PASS handlers *)
Definition reply := (text * text)%type.                 (* code, info *)
Definition reply_line (r : reply) : text := fst r ++ SP :: snd r.

Record pass_texts := {
  t_nouser : reply;      (* ConnectionConditions(user_required) failed *)
  t_already : reply;     (* connection.future.logged.done() *)
  t_ok : reply;          (* authenticate(...) true *)
  t_wrong : reply        (* authenticate(...) false *)
}.

Definition T503 : text := [53; 48; 51].
Definition T230 : text := [50; 51; 48].
Definition T530 : text := [53; 51; 48].
Definition T331 : text := [51; 51; 49].
Definition T332 : text := [51; 51; 50].
Definition T502 : text := [53; 48; 50].
Definition T220 : text := [50; 50; 48].
Definition T33x : text := [51; 51; 120].

Definition default_texts : pass_texts := {|
  t_nouser := (T503, [98; 97; 100; 32; 115; 101; 113; 117; 101; 110; 99; 101; 32; 111; 102; 32; 99; 111;
                      109; 109; 97; 110; 100; 115; 32; 40; 110; 111; 32; 117; 115; 101; 114; 32; 40; 117;
                      115; 101; 32; 85; 83; 69; 82; 32; 102; 105; 114; 115; 116; 108; 121; 41; 41]);
  t_already := (T503, [97; 108; 114; 101; 97; 100; 121; 32; 108; 111; 103; 103; 101; 100; 32; 105; 110]);
  t_ok := (T230, [110; 111; 114; 109; 97; 108; 32; 108; 111; 103; 105; 110]);
  t_wrong := (T530, [119; 114; 111; 110; 103; 32; 112; 97; 115; 115; 119; 111; 114; 100])
|}.

Definition info_no_such_username : text :=
  [110; 111; 32; 115; 117; 99; 104; 32; 117; 115; 101; 114; 110; 97; 109; 101].
Definition info_anonymous_login : text :=
  [97; 110; 111; 110; 121; 109; 111; 117; 115; 32; 108; 111; 103; 105; 110].
Definition info_login_without_password : text :=
  [108; 111; 103; 105; 110; 32; 119; 105; 116; 104; 111; 117; 116; 32; 112; 97; 115; 115; 119; 111; 114; 100].
Definition info_password_required : text :=
  [112; 97; 115; 115; 119; 111; 114; 100; 32; 114; 101; 113; 117; 105; 114; 101; 100].
Definition info_welcome : text := [119; 101; 108; 99; 111; 109; 101].
Definition info_not_implemented : text :=
  [32; 110; 111; 116; 32; 105; 109; 112; 108; 101; 109; 101; 110; 116; 101; 100].
Definition VERB_USER : text := [117; 115; 101; 114].
Definition VERB_PASS : text := [112; 97; 115; 115].
Definition CMD_USER_ : text := [85; 83; 69; 82; 32].          (* "USER " *)
Definition CMD_ACCT_ : text := [65; 67; 67; 84; 32].          (* "ACCT " *)
Definition UNMODELLED : text := [0].   (* marker: text the model does not reproduce (repr escaping) *)

(* aioftp.User: (login or None, password or None); connection limits are not modelled *)
Definition user := (option text * option text)%type.

(* MemoryUserManager.get_user's loop *)
Fixpoint get_user_loop (users : list user) (login : text) (cur : option user) : option user :=
  match users with
  | [] => cur
  | u :: r =>
      match fst u with
      | None => match cur with
                | None => get_user_loop r login (Some u)
                | Some _ => get_user_loop r login cur
                end
      | Some l => if text_eqb l login then Some u else get_user_loop r login cur
      end
  end.

Record sstate := { s_user : option user; s_logged : bool }.
Definition init_state : sstate := {| s_user := None; s_logged := false |}.

(* Server.user (del connection.user, del connection.logged, then get_user) *)
Definition handle_user (users : list user) (rest : text) : sstate * list reply :=
  match get_user_loop users rest None with
  | None => (init_state, [(T530, info_no_such_username)])
  | Some u =>
      match fst u with
      | None => ({| s_user := Some u; s_logged := true |}, [(T230, info_anonymous_login)])
      | Some _ =>
          match snd u with
          | None => ({| s_user := Some u; s_logged := true |}, [(T230, info_login_without_password)])
          | Some _ => ({| s_user := Some u; s_logged := false |}, [(T331, info_password_required)])
          end
      end
  end.

(* MemoryUserManager.authenticate: user.password == password *)
Definition authenticate (u : user) (password : text) : bool :=
  match snd u with Some pw => text_eqb pw password | None => false end.

(* ConnectionConditions(user_required) + Server.pass_ *)
Definition handle_pass (T : pass_texts) (st : sstate) (rest : text) : sstate * list reply :=
  match s_user st with
  | None => (st, [t_nouser T])
  | Some u =>
      if s_logged st then (st, [t_already T])
      else if authenticate u rest
           then ({| s_user := Some u; s_logged := true |}, [t_ok T])
           else (st, [t_wrong T])
  end.

(* the dispatcher's reply for a verb missing from commands_mapping: f"{cmd!r} not implemented" *)
Definition unknown_verb_reply (cmd : text) : reply :=
  match simple_repr cmd with
  | Some r => (T502, r ++ info_not_implemented)
  | None => (T502, UNMODELLED)
  end.

(* one command line: the parse_command record, then the reply lines written by write_line.
   Only USER and PASS are interpreted; every other verb is treated as unknown (the harness
   sends nothing else). *)
Definition server_step (censor : list text) (T : pass_texts) (users : list user)
           (st : sstate) (line : text) : sstate * list logrec :=
  let '(cmd, rest) := split_command line in
  let verb := lower cmd in
  let '(st', replies) :=
    if text_eqb verb VERB_USER then handle_user users rest
    else if text_eqb verb VERB_PASS then handle_pass T st rest
    else (st, [unknown_verb_reply verb]) in
  (st', server_parse_command_log censor line :: map (fun r => reply_log (reply_line r)) replies).

Fixpoint server_run (censor : list text) (T : pass_texts) (users : list user)
         (st : sstate) (lines : list text) : list logrec :=
  match lines with
  | [] => []
  | l :: r => let '(st', recs) := server_step censor T users st l in
              recs ++ server_run censor T users st' r
  end.

Definition fmt_new_conn : text :=
  [110; 101; 119; 32; 99; 111; 110; 110; 101; 99; 116; 105; 111; 110; 32; 102; 114; 111; 109; 32; 37; 115; 58; 37; 115].
Definition fmt_closing_conn : text :=
  [99; 108; 111; 115; 105; 110; 103; 32; 99; 111; 110; 110; 101; 99; 116; 105; 111; 110; 32; 102; 114; 111; 109; 32; 37; 115; 58; 37; 115].
Definition greeting_reply : reply := (T220, info_welcome).

(* all records of logger aioftp.server for one control connection fed `lines`, then closed *)
Definition server_session (censor : list text) (T : pass_texts) (users : list user)
           (host port : text) (lines : list text) : list logrec :=
  {| lr_msg := fmt_new_conn; lr_args := [host; port] |}
    :: reply_log (reply_line greeting_reply)
    :: server_run censor T users init_state lines
    ++ [{| lr_msg := fmt_closing_conn; lr_args := [host; port] |}].

(* the stream-level view: what parse_command logs for everything readline() splits off a byte
   stream (text level, cf. Model/Framing.v) *)
Definition server_stream_log (censor : list text) (stream : text) : list logrec :=
  map (server_parse_command_log censor) (split_lines stream).

(* ------------------------------------------------------------------ client: login *)
Definition code_of_reply (line : text) : text := firstn 3 (rstrip (line ++ eol)).

(* parse_line's record for a line as read from the wire (EOL included) *)
Definition wire_reply_log (l : text) : logrec := {| lr_msg := rstrip l; lr_args := [] |}.

(* BaseClient.parse_response on the lines still to come (EOL included; Model/Framing.v): the records
   parse_line logs for every line it consumes (multi-line replies "230-..." / free continuation
   lines / a continuation with a different code, which raises StatusCodeError after being logged)
   and, when a whole reply was read, its code and the lines left.  None: StatusCodeError or the
   connection ended (ConnectionResetError); nothing else is logged for either. *)
Definition response_records (ls : list text) : list logrec * option (text * list text) :=
  match parse_response ls with
  | POk code _ rest => (map wire_reply_log (firstn (length ls - length rest) ls), Some (code, rest))
  | PStatusErr _ _ _ rest => (map wire_reply_log (firstn (length ls - length rest) ls), None)
  | PReset => (map wire_reply_log ls, None)
  end.

Definition login_arg_text (a : login_arg) (user password account : text) : text :=
  match a with ArgUser => user | ArgPassword => password | ArgAccount => account end.

Definition branch_command (b : login_branch) (user password account : text) : text :=
  lb_prefix b ++ login_arg_text (lb_arg b) user password account.

Fixpoint find_branch (bs : list login_branch) (code : text) : option login_branch :=
  match bs with
  | [] => None
  | b :: r => if text_eqb code (lb_code b) then Some b else find_branch r code
  end.

(* self.command(cmd, expected, censor_after=c) followed by `continue_` on the code when it is one
   of the expected ones (otherwise check_codes raises) *)
Definition command_then (expected : list text) (cmd : text) (c : Z) (lines : list text)
           (continue_ : text -> list text -> list logrec) : list logrec :=
  client_command_records cmd c
    ++ (let '(recs, o) := response_records lines in
        recs ++ match o with
                | Some (code, rest) => if any_matches expected code then continue_ code rest else []
                | None => []
                end).

(* the `while code.matches(mask)` loop of Client.login, with `censor_after` as the loop-carried
   variable it is in Python: `censor` is its value on entry to the iteration, the optional reset at
   the top of the body and the optional binding in the selected branch update it, and the value
   reached is what self.command receives.  `lines` are the reply lines the server still sends (any
   script: the loop ends when they run out, on StatusCodeError, or when the code leaves the mask) *)
Fixpoint client_login_loop (fuel : nat) (P : login_prog) (user password account : text)
         (censor : Z) (code : text) (lines : list text) : list logrec :=
  match fuel with
  | O => []
  | S f =>
      if matches (lp_loop_mask P) code then
        let c0 := match lp_reset P with Some v => v | None => censor end in
        match find_branch (lp_branches P) code with
        | None => []                                   (* else: raise StatusCodeError *)
        | Some b =>
            let c1 := match lb_censor b with Some v => v | None => c0 end in
            command_then (lp_expected P) (branch_command b user password account) c1 lines
              (client_login_loop f P user password account c1)
        end
      else []
  end.

(* records of logger aioftp.client during Client.login(user, password, account) run as program P
   against a server that sends `lines` (each with its EOL) *)
Definition client_login_run (P : login_prog) (user password account : text) (lines : list text)
  : list logrec :=
  command_then (lp_expected P) (branch_command (lp_first P) user password account) 0 lines
    (client_login_loop (S (length lines)) P user password account
                       (match lp_init_censor P with Some v => v | None => 0 end)).

(* today's shape of login(), for any PASS prefix / censor index:
   USER ; while 33x: censor_after = None; 331 -> prefix + password, censor_after = k; 332 -> ACCT *)
Definition std_login_prog (prefix : text) (k : Z) : login_prog := {|
  lp_first := {| lb_code := []; lb_prefix := CMD_USER_; lb_arg := ArgUser; lb_censor := None |};
  lp_expected := [T230; T33x];
  lp_loop_mask := T33x;
  lp_init_censor := None;
  lp_reset := Some 0;
  lp_branches := [ {| lb_code := T331; lb_prefix := prefix; lb_arg := ArgPassword; lb_censor := Some k |};
                   {| lb_code := T332; lb_prefix := CMD_ACCT_; lb_arg := ArgAccount; lb_censor := None |} ]
|}.

(* `replies`: reply lines without their EOL *)
Definition client_login_records (prefix : text) (k : Z) (user password account : text)
           (replies : list text) : list logrec :=
  client_login_run (std_login_prog prefix k) user password account (map (fun l => l ++ eol) replies).

(* a whole login against the modelled server: (server records, client records).  The client
   connects (reads the greeting), sends USER, and PASS when the answer is 331. *)
Definition reply_lines_of (recs : list logrec) : list text := map lr_msg (tl recs).

Definition login_session (censor : list text) (T : pass_texts) (users : list user)
           (prefix : text) (k : Z) (host port user password account : text)
  : list logrec * list logrec :=
  let greet := reply_line greeting_reply in
  let '(st1, srv1) := server_step censor T users init_state ((CMD_USER_ ++ user) ++ eol) in
  let r1 := reply_lines_of srv1 in
  let sends_pass := match r1 with r :: _ => text_eqb (code_of_reply r) T331 | [] => false end in
  let '(srv2, r2) :=
    if sends_pass
    then let '(_, s2) := server_step censor T users st1 (login_pass_command prefix password ++ eol) in
         (s2, reply_lines_of s2)
    else ([], []) in
  ({| lr_msg := fmt_new_conn; lr_args := [host; port] |}
     :: reply_log greet :: srv1 ++ srv2
     ++ [{| lr_msg := fmt_closing_conn; lr_args := [host; port] |}],
   client_reply_log greet :: client_login_records prefix k user password account (r1 ++ r2)).

(* ------------------------------------------------------------------ harness interface *)
Definition sx_of_logrec (r : logrec) : sx :=
  L [sx_of_text (lr_msg r); sx_of_texts (lr_args r); sx_of_text (lr_message r)].
Definition sx_of_logrecs (l : list logrec) : sx := L (map sx_of_logrec l).

Definition opt_text_of_sx (s : sx) : option text :=
  match list_of_sx s with [] => None | x :: _ => Some (text_of_sx x) end.
Definition user_of_sx (s : sx) : user := (opt_text_of_sx (nth_sx 0 s), opt_text_of_sx (nth_sx 1 s)).
Definition users_of_sx (s : sx) : list user := map user_of_sx (list_of_sx s).

(* option Z: () -> None, (k) -> Some k *)
Definition opt_z_of_sx (s : sx) : option Z :=
  match list_of_sx s with [] => None | x :: _ => Some (z_of_sx x) end.
Definition arg_of_sx (s : sx) : login_arg :=
  let z := z_of_sx s in if z =? 1 then ArgPassword else if z =? 2 then ArgAccount else ArgUser.
(* branch: (code prefix arg censor) *)
Definition branch_of_sx (s : sx) : login_branch :=
  {| lb_code := text_of_sx (nth_sx 0 s); lb_prefix := text_of_sx (nth_sx 1 s);
     lb_arg := arg_of_sx (nth_sx 2 s); lb_censor := opt_z_of_sx (nth_sx 3 s) |}.
(* program: (first expected mask init reset branches) *)
Definition prog_of_sx (s : sx) : login_prog :=
  {| lp_first := branch_of_sx (nth_sx 0 s); lp_expected := texts_of_sx (nth_sx 1 s);
     lp_loop_mask := text_of_sx (nth_sx 2 s); lp_init_censor := opt_z_of_sx (nth_sx 3 s);
     lp_reset := opt_z_of_sx (nth_sx 4 s); lp_branches := map branch_of_sx (list_of_sx (nth_sx 5 s)) |}.

Definition run_logcensor (fn : Z) (a : sx) : sx :=
  match fn with
  | 0 => (* parse_command record: censor line *)
      match text_of_sx (nth_sx 1 a) with
      | [] => sx_err 2                     (* ConnectionResetError, nothing logged *)
      | line => sx_ok (sx_of_logrec (server_parse_command_log (texts_of_sx (nth_sx 0 a)) line))
      end
  | 1 => (* client command(): command censor_after *)
      sx_of_logrecs (client_command_records (text_of_sx (nth_sx 0 a)) (z_of_sx (nth_sx 1 a)))
  | 2 => (* server session: censor users host port lines *)
      sx_of_logrecs (server_session (texts_of_sx (nth_sx 0 a)) default_texts (users_of_sx (nth_sx 1 a))
                                    (text_of_sx (nth_sx 2 a)) (text_of_sx (nth_sx 3 a))
                                    (texts_of_sx (nth_sx 4 a)))
  | 3 => (* client login records: prefix k user password account replies *)
      sx_of_logrecs (client_login_records (text_of_sx (nth_sx 0 a)) (z_of_sx (nth_sx 1 a))
                                          (text_of_sx (nth_sx 2 a)) (text_of_sx (nth_sx 3 a))
                                          (text_of_sx (nth_sx 4 a)) (texts_of_sx (nth_sx 5 a)))
  | 4 => (* whole login: censor users prefix k host port user password account *)
      let '(s, c) := login_session (texts_of_sx (nth_sx 0 a)) default_texts (users_of_sx (nth_sx 1 a))
                                   (text_of_sx (nth_sx 2 a)) (z_of_sx (nth_sx 3 a))
                                   (text_of_sx (nth_sx 4 a)) (text_of_sx (nth_sx 5 a))
                                   (text_of_sx (nth_sx 6 a)) (text_of_sx (nth_sx 7 a))
                                   (text_of_sx (nth_sx 8 a)) in
      L [sx_of_logrecs s; sx_of_logrecs c]
  | 5 => (* stream-level parse_command log: censor stream *)
      sx_of_logrecs (server_stream_log (texts_of_sx (nth_sx 0 a)) (text_of_sx (nth_sx 1 a)))
  | 6 => (* client login as a program: prog user password account lines(with EOL) *)
      sx_of_logrecs (client_login_run (prog_of_sx (nth_sx 0 a)) (text_of_sx (nth_sx 1 a))
                                      (text_of_sx (nth_sx 2 a)) (text_of_sx (nth_sx 3 a))
                                      (texts_of_sx (nth_sx 4 a)))
  | _ => sx_err 99
  end.
