(* Model of what aioftp hands to the logging module while a client logs in (C20):
     server: Server.parse_command (the "%s %s" record, censored when cmd.lower() is in
             censor_commands), Server.write_line (every reply line), the dispatcher's
             connection records, the USER / PASS handlers' replies        (server.py)
     client: BaseClient.command (censor_after), BaseClient.parse_line (every reply line),
             Client.login ("PASS " + password, censor_after = 5)          (client.py)
   A log record is (msg, args) exactly as passed to logger.debug/info; its text is
   LogRecord.getMessage() = msg % args when args is non-empty, msg otherwise.
   Parametric in the facts regenerated from the source (Gen/Logging.v): the censor tuple,
   the PASS prefix and censor index of Client.login, the PASS reply texts.  No proofs here. *)
From Coq Require Import ZArith List Bool.
From Verif Require Import Lib.Sx Lib.PyStr Lib.PyStr4 Model.Framing.
Import ListNotations.
Open Scope Z_scope.

Record logrec := { lr_msg : text; lr_args : list text }.
Definition lr_message (r : logrec) : text := get_message (lr_msg r) (lr_args r).

Definition fmt_server_cmd : text := [37; 115; 32; 37; 115].   (* "%s %s" *)
Definition fmt_client_cmd : text := [37; 115; 37; 115].       (* "%s%s"  *)

(* ------------------------------------------------------------------ server: parse_command *)
(* s = line.decode().rstrip(); cmd, _, rest = s.partition(" ") *)
Definition split_command (line : text) : text * text :=
  let '(cmd, _, rest) := partition SP (rstrip line) in (cmd, rest).

(* the record logged by parse_command for one non-empty line *)
Definition server_parse_command_log (censor : list text) (line : text) : logrec :=
  let '(cmd, rest) := split_command line in
  if text_in (lower cmd) censor
  then {| lr_msg := fmt_server_cmd; lr_args := [cmd; stars (length rest)] |}
  else {| lr_msg := fmt_server_cmd; lr_args := [cmd; rest] |}.

(* write_line: logger.debug(line) -- msg is the line itself, no args *)
Definition reply_log (line : text) : logrec := {| lr_msg := line; lr_args := [] |}.

(* ------------------------------------------------------------------ client: command / parse_line *)
(* BaseClient.command's logging branch; censor_after: None is represented by 0 *)
Definition client_command_log (command : text) (censor_after : Z) : logrec :=
  if truthy censor_after
  then {| lr_msg := fmt_client_cmd;
          lr_args := [py_slice_to censor_after command;
                      stars (length (py_slice_from censor_after command))] |}
  else {| lr_msg := command; lr_args := [] |}.

(* `if command:` -- nothing is logged (or sent) for an empty command *)
Definition client_command_records (command : text) (censor_after : Z) : list logrec :=
  match command with [] => [] | _ => [client_command_log command censor_after] end.

(* parse_line: s = line.decode().rstrip(); logger.debug(s).  `line` = reply line without its EOL *)
Definition client_reply_log (line : text) : logrec :=
  {| lr_msg := rstrip (line ++ eol); lr_args := [] |}.

(* Client.login's PASS command *)
Definition login_pass_command (prefix password : text) : text := prefix ++ password.
Definition client_login_pass_log (prefix : text) (k : Z) (password : text) : logrec :=
  client_command_log (login_pass_command prefix password) k.

(* ------------------------------------------------------------------ server: USER / PASS handlers *)
Definition reply := (text * text)%type.                 (* code, info *)
Definition reply_line (r : reply) : text := fst r ++ SP :: snd r.

Record pass_texts := {
  t_nouser : reply;      (* ConnectionConditions(user_required) failed *)
  t_already : reply;     (* connection.future.logged.done() *)
  t_ok : reply;          (* authenticate(...) true *)
  t_wrong : reply        (* authenticate(...) false *)
}.

Definition T503 : text := [53; 48; 51].
Definition T230 : text := [50; 51; 48].
Definition T530 : text := [53; 51; 48].
Definition T331 : text := [51; 51; 49].
Definition T332 : text := [51; 51; 50].
Definition T502 : text := [53; 48; 50].
Definition T220 : text := [50; 50; 48].
Definition T33x : text := [51; 51; 120].

Definition default_texts : pass_texts := {|
  t_nouser := (T503, [98; 97; 100; 32; 115; 101; 113; 117; 101; 110; 99; 101; 32; 111; 102; 32; 99; 111;
                      109; 109; 97; 110; 100; 115; 32; 40; 110; 111; 32; 117; 115; 101; 114; 32; 40; 117;
                      115; 101; 32; 85; 83; 69; 82; 32; 102; 105; 114; 115; 116; 108; 121; 41; 41]);
  t_already := (T503, [97; 108; 114; 101; 97; 100; 121; 32; 108; 111; 103; 103; 101; 100; 32; 105; 110]);
  t_ok := (T230, [110; 111; 114; 109; 97; 108; 32; 108; 111; 103; 105; 110]);
  t_wrong := (T530, [119; 114; 111; 110; 103; 32; 112; 97; 115; 115; 119; 111; 114; 100])
|}.

Definition info_no_such_username : text :=
  [110; 111; 32; 115; 117; 99; 104; 32; 117; 115; 101; 114; 110; 97; 109; 101].
Definition info_anonymous_login : text :=
  [97; 110; 111; 110; 121; 109; 111; 117; 115; 32; 108; 111; 103; 105; 110].
Definition info_login_without_password : text :=
  [108; 111; 103; 105; 110; 32; 119; 105; 116; 104; 111; 117; 116; 32; 112; 97; 115; 115; 119; 111; 114; 100].
Definition info_password_required : text :=
  [112; 97; 115; 115; 119; 111; 114; 100; 32; 114; 101; 113; 117; 105; 114; 101; 100].
Definition info_welcome : text := [119; 101; 108; 99; 111; 109; 101].
Definition info_not_implemented : text :=
  [32; 110; 111; 116; 32; 105; 109; 112; 108; 101; 109; 101; 110; 116; 101; 100].
Definition VERB_USER : text := [117; 115; 101; 114].
Definition VERB_PASS : text := [112; 97; 115; 115].
Definition CMD_USER_ : text := [85; 83; 69; 82; 32].          (* "USER " *)
Definition CMD_ACCT_ : text := [65; 67; 67; 84; 32].          (* "ACCT " *)
Definition UNMODELLED : text := [0].   (* marker: text the model does not reproduce (repr escaping) *)

(* aioftp.User: (login or None, password or None); connection limits are not modelled *)
Definition user := (option text * option text)%type.

(* MemoryUserManager.get_user's loop *)
Fixpoint get_user_loop (users : list user) (login : text) (cur : option user) : option user :=
  match users with
  | [] => cur
  | u :: r =>
      match fst u with
      | None => match cur with
                | None => get_user_loop r login (Some u)
                | Some _ => get_user_loop r login cur
                end
      | Some l => if text_eqb l login then Some u else get_user_loop r login cur
      end
  end.

Record sstate := { s_user : option user; s_logged : bool }.
Definition init_state : sstate := {| s_user := None; s_logged := false |}.

(* Server.user (del connection.user, del connection.logged, then get_user) *)
Definition handle_user (users : list user) (rest : text) : sstate * list reply :=
  match get_user_loop users rest None with
  | None => (init_state, [(T530, info_no_such_username)])
  | Some u =>
      match fst u with
      | None => ({| s_user := Some u; s_logged := true |}, [(T230, info_anonymous_login)])
      | Some _ =>
          match snd u with
          | None => ({| s_user := Some u; s_logged := true |}, [(T230, info_login_without_password)])
          | Some _ => ({| s_user := Some u; s_logged := false |}, [(T331, info_password_required)])
          end
      end
  end.

(* MemoryUserManager.authenticate: user.password == password *)
Definition authenticate (u : user) (password : text) : bool :=
  match snd u with Some pw => text_eqb pw password | None => false end.

(* ConnectionConditions(user_required) + Server.pass_ *)
Definition handle_pass (T : pass_texts) (st : sstate) (rest : text) : sstate * list reply :=
  match s_user st with
  | None => (st, [t_nouser T])
  | Some u =>
      if s_logged st then (st, [t_already T])
      else if authenticate u rest
           then ({| s_user := Some u; s_logged := true |}, [t_ok T])
           else (st, [t_wrong T])
  end.

(* the dispatcher's reply for a verb missing from commands_mapping: f"{cmd!r} not implemented" *)
Definition unknown_verb_reply (cmd : text) : reply :=
  match simple_repr cmd with
  | Some r => (T502, r ++ info_not_implemented)
  | None => (T502, UNMODELLED)
  end.

(* one command line: the parse_command record, then the reply lines written by write_line.
   Only USER and PASS are interpreted; every other verb is treated as unknown (the harness
   sends nothing else). *)
Definition server_step (censor : list text) (T : pass_texts) (users : list user)
           (st : sstate) (line : text) : sstate * list logrec :=
  let '(cmd, rest) := split_command line in
  let verb := lower cmd in
  let '(st', replies) :=
    if text_eqb verb VERB_USER then handle_user users rest
    else if text_eqb verb VERB_PASS then handle_pass T st rest
    else (st, [unknown_verb_reply verb]) in
  (st', server_parse_command_log censor line :: map (fun r => reply_log (reply_line r)) replies).

Fixpoint server_run (censor : list text) (T : pass_texts) (users : list user)
         (st : sstate) (lines : list text) : list logrec :=
  match lines with
  | [] => []
  | l :: r => let '(st', recs) := server_step censor T users st l in
              recs ++ server_run censor T users st' r
  end.

Definition fmt_new_conn : text :=
  [110; 101; 119; 32; 99; 111; 110; 110; 101; 99; 116; 105; 111; 110; 32; 102; 114; 111; 109; 32; 37; 115; 58; 37; 115].
Definition fmt_closing_conn : text :=
  [99; 108; 111; 115; 105; 110; 103; 32; 99; 111; 110; 110; 101; 99; 116; 105; 111; 110; 32; 102; 114; 111; 109; 32; 37; 115; 58; 37; 115].
Definition greeting_reply : reply := (T220, info_welcome).

(* all records of logger aioftp.server for one control connection fed `lines`, then closed *)
Definition server_session (censor : list text) (T : pass_texts) (users : list user)
           (host port : text) (lines : list text) : list logrec :=
  {| lr_msg := fmt_new_conn; lr_args := [host; port] |}
    :: reply_log (reply_line greeting_reply)
    :: server_run censor T users init_state lines
    ++ [{| lr_msg := fmt_closing_conn; lr_args := [host; port] |}].

(* the stream-level view: what parse_command logs for everything readline() splits off a byte
   stream (text level, cf. Model/Framing.v) *)
Definition server_stream_log (censor : list text) (stream : text) : list logrec :=
  map (server_parse_command_log censor) (split_lines stream).

(* ------------------------------------------------------------------ client: login *)
Definition code_of_reply (line : text) : text := firstn 3 (rstrip (line ++ eol)).

(* the `while code.matches("33x")` loop of Client.login; `replies` are the (single-line) replies
   the server sends, in order; the loop ends when they run out (connection lost) or a
   StatusCodeError is raised (no record is logged for either) *)
Fixpoint client_login_loop (fuel : nat) (prefix : text) (k : Z) (password account : text)
         (code : text) (replies : list text) : list logrec :=
  match fuel with
  | O => []
  | S f =>
      if matches T33x code then
        let cmd := if text_eqb code T331 then Some (login_pass_command prefix password, k)
                   else if text_eqb code T332 then Some (CMD_ACCT_ ++ account, 0)
                   else None in
        match cmd with
        | None => []
        | Some (c, k') =>
            client_command_records c k'
              ++ match replies with
                 | [] => []
                 | r :: rs =>
                     client_reply_log r
                       :: (if any_matches [T230; T33x] (code_of_reply r)
                           then client_login_loop f prefix k password account (code_of_reply r) rs
                           else [])
                 end
        end
      else []
  end.

(* records of logger aioftp.client during Client.login(user, password, account) *)
Definition client_login_records (prefix : text) (k : Z) (user password account : text)
           (replies : list text) : list logrec :=
  client_command_records (CMD_USER_ ++ user) 0
    ++ match replies with
       | [] => []
       | r :: rs =>
           client_reply_log r
             :: (if any_matches [T230; T33x] (code_of_reply r)
                 then client_login_loop (S (length rs)) prefix k password account (code_of_reply r) rs
                 else [])
       end.

(* a whole login against the modelled server: (server records, client records).  The client
   connects (reads the greeting), sends USER, and PASS when the answer is 331. *)
Definition reply_lines_of (recs : list logrec) : list text := map lr_msg (tl recs).

Definition login_session (censor : list text) (T : pass_texts) (users : list user)
           (prefix : text) (k : Z) (host port user password account : text)
  : list logrec * list logrec :=
  let greet := reply_line greeting_reply in
  let '(st1, srv1) := server_step censor T users init_state ((CMD_USER_ ++ user) ++ eol) in
  let r1 := reply_lines_of srv1 in
  let sends_pass := match r1 with r :: _ => text_eqb (code_of_reply r) T331 | [] => false end in
  let '(srv2, r2) :=
    if sends_pass
    then let '(_, s2) := server_step censor T users st1 (login_pass_command prefix password ++ eol) in
         (s2, reply_lines_of s2)
    else ([], []) in
  ({| lr_msg := fmt_new_conn; lr_args := [host; port] |}
     :: reply_log greet :: srv1 ++ srv2
     ++ [{| lr_msg := fmt_closing_conn; lr_args := [host; port] |}],
   client_reply_log greet :: client_login_records prefix k user password account (r1 ++ r2)).

(* ------------------------------------------------------------------ harness interface *)
Definition sx_of_logrec (r : logrec) : sx :=
  L [sx_of_text (lr_msg r); sx_of_texts (lr_args r); sx_of_text (lr_message r)].
Definition sx_of_logrecs (l : list logrec) : sx := L (map sx_of_logrec l).

Definition opt_text_of_sx (s : sx) : option text :=
  match list_of_sx s with [] => None | x :: _ => Some (text_of_sx x) end.
Definition user_of_sx (s : sx) : user := (opt_text_of_sx (nth_sx 0 s), opt_text_of_sx (nth_sx 1 s)).
Definition users_of_sx (s : sx) : list user := map user_of_sx (list_of_sx s).

Definition run_logcensor (fn : Z) (a : sx) : sx :=
  match fn with
  | 0 => (* parse_command record: censor line *)
      match text_of_sx (nth_sx 1 a) with
      | [] => sx_err 2                     (* ConnectionResetError, nothing logged *)
      | line => sx_ok (sx_of_logrec (server_parse_command_log (texts_of_sx (nth_sx 0 a)) line))
      end
  | 1 => (* client command(): command censor_after *)
      sx_of_logrecs (client_command_records (text_of_sx (nth_sx 0 a)) (z_of_sx (nth_sx 1 a)))
  | 2 => (* server session: censor users host port lines *)
      sx_of_logrecs (server_session (texts_of_sx (nth_sx 0 a)) default_texts (users_of_sx (nth_sx 1 a))
                                    (text_of_sx (nth_sx 2 a)) (text_of_sx (nth_sx 3 a))
                                    (texts_of_sx (nth_sx 4 a)))
  | 3 => (* client login records: prefix k user password account replies *)
      sx_of_logrecs (client_login_records (text_of_sx (nth_sx 0 a)) (z_of_sx (nth_sx 1 a))
                                          (text_of_sx (nth_sx 2 a)) (text_of_sx (nth_sx 3 a))
                                          (text_of_sx (nth_sx 4 a)) (texts_of_sx (nth_sx 5 a)))
  | 4 => (* whole login: censor users prefix k host port user password account *)
      let '(s, c) := login_session (texts_of_sx (nth_sx 0 a)) default_texts (users_of_sx (nth_sx 1 a))
                                   (text_of_sx (nth_sx 2 a)) (z_of_sx (nth_sx 3 a))
                                   (text_of_sx (nth_sx 4 a)) (text_of_sx (nth_sx 5 a))
                                   (text_of_sx (nth_sx 6 a)) (text_of_sx (nth_sx 7 a))
                                   (text_of_sx (nth_sx 8 a)) in
      L [sx_of_logrecs s; sx_of_logrecs c]
  | 5 => (* stream-level parse_command log: censor stream *)
      sx_of_logrecs (server_stream_log (texts_of_sx (nth_sx 0 a)) (text_of_sx (nth_sx 1 a)))
  | _ => sx_err 99
  end.
