(* C04 for requests that are carried out LATER than they are authorised: LIST / MLSD / RETR / STOR / APPE answer
   150 and hand the work to a nested *_worker task that starts when the data connection has arrived.  Between the
   150 reply and that moment the session goes on: CWD, CDUP, a new USER/PASS ...  The worker uses the variable
   real_path of the handler's frame (a closure), i.e. the path that PathPermissions looked the permission up for.
   `late` is the other possibility (the worker resolves `rest` again when it starts); which one the source has
   is a fact of Gen/Resolve.v (Model/ResolveCheck.v: late_of). *)
From Coq Require Import ZArith List Bool.
From Verif Require Import Lib.Sx Lib.PyStr Lib.PosixPath Model.Paths Model.Perm.
Import ListNotations.
Open Scope Z_scope.

(* what resolution and authorisation depend on *)
Record rstate : Type := mkrs { r_base : ppath; r_cwd : ppath; r_perms : list perm }.

(* commands between the 150 reply and the arrival of the data connection *)
Inductive between : Type :=
| BNav (c : nav)                                        (* CWD / CDUP, accepted or refused *)
| BLogin (base home : ppath) (perms : list perm)        (* USER (+PASS) of another user *)
| BOther.                                               (* anything else (PWD, TYPE, MLST ...) *)

Definition between_step (st : rstate) (b : between) : rstate :=
  match b with
  | BNav c => mkrs (r_base st) (nav_step (r_base st) (r_cwd st) c) (r_perms st)
  | BLogin b h p => mkrs b h p
  | BOther => st
  end.

Definition between_run (st : rstate) (bs : list between) : rstate := fold_left between_step bs st.

(* the handler when the request arrives: the PathPermissions decision, the entry it was taken from, and -- when
   the body runs -- the real path bound in the handler's frame *)
Definition request (flags : list flag) (st : rstate) (rest : text) : option (pp_outcome * perm * option ppath) :=
  match authorise (r_base st) (r_cwd st) (r_perms st) flags rest with
  | None => None
  | Some (o, cur) =>
      Some (o, cur, match o with
                    | CallBody => option_map fst (get_paths (r_base st) (r_cwd st) rest)
                    | _ => None
                    end)
  end.

(* the path the worker hands to the backend; st0 = state at the request, st1 = state when the worker starts *)
Definition worker_path (late : bool) (st0 st1 : rstate) (rest : text) : option ppath :=
  let st := if late then st1 else st0 in
  option_map fst (get_paths (r_base st) (r_cwd st) rest).

(* ---- histories of requests on one connection: CWD/CDUP and re-logins (USER alone for a password-less or anonymous
   account, USER + PASS otherwise) between permission-checked requests.  The decorator looks the entry up in the table
   of connection.user as it is NOW. *)
Inductive sreq : Type :=
| SBetween (b : between)
| SReq (flags : list flag) (rest : text).

Fixpoint reqs_run (st : rstate) (h : list sreq) : list (option (pp_outcome * perm)) :=
  match h with
  | [] => []
  | SBetween b :: h' => reqs_run (between_step st b) h'
  | SReq f r :: h' => option_map (fun x => fst x) (request f st r) :: reqs_run st h'
  end.

(* independent bookkeeping: (table of the user logged in now, stack of names of the working directory) *)
Definition spec_between (ps : list perm * list text) (b : between) : list perm * list text :=
  match b with
  | BNav (Cwd s true) => (fst ps, normalize (snd ps) s)
  | BNav (Cdup true) => (fst ps, rev (fold_left spec_step (removelast (snd ps)) []))
  | BNav _ => ps
  | BLogin _ h p => (p, parts h)
  | BOther => ps
  end.

Fixpoint reqs_spec (ps : list perm * list text) (h : list sreq) : list (option (pp_outcome * perm)) :=
  match h with
  | [] => []
  | SBetween b :: h' => reqs_spec (spec_between ps b) h'
  | SReq f r :: h' =>
      let cur := nearest (fst ps) (mkp 1 (normalize (snd ps) r)) in
      Some (path_permissions f cur, cur) :: reqs_spec ps h'
  end.

(* ---- harness interface ---- *)
Definition between_of_sx (s : sx) : between :=
  match list_of_sx s with
  | [I 0; a; b] => BNav (Cwd (text_of_sx a) (bool_of_sx b))
  | [I 1; b] => BNav (Cdup (bool_of_sx b))
  | [I 2; b; h; p] => BLogin (parse (text_of_sx b)) (parse (text_of_sx h)) (map perm_of_sx (list_of_sx p))
  | _ => BOther
  end.

(* fn 43: perms, flags, base, cwd, rest, between, late -> decision, id of the entry, the worker's path *)
Definition run_permxfer (fn : Z) (a : sx) : sx :=
  match fn with
  | 43 =>
      let st0 := mkrs (parse (text_of_sx (nth_sx 2 a))) (parse (text_of_sx (nth_sx 3 a)))
                      (map perm_of_sx (list_of_sx (nth_sx 0 a))) in
      let flags := map flag_of_sx (list_of_sx (nth_sx 1 a)) in
      let rest := text_of_sx (nth_sx 4 a) in
      let st1 := between_run st0 (map between_of_sx (list_of_sx (nth_sx 5 a))) in
      match request flags st0 rest with
      | None => sx_err 1
      | Some (o, cur, _) =>
          sx_ok (L [sx_of_outcome o; I (p_id cur);
                    sx_of_option (fun p => sx_of_text (to_str p)) (worker_path (bool_of_sx (nth_sx 6 a)) st0 st1 rest);
                    sx_of_text (to_str (r_cwd st1))])
      end
  | 44 => (* perms, base, home, history [[0, between] | [1, flags, rest]] -> decisions *)
      let st0 := mkrs (parse (text_of_sx (nth_sx 1 a))) (parse (text_of_sx (nth_sx 2 a)))
                      (map perm_of_sx (list_of_sx (nth_sx 0 a))) in
      let ev (s : sx) := match list_of_sx s with
                         | [I 0; b] => SBetween (between_of_sx b)
                         | [I 1; f; r] => SReq (map flag_of_sx (list_of_sx f)) (text_of_sx r)
                         | _ => SBetween BOther
                         end in
      sx_ok (L (map (fun o => match o with
                              | Some (d, cur) => L [sx_of_outcome d; I (p_id cur)]
                              | None => L []
                              end) (reqs_run st0 (map ev (list_of_sx (nth_sx 3 a))))))
  | _ => run_perm fn a
  end.
