(* C17: several concurrent sessions over ONE shared tree.
   Global state = shared tree x finite map session-id -> (Session.sess, ghost log of that
   session's backend calls).  [gstep g i ev] applies session i's event with Session.step on
   (sessions[i], shared tree) and writes both back; an interleaving is a list of (i, event).
   Besides the commands of Session.v a session can be DROPPED (peer vanished / torn down).
   No proofs here (Proofs/Multi.v). *)
From Coq Require Import ZArith List Bool String.
From Verif Require Import Lib.Sx Lib.PyStr Lib.Facts Model.Session.
Import ListNotations.
Open Scope list_scope.
Open Scope Z_scope.

Definition slog := list (string * list text).

Record gstate := { g_fs : node; g_ss : list (sess * slog) }.

Inductive gevent :=
| GCmd (e : event)        (* a command (or the data-channel pseudo event) of Session.v *)
| GDrop.                  (* the session is torn down: connection lost / server closes it *)

Fixpoint upd {A} (i : nat) (x : A) (l : list A) : list A :=
  match l, i with
  | [], _ => []
  | _ :: r, O => x :: r
  | y :: r, S k => y :: upd k x r
  end.

Local Notation tbl := (list (string * (string * list deco * option string))).

Section Multi.
  Variable users : list user.
  Variable table : tbl.

  Definition gstep (g : gstate) (i : nat) (ev : gevent) : gstate * out :=
    match nth_error (g_ss g) i with
    | None => (g, mk_out [])
    | Some (s, l) =>
        match ev with
        | GDrop => ({| g_fs := g_fs g; g_ss := upd i (end_sess s, l) (g_ss g) |}, mk_out [])
        | GCmd e =>
            let '(w, o) := step users table {| w_s := s; w_fs := g_fs g; w_log := l |} e in
            ({| g_fs := w_fs w; g_ss := upd i (w_s w, w_log w) (g_ss g) |}, o)
        end
    end.

  Fixpoint grun (g : gstate) (es : list (nat * gevent)) : gstate * list (nat * out) :=
    match es with
    | [] => (g, [])
    | (i, ev) :: r =>
        let '(g1, o) := gstep g i ev in
        let '(g2, os) := grun g1 r in (g2, (i, o) :: os)
    end.

  (* ---------------------------------------------------------------- tree footprint of a step
     the resolved path(s) whose subtree membership decides what the step can see or change:
     the probed / read / listed path itself; for remove / store / rename the PARENT directory
     (whose child list changes); for MKD the path itself (mkdir_p below an existing directory
     creates only inside it).  Same if-chain as Session.body. *)
  Definition is_pathcond (d : deco) : bool := match d with DPathCond _ => true | _ => false end.

  Definition bfp (self : string -> text -> list (list text))
             (name : string) (arg : text) (cwd : list text) (rnfr : option (list text)) : list (list text) :=
    let p := resolve cwd arg in
    if String.eqb name "user" then []
    else if String.eqb name "pass_" then []
    else if String.eqb name "quit" then []
    else if String.eqb name "pwd" then []
    else if String.eqb name "cwd" then []
    else if String.eqb name "cdup" then self "cwd"%string (path_str (removelast cwd))
    else if String.eqb name "mkd" then [p]
    else if String.eqb name "rmd" then [removelast p]
    else if String.eqb name "dele" then [removelast p]
    else if String.eqb name "rnfr" then []
    else if String.eqb name "rnto" then
      match rnfr with Some src => [removelast src; removelast p] | None => [] end
    else if String.eqb name "mlst" then []
    else if String.eqb name "list" then [p]
    else if String.eqb name "mlsd" then [p]
    else if String.eqb name "retr" then [p]
    else if String.eqb name "stor" then [removelast p]
    else if String.eqb name "appe" then self "stor"%string arg
    else [].

  (* the decorators probe the resolved argument whenever the stack has a PathConditions *)
  Fixpoint hfp (fuel : nat) (cwd : list text) (rnfr : option (list text)) (name : string) (arg : text)
    : list (list text) :=
    match fuel with
    | O => []
    | S f =>
        match handler_of table name with
        | None => []
        | Some (ds, _) =>
            (if existsb is_pathcond ds then [resolve cwd arg] else [])
            ++ bfp (hfp f cwd rnfr) name arg cwd rnfr
        end
    end.

  Definition sfp (s : sess) (e : event) : list (list text) :=
    if s_ended s then []
    else if text_eqb (e_verb e) V_DATACONN then []
    else match verb_handler table (e_verb e) with
         | None => []
         | Some h => hfp 3 (s_cwd s) (s_rnfr s) h (e_arg e)
         end.

  (* the footprint of session i's next event lies inside directory a *)
  Definition fp_in (a : list text) (s : sess) (ev : gevent) : bool :=
    match ev with
    | GDrop => true
    | GCmd e => forallb (is_prefix a) (sfp s e)
    end.

  Definition gfp_in (a : list text) (g : gstate) (i : nat) (ev : gevent) : bool :=
    match nth_error (g_ss g) i with
    | None => true
    | Some (s, _) => fp_in a s ev
    end.

  (* every step of the run stays inside a (used on SOLO runs: the hypothesis of isolation) *)
  Fixpoint run_in (a : list text) (g : gstate) (es : list (nat * gevent)) : bool :=
    match es with
    | [] => true
    | (i, ev) :: r => gfp_in a g i ev && run_in a (fst (gstep g i ev)) r
    end.
End Multi.

(* the events of session i / the outputs of session i *)
Definition only {A} (i : nat) (l : list (nat * A)) : list (nat * A) :=
  filter (fun x => Nat.eqb (fst x) i) l.

Definition proj {A} (i : nat) (l : list (nat * A)) : list A := map snd (only i l).

(* ------------------------------------------------------------------ grafting subtrees *)
(* replace the subtree at path a (when it exists; otherwise the tree is unchanged) *)
Fixpoint graft (a : list text) (s : node) (n : node) : node :=
  match a with
  | [] => s
  | x :: r =>
      match n with
      | NDir ch =>
          match assoc_t x ch with
          | Some c => NDir (replace_t x (graft r s c) ch)
          | None => n
          end
      | NFile _ => n
      end
  end.

Fixpoint grafts (l : list (list text * node)) (n : node) : node :=
  match l with
  | [] => n
  | (a, s) :: r => graft a s (grafts r n)
  end.

Definition incomparable (a b : list text) : bool := negb (is_prefix a b) && negb (is_prefix b a).

Fixpoint pairwise_incomparable (l : list (list text)) : bool :=
  match l with
  | [] => true
  | a :: r => forallb (incomparable a) r && pairwise_incomparable r
  end.

Definition sub_at (a : list text) (n : node) : node :=
  match lookup a n with Some s => s | None => NDir [] end.

(* ------------------------------------------------------------------ harness interface *)
Definition gevent_of_sx (x : sx) : nat * gevent :=
  let i := Z.to_nat (z_of_sx (nth_sx 0 x)) in
  match nth_sx 1 x with
  | L [] => (i, GDrop)
  | e => (i, GCmd (event_of_sx e))
  end.

Definition sx_of_gouts (os : list (nat * out)) : sx :=
  L (map (fun x => L [I (Z.of_nat (fst x)); sx_of_out (snd x)]) os).

Definition init_g (fs : node) (n : nat) : gstate :=
  {| g_fs := fs; g_ss := repeat (init_sess, []) n |}.

(* run with a trace of every session record after every step *)
Fixpoint grun_trace (users : list user) (g : gstate) (es : list (nat * gevent)) : gstate * list sx :=
  match es with
  | [] => (g, [])
  | (i, ev) :: r =>
      let '(g1, o) := gstep users ref_table g i ev in
      let '(g2, os) := grun_trace users g1 r in
      (g2, L [I (Z.of_nat i); sx_of_out o; L (map (fun x => sx_of_sess (fst x)) (g_ss g1))] :: os)
  end.

(* fn 0: [users; tree; n; events] -> [final tree; [per step: i, out, all session records]]
   fn 1: [users; tree; n; events; dirs] -> per session i: does its SOLO run stay inside dirs[i]?
         (the hypothesis of C17_isolation), then pairwise_incomparable dirs, then all dirs exist
   fn 2: [users; tree; n; events; i] -> the SOLO run of session i: [final tree; outs]        *)
Definition run_multi (fn : Z) (a : sx) : sx :=
  let users := map user_of_sx (list_of_sx (nth_sx 0 a)) in
  let fs := node_of_sx_fuel 64 (nth_sx 1 a) in
  let n := Z.to_nat (z_of_sx (nth_sx 2 a)) in
  let es := map gevent_of_sx (list_of_sx (nth_sx 3 a)) in
  let g0 := init_g fs n in
  match fn with
  | 0 =>
      let '(g, tr) := grun_trace users g0 es in
      L [ sx_of_node_fuel 64 (g_fs g); L tr ]
  | 1 =>
      let dirs := map texts_of_sx (list_of_sx (nth_sx 4 a)) in
      L [ L (map (fun k => sx_of_bool (run_in users ref_table (nth k dirs []) g0 (only k es)
                                       && match nth_error dirs k with Some _ => true | None => false end))
                 (seq 0 n));
          sx_of_bool (pairwise_incomparable dirs);
          sx_of_bool (forallb (fun d => exists_ d fs) dirs) ]
  | 2 =>
      let i := Z.to_nat (z_of_sx (nth_sx 4 a)) in
      let '(g, os) := grun users ref_table g0 (only i es) in
      L [ sx_of_node_fuel 64 (g_fs g); sx_of_gouts os ]
  | _ => sx_err 99
  end.
