(* Model of directory listings and stats (C07):
     server: Server.build_mlsx_string, _build_mlsx_facts_from_stats, _format_mlsx_time,
             build_list_string (stat.filemode, nlink, 'none none', size, build_list_mtime, name),
             the mlsd / list worker loops over path_io.list            (server.py)
     client: parse_mlsx_line, parse_list_line_unix, parse_unix_mode     (client.py)
   transcribed slice by slice.  The date layer is Model/LsDate.v. *)
From Coq Require Import ZArith List Bool.
From Verif Require Import Lib.Sx Lib.PyStr Lib.PyStr2 Lib.Civil Model.LsDate.
Import ListNotations.
Open Scope Z_scope.

(* what path_io.stat returns (integers: floats are floored by gmtime/localtime) *)
Record stats : Type := mkstats { st_size : Z; st_ctime : Z; st_mtime : Z; st_nlink : Z; st_mode : Z }.

(* entry kinds as answered by path_io.is_file / is_dir *)
Definition K_FILE : Z := 0.
Definition K_DIR : Z := 1.
Definition K_UNKNOWN : Z := 2.

Definition t_file : text := [102; 105; 108; 101].
Definition t_dir : text := [100; 105; 114].
Definition t_link : text := [108; 105; 110; 107].
Definition t_unknown : text := [117; 110; 107; 110; 111; 119; 110].
Definition kind_text (k : Z) : text :=
  if k =? K_FILE then t_file else if k =? K_DIR then t_dir else t_unknown.

Definition SEMI : Z := 59.
Definition EQ : Z := 61.

Definition k_Size : text := [83; 105; 122; 101].
Definition k_Create : text := [67; 114; 101; 97; 116; 101].
Definition k_Modify : text := [77; 111; 100; 105; 102; 121].
Definition k_Type : text := [84; 121; 112; 101].

(* Server._build_mlsx_facts_from_stats, then facts["Type"] = ... (dict insertion order) *)
Definition mlsx_facts (st : option stats) (kind : Z) : list (text * text) :=
  match st with
  | Some s => [ (k_Size, str_of_Z (st_size s));
                (k_Create, format_mlsx_time (st_ctime s));
                (k_Modify, format_mlsx_time (st_mtime s)) ]
  | None => []
  end ++ [ (k_Type, kind_text kind) ].

(* Server.build_mlsx_string: st = None when path_io.exists(path) is false *)
Definition build_mlsx_string (st : option stats) (kind : Z) (name : text) : text :=
  flat_map (fun kv => fst kv ++ [EQ] ++ snd kv ++ [SEMI]) (mlsx_facts st kind) ++ [SP] ++ name.

(* Client.parse_mlsx_line -> (name, entry); ValueError when the line has no SP or nothing after it
   (since the fix "listing lines without a name or without a type are reported as ValueError") *)
Definition parse_mlsx_line (s : text) : res (text * list (text * text)) :=
  let line := rstrip s in
  let '(facts_found, sep, name) := partition SP line in
  if negb sep || (match name with [] => true | _ => false end) then Err E_VALUE else
  let entry :=
    fold_left (fun e fact => let '(key, _, value) := partition EQ fact in dict_set (lower key) value e)
              (split_on SEMI (removelast facts_found)) [] in
  Ok (name, entry).

(* ---- stat.filemode ---- *)
Definition filetype_char (mode : Z) : Z :=
  let f := (mode / 4096) mod 16 in
  if f =? 8 then 45          (* S_IFREG  '-' *)
  else if f =? 4 then 100    (* S_IFDIR  'd' *)
  else if f =? 10 then 108   (* S_IFLNK  'l' *)
  else if f =? 6 then 98     (* S_IFBLK  'b' *)
  else if f =? 2 then 99     (* S_IFCHR  'c' *)
  else if f =? 1 then 112    (* S_IFIFO  'p' *)
  else if f =? 12 then 115   (* S_IFSOCK 's' *)
  else 63.                   (* '?' *)

Definition bit (mode : Z) (k : Z) : bool := Z.testbit mode k.

Definition xchar (x special : bool) (lo up : Z) : Z :=
  if special then (if x then lo else up) else (if x then 120 else 45).

Definition perm_chars (mode : Z) : text :=
  [ if bit mode 8 then 114 else 45; if bit mode 7 then 119 else 45; xchar (bit mode 6) (bit mode 11) 115 83;
    if bit mode 5 then 114 else 45; if bit mode 4 then 119 else 45; xchar (bit mode 3) (bit mode 10) 115 83;
    if bit mode 2 then 114 else 45; if bit mode 1 then 119 else 45; xchar (bit mode 0) (bit mode 9) 116 84 ].

Definition filemode (mode : Z) : text := filetype_char mode :: perm_chars mode.

Definition t_none : text := [110; 111; 110; 101].

(* Server.build_list_string with the date column already formatted *)
Definition build_list_string_with (st : stats) (mtime_text name : text) : text :=
  join [SP] [ filemode (st_mode st); str_of_Z (st_nlink st); t_none; t_none;
              str_of_Z (st_size st); mtime_text; name ].

Definition build_list_string (half off now : Z) (st : stats) (name : text) : text :=
  build_list_string_with st (build_list_mtime half off (st_mtime st) now) name.

(* ---- Client.parse_unix_mode ---- *)
Definition parse_rw (s : text) : option Z :=
  match s with
  | [114; 119] => Some 6
  | [114; 45] => Some 4
  | [45; 119] => Some 2
  | [45; 45] => Some 0
  | _ => None
  end.

Definition key_or_err (o : option Z) : res Z := match o with Some v => Ok v | None => Err E_KEY end.

(* s[i] compared with the special letter ('s'/'t': special bit + execute), 'x', the upper-case
   letter ('S'/'T': special bit without execute — accepted since the F13b fix), '-' *)
Definition xbit (c : option Z) (special upper : Z) (vs vx vu : Z) : res Z :=
  match c with
  | None => Err E_INDEX
  | Some c => if c =? special then Ok vs else if c =? 120 then Ok vx else if c =? upper then Ok vu
              else if c =? 45 then Ok 0 else Err E_VALUE
  end.

Definition parse_unix_mode (s : text) : res Z :=
  bind (key_or_err (parse_rw (slice 0 2 s))) (fun u =>
  bind (key_or_err (parse_rw (slice 3 5 s))) (fun g =>
  bind (key_or_err (parse_rw (slice 6 8 s))) (fun o =>
  bind (xbit (char_at 2 s) 115 83 2112 64 2048) (fun xu =>   (* 0o4100, 0o0100, 0o4000 *)
  bind (xbit (char_at 5 s) 115 83 1032 8 1024) (fun xg =>    (* 0o2010, 0o0010, 0o2000 *)
  bind (xbit (char_at 8 s) 116 84 512 1 512) (fun xo =>      (* 0o1000 (sic, without 0o0001), 0o0001, 0o1000 *)
  Ok (Z.lor (Z.lor (Z.lor (u * 64) (g * 8)) o) (Z.lor (Z.lor xu xg) xo)))))))).

(* ---- Client.parse_list_line_unix ---- *)
Record linfo : Type := mklinfo {
  li_type : text; li_mode : Z; li_links : text; li_owner : text; li_group : text;
  li_size : text; li_modify : text; li_link_dst : option text }.

(* i = s.index(" "); (s[:i], s[i:].lstrip()) *)
Definition take_field (s : text) : res (text * text) :=
  match index_of SP s with
  | None => Err E_VALUE
  | Some i => Ok (firstn i s, lstrip (skipn i s))
  end.

Definition ARROW : text := [32; 45; 62; 32].

Definition parse_list_line_unix (half two_years : Z) (now : dt) (b : text) : res (text * linfo) :=
  let s := rstrip b in
  match s with
  | [] => Err E_INDEX
  | c0 :: _ =>
      let ty := if c0 =? 45 then t_file else if c0 =? 100 then t_dir
                else if c0 =? 108 then t_link else t_unknown in
      bind (parse_unix_mode (slice 1 10 s)) (fun mode =>
      bind (take_field (lstrip (skipn 10 s))) (fun '(links, s1) =>
      if negb (str_isdigit links) then Err E_VALUE else
      bind (take_field s1) (fun '(owner, s2) =>
      bind (take_field s2) (fun '(grp, s3) =>
      bind (take_field s3) (fun '(size, s4) =>
      if negb (str_isdigit size) then Err E_VALUE else
      match parse_ls_date half two_years (strip (firstn 12 s4)) now with
      | None => Err E_VALUE
      | Some modify =>
          let s5 := strip (skipn 12 s4) in
          match s5 with [] => Err E_VALUE | _ =>      (* if not s: raise ValueError("no name column") *)
          if text_eqb ty t_link then
            match rfind_sub ARROW s5 with
            | None => Err E_VALUE
            | Some i =>
                let link_dst := skipn (i + 4) s5 in
                let link_src := firstn i s5 in
                match char_from_end 1 link_dst with
                | None => Err E_INDEX
                | Some lastc =>
                    let k := if (lastc =? 39) || (lastc =? 34) then 2%nat else 1%nat in
                    match char_from_end k link_dst with
                    | None => Err E_INDEX
                    | Some ck =>
                        Ok (link_src,
                            mklinfo (if ck =? 47 then t_dir else t_file) mode links owner grp size
                                    modify (Some link_dst))
                    end
                end
            end
          else Ok (s5, mklinfo ty mode links owner grp size modify None)
          end
      end)))))
  end.

(* ---- the lister loops (mlsd_worker / list_worker) over an abstract directory ---- *)
(* one directory entry as the backend reports it: name, exists/stat, kind *)
Record dentry : Type := mkdentry { de_name : text; de_stat : option stats; de_kind : Z }.

(* mlsd_worker: one line per path yielded by path_io.list, in order *)
Definition mlsd_lines (dir : list dentry) : list text :=
  map (fun e => build_mlsx_string (de_stat e) (de_kind e) (de_name e)) dir.

(* list_worker: entries that do not exist any more are skipped (logged) *)
Definition list_lines (half off now : Z) (dir : list dentry) : list text :=
  flat_map (fun e => match de_stat e with
                     | Some st => [build_list_string half off now st (de_name e)]
                     | None => []
                     end) dir.

Definition DOT : text := [46].
Definition DOTDOT : text := [46; 46].
(* the client's lister loop is Model/ListingClient.v (client_collect) *)

(* ---------------- harness interface ---------------- *)
Definition sx_of_res {A} (f : A -> sx) (r : res A) : sx :=
  match r with Ok a => sx_ok (f a) | Err t => sx_err t end.

Definition stats_of_sx (s : sx) : stats :=
  mkstats (z_of_sx (nth_sx 0 s)) (z_of_sx (nth_sx 1 s)) (z_of_sx (nth_sx 2 s))
          (z_of_sx (nth_sx 3 s)) (z_of_sx (nth_sx 4 s)).

Definition opt_stats_of_sx (s : sx) : option stats :=
  match list_of_sx s with [] => None | _ => Some (stats_of_sx s) end.

Definition sx_of_kv (kv : text * text) : sx := L [sx_of_text (fst kv); sx_of_text (snd kv)].

Definition sx_of_linfo (r : text * linfo) : sx :=
  let '(name, i) := r in
  L [ sx_of_text name; sx_of_text (li_type i); I (li_mode i); sx_of_text (li_links i);
      sx_of_text (li_owner i); sx_of_text (li_group i); sx_of_text (li_size i);
      sx_of_text (li_modify i); sx_of_option sx_of_text (li_link_dst i) ].

Definition fmt_of (k : Z) : list tok := if k =? 1 then fmt1 else if k =? 2 then fmt2 else fmt3.

Definition run_listing (fn : Z) (a : sx) : sx :=
  let z i := z_of_sx (nth_sx i a) in
  let t i := text_of_sx (nth_sx i a) in
  match fn with
  | 0 => sx_of_dt (civil_of_epoch (z 0%nat))
  | 1 => I (epoch_of_civil (dt_of_sx (nth_sx 0 a)))
  | 2 => I (days_from_civil (z 0%nat) (z 1%nat) (z 2%nat))
  | 3 => let '(y, m, d) := civil_from_days (z 0%nat) in L [I y; I m; I d]
  | 4 => L [sx_of_bool (is_leap (z 0%nat)); I (days_in_month (z 0%nat) (z 1%nat))]
  | 10 => sx_of_text (build_list_mtime (z 0%nat) (z 1%nat) (z 2%nat) (z 3%nat))
  | 11 => sx_of_option sx_of_text
            (parse_ls_date (z 0%nat) (z 1%nat) (t 2%nat) (dt_of_sx (nth_sx 3 a)))
  | 12 => sx_of_text (format_mlsx_time (z 0%nat))
  | 13 => sx_of_option sx_of_dt (strptime (fmt_of (z 0%nat)) (t 1%nat))
  | 20 => sx_of_text (build_mlsx_string (opt_stats_of_sx (nth_sx 0 a)) (z 1%nat) (t 2%nat))
  | 21 => sx_of_res (fun r => L [sx_of_text (fst r); L (map sx_of_kv (snd r))]) (parse_mlsx_line (t 0%nat))
  | 22 => sx_of_text (build_list_string (z 0%nat) (z 1%nat) (z 2%nat)
                                        (stats_of_sx (nth_sx 3 a)) (t 4%nat))
  | 23 => sx_of_res sx_of_linfo
            (parse_list_line_unix (z 0%nat) (z 1%nat) (dt_of_sx (nth_sx 2 a)) (t 3%nat))
  | 24 => sx_of_res I (parse_unix_mode (t 0%nat))
  | 25 => sx_of_text (filemode (z 0%nat))
  | _ => sx_err 99
  end.
