(* Model of the parsers that see bytes chosen by the peer (C19):
     client.py: parse_unix_mode, parse_list_line_unix, parse_list_line_windows, parse_list_line
                (with its (ValueError, KeyError, IndexError) funnel), parse_mlsx_line,
                parse_pasv_response, parse_epsv_response, parse_directory_response,
                parse_line/parse_response (bytes level, on top of Model/Framing.v),
                the AsyncLister loop of Client.list, the MLST half of Client.stat
     server.py: parse_command (bytes level) and the dispatcher's reaction to its outcomes.
   Every function is total and returns `Ok value | Exc class`.
   Library calls with wide value semantics are PARAMETERS of the model:
     ls_date  = BaseClient.parse_ls_date (three datetime.strptime formats, now-dependent)
     win_date = strptime with the month/day/year 12-hour format + format_date_time
   (the harness supplies their outcome on the exact argument the model says they receive). *)
From Coq Require Import ZArith List Bool.
From Verif Require Import Lib.Sx Lib.PyStr Lib.PyStr3 Model.Framing.
Import ListNotations.
Open Scope Z_scope.

(* exception classes that can occur; UnicodeDecodeError is a subclass of ValueError *)
Inductive exc : Type :=
| ValueError | KeyError | IndexError | UnicodeDecodeError
| StatusCodeError | ConnectionResetError
| AttributeError | TypeError | OverflowError | TimeoutError
| PathIOError | CancelledError.

Inductive result (A : Type) : Type :=
| Ok (a : A)
| Exc (e : exc).
Arguments Ok {A} a.
Arguments Exc {A} e.

Definition bind {A B} (m : result A) (f : A -> result B) : result B :=
  match m with Ok a => f a | Exc e => Exc e end.
Notation "x <- m ;; f" := (bind m (fun x => f))
  (at level 61, m at next level, right associativity).
Notation "' pat <- m ;; f" := (bind m (fun x => match x with pat => f end))
  (at level 61, pat pattern, m at next level, right associativity).

Definition of_opt {A} (e : exc) (o : option A) : result A :=
  match o with Some a => Ok a | None => Exc e end.
Definition guard (b : bool) (e : exc) : result unit := if b then Ok tt else Exc e.

Definition exc_eqb (a b : exc) : bool :=
  match a, b with
  | ValueError, ValueError | KeyError, KeyError | IndexError, IndexError
  | UnicodeDecodeError, UnicodeDecodeError | StatusCodeError, StatusCodeError
  | ConnectionResetError, ConnectionResetError | AttributeError, AttributeError
  | TypeError, TypeError | OverflowError, OverflowError | TimeoutError, TimeoutError
  | PathIOError, PathIOError | CancelledError, CancelledError => true
  | _, _ => false
  end.

(* `except (ValueError, KeyError, IndexError)` in parse_list_line: subclass-aware *)
Definition funnel (e : exc) : bool :=
  match e with
  | ValueError | UnicodeDecodeError | KeyError | IndexError => true
  | _ => false
  end.

(* ---- constants ---- *)
Definition k_type : text := [116; 121; 112; 101].
Definition k_mode : text := [117; 110; 105; 120; 46; 109; 111; 100; 101].
Definition k_links : text := [117; 110; 105; 120; 46; 108; 105; 110; 107; 115].
Definition k_owner : text := [117; 110; 105; 120; 46; 111; 119; 110; 101; 114].
Definition k_group : text := [117; 110; 105; 120; 46; 103; 114; 111; 117; 112].
Definition k_size : text := [115; 105; 122; 101].
Definition k_modify : text := [109; 111; 100; 105; 102; 121].
Definition k_link_dst : text := [108; 105; 110; 107; 95; 100; 115; 116].
Definition t_file : text := [102; 105; 108; 101].
Definition t_dir : text := [100; 105; 114].
Definition t_link : text := [108; 105; 110; 107].
Definition t_unknown : text := [117; 110; 107; 110; 111; 119; 110].
Definition ARROW : text := [32; 45; 62; 32].          (* SP - > SP *)
Definition DIRTAG : text := [60; 68; 73; 82; 62].     (* <DIR> *)
Definition rw_rw : text := [114; 119].
Definition rw_r : text := [114; 45].
Definition rw_w : text := [45; 119].
Definition rw_none : text := [45; 45].

(* ---- dict with insertion order ---- *)
Definition dict := list (text * text).
Fixpoint dict_set (k v : text) (d : dict) : dict :=
  match d with
  | [] => [(k, v)]
  | (k', v') :: r => if text_eqb k k' then (k, v) :: r else (k', v') :: dict_set k v r
  end.
Fixpoint dict_get (k : text) (d : dict) : option text :=
  match d with
  | [] => None
  | (k', v') :: r => if text_eqb k k' then Some v' else dict_get k r
  end.

(* ---- parse_unix_mode ---- *)
Definition parse_rw (k : text) : result Z :=          (* parse_rw[...]: KeyError on a miss *)
  if text_eqb k rw_rw then Ok 6
  else if text_eqb k rw_r then Ok 4
  else if text_eqb k rw_w then Ok 2
  else if text_eqb k rw_none then Ok 0
  else Exc KeyError.

Definition special_bit (s : text) (i : nat) (cs vs vx cu vu : Z) : result Z :=
  c <- of_opt IndexError (char_at i s) ;;               (* s[i] *)
  if c =? cs then Ok vs
  else if c =? 120 then Ok vx
  else if c =? cu then Ok vu                             (* 'S' / 'T': the bit without execute *)
  else if c =? 45 then Ok 0
  else Exc ValueError.

Definition parse_unix_mode (s : text) : result Z :=
  a <- parse_rw (slice 0 2 s) ;;
  b <- parse_rw (slice 3 5 s) ;;
  c <- parse_rw (slice 6 8 s) ;;
  x <- special_bit s 2 115 2112 64 83 2048 ;;           (* 's' 0o4100 / 'x' 0o0100 / 'S' 0o4000 *)
  y <- special_bit s 5 115 1032 8 83 1024 ;;            (* 's' 0o2010 / 'x' 0o0010 / 'S' 0o2000 *)
  z <- special_bit s 8 116 512 1 84 512 ;;              (* 't' 0o1000 / 'x' 0o0001 / 'T' 0o1000 *)
  Ok (Z.lor (Z.lor (Z.lor (Z.lor (Z.lor (Z.shiftl a 6) (Z.shiftl b 3)) c) x) y) z).

(* ---- parse_mlsx_line ---- *)
Definition mlsx_entry (facts_found : text) : dict :=
  fold_left (fun d fact => let '(k, _, v) := partition 61 fact in dict_set (lower k) v d)
            (split_on 59 (removelast facts_found)) [].

Definition parse_mlsx_text (s : text) : result (text * dict) :=
  let line := rstrip s in
  let '(facts_found, sep, name) := partition SP line in
  if negb sep || (match name with [] => true | _ => false end)
  then Exc ValueError                                     (* no pathname in MLSx line *)
  else Ok (posix_norm name, mlsx_entry facts_found).

(* ---- parse_directory_response ---- *)
Fixpoint dir_loop (s : text) (start : bool) (seq : nat) (acc_rev : text) : text :=
  match s with
  | [] => rev (repeat 34 (Nat.div2 seq) ++ acc_rev)       (* directory += quote * (seq // 2) *)
  | ch :: r =>
      if negb start then dir_loop r (ch =? 34) seq acc_rev
      else if ch =? 34 then dir_loop r true (S seq) acc_rev
      else
        let acc' := repeat 34 (Nat.div2 seq) ++ acc_rev in
        if Nat.odd seq then rev acc'                       (* the closing quote: break *)
        else dir_loop r true O (ch :: acc')
  end.
Definition parse_directory_response (s : text) : text := posix_norm (dir_loop s false O []).

(* ---- parse_pasv_response: findall of the pattern << any non-lparen chars, lparen, group of
   non-rparen chars >>; the first match is the text between the first lparen and the next
   rparen (or the end); no lparen at all = empty findall = unpacking ValueError ---- *)
Definition pasv_sub (s : text) : option text :=
  match index_of 40 s with
  | None => None
  | Some i => Some (fst (fst (partition 41 (skipn (S i) s))))
  end.

Fixpoint map_int (l : list text) : result (list Z) :=
  match l with
  | [] => Ok []
  | x :: r => v <- of_opt ValueError (py_int x) ;; vs <- map_int r ;; Ok (v :: vs)
  end.

Definition parse_pasv_response (s : text) : result (text * Z) :=
  sub <- of_opt ValueError (pasv_sub s) ;;               (* unpacking an empty findall *)
  nums <- map_int (split_on 44 sub) ;;                   (* int(): ValueError *)
  let ip := join [DOT] (map str_of_Z (firstn 4 nums)) in
  n4 <- of_opt IndexError (nth_error nums 4) ;;
  n5 <- of_opt IndexError (nth_error nums 5) ;;
  Ok (ip, Z.lor (Z.shiftl n4 8) n5).

(* ---- parse_epsv_response: finditer of << lparen, any char d but newline, d, d, one or more
   decimal digits, d, rparen >>; the last match is used ---- *)
Fixpoint span_decimal (s : text) : text * text :=
  match s with
  | [] => ([], [])
  | c :: r => if is_decimal_char c then let '(a, b) := span_decimal r in (c :: a, b)
              else ([], s)
  end.

(* a match starting exactly here: (digits of the port, length of the match) *)
Definition epsv_match_at (s : text) : option (text * nat) :=
  match s with
  | 40 :: d :: d1 :: d2 :: r =>
      if (d =? 10) || negb ((d1 =? d) && (d2 =? d)) then None
      else
        let '(run, after) := span_decimal r in
        if is_decimal_char d then
          (* the delimiter is itself a digit: the digit run backtracks by exactly one *)
          match split_last run with
          | Some (init, lastd) =>
              if (lastd =? d) && negb (is_nil init) && starts_with [41] after
              then Some (init, (4 + length run + 1)%nat) else None
          | None => None
          end
        else
          match run, after with
          | _ :: _, x :: 41 :: _ => if x =? d then Some (run, (4 + length run + 2)%nat) else None
          | _, _ => None
          end
  | _ => None
  end.

Fixpoint epsv_scan (s : text) (skip : nat) (last : option text) : option text :=
  match s with
  | [] => last
  | _ :: r =>
      match skip with
      | S k => epsv_scan r k last
      | O => match epsv_match_at s with
             | Some (digits, len) => epsv_scan r (len - 1) (Some digits)
             | None => epsv_scan r O last
             end
      end
  end.

Definition parse_epsv_response (s : text) : result Z :=
  digits <- of_opt IndexError (epsv_scan s O None) ;;     (* matches[-1] on an empty tuple *)
  of_opt ValueError (py_int digits).                      (* int(): only the 4300-digit limit *)

(* ---- Client.stat, MLST half:  parse_mlsx_line(info[1].lstrip()) ---- *)
Definition stat_mlst (info : list text) : result dict :=
  l <- of_opt IndexError (nth_error info 1) ;;
  v <- parse_mlsx_text (lstrip l) ;;
  Ok (snd v).

(* ---- StreamReader.readline's limit ---- *)
Definition content_len (l : list Z) : Z :=
  match split_last l with
  | Some (init, 10) => Z.of_nat (length init)
  | _ => Z.of_nat (length l)
  end.
Definition over_limit (limit : Z) (l : list Z) : bool := limit <? content_len l.

Section WithCodec.
  (* bytes.decode(encoding=self.encoding): None = UnicodeDecodeError *)
  Variable dec : list Z -> option text.
  Variable ls_date : text -> result text.
  Variable win_date : text -> result text.

  Definition field (s : text) : result (text * text) :=  (* i = s.index(SP); s[:i], s[i:].lstrip() *)
    i <- of_opt ValueError (index_of SP s) ;;
    Ok (firstn i s, lstrip (skipn i s)).

  (* the string handed to parse_ls_date, when the parser gets that far (for the harness) *)
  Definition unix_prefix (b : list Z) : result (text * Z * (text * text * text * text) * text) :=
    s0 <- of_opt UnicodeDecodeError (dec b) ;;
    let s := rstrip s0 in
    c0 <- of_opt IndexError (char_at 0 s) ;;
    let ty := if c0 =? 45 then t_file else if c0 =? 100 then t_dir
              else if c0 =? 108 then t_link else t_unknown in
    mode <- parse_unix_mode (slice 1 10 s) ;;
    ' (links, s2) <- field (lstrip (skipn 10 s)) ;;
    _ <- guard (str_isdigit links) ValueError ;;
    ' (owner, s3) <- field s2 ;;
    ' (group, s4) <- field s3 ;;
    ' (size, s5) <- field s4 ;;
    _ <- guard (str_isdigit size) ValueError ;;
    Ok (ty, mode, (links, owner, group, size), s5).

  Definition parse_list_line_unix (b : list Z) : result (text * dict) :=
    ' (ty, mode, (links, owner, group, size), s5) <- unix_prefix b ;;
    modify <- ls_date (strip (firstn 12 s5)) ;;
    let s6 := strip (skipn 12 s5) in
    _ <- guard (negb (is_nil s6)) ValueError ;;            (* no name column *)
    let info := [(k_type, ty); (k_mode, str_of_Z mode); (k_links, links); (k_owner, owner);
                 (k_group, group); (k_size, size); (k_modify, modify)] in
    if text_eqb ty t_link then
      i <- of_opt ValueError (rindex_sub ARROW s6) ;;
      let link_dst := skipn (i + 4) s6 in
      let link_src := firstn i s6 in
      lc <- of_opt IndexError (char_from_end 1 link_dst) ;;
      let k := if (lc =? 39) || (lc =? 34) then 2%nat else 1%nat in
      tc <- of_opt IndexError (char_from_end k link_dst) ;;
      let ty' := if tc =? 47 then t_dir else t_file in
      Ok (posix_norm link_src, dict_set k_link_dst link_dst (dict_set k_type ty' info))
    else Ok (posix_norm s6, info).

  Definition win_prefix (b : list Z) : result (text * text) :=
    s0 <- of_opt UnicodeDecodeError (dec b) ;;
    let line := rstrip_chars [13; 10] s0 in
    dte <- of_opt ValueError (index_of 77 line) ;;                    (* line.index(M) *)
    let parts := filter (fun x => negb (is_nil x)) (split_on SP (strip (firstn (S dte) line))) in
    Ok (join [SP] parts, lstrip (skipn (S dte) line)).

  Definition parse_list_line_windows (b : list Z) : result (text * dict) :=
    ' (dts, line) <- win_prefix b ;;
    modify <- win_date dts ;;
    ns <- of_opt ValueError (index_of SP line) ;;
    info <- (if starts_with DIRTAG line then Ok [(k_modify, modify); (k_type, t_dir)]
             else let size := remove_char 44 (firstn ns line) in
                  _ <- guard (str_isdigit size) ValueError ;;
                  Ok [(k_modify, modify); (k_type, t_file); (k_size, size)]) ;;
    let filename := lstrip (skipn ns line) in
    _ <- guard (negb (is_nil filename || is_dot_name filename)) ValueError ;;
    Ok (posix_norm filename, info).

  (* parse_list_line with parse_list_line_custom = None: unix, then windows; anything in the
     funnel is collected, anything else escapes; finally ValueError(All parsers failed) *)
  Definition parse_list_line (b : list Z) : result (text * dict) :=
    match parse_list_line_unix b with
    | Ok v => Ok v
    | Exc e =>
        if funnel e then
          match parse_list_line_windows b with
          | Ok v => Ok v
          | Exc e' => if funnel e' then Exc ValueError else Exc e'
          end
        else Exc e
    end.

  Definition parse_mlsx_line (b : list Z) : result (text * dict) :=
    s <- of_opt UnicodeDecodeError (dec b) ;;
    parse_mlsx_text s.

  (* ---- readline + decode, shared by the reply loop and the server ---- *)
  Variable limit : Z.
  Definition read_text_line (l : list Z) : result text :=
    _ <- guard (negb (over_limit limit l)) ValueError ;;   (* readline: LimitOverrunError -> ValueError *)
    of_opt UnicodeDecodeError (dec l).

  (* ---- BaseClient.parse_response on the lines of a byte stream ---- *)
  Inductive rresult : Type :=
  | ROk (code : text) (info : list text) (rest : list (list Z))
  | RExc (e : exc) (rest : list (list Z)).

  Fixpoint reply_loop (code : text) (info_rev : list text) (ls : list (list Z)) : rresult :=
    match ls with
    | [] => RExc ConnectionResetError []
    | l :: ls' =>
        match read_text_line l with
        | Exc e => RExc e ls'
        | Ok t =>
            let s := rstrip t in
            let cc := firstn 3 s in
            let r := skipn 3 s in
            if str_isdigit cc then
              if text_eqb cc code then
                if starts_with [DASH] r then reply_loop code (r :: info_rev) ls'
                else ROk code (rev (r :: info_rev)) ls'
              else RExc StatusCodeError ls'
            else reply_loop code ((cc ++ r) :: info_rev) ls'
        end
    end.

  Definition reply_parse (ls : list (list Z)) : rresult :=
    match ls with
    | [] => RExc ConnectionResetError []
    | l :: ls' =>
        match read_text_line l with
        | Exc e => RExc e ls'
        | Ok t =>
            let s := rstrip t in
            let code := firstn 3 s in
            let r := skipn 3 s in
            if starts_with [DASH] r || negb (str_isdigit code)
            then reply_loop code [r] ls'
            else ROk code [r] ls'
        end
    end.

  (* ---- Server.parse_command on the first line of what the peer sent ---- *)
  Inductive cmd_outcome : Type :=
  | CmdOk (cmd rest : text)
  | CmdExc (e : exc).

  Definition server_parse_command (ls : list (list Z)) : cmd_outcome :=
    match ls with
    | [] => CmdExc ConnectionResetError                 (* EOF: readline returns nothing *)
    | l :: _ =>
        match read_text_line l with
        | Exc e => CmdExc e
        | Ok t => match Framing.parse_command t with
                  | Some (c, r) => CmdOk c r
                  | None => CmdExc ConnectionResetError
                  end
        end
    end.
End WithCodec.

(* ---- the AsyncLister loop of Client.list ----
   The server is a finite SCRIPT: the k-th MLSD/LIST request is answered with the k-th entry
   (list_mode = MLSD was refused with 50x and LIST answered; lines of the data connection);
   when the script is exhausted the server refuses (StatusCodeError).  L is the type of a
   line as the lister sees it; `parse list_mode l` is cls.parse_line (readline included). *)
Section Lister.
  Variable L : Type.
  Variable parse : bool -> L -> result (text * dict).

  Record lentry : Type := { e_path : text; e_name : text; e_info : dict }.
  Inductive lend : Type := LDone | LRaised (e : exc) | LFuel.
  Record lrun : Type := { yields : list lentry; requests : list text; ending : lend }.

  Definition script := list (bool * list L).

  Fixpoint lister_loop (fuel : nat) (recursive : bool) (cur : text) (mode : bool)
           (lines : list L) (queue : list text) (sc : script)
           (acc : list lentry) (reqs : list text) : lrun :=
    match fuel with
    | O => {| yields := rev acc; requests := rev reqs; ending := LFuel |}
    | S f =>
        match lines with
        | [] =>                                            (* readline returned nothing: finish() *)
            match queue with
            | [] => {| yields := rev acc; requests := rev reqs; ending := LDone |}
            | d :: q =>                                    (* directories.popleft(); _new_stream *)
                match sc with
                | [] => {| yields := rev acc; requests := rev (d :: reqs);
                           ending := LRaised StatusCodeError |}
                | (m, ls) :: sc' => lister_loop f recursive d m ls q sc' acc (d :: reqs)
                end
            end
        | l :: ls =>
            match parse mode l with
            | Exc e => {| yields := rev acc; requests := rev reqs; ending := LRaised e |}
            | Ok (name, info) =>
                match dict_get k_type info with            (* "type" not in info: ValueError, before the skip *)
                | None => {| yields := rev acc; requests := rev reqs; ending := LRaised ValueError |}
                | Some t =>
                    if is_dot_name name then lister_loop f recursive cur mode ls queue sc acc reqs
                    else
                      let p := posix_div cur name in
                      let q' := if text_eqb t t_dir && recursive then queue ++ [p] else queue in
                      lister_loop f recursive cur mode ls q' sc
                                  ({| e_path := p; e_name := name; e_info := info |} :: acc) reqs
                end
            end
        end
    end.

  (* termination measure: every iteration lowers it *)
  Definition script_weight (sc : script) : nat :=
    fold_right (fun e n => (2 * length (snd e) + n)%nat) O sc.
  Definition lister_measure (lines : list L) (queue : list text) (sc : script) : nat :=
    (2 * length lines + length queue + script_weight sc)%nat.

  (* Client.list(path, recursive=...) collected to the end: the first __anext__ opens `path` *)
  Definition run_lister (recursive : bool) (path : text) (sc : script) : lrun :=
    lister_loop (S (lister_measure [] [path] sc)) recursive path false [] [path] sc [] [].
End Lister.

(* a line of the data connection together with the outcome of the two date oracles on it *)
Definition oline : Type := (list Z * result text * result text)%type.

(* cls.parse_line(line) after cls.stream.readline(): the data connection's reader has the
   same line limit; list_mode = the LIST fallback is in use for this directory *)
Definition parse_data_line (dec : list Z -> option text) (ls_date win_date : text -> result text)
           (limit : Z) (list_mode : bool) (b : list Z) : result (text * dict) :=
  _ <- guard (negb (over_limit limit b)) ValueError ;;
  if list_mode then parse_list_line dec ls_date win_date b
  else parse_mlsx_line dec b.

Definition parse_oline (dec : list Z -> option text) (limit : Z) (list_mode : bool) (l : oline)
  : result (text * dict) :=
  let '(b, o1, o2) := l in
  parse_data_line dec (fun _ => o1) (fun _ => o2) limit list_mode b.

(* ---- the dispatcher's reaction to what parse_command (a task) produced ----
   The `except` clauses around `task.result()` and around the loop, flattened in the order in
   which Python tries them; parametric, instantiated from Gen/Dispatch.v in Props/C19.v. *)
Inductive handler_class : Type := HPathIOError | HCancelledError | HException | HBaseException.
Inductive reaction : Type :=
| RContinue451        (* queue 451, keep serving *)
| RContinue426        (* a cancelled transfer task: queue 426 + 226, keep serving *)
| RReraise            (* leaves the dispatcher coroutine (after `finally`) *)
| REndSession.        (* logged; falls into `finally`: this session ends, nothing propagates *)

Definition isinstance (e : exc) (h : handler_class) : bool :=
  match h, e with
  | HBaseException, _ => true
  | HException, CancelledError => false
  | HException, _ => true
  | HCancelledError, CancelledError => true
  | HPathIOError, PathIOError => true
  | _, _ => false
  end.

Definition ladder := list (handler_class * reaction).
Fixpoint react (lad : ladder) (e : exc) : reaction :=
  match lad with
  | [] => RReraise
  | (h, a) :: r => if isinstance e h then a else react r e
  end.

(* a server = sessions by id; what one delivery of peer bytes to session `sid` does *)
Section Server.
  Variable S : Type.                                       (* per-session record, abstract *)
  Variable handle : S -> text -> text -> option S.         (* a command's effect on ITS session; None = it ends *)
  Variable lad : ladder.
  Variable dec : list Z -> option text.
  Variable limit : Z.

  Definition sessions := list (Z * S).

  Fixpoint remove_session (sid : Z) (srv : sessions) : sessions :=
    match srv with
    | [] => []
    | (i, s) :: r => if i =? sid then remove_session sid r else (i, s) :: remove_session sid r
    end.
  Fixpoint update_session (sid : Z) (f : S -> option S) (srv : sessions) : sessions :=
    match srv with
    | [] => []
    | (i, s) :: r =>
        if i =? sid then match f s with
                         | Some s' => (i, s') :: update_session sid f r
                         | None => update_session sid f r
                         end
        else (i, s) :: update_session sid f r
    end.
  Fixpoint find_session (sid : Z) (srv : sessions) : option S :=
    match srv with
    | [] => None
    | (i, s) :: r => if i =? sid then Some s else find_session sid r
    end.

  Inductive delivery : Type :=
  | Served (srv : sessions)              (* the dispatcher loop goes on (or ended this session) *)
  | Escaped (e : exc) (srv : sessions).  (* an exception left the dispatcher task; `finally` ran *)

  Definition deliver (srv : sessions) (sid : Z) (ls : list (list Z)) : delivery :=
    match server_parse_command dec limit ls with
    | CmdOk c r => Served (update_session sid (fun s => handle s c r) srv)
    | CmdExc e =>
        match react lad e with
        | RContinue451 | RContinue426 => Served srv
        | REndSession => Served (remove_session sid srv)
        | RReraise => Escaped e (remove_session sid srv)
        end
    end.
End Server.

(* ---- harness interface ---- *)
Definition sx_of_exc (e : exc) : sx :=
  sx_err (match e with
          | ValueError => 1 | KeyError => 2 | IndexError => 3 | UnicodeDecodeError => 4
          | StatusCodeError => 5 | ConnectionResetError => 6 | AttributeError => 7
          | TypeError => 8 | OverflowError => 9 | TimeoutError => 10
          | PathIOError => 11 | CancelledError => 12
          end).
Definition exc_of_Z (z : Z) : exc :=
  match z with
  | 1 => ValueError | 2 => KeyError | 3 => IndexError | 4 => UnicodeDecodeError
  | 5 => StatusCodeError | 6 => ConnectionResetError | 7 => AttributeError
  | 8 => TypeError | 9 => OverflowError | 10 => TimeoutError | 11 => PathIOError
  | _ => CancelledError
  end.

Definition sx_of_result {A} (f : A -> sx) (r : result A) : sx :=
  match r with Ok a => sx_ok (f a) | Exc e => sx_of_exc e end.

(* oracle outcome as sent by the harness: (0 text) = Ok, (-1 n) = Exc *)
Definition oracle_of_sx (s : sx) : result text :=
  if z_of_sx (nth_sx 0 s) =? 0 then Ok (text_of_sx (nth_sx 1 s))
  else Exc (exc_of_Z (z_of_sx (nth_sx 1 s))).

Definition sx_of_dict (d : dict) : sx :=
  L (map (fun kv => L [sx_of_text (fst kv); sx_of_text (snd kv)]) d).
Definition sx_of_entry (v : text * dict) : sx := L [sx_of_text (fst v); sx_of_dict (snd v)].

Definition sx_of_lend (e : lend) : sx :=
  match e with LDone => L [I 0] | LRaised x => sx_of_exc x | LFuel => L [I (-2)] end.

Definition oline_of_sx (s : sx) : oline :=
  (text_of_sx (nth_sx 0 s), oracle_of_sx (nth_sx 1 s), oracle_of_sx (nth_sx 2 s)).

Definition sx_of_rresult (r : rresult) : sx :=
  match r with
  | ROk c i k => L [I 0; sx_of_text c; sx_of_texts i; sx_of_text (concat k)]
  | RExc e k => L [I (-1); sx_of_exc e; sx_of_text (concat k)]
  end.

(* the ladder as written in server.py today (used by the harness stream only;
   Props/C19.v takes it from Gen/Dispatch.v) *)
Definition ladder_as_read : ladder :=
  [(HPathIOError, RContinue451); (HCancelledError, RContinue426); (HCancelledError, RReraise);
   (HException, REndSession)].

Definition run_parsers (fn : Z) (a : sx) : sx :=
  let enc := z_of_sx (nth_sx 0 a) in
  let dec := decode_with enc in
  match fn with
  | 0 => sx_of_result I (parse_unix_mode (text_of_sx (nth_sx 0 a)))
  | 1 => (* probe: the arguments of the two date oracles, when reached *)
      let b := text_of_sx (nth_sx 1 a) in
      L [sx_of_result (fun v => sx_of_text (strip (firstn 12 (snd v)))) (unix_prefix dec b);
         sx_of_result (fun v => sx_of_text (fst v)) (win_prefix dec b)]
  | 2 => sx_of_result sx_of_entry
           (parse_list_line_unix dec (fun _ => oracle_of_sx (nth_sx 2 a)) (text_of_sx (nth_sx 1 a)))
  | 3 => sx_of_result sx_of_entry
           (parse_list_line_windows dec (fun _ => oracle_of_sx (nth_sx 2 a)) (text_of_sx (nth_sx 1 a)))
  | 4 => sx_of_result sx_of_entry
           (parse_list_line dec (fun _ => oracle_of_sx (nth_sx 2 a))
                            (fun _ => oracle_of_sx (nth_sx 3 a)) (text_of_sx (nth_sx 1 a)))
  | 5 => sx_of_result sx_of_entry (parse_mlsx_line dec (text_of_sx (nth_sx 1 a)))
  | 6 => sx_of_result (fun v => L [sx_of_text (fst v); sx_of_text (str_of_Z (snd v))])
                      (parse_pasv_response (text_of_sx (nth_sx 0 a)))
  | 7 => sx_of_result (fun z => sx_of_text (str_of_Z z)) (parse_epsv_response (text_of_sx (nth_sx 0 a)))
  | 8 => sx_of_text (parse_directory_response (text_of_sx (nth_sx 0 a)))
  | 9 => (* parse_response: enc, limit, stream bytes *)
      sx_of_rresult (reply_parse dec (z_of_sx (nth_sx 1 a)) (split_lines (text_of_sx (nth_sx 2 a))))
  | 10 => (* lister: enc, limit, recursive, path, script = ((list_mode (oline ...)) ...) *)
      let sc := map (fun e => (bool_of_sx (nth_sx 0 e), map oline_of_sx (list_of_sx (nth_sx 1 e))))
                    (list_of_sx (nth_sx 4 a)) in
      let r := run_lister oline (parse_oline dec (z_of_sx (nth_sx 1 a)))
                          (bool_of_sx (nth_sx 2 a)) (text_of_sx (nth_sx 3 a)) sc in
      L [sx_of_lend (ending r);
         L (map (fun e => L [sx_of_text (e_path e); sx_of_dict (e_info e)]) (yields r));
         sx_of_texts (requests r)]
  | 11 => sx_of_result sx_of_dict (stat_mlst (texts_of_sx (nth_sx 0 a)))
  | 12 => (* server: enc, limit, stream bytes -> outcome and the dispatcher's reaction *)
      match server_parse_command dec (z_of_sx (nth_sx 1 a)) (split_lines (text_of_sx (nth_sx 2 a))) with
      | CmdOk c r => L [I 0; sx_of_text c; sx_of_text r]
      | CmdExc e => L [I (-1); sx_of_exc e;
                       I (match react ladder_as_read e with
                          | RContinue451 | RContinue426 => 0 | RReraise => 1 | REndSession => 2 end)]
      end
  | 13 => sx_of_option (fun z => sx_of_text (str_of_Z z)) (py_int (text_of_sx (nth_sx 0 a)))
  | 14 => sx_of_text (posix_norm (text_of_sx (nth_sx 0 a)))
  | 15 => sx_of_text (posix_div (text_of_sx (nth_sx 0 a)) (text_of_sx (nth_sx 1 a)))
  | 16 => sx_of_option sx_of_text (decode_with enc (text_of_sx (nth_sx 1 a)))
  | _ => sx_err 99
  end.
