(* LoginRace: the login handlers around their SUSPENSION POINTS (C03, finding F20).

   pass_() awaits user_manager.authenticate(), user() awaits user_manager.get_user().  With the shipped
   MemoryUserManager these coroutines never suspend, so each handler is atomic (Model/Session.v's [body]).
   With a user manager that really suspends, the dispatcher -- which starts the handler of the next
   pipelined command while the previous one is suspended -- can run another handler AT the await.
   This file splits the TRANSLATED programs of pass_ / user (Gen/Handlers.v, language Lib/HandlerFacts.v,
   interpreter Model/HandlerProg.v) at those awaits and lets an arbitrary world transformer run there.
   No proofs here. *)
From Coq Require Import ZArith List Bool String.
From Verif Require Import Lib.Sx Lib.PyStr Lib.Facts Lib.HandlerFacts Model.Session Model.HandlerProg.
Import ListNotations.
Open Scope list_scope.
Open Scope string_scope.

(* ---- pass_: if logged.done(): 503  elif await authenticate(connection.user, rest): logged = True; 230  else: 530 *)
Record pass_parts := {
  pp_user : hexpr; pp_pw : hexpr;
  pp_then : list hstmt; pp_else : list hstmt; pp_rest : list hstmt
}.

Definition split_pass (p : hprog) : option pass_parts :=
  match hp_body p with
  | [HIf (CDone a) _ [HIf (CAuth u pw) t e]; r1; r2] =>
      if String.eqb a "logged"
      then Some {| pp_user := u; pp_pw := pw; pp_then := t; pp_else := e; pp_rest := [r1; r2] |}
      else None
  | _ => None
  end.

(* up to the await: None = answered without suspending (already logged in) or raised;
   Some ok = the verdict authenticate() delivers when it resumes (computed from the user of THIS moment) *)
Definition pass_begin (users : list user) (pp : pass_parts) (arg : text) (w : world) : option bool :=
  if s_logged (w_s w) then None
  else match cond users arg [] (CAuth (pp_user pp) (pp_pw pp)) (init_state w) with
       | Val (ok, _) => Some ok
       | _ => None
       end.

(* from the await on, in the world of the moment authenticate() returns *)
Definition pass_resume (users : list user) (self : string -> text -> dataact -> bool -> world -> result)
           (pp : pass_parts) (arg : text) (ok : bool) (w1 : world) : option result :=
  match exec_block users self arg DNone [] ((if ok then pp_then pp else pp_else pp) ++ pp_rest pp) (init_state w1) with
  | Done r => Some r
  | _ => None
  end.

Definition suspended_pass (users : list user) (self : string -> text -> dataact -> bool -> world -> result)
           (p : hprog) (arg : text) (between : world -> world) (w0 : world) : option result :=
  match split_pass p with
  | None => None
  | Some pp =>
      match pass_begin users pp arg w0 with
      | None => None
      | Some ok => pass_resume users self pp arg ok (between w0)
      end
  end.

(* ---- user: <notify_logout; del logged / rename_from / user>  AWAIT get_user(rest)  <set logged / user, cwd, reply> *)
Fixpoint split_user (l : list hstmt) : option (list hstmt * list hstmt) :=
  match l with
  | [] => None
  | HGetUser a b c e :: r => Some ([], HGetUser a b c e :: r)
  | x :: r => match split_user r with Some (pre, post) => Some (x :: pre, post) | None => None end
  end.

Definition suspended_user (users : list user) (self : string -> text -> dataact -> bool -> world -> result)
           (p : hprog) (arg : text) (between : world -> world) (w0 : world) : option result :=
  match split_user (hp_body p) with
  | None => None
  | Some (pre, post) =>
      match exec_block users self arg DNone [] pre (init_state w0) with
      | Next st =>
          match exec_block users self arg DNone [] post (with_w st (between (st_w st))) with
          | Done r => Some r
          | _ => None
          end
      | _ => None
      end
  end.

(* the other handler that runs at the suspension point: a whole USER command *)
Definition user_cmd (users : list user) (login : text) (w : world) : world :=
  fst (fst (body users (fun _ _ _ _ w' => (w', mk_out [], true)) "user" login DNone false w)).
