(* C13: one wake-up of the dispatcher loop.  `asyncio.wait(pending | extra_workers, FIRST_COMPLETED)` returns
   EVERY task of the session that is done at that moment: a worker that raised, a command handler that
   returned or raised, the parse_command task with the next command line - any number of them, in any order.
   What the dispatcher does with that set is modelled here; whether the `try` around `task.result()` stands
   INSIDE the loop over the done tasks (one try per task) or around the collection of all results is the
   parameter [per_task] (regenerated from the source: Gen.Faultsites.dispatcher_try_per_task).  No proofs here. *)
From Coq Require Import ZArith List Bool String Arith.
From Verif Require Import Lib.Sx Lib.Facts Model.Session Model.Faults.
Import ListNotations.
Open Scope list_scope.

(* how one finished task of the session ended *)
Inductive outcome :=
| ORaise (pio : bool)      (* it raised; pio = the exception is a PathIOError *)
| OBool (keep : bool)      (* a command handler / worker returned this *)
| OLine (known : bool).    (* parse_command returned a command line; known = the verb is in the table *)

Record rstate := {
  r_codes : list text;     (* replies queued by the dispatcher itself in this wake-up *)
  r_spawned : nat;         (* handler tasks created (command lines that were dispatched) *)
  r_reparse : nat;         (* parse_command tasks re-created *)
  r_alive : bool;          (* the dispatcher is still in its loop *)
}.

Definition r0 : rstate := {| r_codes := []; r_spawned := 0; r_reparse := 0; r_alive := true |}.
Definition r_reply (st : rstate) (cs : list text) : rstate :=
  {| r_codes := r_codes st ++ cs; r_spawned := r_spawned st; r_reparse := r_reparse st; r_alive := r_alive st |}.
Definition r_dead (st : rstate) : rstate :=
  {| r_codes := r_codes st; r_spawned := r_spawned st; r_reparse := r_reparse st; r_alive := false |}.

Section R.
  Variable react : option (list string).      (* the except entry a PathIOError reaches (Faults.react_of) *)

  (* a result that did not raise: the body of the loop below the try *)
  Definition on_result (o : outcome) (st : rstate) : rstate :=
    match o with
    | OBool true => st
    | OBool false => r_dead st
    | OLine known =>
        {| r_codes := if known then r_codes st else r_codes st ++ [code "502"];
           r_spawned := if known then S (r_spawned st) else r_spawned st;
           r_reparse := S (r_reparse st); r_alive := r_alive st |}
    | ORaise _ => st
    end.

  (* the except ladder, for an exception of one task; bool = go on with the next task / the next wake-up *)
  Definition on_exc (pio : bool) (st : rstate) : rstate :=
    match pio, react with
    | true, Some acts =>
        let st1 := r_reply st (responses acts) in
        if mem_s "continue" acts then st1 else r_dead st1
    | _, _ => r_dead st            (* `except Exception` around the loop: logged, the session is closed *)
    end.

  (* `for task in done: try: result = task.result() except ...: continue` *)
  Fixpoint round_per_task (done : list outcome) (st : rstate) : rstate :=
    match done with
    | [] => st
    | o :: r =>
        if negb (r_alive st) then st
        else match o with
             | ORaise pio => round_per_task r (on_exc pio st)
             | _ => round_per_task r (on_result o st)
             end
    end.

  (* `try: results = [task.result() for task in done] except ...: continue`, then `for result in results` *)
  Definition first_raise (done : list outcome) : option bool :=
    match find (fun o => match o with ORaise _ => true | _ => false end) done with
    | Some (ORaise pio) => Some pio
    | _ => None
    end.
  Fixpoint round_results (done : list outcome) (st : rstate) : rstate :=
    match done with
    | [] => st
    | o :: r => if negb (r_alive st) then st else round_results r (on_result o st)
    end.
  Definition round_batch (done : list outcome) (st : rstate) : rstate :=
    match first_raise done with
    | Some pio => on_exc pio st            (* every other result of this wake-up is dropped *)
    | None => round_results done st
    end.

  Definition round (per_task : bool) (done : list outcome) : rstate :=
    if per_task then round_per_task done r0 else round_batch done r0.
End R.

(* ------------------------------------------------------------------ harness interface *)
Definition outcome_of_sx (x : sx) : outcome :=
  match z_of_sx (nth_sx 0 x), bool_of_sx (nth_sx 1 x) with
  | 0%Z, b => ORaise b
  | 1%Z, b => OBool b
  | _, b => OLine b
  end.

(* [done as list of [kind; flag]] -> [codes; spawned; reparsed; alive] *)
Definition run_round (react : option (list string)) (per_task : bool) (a : sx) : sx :=
  let st := round react per_task (map outcome_of_sx (list_of_sx a)) in
  L [ sx_of_texts (r_codes st); I (Z.of_nat (r_spawned st)); I (Z.of_nat (r_reparse st)); sx_of_bool (r_alive st) ].
