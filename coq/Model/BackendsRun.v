(* Harness dispatcher for the C18 models (MemFS, PosixFS, BackendSrv). *)
From Coq Require Import ZArith List Bool.
From Verif Require Import Lib.Sx Model.FsBase Model.MemFS Model.PosixFS Model.BackendSrv Model.FsAgreeDom.
Import ListNotations.
Open Scope Z_scope.

Definition sx_of_steps (l : list (result * node)) : sx :=
  L (map (fun x => L [sx_of_result (fst x); sx_of_node (snd x)]) l).

Definition sx_of_srv_steps (l : list (reply * node)) : sx :=
  L (map (fun x => L [sx_of_reply (fst x); sx_of_node (snd x)]) l).

(* fn 0/1: (tree (op ...))   -> ((result tree) ...)   on MemFS / PosixFS
   fn 2/3: (tree (cmd ...))  -> ((reply tree) ...)    server level over MemFS / PosixFS
   fn 4  : (tree)            -> abstract tree (sorted)
   fn 5  : (tree (op ...))   -> (bool ...)  per operation: inside the API agreement domain api_ok *)
Definition run_backends (fn : Z) (a : sx) : sx :=
  let t := node_of_sx (nth_sx 0 a) in
  match fn with
  | 0 => sx_of_steps (run_ops m_run t (map fsop_of_sx (list_of_sx (nth_sx 1 a))))
  | 1 => sx_of_steps (run_ops p_run t (map fsop_of_sx (list_of_sx (nth_sx 1 a))))
  | 2 => sx_of_srv_steps (srv_run m_run (None, t) (map cmd_of_sx (list_of_sx (nth_sx 1 a))))
  | 3 => sx_of_srv_steps (srv_run p_run (None, t) (map cmd_of_sx (list_of_sx (nth_sx 1 a))))
  | 4 => sx_of_atree (abs t)
  | 5 => L (map sx_of_bool (api_ok_trace t (map fsop_of_sx (list_of_sx (nth_sx 1 a)))))
  | _ => sx_err 99
  end.
