(* TransferTimed: the data path of Model/TransferBytes.v with TIME made explicit (C01).

   What throttling, latency, slow disks and a stalled network can change is WHEN things happen:
     common.py  ThrottleStreamIO.read:   await self.wait("read"); start = _now();
                                         data = await super().read(count); self.append("read", data, start)
                ThrottleStreamIO.write:  await self.wait("write"); ...; await super().write(data); self.append(..)
   `wait` sleeps for a duration computed from the throttle's state, `append` updates that state
   with len(data) and a time stamp; neither touches `data`.  Time then feeds back into the bytes
   through exactly one door: a later read finds more segments already buffered (and returns a
   bigger / differently cut block).  The model therefore carries
     - a clock (Q), advanced by waits, by blocking reads and by the loop body's own work;
     - a `timing`: ANY state type with ANY wait / append / work functions (the real Throttle with
       any limit, several throttles in series, a disk that is slow on Tuesdays, ...);
     - a timed network: every segment has an arrival instant (ANY instants: latency, jitter,
       minutes of silence); segments are delivered in order.
   The theorems (Proofs/TransferTimed.v) quantify over all of them and show that none enters
   the byte function.  No proofs here. *)
From Coq Require Import ZArith QArith Bool Arith String List.
From Verif Require Import Lib.Sx Lib.Facts Lib.XferFacts Model.Bytes Model.TransferBytes.
Import ListNotations.
Open Scope list_scope.
Open Scope nat_scope.

Definition qmax (a b : Q) : Q := if Qle_bool a b then b else a.

Record timing (T : Type) : Type := mkTiming {
  tm_wait : T -> Q -> Q;            (* the instant `await self.wait(name)` returns, given the state and now *)
  tm_append : T -> nat -> Q -> T;   (* self.append(name, data, start): sees len(data) and a time stamp only *)
  tm_work : T -> nat -> Q -> Q      (* the instant the loop body is done with a block of that size *)
}.
Arguments tm_wait {T}.
Arguments tm_append {T}.
Arguments tm_work {T}.

Definition tnet := list (Q * bytes).

(* everything that has arrived by instant t (in order: a late segment holds back the later ones) *)
Fixpoint arrive (t : Q) (buf : bytes) (net : tnet) : bytes * tnet :=
  match net with
  | (a, s) :: net' => if Qle_bool a t then arrive t (buf ++ s) net' else (buf, net)
  | [] => (buf, net)
  end.

(* a blocked read: the clock jumps to the arrival of the next segment; EOF when the network is
   exhausted *)
Fixpoint wait_data_t (t : Q) (buf : bytes) (net : tnet) : Q * (bytes * tnet) :=
  match buf, net with
  | [], (a, s) :: net' => wait_data_t (qmax t a) s net'
  | _, _ => (t, (buf, net))
  end.

Record rstate (T : Type) : Type := mkR {
  r_thr : T;
  r_now : Q;
  r_buf : bytes;
  r_net : tnet
}.
Arguments mkR {T}.
Arguments r_thr {T}.
Arguments r_now {T}.
Arguments r_buf {T}.
Arguments r_net {T}.

(* one ThrottleStreamIO.read(block): wait, then StreamReader.read(block) (blocking while nothing
   is buffered), then append.  r = how many of the buffered bytes the read returns (asyncio: all
   it can; the model allows any 1..min(block, buffered)). *)
Definition timed_read {T} (tm : timing T) (block r : nat) (x : rstate T) : (Q * bytes) * rstate T :=
  let t1 := qmax (r_now x) (tm_wait tm (r_thr x) (r_now x)) in
  let '(b1, n1) := arrive t1 (r_buf x) (r_net x) in
  let '(t2, (b2, n2)) := wait_data_t t1 b1 n1 in
  let '(b3, n3) := arrive t2 b2 n2 in
  let n := take_len block r (length b3) in
  let d := firstn n b3 in
  let st' := tm_append tm (r_thr x) (length d) t1 in
  ((t2, d), mkR st' (qmax t2 (tm_work tm st' (length d) t2)) (skipn n b3) n3).

(* successive reads up to and including the first empty one, each with the instant it returned *)
Fixpoint timed_reads {T} (fuel : nat) (tm : timing T) (block : nat) (rs : list nat) (x : rstate T)
  : list (Q * bytes) :=
  match fuel with
  | O => []
  | S f =>
      let r := match rs with [] => block | y :: _ => y end in
      let '((t, d), x') := timed_read tm block r x in
      match d with
      | [] => [(t, [])]
      | _ :: _ => (t, d) :: timed_reads f tm block (tl rs) x'
      end
  end.

Definition net_bytes (net : tnet) : bytes := concat (map snd net).

Definition timed_trace {T} (tm : timing T) (block : nat) (rs : list nat) (st : T) (t0 : Q) (net : tnet)
  : list (Q * bytes) :=
  timed_reads (S (length (net_bytes net))) tm block rs (mkR st t0 [] net).

(* the sender's side: `await stream.write(d)` for each block: wait, queue all of d in order,
   append; the network adds its own delay to every block (lat i = latency of the i-th block) *)
Fixpoint timed_send {T} (tm : timing T) (st : T) (now : Q) (lat : nat -> Q) (i : nat) (blocks : list bytes)
  : tnet :=
  match blocks with
  | [] => []
  | d :: r =>
      let t1 := qmax now (tm_wait tm st now) in
      let st' := tm_append tm st (length d) t1 in
      (t1 + lat i, d)%Q :: timed_send tm st' (qmax t1 (tm_work tm st' (length d) t1)) lat (S i) r
  end.

(* STOR / APPE on the server under a timing, data arriving on a timed network *)
Definition timed_stor {T} (tm : timing T) (table : list string) (vm : mode) (off : nat) (old : bytes)
           (block : nat) (rs : list nat) (st : T) (t0 : Q) (net : tnet) : option bytes :=
  stor_worker table vm off old (map snd (timed_trace tm block rs st t0 net)).

(* RETR end to end: the server reads the backend and sends under its timing, the network delays
   every block, the client reads under its own timing *)
Definition timed_retr {T C} (stm : timing T) (ctm : timing C) (table : list string) (off : nat)
           (content : bytes) (block : nat) (foracle : list nat) (sst : T) (st0 : Q) (lat : nat -> Q)
           (cblock : nat) (crs : list nat) (cst : C) (ct0 : Q) : option bytes :=
  let restart := negb (off =? 0) in
  match select_mode table RB restart with
  | None => None
  | Some m =>
      let h0 := h_open m content in
      let h1 := if restart then h_seek off h0 else h0 in
      let net := timed_send stm sst st0 lat 0 (iter_blocks (file_trace block foracle h1)) in
      Some (client_recv (map snd (timed_trace ctm cblock crs cst ct0 net)))
  end.

(* upload end to end: the client's chunks leave under the client's timing, cross the network
   with any latencies, and are stored under the server's timing *)
Definition timed_upload {T C} (ctm : timing C) (stm : timing T) (table : list string) (vm : mode)
           (off : nat) (old : bytes) (chunks : list bytes) (cst : C) (ct0 : Q) (lat : nat -> Q)
           (block : nat) (rs : list nat) (sst : T) (st0 : Q) : option bytes :=
  timed_stor stm table vm off old block rs sst st0
             (timed_send ctm cst ct0 lat 0 (iter_blocks (chunks ++ [[]]))).

(* ------------------------------------------------------------------------------------------ *)
(* a concrete timing for the harness: scripted delays (state = the delays still to come; the
   i-th wait sleeps the i-th delay; the loop body takes no time) *)
Definition scripted : timing (list Q) :=
  mkTiming (list Q)
           (fun st now => (now + hd 0%Q st)%Q)
           (fun st _ _ => tl st)
           (fun _ _ t => t).

Definition q_of_sx (s : sx) : Q := inject_Z (z_of_sx s).

Definition tnet_of_sx (s : sx) : tnet :=
  map (fun p => (q_of_sx (nth_sx 0 p), bytes_of_sx (nth_sx 1 p))) (list_of_sx s).

Definition sx_of_timed (l : list (Q * bytes)) : sx :=
  L (map (fun p => L [I (Qnum (Qred (fst p))); I (Zpos (Qden (Qred (fst p)))); sx_of_bytes (snd p)]) l).

Definition run_timed (fn : Z) (a : sx) : sx :=
  match fn with
  | 13%Z => (* timed_trace scripted: block rs delays t0 net *)
      sx_of_timed (timed_trace scripted (nat_of_sx (nth_sx 0 a)) (nats_of_sx (nth_sx 1 a))
                               (map q_of_sx (list_of_sx (nth_sx 2 a))) (q_of_sx (nth_sx 3 a))
                               (tnet_of_sx (nth_sx 4 a)))
  | 14%Z => (* timed_send scripted: delays t0 lats blocks -> the timed network *)
      let lats := map q_of_sx (list_of_sx (nth_sx 2 a)) in
      sx_of_timed (timed_send scripted (map q_of_sx (list_of_sx (nth_sx 0 a))) (q_of_sx (nth_sx 1 a))
                              (fun i => nth i lats 0%Q) 0 (byteses_of_sx (nth_sx 3 a)))
  | _ => run_bytes fn a
  end.
