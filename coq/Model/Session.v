(* Sequential reference model of one FTP session of aioftp.Server (C03, C05).
   One command at a time; the peer's data-channel behaviour is part of the event.
   The decorator stacks come from a table parameter (instantiated with the hand-written
   reference table [ref_table] for the executable model; Props compare it with Gen.Dispatch). *)
From Coq Require Import ZArith List Bool String.
From Verif Require Import Lib.Sx Lib.PyStr Lib.Facts.
Import ListNotations.
Open Scope list_scope.
Open Scope Z_scope.

(* ------------------------------------------------------------------ file tree *)
Inductive node : Type :=
| NFile (content : list Z)
| NDir (children : list (text * node)).

Fixpoint assoc_t {A} (k : text) (l : list (text * A)) : option A :=
  match l with
  | [] => None
  | (k', v) :: r => if text_eqb k k' then Some v else assoc_t k r
  end.

Fixpoint replace_t {A} (k : text) (v : A) (l : list (text * A)) : list (text * A) :=
  match l with
  | [] => []
  | (k', v') :: r => if text_eqb k k' then (k', v) :: r else (k', v') :: replace_t k v r
  end.

Fixpoint remove_t {A} (k : text) (l : list (text * A)) : list (text * A) :=
  match l with
  | [] => []
  | (k', v') :: r => if text_eqb k k' then r else (k', v') :: remove_t k r
  end.

Fixpoint lookup (p : list text) (n : node) : option node :=
  match p with
  | [] => Some n
  | x :: r =>
      match n with
      | NDir ch => match assoc_t x ch with Some c => lookup r c | None => None end
      | NFile _ => None
      end
  end.

Definition exists_ (p : list text) (n : node) : bool :=
  match lookup p n with Some _ => true | None => false end.
Definition is_dir (p : list text) (n : node) : bool :=
  match lookup p n with Some (NDir _) => true | _ => false end.
Definition is_file (p : list text) (n : node) : bool :=
  match lookup p n with Some (NFile _) => true | _ => false end.

(* apply f to the node at path p (which must exist) *)
Fixpoint modify (p : list text) (f : node -> option node) (n : node) : option node :=
  match p with
  | [] => f n
  | x :: r =>
      match n with
      | NDir ch =>
          match assoc_t x ch with
          | Some c => match modify r f c with
                      | Some c' => Some (NDir (replace_t x c' ch))
                      | None => None
                      end
          | None => None
          end
      | NFile _ => None
      end
  end.

(* mkdir(parents=True): create every missing component; fails through a file *)
Fixpoint mkdir_p (p : list text) (n : node) : option node :=
  match p with
  | [] => Some n
  | x :: r =>
      match n with
      | NDir ch =>
          match assoc_t x ch with
          | Some c => match mkdir_p r c with
                      | Some c' => Some (NDir (replace_t x c' ch))
                      | None => None
                      end
          | None => match mkdir_p r (NDir []) with
                    | Some c' => Some (NDir (ch ++ [(x, c')]))
                    | None => None
                    end
          end
      | NFile _ => None
      end
  end.

Definition split_path (p : list text) : option (list text * text) :=
  match rev p with
  | [] => None
  | x :: rp => Some (rev rp, x)
  end.

Definition rmdir (p : list text) (n : node) : option node :=
  match split_path p with
  | None => None
  | Some (par, x) =>
      modify par (fun d => match d with
                           | NDir ch => match assoc_t x ch with
                                        | Some (NDir []) => Some (NDir (remove_t x ch))
                                        | _ => None
                                        end
                           | NFile _ => None
                           end) n
  end.

Definition unlink (p : list text) (n : node) : option node :=
  match split_path p with
  | None => None
  | Some (par, x) =>
      modify par (fun d => match d with
                           | NDir ch => match assoc_t x ch with
                                        | Some (NFile _) => Some (NDir (remove_t x ch))
                                        | _ => None
                                        end
                           | NFile _ => None
                           end) n
  end.

Fixpoint is_prefix (a b : list text) : bool :=
  match a, b with
  | [], _ => true
  | x :: a', y :: b' => text_eqb x y && is_prefix a' b'
  | _ :: _, [] => false
  end.

(* POSIX rename to a destination that does not exist *)
Definition rename (src dst : list text) (n : node) : option node :=
  match lookup src n, split_path src, split_path dst with
  | Some moved, Some (spar, sx), Some (dpar, dx) =>
      if is_prefix src dst then None                      (* into its own subtree / onto itself *)
      else if negb (is_dir dpar n) then None
      else
        match modify spar (fun d => match d with
                                    | NDir ch => Some (NDir (remove_t sx ch))
                                    | NFile _ => None end) n with
        | None => None
        | Some n1 =>
            modify dpar (fun d => match d with
                                  | NDir ch => Some (NDir (ch ++ [(dx, moved)]))
                                  | NFile _ => None end) n1
        end
  | _, _, _ => None
  end.

(* bytes *)
Fixpoint zeros (n : nat) : list Z := match n with O => [] | S k => 0 :: zeros k end.

Definition write_at (off : nat) (data old : list Z) : list Z :=
  let pre := firstn off old in
  let pad := zeros (off - List.length old) in
  pre ++ pad ++ data ++ skipn (off + List.length data) old.

Inductive smode := MW | MA.   (* wb / ab as selected by STOR / APPE *)

(* what the stor worker does to the tree; None = backend error (451) *)
Definition store (p : list text) (m : smode) (off : Z) (payload : list Z) (n : node) : option node :=
  match split_path p with
  | None => None                                           (* the root itself: a directory *)
  | Some (par, x) =>
      modify par (fun d =>
        match d with
        | NFile _ => None
        | NDir ch =>
            match assoc_t x ch with
            | Some (NDir _) => None
            | Some (NFile old) =>
                (* seek(off) alone writes nothing: zero-fill happens only when something is written *)
                let new := if 0 <? off then
                             match payload with [] => old | _ => write_at (Z.to_nat off) payload old end
                           else match m with MW => payload | MA => old ++ payload end in
                Some (NDir (replace_t x (NFile new) ch))
            | None =>
                if 0 <? off then None                      (* r+b on a missing file *)
                else Some (NDir (ch ++ [(x, NFile payload)]))
            end
        end) n
  end.

(* ------------------------------------------------------------------ paths *)
Definition SLASH : Z := 47.
Definition DOT : Z := 46.

Definition is_absolute (s : text) : bool := match s with c :: _ => c =? SLASH | [] => false end.

Fixpoint fold_parts (acc_rev : list text) (segs : list text) : list text :=
  match segs with
  | [] => rev acc_rev
  | s :: r =>
      if text_eqb s [] || text_eqb s [DOT] then fold_parts acc_rev r
      else if text_eqb s [DOT; DOT] then fold_parts (tl acc_rev) r
      else fold_parts (s :: acc_rev) r
  end.

(* Server.get_paths on the virtual side: normalised absolute parts *)
Definition resolve (cwd : list text) (arg : text) : list text :=
  let segs := split_on SLASH arg in
  if is_absolute arg then fold_parts [] segs else fold_parts (rev cwd) segs.

Definition path_str (p : list text) : text :=
  match p with
  | [] => [SLASH]
  | _ => flat_map (fun x => SLASH :: x) p
  end.

(* ------------------------------------------------------------------ users, permissions *)
Record perm := { pm_path : list text; pm_r : bool; pm_w : bool }.
Record user := {
  u_login : option text;
  u_password : option text;
  u_home : list text;
  u_perms : list perm;
}.

Fixpoint nearest (best : option perm) (ps : list perm) (p : list text) : option perm :=
  match ps with
  | [] => best
  | q :: r =>
      if is_prefix (pm_path q) p then
        match best with
        | Some b => if (List.length (pm_path b) <? List.length (pm_path q))%nat
                    then nearest (Some q) r p else nearest best r p
        | None => nearest (Some q) r p
        end
      else nearest best r p
  end.

Definition perm_of (u : user) (p : list text) : perm :=
  match nearest None (u_perms u) p with
  | Some q => q
  | None => {| pm_path := []; pm_r := true; pm_w := true |}
  end.

Definition opt_text_eqb (a b : option text) : bool :=
  match a, b with
  | Some x, Some y => text_eqb x y
  | None, None => true
  | _, _ => false
  end.

(* MemoryUserManager.get_user: exact login wins (first one), else the first anonymous *)
Fixpoint find_user (us : list user) (i : nat) (login : text) (anon : option nat) : option nat :=
  match us with
  | [] => anon
  | u :: r =>
      match u_login u with
      | None => find_user r (S i) login (match anon with None => Some i | _ => anon end)
      | Some l => if text_eqb l login then Some i else find_user r (S i) login anon
      end
  end.

(* ------------------------------------------------------------------ session *)
Record sess := {
  s_user : option nat;
  s_logged : bool;
  s_cwd : list text;
  s_rnfr : option (list text);
  s_rest : Z;
  s_passive : bool;
  s_data : bool;
  s_ended : bool;
}.

Definition init_sess : sess :=
  {| s_user := None; s_logged := false; s_cwd := []; s_rnfr := None; s_rest := 0;
     s_passive := false; s_data := false; s_ended := false |}.

Record world := { w_s : sess; w_fs : node; w_log : list (string * list text) (* ghost: backend calls *) }.

Inductive dataact :=
| DNone                      (* the peer does nothing on the data channel *)
| DSend (payload : list Z).  (* the peer sends this and closes (STOR/APPE); ignored by other verbs *)

Record event := { e_verb : text; e_arg : text; e_data : dataact }.

(* pseudo-verb: the peer connects to the passive listener *)
Definition V_DATACONN : text := [33].  (* "!" *)

Record out := {
  o_codes : list text;                       (* reply codes in order *)
  o_info : text;                             (* text of a 257 PWD reply *)
  o_bytes : option (list Z);                 (* bytes sent on the data channel (RETR) *)
  o_listing : option (list (text * bool * Z)) (* LIST / MLSD: name, is_dir, size *)
}.

Definition mk_out (codes : list text) : out :=
  {| o_codes := codes; o_info := []; o_bytes := None; o_listing := None |}.

Definition t_of (s : string) : text :=
  map (fun a => Z.of_nat (Ascii.nat_of_ascii a)) (list_ascii_of_string s).

Definition code (s : string) : text := t_of s.

Definition set_sess (w : world) (s : sess) : world := {| w_s := s; w_fs := w_fs w; w_log := w_log w |}.
Definition set_fs (w : world) (f : node) : world := {| w_s := w_s w; w_fs := f; w_log := w_log w |}.
Definition log_call (w : world) (m : string) (p : list text) : world :=
  {| w_s := w_s w; w_fs := w_fs w; w_log := w_log w ++ [(m, p)] |}.

Definition has_field (s : sess) (f : string) : bool :=
  if String.eqb f "logged" then s_logged s
  else if String.eqb f "user" then match s_user s with Some _ => true | None => false end
  else if String.eqb f "passive_server" then s_passive s
  else if String.eqb f "data_connection" then s_data s
  else if String.eqb f "rename_from" then match s_rnfr s with Some _ => true | None => false end
  else false.

Definition result := (world * out * bool)%type.   (* bool: keep the session open *)

Definition reply (w : world) (c : string) : result := (w, mk_out [code c], true).

(* PathConditions: name -> (backend probe, failing value) *)
Definition probe (name : string) (p : list text) (n : node) : option (string * bool * bool) :=
  if String.eqb name "path_must_exists" then Some ("exists"%string, exists_ p n, false)
  else if String.eqb name "path_must_not_exists" then Some ("exists"%string, exists_ p n, true)
  else if String.eqb name "path_must_be_dir" then Some ("is_dir"%string, is_dir p n, false)
  else if String.eqb name "path_must_be_file" then Some ("is_file"%string, is_file p n, false)
  else None.

Fixpoint run_conds (cs : list string) (p : list text) (w : world) : world * bool :=
  match cs with
  | [] => (w, true)
  | c :: r =>
      match probe c p (w_fs w) with
      | Some (m, v, fail) =>
          let w' := log_call w m p in
          if Bool.eqb v fail then (w', false) else run_conds r p w'
      | None => (w, false)
      end
  end.

Section Step.
  Variable users : list user.
  (* handler name -> (decorators, delegate) *)
  Variable table : list (string * (string * list deco * option string)).

  Definition handler_of (name : string) : option (list deco * option string) :=
    match find (fun e => let '(_, (h, _, _)) := e in String.eqb h name) table with
    | Some (_, (_, ds, dl)) => Some (ds, dl)
    | None => None
    end.

  Definition cur_user (s : sess) : option user :=
    match s_user s with Some i => nth_error users i | None => None end.

  (* the decorator stack, outermost first; [body] runs when every guard passes *)
  Fixpoint run_decos (ds : list deco) (arg : text) (w : world) (body : world -> result) : result :=
    match ds with
    | [] => body w
    | DConn fields wait fc :: r =>
        match find (fun f => negb (has_field (w_s w) f)) fields with
        | Some _ => (w, mk_out [t_of fc], true)
        | None => run_decos r arg w body
        end
    | DPathCond cs :: r =>
        let p := resolve (s_cwd (w_s w)) arg in
        let '(w', ok) := run_conds cs p w in
        if ok then run_decos r arg w' body else (w', mk_out [code "550"], true)
    | DPathPerm ps :: r =>
        let p := resolve (s_cwd (w_s w)) arg in
        match ps, cur_user (w_s w) with
        | f :: _, Some u =>
            let pm := perm_of u p in
            let allowed := if String.eqb f "readable" then pm_r pm else pm_w pm in
            if allowed then run_decos r arg w body else (w, mk_out [code "550"], true)
        | [], _ => (w, mk_out [], true)       (* empty decorator: wrapper returns None *)
        | _, None => (w, mk_out [], false)    (* connection.user raises: session ends *)
        end
    | DWorker :: r => run_decos r arg w body
    | DOther _ :: r => run_decos r arg w body
    end.

  (* ---- worker: the data-connection wait, then the transfer; always consumes the data connection *)
  Definition with_data (w : world) (k : world -> world * out) : result :=
    if s_data (w_s w) then
      let s := w_s w in
      let w1 := set_sess w {| s_user := s_user s; s_logged := s_logged s; s_cwd := s_cwd s;
                              s_rnfr := s_rnfr s; s_rest := s_rest s; s_passive := s_passive s;
                              s_data := false; s_ended := s_ended s |} in
      let '(w2, o) := k w1 in
      (w2, {| o_codes := code "150" :: o_codes o; o_info := o_info o; o_bytes := o_bytes o;
              o_listing := o_listing o |}, true)
    else (w, mk_out [code "150"; code "425"], true).

  Definition size_of (n : node) : Z :=
    match n with NFile c => Z.of_nat (List.length c) | NDir _ => 0 end.
  Definition is_dir_node (n : node) : bool := match n with NDir _ => true | NFile _ => false end.

  Definition listing_of (p : list text) (n : node) : list (text * bool * Z) :=
    match lookup p n with
    | Some (NDir ch) => map (fun e => (fst e, is_dir_node (snd e), size_of (snd e))) ch
    | _ => []
    end.

  Definition set_cwd (s : sess) (c : list text) : sess :=
    {| s_user := s_user s; s_logged := s_logged s; s_cwd := c; s_rnfr := s_rnfr s; s_rest := s_rest s;
       s_passive := s_passive s; s_data := s_data s; s_ended := s_ended s |}.
  Definition set_rnfr (s : sess) (r : option (list text)) : sess :=
    {| s_user := s_user s; s_logged := s_logged s; s_cwd := s_cwd s; s_rnfr := r; s_rest := s_rest s;
       s_passive := s_passive s; s_data := s_data s; s_ended := s_ended s |}.
  Definition set_rest (s : sess) (z : Z) : sess :=
    {| s_user := s_user s; s_logged := s_logged s; s_cwd := s_cwd s; s_rnfr := s_rnfr s; s_rest := z;
       s_passive := s_passive s; s_data := s_data s; s_ended := s_ended s |}.
  Definition set_passive (s : sess) : sess :=
    {| s_user := s_user s; s_logged := s_logged s; s_cwd := s_cwd s; s_rnfr := s_rnfr s; s_rest := s_rest s;
       s_passive := true; s_data := false; s_ended := s_ended s |}.
  Definition set_data (s : sess) (b : bool) : sess :=
    {| s_user := s_user s; s_logged := s_logged s; s_cwd := s_cwd s; s_rnfr := s_rnfr s; s_rest := s_rest s;
       s_passive := s_passive s; s_data := b; s_ended := s_ended s |}.
  Definition set_login (s : sess) (u : option nat) (l : bool) (c : list text) : sess :=
    {| s_user := u; s_logged := l; s_cwd := c; s_rnfr := s_rnfr s; s_rest := s_rest s;
       s_passive := s_passive s; s_data := s_data s; s_ended := s_ended s |}.

  (* str.isascii() *)
  Definition str_isascii (s : text) : bool := forallb (fun c => (0 <=? c) && (c <? 128)) s.

  (* int(rest) after rest.isascii() and rest.isdigit() and len(rest) <= 18: None = int() raises (isdigit alone is wider
     than what int() accepts; with the isascii() guard the None case is unreachable, Proofs/SessionShape.rest_never_crashes).
     CPython's int() ALSO refuses digit strings longer than sys.get_int_max_str_digits() (4300 by default, never below
     640): the handler's length bound (18 digits: every offset below 10^18 < 2^63) keeps int() inside what this total
     function describes, on every interpreter configuration (repair of F23) *)
  Definition int_of_digits (s : text) : option Z :=
    fold_left (fun acc c => match acc, decimal_val c with
                            | Some a, Some d => Some (a * 10 + d)
                            | _, _ => None end) s (Some 0).

  (* Server.pwd: every double quote (code point 34) of str(cwd) is doubled *)
  Definition dbl_quote (t : text) : text :=
    flat_map (fun c => if c =? 34 then [34; 34] else [c]) t.

  (* ---- handler bodies by name; [self] runs another handler (delegation) *)
  Definition body (self : string -> text -> dataact -> bool -> world -> result)
             (name : string) (arg : text) (d : dataact) (appe : bool) (w : world) : result :=
    let s := w_s w in
    let p := resolve (s_cwd s) arg in
    if String.eqb name "user" then
      (* notify_logout; del user; del logged; del rename_from; lookup *)
      let s := set_rnfr s None in
      match find_user users 0 arg None with
      | None => (set_sess w (set_login s None false (s_cwd s)), mk_out [code "530"], true)
      | Some i =>
          match nth_error users i with
          | None => (set_sess w (set_login s None false (s_cwd s)), mk_out [code "530"], true)
          | Some u =>
              match u_login u, u_password u with
              | None, _ | _, None =>
                  (set_sess w (set_login s (Some i) true (u_home u)), mk_out [code "230"], true)
              | Some _, Some _ =>
                  (set_sess w (set_login s (Some i) false (u_home u)), mk_out [code "331"], true)
              end
          end
      end
    else if String.eqb name "pass_" then
      if s_logged s then reply w "503"
      else match cur_user s with
           | Some u => if opt_text_eqb (u_password u) (Some arg)
                       then (set_sess w (set_login s (s_user s) true (s_cwd s)), mk_out [code "230"], true)
                       else reply w "530"
           | None => reply w "530"
           end
    else if String.eqb name "quit" then (w, mk_out [code "221"], false)
    else if String.eqb name "pwd" then
      (w, {| o_codes := [code "257"]; o_info := [34] ++ dbl_quote (path_str (s_cwd s)) ++ [34];
             o_bytes := None; o_listing := None |}, true)
    else if String.eqb name "cwd" then (set_sess w (set_cwd s p), mk_out [code "250"], true)
    else if String.eqb name "cdup" then self "cwd"%string (path_str (removelast (s_cwd s))) d false w
    else if String.eqb name "mkd" then
      let w1 := log_call w "mkdir" p in
      match mkdir_p p (w_fs w) with
      | Some f => (set_fs w1 f, mk_out [code "257"], true)
      | None => (w1, mk_out [code "451"], true)
      end
    else if String.eqb name "rmd" then
      let w1 := log_call w "rmdir" p in
      match rmdir p (w_fs w) with
      | Some f => (set_fs w1 f, mk_out [code "250"], true)
      | None => (w1, mk_out [code "451"], true)
      end
    else if String.eqb name "dele" then
      let w1 := log_call w "unlink" p in
      match unlink p (w_fs w) with
      | Some f => (set_fs w1 f, mk_out [code "250"], true)
      | None => (w1, mk_out [code "451"], true)
      end
    else if String.eqb name "rnfr" then (set_sess w (set_rnfr s (Some p)), mk_out [code "350"], true)
    else if String.eqb name "rnto" then
      match s_rnfr s with
      | None => reply w "503"
      | Some src =>
          let w1 := log_call (set_sess w (set_rnfr s None)) "rename" p in
          match rename src p (w_fs w) with
          | Some f => (set_fs w1 f, mk_out [code "250"], true)
          | None => (w1, mk_out [code "451"], true)
          end
      end
    else if String.eqb name "mlst" then (log_call w "stat" p, mk_out [code "250"], true)
    else if String.eqb name "list" then
      with_data w (fun w1 => (log_call w1 "list" p,
         {| o_codes := [code "226"]; o_info := []; o_bytes := None;
            o_listing := Some (listing_of p (w_fs w1)) |}))
    else if String.eqb name "mlsd" then
      with_data w (fun w1 => (log_call w1 "list" p,
         {| o_codes := [code "200"]; o_info := []; o_bytes := None;
            o_listing := Some (listing_of p (w_fs w1)) |}))
    else if String.eqb name "retr" then
      with_data w (fun w1 =>
         match lookup p (w_fs w1) with
         | Some (NFile c) =>
             (log_call w1 "open" p,
              {| o_codes := [code "226"]; o_info := [];
                 o_bytes := Some (skipn (Z.to_nat (s_rest (w_s w1))) c); o_listing := None |})
         | _ => (log_call w1 "open" p, mk_out [code "451"])
         end)
    else if String.eqb name "stor" then
      let w0 := log_call w "is_dir" (removelast p) in
      if is_dir (removelast p) (w_fs w) then
        with_data w0 (fun w1 =>
          let payload := match d with DSend b => b | DNone => [] end in
          let w2 := log_call w1 "open" p in
          match store p (if appe then MA else MW) (s_rest (w_s w1)) payload (w_fs w1) with
          | Some f => (set_fs w2 f, mk_out [code "226"])
          | None => (w2, mk_out [code "451"])
          end)
      else (w0, mk_out [code "550"], true)
    else if String.eqb name "appe" then self "stor"%string arg d true w
    else if String.eqb name "type" then
      if text_eqb arg [73] || text_eqb arg [65] then reply w "200" else reply w "502"
    else if String.eqb name "pbsz" then reply w "200"
    else if String.eqb name "prot" then if text_eqb arg [80] then reply w "200" else reply w "502"
    else if String.eqb name "pasv" then (set_sess w (set_passive s), mk_out [code "227"], true)
    else if String.eqb name "epsv" then
      match arg with
      | [] => (set_sess w (set_passive s), mk_out [code "229"], true)
      | _ => (w, mk_out [code "522"], true)
      end
    else if String.eqb name "abor" then reply w "226"
    else if String.eqb name "rest" then
      if str_isascii arg && str_isdigit arg && (Z.of_nat (List.length arg) <=? 18) then
        match int_of_digits arg with
        | Some z => (set_sess w (set_rest s z), mk_out [code "350"], true)
        | None => (w, mk_out [], false)         (* int() would raise: unreachable for ASCII digits (rest_never_crashes) *)
        end
      else (set_sess w (set_rest s 0), mk_out [code "501"], true)
    else if String.eqb name "syst" then reply w "215"
    else (w, mk_out [], true).                 (* a handler the model does not know: opaque *)

  (* a handler = its decorator stack around its body; delegation depth is bounded by fuel *)
  Fixpoint handler (fuel : nat) (name : string) (arg : text) (d : dataact) (appe : bool) (w : world) : result :=
    match fuel with
    | O => (w, mk_out [], true)
    | S f =>
        match handler_of name with
        | None => (w, mk_out [], true)
        | Some (ds, _) => run_decos ds arg w (body (handler f) name arg d appe)
        end
    end.

  Definition is_transfer (v : text) : bool :=
    text_eqb v (t_of "retr") || text_eqb v (t_of "stor") || text_eqb v (t_of "appe").

  Definition verb_handler (v : text) : option string :=
    match find (fun e => text_eqb (t_of (fst e)) v) table with
    | Some (_, (h, _, _)) => Some h
    | None => None
    end.

  Definition end_sess (s : sess) : sess :=
    {| s_user := s_user s; s_logged := s_logged s; s_cwd := s_cwd s; s_rnfr := s_rnfr s; s_rest := s_rest s;
       s_passive := s_passive s; s_data := s_data s; s_ended := true |}.

  (* one event of the history *)
  Definition step (w : world) (e : event) : world * out :=
    if s_ended (w_s w) then (w, mk_out [])
    else if text_eqb (e_verb e) V_DATACONN then
      (* the peer connects to the passive listener: kept only if there is a listener and no pending connection *)
      if s_passive (w_s w) && negb (s_data (w_s w)) then (set_sess w (set_data (w_s w) true), mk_out [])
      else (w, mk_out [])
    else
      match verb_handler (e_verb e) with
      | None => (w, mk_out [code "502"])
      | Some h =>
          let w0 := if is_transfer (e_verb e) then w else set_sess w (set_rest (w_s w) 0) in
          let '(w1, o, keep) := handler 3 h (e_arg e) (e_data e) false w0 in
          (* the dispatcher hands the pending offset to a transfer command (transfer_offset, read by the worker:
             here the handler simply still sees s_rest) and clears restart_offset after EVERY known verb *)
          let w1 := if is_transfer (e_verb e) then set_sess w1 (set_rest (w_s w1) 0) else w1 in
          ((if keep then w1 else set_sess w1 (end_sess (w_s w1))), o)
      end.

  Fixpoint run (w : world) (es : list event) : world * list (out * sess) :=
    match es with
    | [] => (w, [])
    | e :: r => let '(w1, o) := step w e in
                let '(w2, os) := run w1 r in (w2, (o, w_s w1) :: os)
    end.
End Step.

(* ------------------------------------------------------------------ reference table *)
Local Open Scope string_scope.
Definition L1 := [DConn ["logged"%string] false "503"%string].
Definition ref_table : list (string * (string * list deco * option string)) :=
  let s := fun x : string => x in
  [ (s "abor", (s "abor", L1, None));
    (s "appe", (s "appe", [], Some (s "stor")));
    (s "cdup", (s "cdup", L1, Some (s "cwd")));
    (s "cwd", (s "cwd", (L1 ++ [DPathCond [s "path_must_exists"; s "path_must_be_dir"]; DPathPerm [s "readable"]])%list, None));
    (s "dele", (s "dele", (L1 ++ [DPathCond [s "path_must_exists"; s "path_must_be_file"]; DPathPerm [s "writable"]])%list, None));
    (s "epsv", (s "epsv", L1, None));
    (s "list", (s "list", [DConn [s "logged"; s "passive_server"] false (s "503"); DPathCond [s "path_must_exists"]; DPathPerm [s "readable"]], None));
    (s "mkd", (s "mkd", (L1 ++ [DPathCond [s "path_must_not_exists"]; DPathPerm [s "writable"]])%list, None));
    (s "mlsd", (s "mlsd", [DConn [s "logged"; s "passive_server"] false (s "503"); DPathCond [s "path_must_exists"]; DPathPerm [s "readable"]], None));
    (s "mlst", (s "mlst", (L1 ++ [DPathCond [s "path_must_exists"]; DPathPerm [s "readable"]])%list, None));
    (s "pass", (s "pass_", [DConn [s "user"] false (s "503")], None));
    (s "pasv", (s "pasv", L1, None));
    (s "pbsz", (s "pbsz", L1, None));
    (s "prot", (s "prot", L1, None));
    (s "pwd", (s "pwd", L1, None));
    (s "quit", (s "quit", [], None));
    (s "rest", (s "rest", [], None));
    (s "retr", (s "retr", [DConn [s "logged"; s "passive_server"] false (s "503"); DPathCond [s "path_must_exists"; s "path_must_be_file"]; DPathPerm [s "readable"]], None));
    (s "rmd", (s "rmd", (L1 ++ [DPathCond [s "path_must_exists"; s "path_must_be_dir"]; DPathPerm [s "writable"]])%list, None));
    (s "rnfr", (s "rnfr", (L1 ++ [DPathCond [s "path_must_exists"]; DPathPerm [s "writable"]])%list, None));
    (s "rnto", (s "rnto", [DConn [s "logged"; s "rename_from"] false (s "503"); DPathCond [s "path_must_not_exists"]; DPathPerm [s "writable"]], None));
    (s "stor", (s "stor", [DConn [s "logged"; s "passive_server"] false (s "503"); DPathPerm [s "writable"]], None));
    (s "syst", (s "syst", [], None));
    (s "type", (s "type", L1, None));
    (s "user", (s "user", [], None)) ].

Local Close Scope string_scope.

(* ------------------------------------------------------------------ harness interface *)
Fixpoint node_of_sx_fuel (fuel : nat) (x : sx) : node :=
  match fuel with
  | O => NDir []
  | S f =>
      match x with
      | L [I 0; c] => NFile (text_of_sx c)
      | L [I 1; L ch] => NDir (map (fun e => (text_of_sx (nth_sx 0 e), node_of_sx_fuel f (nth_sx 1 e))) ch)
      | _ => NDir []
      end
  end.

Fixpoint sx_of_node_fuel (fuel : nat) (n : node) : sx :=
  match fuel with
  | O => L []
  | S f =>
      match n with
      | NFile c => L [I 0; sx_of_text c]
      | NDir ch => L [I 1; L (map (fun e => L [sx_of_text (fst e); sx_of_node_fuel f (snd e)]) ch)]
      end
  end.

Definition opt_text_of_sx (x : sx) : option text :=
  match x with L [t] => Some (text_of_sx t) | _ => None end.

Definition perm_of_sx (x : sx) : perm :=
  {| pm_path := texts_of_sx (nth_sx 0 x); pm_r := bool_of_sx (nth_sx 1 x); pm_w := bool_of_sx (nth_sx 2 x) |}.

Definition user_of_sx (x : sx) : user :=
  {| u_login := opt_text_of_sx (nth_sx 0 x); u_password := opt_text_of_sx (nth_sx 1 x);
     u_home := texts_of_sx (nth_sx 2 x); u_perms := map perm_of_sx (list_of_sx (nth_sx 3 x)) |}.

Definition event_of_sx (x : sx) : event :=
  {| e_verb := text_of_sx (nth_sx 0 x); e_arg := text_of_sx (nth_sx 1 x);
     e_data := match nth_sx 2 x with L [b] => DSend (text_of_sx b) | _ => DNone end |}.

Definition sx_of_out (o : out) : sx :=
  L [ sx_of_texts (o_codes o); sx_of_text (o_info o);
      sx_of_option sx_of_text (o_bytes o);
      sx_of_option (fun l => L (map (fun e => L [sx_of_text (fst (fst e)); sx_of_bool (snd (fst e)); I (snd e)]) l))
                   (o_listing o) ].

Definition sx_of_sess (s : sess) : sx :=
  L [ sx_of_option (fun i => I (Z.of_nat i)) (s_user s); sx_of_bool (s_logged s); sx_of_texts (s_cwd s);
      sx_of_option sx_of_texts (s_rnfr s); I (s_rest s); sx_of_bool (s_passive s); sx_of_bool (s_data s);
      sx_of_bool (s_ended s) ].

(* fn 0: run a history: [users; tree; events] -> [final session; final tree; outs; number of backend calls] *)
Definition run_session (fn : Z) (a : sx) : sx :=
  match fn with
  | 0 =>
      let users := map user_of_sx (list_of_sx (nth_sx 0 a)) in
      let fs := node_of_sx_fuel 64 (nth_sx 1 a) in
      let es := map event_of_sx (list_of_sx (nth_sx 2 a)) in
      let w0 := {| w_s := init_sess; w_fs := fs; w_log := [] |} in
      let '(w, os) := run users ref_table w0 es in
      L [ sx_of_sess (w_s w); sx_of_node_fuel 64 (w_fs w);
          L (map (fun x => L [sx_of_out (fst x); sx_of_sess (snd x)]) os);
          I (Z.of_nat (List.length (w_log w))) ]
  | 1 => sx_of_texts (resolve (texts_of_sx (nth_sx 0 a)) (text_of_sx (nth_sx 1 a)))
  | _ => sx_err 99
  end.
