(* Model of the codecs on the way of a file name between the aioftp client and server (C08):
     client  'VERB ' + str(path)                      (client.py:702,726,737,786,794,840,916..1051)
     server  parse_command + PurePosixPath(rest)      (server.py:860-872; Model/Framing.v)
     server  PWD reply  quote + str(cwd) with every quote doubled + quote   (server.py:1116-1121)
     client  parse_directory_response (undoubles)     (client.py:313-341)
     server  build_mlsx_string / client parse_mlsx_line (name = everything after the first space)
     client  stat(): parse_mlsx_line(info[1].lstrip())
     server  build_list_string / client parse_list_line_unix name column (s[12:].strip())
     client  lister: cls.path / name                                                        *)
From Coq Require Import ZArith List Bool.
From Verif Require Import Lib.Sx Lib.PyStr Lib.PosixPath Model.Framing.
Import ListNotations.
Open Scope Z_scope.

Definition QUOTE : Z := 34.
Definition SEMI : Z := 59.
Definition EQS : Z := 61.

(* ---- command path ---- *)
Definition client_cmd (verb : text) (p : ppath) : text := build_command verb (to_str p).

Definition server_arg (line : text) : option (text * ppath) :=
  match parse_command line with
  | Some (v, rest) => Some (v, parse rest)
  | None => None
  end.

(* ---- PWD ---- *)
(* Server.pwd:  directory = str(cwd).replace(<quote>, <quote><quote>);  info = <quote> + directory + <quote>
   (str.replace with a one-character pattern: every occurrence, left to right) *)
Definition dbl (s : text) : text :=
  flat_map (fun c => if c =? QUOTE then [QUOTE; QUOTE] else [c]) s.

Definition pwd_info (cwd : ppath) : text := QUOTE :: dbl (to_str cwd) ++ [QUOTE].

(* the for-loop of parse_directory_response; q = seq_quotes, acc = directory.
     if ch is a quote: seq_quotes += 1
     else: directory += quote * (seq_quotes // 2)
           if seq_quotes % 2 == 1: seq_quotes = 0; break
           seq_quotes = 0; directory += ch
   after the loop (also after the break, where seq_quotes is 0):
     directory += quote * (seq_quotes // 2) *)
Fixpoint pdr (s : text) (start : bool) (q : nat) (acc : text) : text :=
  match s with
  | [] => acc ++ repeat QUOTE (Nat.div2 q)
  | ch :: r =>
      if negb start then pdr r (ch =? QUOTE) q acc
      else if ch =? QUOTE then pdr r true (S q) acc
      else let acc' := acc ++ repeat QUOTE (Nat.div2 q) in
           if Nat.odd q then acc'                                (* break *)
           else pdr r true O (acc' ++ [ch])
  end.

Definition parse_directory_response (s : text) : ppath := parse (pdr s false O []).

(* ---- MLSD / MLST ---- *)
Definition build_mlsx (facts : list (text * text)) (name : text) : text :=
  flat_map (fun kv => fst kv ++ [EQS] ++ snd kv ++ [SEMI]) facts ++ [SP] ++ name.

(* None = ValueError: the line has no space, or nothing after it (no pathname) *)
Definition parse_mlsx_line (s : text) : option (ppath * list (text * text)) :=
  let line := rstrip s in
  let '(facts_found, sep, name) := partition SP line in
  if negb sep || match name with [] => true | _ => false end then None else
  Some (parse name,
        map (fun fact => let '(k, _, v) := partition EQS fact in (lower k, v))
            (split_on SEMI (removelast facts_found))).

(* Client.stat: name, info = self.parse_mlsx_line(info[1].lstrip()); None = IndexError / ValueError *)
Definition stat_parse (info : list text) : option (ppath * list (text * text)) :=
  match info with
  | _ :: l1 :: _ => parse_mlsx_line (lstrip l1)
  | _ => None
  end.

(* ---- LIST ---- *)
(* " ".join((filemode, nlink, "none", "none", size, mtime, path.name)) *)
Definition none4 : text := [110; 111; 110; 101].
Definition build_list (mode nlink size mtime name : text) : text :=
  join [SP] [mode; nlink; none4; none4; size; mtime; name].

(* parse_list_line_unix as far as the name column is concerned: (type char, name column).
   None = ValueError/IndexError (the caller tries the next parser; an empty name column is a
   ValueError).  Not modelled: the
   symlink branch (type 'l': None here), parse_unix_mode and parse_ls_date raising. *)
Definition list_name (line : text) : option (Z * text) :=
  let s := rstrip line in
  match s with
  | [] => None
  | t :: _ =>
    if t =? 108 then None else
    let s1 := lstrip (skipn 10 s) in
    match index_of SP s1 with None => None | Some i1 =>
    if negb (str_isdigit (firstn i1 s1)) then None else
    let s2 := lstrip (skipn i1 s1) in
    match index_of SP s2 with None => None | Some i2 =>
    let s3 := lstrip (skipn i2 s2) in
    match index_of SP s3 with None => None | Some i3 =>
    let s4 := lstrip (skipn i3 s3) in
    match index_of SP s4 with None => None | Some i4 =>
    if negb (str_isdigit (firstn i4 s4)) then None else
    let s5 := lstrip (skipn i4 s4) in
    let n := strip (skipn 12 s5) in
    match n with [] => None | _ => Some (t, n) end
    end end end end
  end.

Definition list_parse (line : text) : option ppath :=
  match list_name line with Some (_, n) => Some (parse n) | None => None end.

(* lister: stat = cls.path / name *)
Definition lister_join (dir : ppath) (name : ppath) : ppath := joinp dir name.

(* ---- harness interface ---- *)
Definition sx_of_facts (l : list (text * text)) : sx :=
  L (map (fun kv => L [sx_of_text (fst kv); sx_of_text (snd kv)]) l).
Definition facts_of_sx (s : sx) : list (text * text) :=
  map (fun x => (text_of_sx (nth_sx 0 x), text_of_sx (nth_sx 1 x))) (list_of_sx s).

Definition run_names (fn : Z) (a : sx) : sx :=
  let s0 := text_of_sx (nth_sx 0 a) in
  let s1 := text_of_sx (nth_sx 1 a) in
  match fn with
  | 50 => sx_of_text (client_cmd s0 (parse s1))
  | 51 => match server_arg s0 with
          | Some (v, p) => sx_ok (L [sx_of_text v; sx_of_ppath p])
          | None => sx_err 2
          end
  | 52 => sx_of_text (pwd_info (parse s0))
  | 53 => sx_of_ppath (parse_directory_response s0)
  | 54 => sx_of_text (build_mlsx (facts_of_sx (nth_sx 0 a)) s1)
  | 55 => match parse_mlsx_line s0 with
          | Some (p, f) => sx_ok (L [sx_of_ppath p; sx_of_facts f])
          | None => sx_err 5
          end
  | 56 => match texts_of_sx (nth_sx 0 a) with
          | _ :: _ :: _ =>
              match stat_parse (texts_of_sx (nth_sx 0 a)) with
              | Some (p, f) => sx_ok (L [sx_of_ppath p; sx_of_facts f])
              | None => sx_err 5
              end
          | _ => sx_err 3
          end
  | 57 => sx_of_text (build_list s0 s1 (text_of_sx (nth_sx 2 a)) (text_of_sx (nth_sx 3 a))
                                 (text_of_sx (nth_sx 4 a)))
  | 58 => match list_name s0 with
          | Some (t, n) => sx_ok (L [I t; sx_of_text n; sx_of_ppath (parse n)])
          | None => sx_err 4
          end
  | 59 => sx_of_ppath (lister_join (parse s0) (parse s1))
  | _ => sx_err 99
  end.
