(* Timeouts: a timed transition system over Q for ONE server session of aioftp (property C16).
   Executable model only -- no proofs here (Proofs/Timeouts.v).

   What is modelled, as written in /repo/src/aioftp (facts regenerated in Gen/Timeouts.v):
   * with_timeout(name) = asyncio.wait_for(coro, getattr(self, name)): deadline = start of the await + T;
     T = None: no deadline; T <= 0: TimeoutError at once (wait_for cancels a not-yet-done awaitable);
   * StreamIO.__init__: read_timeout = timeout if read_timeout is None else read_timeout, likewise write_timeout
     ([EDflt]: only None falls back to `timeout`, 0 is zero seconds).  The shape before the F16 repair,
     `read_timeout or timeout` (Python `or`: a falsy left operand -- None or 0 -- yields the right operand), is
     still expressible ([EOr]) so that a source that goes back to it is translated to a DIFFERENT wiring and the
     obligation `gen_wiring = Some std_wiring` of Props/C16.v becomes false;
   * control stream: read_timeout=idle_timeout, write_timeout=socket_timeout; data streams: timeout=socket_timeout;
   * a new parse_command task (=> a new timed readline) is started each time a command line has been consumed;
     the idle timer of that read starts when the read starts, i.e. after the read-throttle wait [d] of the line;
     likewise each data-stream read/write is timed from the instant it starts, after the throttle wait [d] of the
     stream (ThrottleStreamIO awaits the throttle BEFORE the timed super() call: obligation C16_throttle_outside_timeout);
   * ConnectionConditions(data_connection_made, wait=True): wait_for(shield(..), wait_future_timeout) started when
     the transfer command is dispatched; on TimeoutError: reply fail_code (425) and `return True` (session continues);
   * a TimeoutError in parse_command / a worker's data I/O / response_writer is an exception for the dispatcher:
     `except Exception: log` then the finally block = the session ends at that instant;
   * the greeting is the first reply write, entered at the session's start t0: [run] begins with it, so a control
     write timeout <= 0 ends the session at t0 (wait_for(.., 0) never lets the write start).
   Ties: a deadline that coincides with a peer event fires first; a 425 deadline that coincides with a
   session-ending deadline is resolved in favour of the session end (asyncio's order is a race there). *)
From Coq Require Import QArith ZArith List Bool String.
From Verif Require Import Lib.Sx.
Import ListNotations.
Open Scope Q_scope.

Record config := { idle : option Q; socket : option Q; wait_future : option Q }.

(* ---- timeout expressions, as they are wired in the source ---- *)
Inductive texpr : Type :=
| EIdle | ESocket | EWaitFuture          (* the three attributes of the Server *)
| ENone                                  (* keyword not given: default None *)
| EConst (q : Q)
| EOr (a b : texpr)                      (* Python `a or b`: a falsy a (None, 0) yields b *)
| EDflt (a b : texpr).                   (* Python `b if a is None else a`: only a = None yields b *)

Definition qle (a b : Q) : bool := Qle_bool a b.
Definition qlt (a b : Q) : bool := negb (Qle_bool b a).

Definition truthy (o : option Q) : bool :=
  match o with Some q => negb (Qeq_bool q 0) | None => false end.

Fixpoint eval (c : config) (e : texpr) : option Q :=
  match e with
  | EIdle => idle c
  | ESocket => socket c
  | EWaitFuture => wait_future c
  | ENone => None
  | EConst q => Some q
  | EOr a b => if truthy (eval c a) then eval c a else eval c b
  | EDflt a b => match eval c a with Some q => Some q | None => eval c b end
  end.

(* asyncio.wait_for(aw, T) entered at [start] with aw not done *)
Definition deadline (start : Q) (T : option Q) : option Q :=
  match T with
  | None => None
  | Some q => Some (if qlt 0 q then start + q else start)
  end.

Record wiring := {
  w_ctrl_read : texpr;      (* StreamIO.readline on the control stream (parse_command) *)
  w_ctrl_write : texpr;     (* StreamIO.write on the control stream (response_writer) *)
  w_data_read : texpr;      (* StreamIO.read on a data stream (stor_worker) *)
  w_data_write : texpr;     (* StreamIO.write on a data stream (retr/list/mlsd workers) *)
  w_wait : texpr;           (* ConnectionConditions(.., wait=True) *)
  w_wait_continues : bool   (* its TimeoutError handler: response(fail_code); return True *)
}.

(* the wiring of the current source (Props/C16.v re-derives it from Gen/Timeouts.v on every run) *)
Definition std_wiring : wiring :=
  {| w_ctrl_read := EDflt EIdle ENone;
     w_ctrl_write := EDflt ESocket ENone;
     w_data_read := EDflt ENone ESocket;
     w_data_write := EDflt ENone ESocket;
     w_wait := EWaitFuture;
     w_wait_continues := true |}.

(* ---- state ---- *)
Inductive dir := Up (* STOR/APPE: the server reads the data stream *)
               | Down (* RETR/LIST/MLSD: the server writes it *).
Inductive xfer :=
| XNone
| XWait (d : dir) (c : Q)     (* worker waits for the data connection since the command at c *)
| XMove (d : dir) (p : Q).    (* data I/O pending since p (= time of last progress) *)
Inductive cause := CIdle | CData | CCtrlWrite | CWaitFail
                 | CError (* not a timeout: the reader task failed (undecodable line, peer closed) *).

Record state := {
  armed : Q;                   (* start of the pending control readline *)
  xf : xfer;
  data_ready : bool;           (* a data connection was accepted and not yet taken by a worker *)
  cw : option Q;               (* start of a control-channel write that the peer does not read *)
  r425 : list Q;               (* instants of the 425 replies, latest first *)
  ended : option (Q * cause)
}.

Definition init (t0 : Q) : state :=
  {| armed := t0; xf := XNone; data_ready := false; cw := None; r425 := []; ended := None |}.

Inductive kind := KPlain | KXfer (d : dir).
Inductive event :=
| Line (t d : Q) (k : kind)   (* a complete command line is consumed at t; the next readline starts at t + d
                                 (d = read-throttle wait, 0 without throttle) *)
| DataConnects (t : Q)
| DataProgress (t d : Q)      (* a read or write on the data stream completes at t; the next one starts at t + d
                                 (d = throttle wait of the stream, 0 without throttle: the server's own pacing is
                                 not under the timeout) *)
| DataDone (t : Q)            (* the transfer completes (EOF read / last block written) *)
| CtrlBlocks (t : Q)          (* a reply write entered at t finds the peer not reading (drain blocks) *)
| CtrlUnblocks (t : Q)
| Tick (t : Q).               (* time passes, nothing happens *)
(* "PeerStalls" = end of the event list: see [finish] *)

Definition time_of (e : event) : Q :=
  match e with
  | Line t _ _ | DataConnects t | DataProgress t _ | DataDone t
  | CtrlBlocks t | CtrlUnblocks t | Tick t => t
  end.

(* ---- pending deadlines ---- *)
Definition tag (c : cause) (o : option Q) : option (Q * cause) :=
  match o with Some d => Some (d, c) | None => None end.

Definition idle_dl (w : wiring) (c : config) (s : state) : option (Q * cause) :=
  tag CIdle (deadline (armed s) (eval c (w_ctrl_read w))).

Definition data_texpr (w : wiring) (d : dir) : texpr :=
  match d with Up => w_data_read w | Down => w_data_write w end.

Definition data_dl (w : wiring) (c : config) (s : state) : option (Q * cause) :=
  match xf s with
  | XMove d p => tag CData (deadline p (eval c (data_texpr w d)))
  | _ => None
  end.

Definition cw_dl (w : wiring) (c : config) (s : state) : option (Q * cause) :=
  match cw s with
  | Some t => tag CCtrlWrite (deadline t (eval c (w_ctrl_write w)))
  | None => None
  end.

(* earlier of two, the left one on ties *)
Definition pick (a b : option (Q * cause)) : option (Q * cause) :=
  match a, b with
  | None, _ => b
  | _, None => a
  | Some (x, _), Some (y, _) => if qle x y then a else b
  end.

(* the earliest deadline whose expiry ends the session *)
Definition end_dl (w : wiring) (c : config) (s : state) : option (Q * cause) :=
  pick (pick (idle_dl w c s) (data_dl w c s)) (cw_dl w c s).

Definition wait_dl (w : wiring) (c : config) (s : state) : option Q :=
  match xf s with
  | XWait _ t => deadline t (eval c (w_wait w))
  | _ => None
  end.

Definition reached (lim : option Q) (d : Q) : bool :=
  match lim with None => true | Some t => qle d t end.

Definition strictly_before (d : Q) (e : option (Q * cause)) : bool :=
  match e with None => true | Some (x, _) => qlt d x end.

Definition set_ended (s : state) (e : Q * cause) : state :=
  {| armed := armed s; xf := xf s; data_ready := data_ready s; cw := cw s; r425 := r425 s;
     ended := Some e |}.

Definition set_xf (s : state) (x : xfer) : state :=
  {| armed := armed s; xf := x; data_ready := data_ready s; cw := cw s; r425 := r425 s;
     ended := ended s |}.

Definition reply_425 (s : state) (t : Q) : state :=
  {| armed := armed s; xf := XNone; data_ready := data_ready s; cw := cw s; r425 := t :: r425 s;
     ended := ended s |}.

(* the data-connection wait expires (if it does so up to [lim] and strictly before the session ends) *)
Definition fire_wait (w : wiring) (c : config) (lim : option Q) (s : state) : state :=
  match wait_dl w c s with
  | Some wd =>
      if reached lim wd && strictly_before wd (end_dl w c s)
      then let s1 := reply_425 s wd in
           if w_wait_continues w then s1 else set_ended s1 (wd, CWaitFail)
      else s
  | None => s
  end.

Definition fire_end (w : wiring) (c : config) (lim : option Q) (s : state) : state :=
  match ended s with
  | Some _ => s
  | None =>
      match end_dl w c s with
      | Some (e, k) => if reached lim e then set_ended s (e, k) else s
      | None => s
      end
  end.

(* let time pass up to [lim] (None = for ever): every deadline <= lim fires *)
Definition advance (w : wiring) (c : config) (lim : option Q) (s : state) : state :=
  match ended s with
  | Some _ => s
  | None => fire_end w c lim (fire_wait w c lim s)
  end.

Definition apply_event (s : state) (e : event) : state :=
  match e with
  | Line t d k =>
      let x := match k, xf s with
               | KXfer dr, XNone => if data_ready s then XMove dr t else XWait dr t
               | _, x => x           (* a second transfer while one is running: outside the model *)
               end in
      let ready := match k, xf s with KXfer _, XNone => false | _, _ => data_ready s end in
      {| armed := t + d; xf := x; data_ready := ready; cw := cw s; r425 := r425 s; ended := ended s |}
  | DataConnects t =>
      match xf s with
      | XWait dr _ => set_xf s (XMove dr t)
      | _ => {| armed := armed s; xf := xf s; data_ready := true; cw := cw s; r425 := r425 s;
                ended := ended s |}
      end
  | DataProgress t d =>
      match xf s with XMove dr _ => set_xf s (XMove dr (t + d)) | _ => s end
  | DataDone t =>
      match xf s with XMove _ _ => set_xf s XNone | _ => s end
  | CtrlBlocks t =>
      match cw s with
      | None => {| armed := armed s; xf := xf s; data_ready := data_ready s; cw := Some t;
                   r425 := r425 s; ended := ended s |}
      | Some _ => s
      end
  | CtrlUnblocks t =>
      {| armed := armed s; xf := xf s; data_ready := data_ready s; cw := None; r425 := r425 s;
         ended := ended s |}
  | Tick _ => s
  end.

Definition step (w : wiring) (c : config) (s : state) (e : event) : state :=
  let s' := advance w c (Some (time_of e)) s in
  match ended s' with
  | Some _ => s'
  | None => apply_event s' e
  end.

Definition run_events (w : wiring) (c : config) (s : state) (evs : list event) : state :=
  fold_left (step w c) evs s.

(* the peer stalls: no more events, time runs on *)
Definition finish (w : wiring) (c : config) (s : state) : state := advance w c None s.

(* the greeting: a reply write entered at t0 that the peer lets through at once *)
Definition greeting (t0 : Q) : list event := [CtrlBlocks t0; CtrlUnblocks t0].

Definition start (w : wiring) (c : config) (t0 : Q) : state :=
  run_events w c (init t0) (greeting t0).

Definition run (w : wiring) (c : config) (t0 : Q) (evs : list event) : state :=
  finish w c (run_events w c (start w c t0) evs).

(* the reader task fails at [t] (parse_command raises: a command line that is not valid in the server encoding --
   UnicodeDecodeError -- or the peer closed its control connection -- ConnectionResetError): an exception for the
   dispatcher like a TimeoutError, the session ends at that instant unless a deadline ended it before *)
Definition abort_at (w : wiring) (c : config) (s : state) (t : Q) : state :=
  let s' := step w c s (Tick t) in
  match ended s' with
  | Some _ => s'
  | None => set_ended s' (t, CError)
  end.

Definition run_abort (w : wiring) (c : config) (t0 : Q) (evs : list event) (t : Q) : state :=
  abort_at w c (run_events w c (start w c t0) evs) t.

(* ---- the wiring as a function of the regenerated source facts (strings) ---- *)
Open Scope string_scope.

Fixpoint assoc (k : string) (l : list (string * string)) : option string :=
  match l with
  | [] => None
  | (k', v) :: r => if String.eqb k k' then Some v else assoc k r
  end.

(* an expression text at a call site -> texpr; connection.X goes through the Connection(...) keywords *)
Definition attr_expr (s : string) : option texpr :=
  if String.eqb s "self.idle_timeout" then Some EIdle
  else if String.eqb s "self.socket_timeout" then Some ESocket
  else if String.eqb s "self.wait_future_timeout" then Some EWaitFuture
  else if String.eqb s "None" then Some ENone
  else if String.eqb s "0" then Some (EConst 0)
  else None.

Definition strip_prefix (p s : string) : option string :=
  if String.prefix p s then Some (String.substring (String.length p) (String.length s - String.length p) s)
  else None.

Definition site_expr (conn_kw : list (string * string)) (s : string) : option texpr :=
  match strip_prefix "connection." s with
  | Some a => match assoc a conn_kw with Some v => attr_expr v | None => None end
  | None => attr_expr s
  end.

(* value of keyword parameter [p] of StreamIO.__init__ at a site *)
Definition param_expr (conn_kw defaults kws : list (string * string)) (p : string) : option texpr :=
  match assoc p kws with
  | Some v => site_expr conn_kw v
  | None => match assoc p defaults with Some v => attr_expr v | None => None end
  end.

(* attribute [a] of the stream built at a site: self.a = <P1 with fallback P2>, combined as the source does
   (fact `semantics`: "or" = `P1 or P2`, "is-none" = `P2 if P1 is None else P1`, "name" = plain `P1`) *)
Definition combine (sem : string) (e1 e2 : texpr) : option texpr :=
  if String.eqb sem "or" then Some (EOr e1 e2)
  else if String.eqb sem "is-none" then Some (EDflt e1 e2)
  else if String.eqb sem "name" then Some e1
  else None.

Definition stream_attr (conn_kw defaults : list (string * string))
           (init : list (string * (string * (string * string)))) (kws : list (string * string)) (a : string)
  : option texpr :=
  match (fix find (l : list (string * (string * (string * string)))) :=
           match l with
           | [] => None
           | (k, v) :: r => if String.eqb k a then Some v else find r
           end) init with
  | Some (sem, (p1, p2)) =>
      match param_expr conn_kw defaults kws p1, param_expr conn_kw defaults kws p2 with
      | Some e1, Some e2 => combine sem e1 e2
      | _, _ => None
      end
  | None => None
  end.

Fixpoint timed_attr (m : string) (l : list (string * (string * list string))) : option string :=
  match l with
  | [] => None
  | (k, (a, _)) :: r => if String.eqb k m then Some a else timed_attr m r
  end.

Definition method_timeout conn_kw defaults init timed kws (m : string) : option texpr :=
  match timed_attr m timed with
  | Some a => if String.eqb a "" then Some ENone else stream_attr conn_kw defaults init kws a
  | None => None
  end.

Close Scope string_scope.

(* ---- harness interface ---- *)
Definition q_of_sx (s : sx) : Q :=
  Qmake (z_of_sx (nth_sx 0 s)) (Z.to_pos (z_of_sx (nth_sx 1 s))).

Definition oq_of_sx (s : sx) : option Q :=
  match list_of_sx s with [] => None | _ => Some (q_of_sx s) end.

Definition sx_of_q (q : Q) : sx :=
  let r := Qred q in L [I (Qnum r); I (Zpos (Qden r))].

Definition sx_of_oq (o : option Q) : sx :=
  match o with None => L [] | Some q => sx_of_q q end.

Definition config_of_sx (s : sx) : config :=
  {| idle := oq_of_sx (nth_sx 0 s); socket := oq_of_sx (nth_sx 1 s);
     wait_future := oq_of_sx (nth_sx 2 s) |}.

Definition dir_of_z (z : Z) : dir := if (z =? 1)%Z then Up else Down.

Definition event_of_sx (s : sx) : event :=
  let t := q_of_sx (nth_sx 1 s) in
  match z_of_sx (nth_sx 0 s) with
  | 0%Z => Line t (q_of_sx (nth_sx 2 s))
             (let k := z_of_sx (nth_sx 3 s) in if (k =? 0)%Z then KPlain else KXfer (dir_of_z k))
  | 1%Z => DataConnects t
  | 2%Z => DataProgress t (q_of_sx (nth_sx 2 s))
  | 3%Z => DataDone t
  | 4%Z => CtrlBlocks t
  | 5%Z => CtrlUnblocks t
  | _ => Tick t
  end.

Definition z_of_cause (c : cause) : Z :=
  match c with CIdle => 0 | CData => 1 | CCtrlWrite => 2 | CWaitFail => 3 | CError => 4 end%Z.

Definition sx_of_xfer (x : xfer) : sx :=
  match x with
  | XNone => L [I 0%Z]
  | XWait _ c => L [I 1%Z; sx_of_q c]
  | XMove _ p => L [I 2%Z; sx_of_q p]
  end.

Definition sx_of_state (s : state) : sx :=
  L [ match ended s with None => L [] | Some (e, k) => L [sx_of_q e; I (z_of_cause k)] end;
      L (map sx_of_q (rev (r425 s)));
      sx_of_xfer (xf s);
      sx_of_q (armed s);
      sx_of_bool (data_ready s) ].

Definition run_timeouts (fn : Z) (a : sx) : sx :=
  match fn with
  | 0%Z => (* run: config, t0, events -> final state after the peer stalls *)
      sx_of_state (run std_wiring (config_of_sx (nth_sx 0 a)) (q_of_sx (nth_sx 1 a))
                       (map event_of_sx (list_of_sx (nth_sx 2 a))))
  | 1%Z => (* state right after the last event, before the stall plays out *)
      sx_of_state (let c := config_of_sx (nth_sx 0 a) in
                   run_events std_wiring c (start std_wiring c (q_of_sx (nth_sx 1 a)))
                              (map event_of_sx (list_of_sx (nth_sx 2 a))))
  | 2%Z => (* effective timeouts of the streams for a configuration *)
      let c := config_of_sx (nth_sx 0 a) in
      L [ sx_of_oq (eval c (w_ctrl_read std_wiring)); sx_of_oq (eval c (w_ctrl_write std_wiring));
          sx_of_oq (eval c (w_data_read std_wiring)); sx_of_oq (eval c (w_data_write std_wiring));
          sx_of_oq (eval c (w_wait std_wiring)) ]
  | 4%Z => (* run_abort: config, t0, events, instant at which the reader task fails *)
      sx_of_state (run_abort std_wiring (config_of_sx (nth_sx 0 a)) (q_of_sx (nth_sx 1 a))
                             (map event_of_sx (list_of_sx (nth_sx 2 a))) (q_of_sx (nth_sx 3 a)))
  | 3%Z => (* deadline start T *)
      sx_of_oq (deadline (q_of_sx (nth_sx 0 a)) (oq_of_sx (nth_sx 1 a)))
  | _ => sx_err 99
  end.
