(* C08: the sequential session model (Model/Session.v) driven by received LINES.
   One received line is parsed by Server.parse_command (Model/Framing.v) into the event (verb, rest)
   the dispatcher hands to the handler; [d] is what the peer does on the data channel (not part of
   the line); IConn = the peer connects to the passive listener.  No proofs here. *)
From Coq Require Import ZArith List Bool String.
From Verif Require Import Lib.Sx Lib.PyStr Lib.Facts Model.Framing Model.Session.
Import ListNotations.
Open Scope list_scope.
Open Scope Z_scope.

Definition ev_of_line (line : text) (d : dataact) : option event :=
  match parse_command line with
  | Some (v, rest) => Some {| e_verb := v; e_arg := rest; e_data := d |}
  | None => None
  end.

Definition conn_ev : event := {| e_verb := V_DATACONN; e_arg := []; e_data := DNone |}.

Inductive inp := ILine (l : text) (d : dataact) | IConn.

Section Run.
  Variable users : list user.

  Definition cstep (w : world) (line : text) (d : dataact) : option (world * out) :=
    option_map (step users ref_table w) (ev_of_line line d).

  Definition istep (w : world) (i : inp) : option (world * out) :=
    match i with ILine l d => cstep w l d | IConn => Some (step users ref_table w conn_ev) end.

  Fixpoint irun (w : world) (l : list inp) : option (world * list out) :=
    match l with
    | [] => Some (w, [])
    | i :: r => match istep w i with
                | Some (w1, o) => match irun w1 r with Some (w2, os) => Some (w2, o :: os) | None => None end
                | None => None
                end
    end.
End Run.

(* ---- harness interface ----
   fn 70: [tree; inputs] with inputs = list of [0; line] | [1; line; payload] | [2]  (2 = the peer connects)
   run from a logged-in session of a user without permission entries (everything readable and
   writable: the server's default anonymous user), working directory "/":
   -> [0; [final tree; final cwd; per input: reply codes, 257 text, bytes sent, listing]]  |  error 6 *)
Definition anon_user : user := {| u_login := None; u_password := None; u_home := []; u_perms := [] |}.
Definition anon_world (fs : node) : world :=
  {| w_s := {| s_user := Some 0%nat; s_logged := true; s_cwd := []; s_rnfr := None; s_rest := 0;
               s_passive := false; s_data := false; s_ended := false |};
     w_fs := fs; w_log := [] |}.

Definition inp_of_sx (x : sx) : inp :=
  match nth_sx 0 x with
  | I 0 => ILine (text_of_sx (nth_sx 1 x)) DNone
  | I 1 => ILine (text_of_sx (nth_sx 1 x)) (DSend (text_of_sx (nth_sx 2 x)))
  | _ => IConn
  end.

Definition run_names_session (fn : Z) (a : sx) : sx :=
  match fn with
  | 70 =>
      match irun [anon_user] (anon_world (node_of_sx_fuel 64 (nth_sx 0 a))) (map inp_of_sx (list_of_sx (nth_sx 1 a))) with
      | Some (w, os) =>
          sx_ok (L [sx_of_node_fuel 64 (w_fs w); sx_of_texts (s_cwd (w_s w)); L (map sx_of_out os)])
      | None => sx_err 6
      end
  | _ => sx_err 99
  end.
