(* Closed checks over the facts of Gen/Resolve.v (tools/py2v/gen_resolve.py), parametric in the facts:
     check_get_paths_pure   Server.get_paths reads nothing of the connection but the current user('s base_path) and
                            the working directory, writes nothing, keeps no state elsewhere      (C02)
     check_worker_paths     the transfer workers hand to the backend the real_path their handler resolved when the
                            request was authorised; they do not resolve `rest` again later       (C04)            *)
From Coq Require Import String List Bool Arith.
From Verif Require Import Lib.Facts.
Import ListNotations.
Local Open Scope string_scope.

Definition subset_s (a b : list string) : bool := forallb (fun x => mem_s x b) a.
Definition nil_b {A} (l : list A) : bool := match l with [] => true | _ => false end.

Fixpoint strs_eqb (a b : list string) : bool :=
  match a, b with
  | [], [] => true
  | x :: a', y :: b' => String.eqb x y && strs_eqb a' b'
  | _, _ => false
  end.

Definition check_get_paths_pure (decos params reads writes other free scope : list string) : bool :=
  strs_eqb decos ["staticmethod"]
  && Nat.eqb (List.length params) 2
  && subset_s reads ["current_directory"; "user"; "user.base_path"]
  && nil_b writes && nil_b other
  && subset_s free ["pathlib"; "logger"]
  && nil_b scope.

Definition transfer_workers : list string := ["list_worker"; "mlsd_worker"; "retr_worker"; "stor_worker"].

Definition wp_t : Type := (string * (string * (bool * (bool * list string))))%type.
Definition hr_t : Type := (string * (nat * (bool * (bool * list string))))%type.

(* the worker resolves `rest` when it runs (after the data connection has arrived) instead of using the
   handler's real_path: it binds real_path itself, or calls get_paths *)
Definition late_of (wp : list wp_t) (w : string) : bool :=
  match assoc_s w wp with
  | Some (_, (free, (calls, _))) => negb free || calls
  | None => true
  end.

Definition owner_ok (hr : list hr_t) (o : string) : bool :=
  match assoc_s o hr with
  | Some (n, (good, (before, rebound))) => Nat.eqb n 1 && good && before && nil_b rebound
  | None => false
  end.

Definition check_worker_paths (wp : list wp_t) (hr : list hr_t) : bool :=
  forallb (fun w => match assoc_s w wp with
                    | Some (o, (free, (calls, _))) => free && negb calls && owner_ok hr o
                    | None => false
                    end) transfer_workers.

(* Server.user() drops what the previous login left on the connection: `user`, `logged` and a pending rename
   source are deleted, the working directory is set anew (C02: no path of a previous login survives a re-login) *)
Definition user_drops_rename_source (hs : list handler) : bool :=
  match find_handler "user" hs with
  | Some h => mem_s "rename_from" (h_conn_dels h) && mem_s "user" (h_conn_dels h)
              && mem_s "current_directory" (h_conn_sets h)
  | None => false
  end.

(* the permission decision and the handler's own resolution of `rest` are not separated by anything that can
   suspend: PathPermissions is the INNERMOST decorator of every handler that carries it (PathConditions, which awaits
   the backend, and ConnectionConditions come before it), and the body of every method that calls get_paths starts
   with that call.  (User.get_permissions is a coroutine without a suspension point: Gen/UserMgr-style fact of C10;
   custom users are outside.)  Otherwise a pipelined CWD can run between the check and the use. *)
Definition is_pathperm (d : deco) : bool := match d with DPathPerm _ => true | _ => false end.

Definition perm_innermost (h : handler) : bool :=
  match rev (h_decos h) with
  | [] => true
  | d :: before => is_pathperm d && negb (existsb is_pathperm before)
                   || negb (existsb is_pathperm (d :: before))
  end.

Definition check_check_use_atomic (hs : list handler) (first : list (string * bool)) : bool :=
  forallb perm_innermost hs
  && forallb (fun h => negb (h_get_paths h) || match assoc_s (h_name h) first with Some b => b | None => false end) hs
  && forallb (fun nb => snd nb) first.

(* the PathPermissions wrapper asks the CURRENT user for the entry on every call: the object whose flag it tests is bound
   once, by `await connection.user.get_permissions(virtual_path)`; of the connection it reads nothing but that and
   `response`, stores nothing; the only other uses of `connection` are passing it on to get_paths and to the wrapped
   handler (no per-connection memo of earlier look-ups) *)
Definition check_pathperm_lookup (reads writes other : list string) (direct : bool) : bool :=
  direct
  && subset_s reads ["user.get_permissions"; "user"; "response"]
  && nil_b writes
  && subset_s other ["cls.get_paths(connection, rest)"; "f(cls, connection, rest, *args)"].

(* both ends of a rename are resolved by the command that SUPPLIED them: rnfr resolves its own argument (its body calls
   get_paths) and stores the result in rename_from; rnto hands exactly that stored path and its own real_path to
   path_io.rename -- it does not resolve the RNFR argument again under the working directory of the RNTO *)
Definition is_srename (p : psrc) : bool := match p with SRenameFrom => true | _ => false end.
Definition is_sreal (p : psrc) : bool := match p with SReal => true | _ => false end.

Definition rename_source_resolved_at_rnfr (hs : list handler) : bool :=
  match find_handler "rnfr" hs, find_handler "rnto" hs with
  | Some f, Some t =>
      h_get_paths f && mem_s "rename_from" (h_conn_sets f)
      && match filter (fun c => String.eqb (bc_method c) "rename") (h_backend t) with
         | [c] => match bc_args c with [a; b] => is_srename a && is_sreal b | _ => false end
         | _ => false
         end
  | _, _ => false
  end.
