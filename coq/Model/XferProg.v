(* XferProg: an interpreter for the transfer loops as PROGRAMS (C01).

   tools/py2v/gen_xfer.py translates the body of stor_worker's / retr_worker's `async with` and
   of the client's upload() / download() file branches into the statement language of
   Lib/XferFacts.v (xstmt).  This file gives that language its meaning on the objects of
   Model/Bytes.v and Model/TransferBytes.v:

     await FILE.seek(conn.transfer_offset)     h_seek off
     await FILE.write(ITEM)                    h_write ITEM at the handle's position
     await STREAM.write(ITEM)                  all of ITEM queued, in order, on the connection
     if conn.transfer_offset: ...              body runs iff the handed offset is non-zero
     async for ITEM in STREAM.iter_by_block(n) the blocks before the FIRST empty read of the network
     async for ITEM in FILE.iter_by_block(n)   the blocks before the first empty read of the backend,
                                               FROM THE HANDLE'S POSITION WHEN THE LOOP STARTS

   so the workers of the model are no longer a transcription checked against text: they are the
   denotation of the translated program (Proofs/XferProg.v: prog_stor = stor_worker, ...), and
   the exactness theorems are stated about `xf_*_prog Gen.Xfer.facts` directly.
   Anything unclassified (XOther / XSOther), a write outside a loop, an unknown role or a block
   count other than the expected expression has NO result (None): nothing is claimed.
   No proofs here. *)
From Coq Require Import ZArith Bool Arith String List.
From Verif Require Import Lib.Sx Lib.Facts Lib.XferFacts Model.Bytes Model.TransferBytes.
Import ListNotations.
Open Scope string_scope.
Open Scope list_scope.
Open Scope nat_scope.

Record xenv : Type := mkXE {
  xe_off : nat;                    (* conn.transfer_offset: the offset the dispatcher handed to this transfer command *)
  xe_count : string;               (* the expression that denotes the block size here *)
  xe_block : nat;                  (* its value *)
  xe_stream_reads : list bytes;    (* values of the successive STREAM.read(block) calls *)
  xe_foracle : list nat            (* short-read oracle of the backend *)
}.

Record xst : Type := mkXS {
  xs_file : handle;
  xs_sent : bytes                  (* bytes queued on STREAM so far *)
}.

Definition xsimple_step (env : xenv) (item : option bytes) (s : xsimple) (st : xst) : option xst :=
  match s with
  | XSeek t =>
      if String.eqb t "FILE" then Some (mkXS (h_seek (xe_off env) (xs_file st)) (xs_sent st)) else None
  | XWrite t =>
      match item with
      | None => None
      | Some d =>
          if String.eqb t "FILE" then Some (mkXS (h_write d (xs_file st)) (xs_sent st))
          else if String.eqb t "STREAM" then Some (mkXS (xs_file st) (xs_sent st ++ d))
          else None
      end
  | XSOther _ => None
  end.

Fixpoint xsimples (env : xenv) (item : option bytes) (l : list xsimple) (st : xst) : option xst :=
  match l with
  | [] => Some st
  | s :: r => match xsimple_step env item s st with
              | None => None
              | Some st' => xsimples env item r st'
              end
  end.

(* AsyncStreamIterator: the body runs for every value before the first empty read *)
Fixpoint xloop (env : xenv) (body : list xsimple) (reads : list bytes) (st : xst) : option xst :=
  match reads with
  | [] => Some st
  | d :: r =>
      match d with
      | [] => Some st
      | _ :: _ => match xsimples env (Some d) body st with
                  | None => None
                  | Some st' => xloop env body r st'
                  end
      end
  end.

Definition xstmt_step (env : xenv) (s : xstmt) (st : xst) : option xst :=
  match s with
  | XDo x => xsimples env None [x] st
  | XIfOffset body => if xe_off env =? 0 then Some st else xsimples env None body st
  | XForBlocks src count body =>
      if negb (String.eqb count (xe_count env)) then None
      else if String.eqb src "STREAM" then xloop env body (xe_stream_reads env) st
      else if String.eqb src "FILE" then
        (* a loop that reads the file must not write it *)
        if existsb (fun x => match x with XWrite t => String.eqb t "FILE" | _ => false end) body then None
        else xloop env body (file_trace (xe_block env) (xe_foracle env) (xs_file st)) st
      else None
  | XOther _ => None
  end.

Fixpoint xprog (env : xenv) (p : list xstmt) (st : xst) : option xst :=
  match p with
  | [] => Some st
  | s :: r => match xstmt_step env s st with
              | None => None
              | Some st' => xprog env r st'
              end
  end.

(* ------------------------------------------------------------------------------------------ *)
(* the four places the language is used *)

(* stor_worker: open with the selected mode, run the program against the network's read trace,
   result = file content *)
Definition prog_stor (p : list xstmt) (table : list string) (vm : mode) (off : nat) (old : bytes)
           (reads : list bytes) : option bytes :=
  match select_mode table vm (negb (off =? 0)) with
  | None => None
  | Some m =>
      match xprog (mkXE off "conn.block_size" 1 reads []) p (mkXS (h_open m old) []) with
      | None => None
      | Some st => Some (h_content (xs_file st))
      end
  end.

(* retr_worker: result = bytes queued on the data connection *)
Definition prog_retr (p : list xstmt) (table : list string) (off : nat) (content : bytes)
           (block : nat) (foracle : list nat) : option bytes :=
  match select_mode table RB (negb (off =? 0)) with
  | None => None
  | Some m =>
      match xprog (mkXE off "conn.block_size" block [] foracle) p (mkXS (h_open m content) []) with
      | None => None
      | Some st => Some (xs_sent st)
      end
  end.

(* Client.upload(): local file opened with the translated mode, result = bytes put on the wire *)
Definition prog_upload (mp : string * list xstmt) (local : bytes) (cblock : nat) (coracle : list nat)
  : option bytes :=
  match mode_of_name RB (fst mp) with
  | Some RB =>
      match xprog (mkXE 0 "block_size" cblock [] coracle) (snd mp) (mkXS (h_open RB local) []) with
      | None => None
      | Some st => Some (xs_sent st)
      end
  | _ => None
  end.

(* Client.download(): destination opened with the translated mode (no previous content is
   assumed: whatever was there, "wb" truncates), result = content of the destination *)
Definition prog_download (mp : string * list xstmt) (prev : bytes) (reads : list bytes) : option bytes :=
  match mode_of_name RB (fst mp) with
  | Some m =>
      match xprog (mkXE 0 "block_size" 1 reads []) (snd mp) (mkXS (h_open m prev) []) with
      | None => None
      | Some st => Some (h_content (xs_file st))
      end
  | None => None
  end.
