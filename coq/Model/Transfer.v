(* Transfer: small-step machine for one FTP session of aioftp.Server with its transfer workers
   (RETR/STOR/APPE/LIST/MLSD), parametric in the structural facts tools/py2v extracts from
   server.py (Lib/Facts.v types; the values live in Gen/Dispatch.v).  Shared by C12 and C14.

   asyncio rules encoded here (TRUSTED, exercised by harness/props/c12.py, c14.py):
   R1 cancellation is delivered only at a suspension ("parking") point; a stage that cannot
      suspend is passed through (cancel = raise at the next parking point: [skip]);
   R2 a task cancelled before its first step never runs its body: CancelledError leaves the
      OUTERMOST wrapper (stage Spawned), and in WaitingData it is raised inside the
      ConnectionConditions(wait=True) wrapper, i.e. outside @worker when that wrapper is outermost;
   R3 asyncio.CancelledError is a BaseException: `except Exception` does not catch it;
   R4 `async with a, b`: enter a then b; exit in reverse; exit a if entering b fails; exit
      NOTHING if entering a fails;
   R5 wait_for(shield(f), t): TimeoutError at t, f untouched;
   R6 a backend close() that has started completes even if its awaiter is cancelled;
   R7 guards of the dispatcher's finally block are not changed by its own statements
      (they are evaluated on the state at entry).
   No proofs in this file. *)
From Coq Require Import ZArith List Bool String Ascii Arith.
From Verif Require Import Lib.Sx Lib.Facts.
Import ListNotations.
Open Scope string_scope.
Open Scope list_scope.

(* ------------------------------------------------------------------ facts, normalised *)
Inductive citem := CFile | CStream | COther.
Inductive wkind := KRetr | KStor | KList | KMlsd.
Inductive exn := ECancel | EPathIO | ETimeout | EOther.
Inductive abor_kind := AbTruthy | AbNotDone | AbUnknown.

Definition citem_eqb (a b : citem) : bool :=
  match a, b with CFile, CFile | CStream, CStream | COther, COther => true | _, _ => false end.
Definition exn_eqb (a b : exn) : bool :=
  match a, b with ECancel, ECancel | EPathIO, EPathIO | ETimeout, ETimeout | EOther, EOther => true
  | _, _ => false end.

Record wfacts := {
  wf_ctx : list citem;          (* items of the worker's `async with`, source order *)
  wf_detach_first : bool;       (* stream = connection.data_connection; del connection.data_connection *)
  wf_wait_outside : bool;       (* ConnectionConditions(wait=True) wrapper is outside @worker *)
  wf_has_worker : bool;         (* carries @worker *)
  wf_reply_after : bool;        (* completion reply follows the outermost async with *)
  wf_done_code : Z;
  wf_wait_fail : Z
}.

Inductive guard := GLoopOpen | GHasPassive | GHasData | GHasUser | GPorts | GAcquired | GAnyTasks | GUnknown.
Inductive faction := ALog | ACancelAll | AWaitTask | AClosePassive | AClosedata | ACloseControl
                   | APutPort | ARelease | ANotifyLogout | APop | AAwait | AUnknown.
Definition fstmt : Type := (list guard * faction)%type.

Record cfg := {
  c_retr : wfacts; c_stor : wfacts; c_list : wfacts; c_mlsd : wfacts;
  c_cancel_codes : option (list Z);            (* worker decorator: CancelledError -> these replies *)
  c_abor : abor_kind;
  c_task_exc : list (string * list string);    (* try around task.result() *)
  c_outer_exc : list (string * list string);   (* around the dispatcher loop *)
  c_fin : list fstmt;
  c_giveback : bool                            (* _start_passive_server returns the port when it is cancelled *)
}.

Definition c_w (F : cfg) (k : wkind) : wfacts :=
  match k with KRetr => c_retr F | KStor => c_stor F | KList => c_list F | KMlsd => c_mlsd F end.

(* ------------------------------------------------------------------ Gen strings -> cfg *)
Definition digit_of (c : ascii) : option Z :=
  let n := nat_of_ascii c in
  if andb (Nat.leb 48 n) (Nat.leb n 57) then Some (Z.of_nat (n - 48)) else None.

Fixpoint z_of_digits (acc : Z) (s : string) : option Z :=
  match s with
  | EmptyString => Some acc
  | String c r => match digit_of c with
                  | Some d => z_of_digits (acc * 10 + d)%Z r
                  | None => None
                  end
  end.
Definition code_of (s : string) : Z :=
  match s with EmptyString => (-1)%Z | _ => match z_of_digits 0%Z s with Some z => z | None => (-1)%Z end end.

Definition citem_of (s : string) : citem :=
  if String.eqb s "stream" then CStream
  else if orb (String.eqb s "file_in") (String.eqb s "file_out") then CFile
  else COther.

Fixpoint wait_pos (n : nat) (ds : list deco) : option nat :=
  match ds with
  | [] => None
  | DConn _ true _ :: _ => Some n
  | _ :: r => wait_pos (S n) r
  end.
Fixpoint worker_pos (n : nat) (ds : list deco) : option nat :=
  match ds with
  | [] => None
  | DWorker :: _ => Some n
  | _ :: r => worker_pos (S n) r
  end.
Fixpoint wait_code (ds : list deco) : Z :=
  match ds with
  | [] => (-1)%Z
  | DConn _ true c :: _ => code_of c
  | _ :: r => wait_code r
  end.

Definition wfacts_of (w : worker) : wfacts :=
  {| wf_ctx := map citem_of (List.concat (w_ctx w));
     wf_detach_first := w_detach_first w;
     wf_wait_outside := match wait_pos 0 (w_decos w), worker_pos 0 (w_decos w) with
                        | Some a, Some b => Nat.ltb a b
                        | Some _, None => true
                        | None, _ => false
                        end;
     wf_has_worker := match worker_pos 0 (w_decos w) with Some _ => true | None => false end;
     wf_reply_after := w_reply_after_ctx w;
     wf_done_code := match w_codes w with c :: _ => code_of c | [] => (-1)%Z end;
     wf_wait_fail := wait_code (w_decos w) |}.

Definition no_worker : wfacts :=
  {| wf_ctx := []; wf_detach_first := false; wf_wait_outside := true; wf_has_worker := false;
     wf_reply_after := false; wf_done_code := (-1)%Z; wf_wait_fail := (-1)%Z |}.

Definition wfacts_named (n : string) (ws : list worker) : wfacts :=
  match find_worker n ws with Some w => wfacts_of w | None => no_worker end.

(* "a,b=>act" *)
Fixpoint split_comma (cur : string) (s : string) : list string :=
  match s with
  | EmptyString => [cur]
  | String c r => if Ascii.eqb c "," then cur :: split_comma EmptyString r
                  else split_comma (cur ++ String c EmptyString)%string r
  end.

Definition guard_of (s : string) : guard :=
  if String.eqb s "loop_open" then GLoopOpen
  else if String.eqb s "has:passive_server" then GHasPassive
  else if String.eqb s "has:data_connection" then GHasData
  else if String.eqb s "has:user" then GHasUser
  else if String.eqb s "ports" then GPorts
  else if String.eqb s "acquired" then GAcquired
  else if String.eqb s "any_tasks" then GAnyTasks
  else GUnknown.

Definition action_of (s : string) : faction :=
  if String.eqb s "log" then ALog
  else if String.eqb s "cancel:pending|connection.extra_workers" then ACancelAll
  else if String.eqb s "wait:task" then AWaitTask
  else if String.eqb s "close:passive_server" then AClosePassive
  else if String.eqb s "putport:0:passive_server_port" then APutPort
  else if String.eqb s "close:data_connection" then AClosedata
  else if String.eqb s "close:control" then ACloseControl
  else if String.eqb s "release:server_slot" then ARelease
  else if String.eqb s "notify_logout" then ANotifyLogout
  else if String.eqb s "pop:connections" then APop
  else if String.eqb s "await:tasks" then AAwait
  else AUnknown.

Definition fstmt_of (s : string) : fstmt :=
  match index 0 "=>" s with
  | Some i =>
      let g := substring 0 i s in
      let a := substring (i + 2) (String.length s - (i + 2)) s in
      ((match g with EmptyString => [] | _ => map guard_of (split_comma EmptyString g) end), action_of a)
  | None => ([GUnknown], AUnknown)
  end.

Definition abor_of (s : string) : abor_kind :=
  if String.eqb s "connection.extra_workers" then AbTruthy
  else if String.eqb s "any((not w.done() for w in connection.extra_workers))" then AbNotDone
  else if String.eqb s "any((not worker.done() for worker in connection.extra_workers))" then AbNotDone
  else AbUnknown.

Definition cfg_of_gen (d : dispatcher_facts) (ws : list worker)
           (wexc : list (string * list string)) (abor : string)
           (take_before_await : bool) (giveback : list string) : cfg :=
  {| c_retr := wfacts_named "retr_worker" ws; c_stor := wfacts_named "stor_worker" ws;
     c_list := wfacts_named "list_worker" ws; c_mlsd := wfacts_named "mlsd_worker" ws;
     c_cancel_codes := match assoc_s "asyncio.CancelledError" wexc with
                       | Some cs => Some (map code_of cs)
                       | None => None
                       end;
     c_abor := abor_of abor;
     c_task_exc := d_task_except d; c_outer_exc := d_outer_except d;
     c_fin := map fstmt_of (d_finally d);
     c_giveback := orb (negb take_before_await)
                       (existsb (fun c => orb (String.eqb c "BaseException")
                                              (orb (String.eqb c "asyncio.CancelledError") (String.eqb c "CancelledError")))
                                giveback) |}.

(* ------------------------------------------------------------------ workers *)
Inductive stage :=
| Spawned                       (* task created, not yet run *)
| WaitingData (woken : bool)    (* inside wait_for(shield(gather(..)), wait_future_timeout) *)
| Detached                      (* stream taken out of the connection state *)
| EnteringCtx (i : nat)         (* awaiting __aenter__ of item i *)
| Seeking
| Loop (k : nat)                (* k blocks moved *)
| ExitingCtx (i : nat)          (* awaiting __aexit__ of item i (items > i already exited) *)
| Replied                       (* completion reply queued, task finished *)
| Refused                       (* 425 queued, task finished *)
| Aborted                       (* @worker caught CancelledError: 426, 226 queued, task finished *)
| Failed (e : exn)              (* task finished with exception e *)
| Cancelled.                    (* task finished cancelled: result() raises CancelledError *)

Record wrk := {
  w_kind : wkind;
  w_stage : stage;
  w_exc : option exn;           (* exception in flight while contexts are being exited *)
  w_leak : bool;                (* the detached data stream was abandoned unclosed *)
  w_moved : list Z;             (* blocks already moved to the destination *)
  w_rest : list Z               (* blocks still to move *)
}.

Definition set_stage (w : wrk) (s : stage) : wrk :=
  {| w_kind := w_kind w; w_stage := s; w_exc := w_exc w; w_leak := w_leak w;
     w_moved := w_moved w; w_rest := w_rest w |}.
Definition set_exc (w : wrk) (e : option exn) (leak : bool) : wrk :=
  {| w_kind := w_kind w; w_stage := w_stage w; w_exc := e; w_leak := orb (w_leak w) leak;
     w_moved := w_moved w; w_rest := w_rest w |}.

Definition terminal (s : stage) : bool :=
  match s with Replied | Refused | Aborted | Failed _ | Cancelled => true | _ => false end.

Definition in_body (s : stage) : bool :=
  match s with Detached | EnteringCtx _ | Seeking | Loop _ | ExitingCtx _ => true | _ => false end.

Definition has_item (c : citem) (l : list citem) : bool := existsb (citem_eqb c) l.

(* can the task be suspended (and hence cancelled) at this stage?  ThrottleStreamIO.__aenter__
   and __aexit__ contain no await; a backend open/close may suspend (AsyncPathIO, gated backends) *)
Definition parks (wf : wfacts) (s : stage) : bool :=
  match s with
  | Detached => false
  | EnteringCtx i | ExitingCtx i =>
      match nth_error (wf_ctx wf) i with Some CStream => false | Some _ => true | None => false end
  | _ => true
  end.

(* resources held by a worker, read off its stage *)
Definition stream_held (wf : wfacts) (w : wrk) : bool :=
  match w_stage w with
  | Spawned | WaitingData _ => false
  | Detached | EnteringCtx _ | Seeking | Loop _ => true
  | ExitingCtx i => orb (has_item CStream (firstn (S i) (wf_ctx wf))) (w_leak w)
  | _ => w_leak w
  end.

Definition file_open (wf : wfacts) (w : wrk) : bool :=
  match w_stage w with
  | EnteringCtx i => has_item CFile (firstn i (wf_ctx wf))
  | Seeking | Loop _ => has_item CFile (wf_ctx wf)
  | ExitingCtx i => has_item CFile (firstn (S i) (wf_ctx wf))
  | _ => false
  end.

(* Worker-level functions take the two facts they depend on explicitly:
   cc = replies queued by @worker on CancelledError (None: not caught), wf = the worker's facts. *)

(* the exception leaves the worker body: what the decorators make of it *)
Definition settle_exn (cc : option (list Z)) (wf : wfacts) (e : exn) (w : wrk) : wrk * list Z :=
  match e with
  | ECancel =>
      match (if wf_has_worker wf then cc else None) with
      | Some codes => (set_stage (set_exc w None false) Aborted, codes)
      | None => (set_stage (set_exc w None false) Cancelled, [])
      end
  | _ => (set_stage (set_exc w None false) (Failed e), [])
  end.

(* all contexts have been exited *)
Definition finish (cc : option (list Z)) (wf : wfacts) (w : wrk) : wrk * list Z :=
  match w_exc w with
  | None => (set_stage w Replied, if wf_reply_after wf then [wf_done_code wf] else [])
  | Some e => settle_exn cc wf e w
  end.

Definition start_exit (cc : option (list Z)) (wf : wfacts) (w : wrk) : wrk * list Z :=
  let w := set_exc w (w_exc w) (negb (has_item CStream (wf_ctx wf))) in
  match List.length (wf_ctx wf) with
  | O => finish cc wf w
  | S n => (set_stage w (ExitingCtx n), [])
  end.

(* one normal step of a worker.  data: connection.data_connection is set;
   result: worker, did it take the data connection out of the session, replies queued *)
Definition wstepC (cc : option (list Z)) (wf : wfacts) (data : bool) (w : wrk) : wrk * bool * list Z :=
  match w_stage w with
  | Spawned => if data then (set_stage w Detached, wf_detach_first wf, [])
               else (set_stage w (WaitingData false), false, [])
  | WaitingData true => if data then (set_stage w Detached, wf_detach_first wf, [])
                        else (set_stage w (Failed EOther), false, [])   (* AttributeError: taken by another worker *)
  | WaitingData false => (w, false, [])
  | Detached => (set_stage w (match wf_ctx wf with [] => Seeking | _ => EnteringCtx 0 end), false, [])
  | EnteringCtx i => (set_stage w (if Nat.ltb (S i) (List.length (wf_ctx wf)) then EnteringCtx (S i) else Seeking), false, [])
  | Seeking => (set_stage w (Loop 0), false, [])
  | Loop k => match w_rest w with
              | [] => let '(w', r) := start_exit cc wf w in (w', false, r)
              | b :: r => ({| w_kind := w_kind w; w_stage := Loop (S k); w_exc := w_exc w; w_leak := w_leak w;
                              w_moved := w_moved w ++ [b]; w_rest := r |}, false, [])
              end
  | ExitingCtx i => match i with
                    | O => let '(w', r) := finish cc wf w in (w', false, r)
                    | S j => (set_stage w (ExitingCtx j), false, [])
                    end
  | _ => (w, false, [])
  end.

(* exception e raised at the point where the worker is parked (R2, R4, R6) *)
Definition raise_at (cc : option (list Z)) (wf : wfacts) (e : exn) (w : wrk) : wrk * list Z :=
  match w_stage w with
  | Spawned => (set_stage w (match e with ECancel => Cancelled | _ => Failed e end), [])
  | WaitingData _ =>
      match e with
      | ECancel => if wf_wait_outside wf then (set_stage w Cancelled, []) else settle_exn cc wf ECancel w
      | _ => (set_stage w (Failed e), [])
      end
  | Detached => settle_exn cc wf e (set_exc w None true)
  | EnteringCtx O => settle_exn cc wf e (set_exc w None true)
  | EnteringCtx (S j) =>
      (set_stage (set_exc w (Some e) (negb (has_item CStream (firstn (S j) (wf_ctx wf))))) (ExitingCtx j), [])
  | Seeking | Loop _ => start_exit cc wf (set_exc w (Some e) false)
  | ExitingCtx O => finish cc wf (set_exc w (Some e) false)
  | ExitingCtx (S j) => (set_stage (set_exc w (Some e) false) (ExitingCtx j), [])
  | _ => (w, [])
  end.

(* R1: run through stages that cannot suspend *)
Fixpoint skipC (cc : option (list Z)) (wf : wfacts) (fuel : nat) (w : wrk) : wrk * list Z :=
  match fuel with
  | O => (w, [])
  | S f =>
      if orb (terminal (w_stage w)) (parks wf (w_stage w)) then (w, [])
      else let '(w1, _, r1) := wstepC cc wf false w in
           let '(w2, r2) := skipC cc wf f w1 in (w2, r1 ++ r2)
  end.

Definition skip_fuel (wf : wfacts) : nat := 2 * List.length (wf_ctx wf) + 4.

Definition throwC (cc : option (list Z)) (wf : wfacts) (e : exn) (w : wrk) : wrk * list Z :=
  let '(w1, r1) := skipC cc wf (skip_fuel wf) w in
  let '(w2, r2) := raise_at cc wf e w1 in (w2, r1 ++ r2).

(* after an exception, finitely many steps take the worker to a terminal stage *)
Fixpoint wrunC (cc : option (list Z)) (wf : wfacts) (n : nat) (w : wrk) : wrk * list Z :=
  match n with
  | O => (w, [])
  | S m => let '(w1, _, r1) := wstepC cc wf false w in
           let '(w2, r2) := wrunC cc wf m w1 in (w2, r1 ++ r2)
  end.
Definition unwind_boundC (wf : wfacts) : nat := List.length (wf_ctx wf) + 1.

(* the stage where ending the task now abandons the detached stream: parked (or about to park)
   on entering an item while the stream is not among the items already entered *)
Definition holeC (cc : option (list Z)) (wf : wfacts) (w : wrk) : bool :=
  match w_stage (fst (skipC cc wf (skip_fuel wf) w)) with
  | Detached => true
  | EnteringCtx i => negb (has_item CStream (firstn i (wf_ctx wf)))
  | Seeking | Loop _ | ExitingCtx _ => negb (has_item CStream (wf_ctx wf))
  | _ => false
  end.

(* the same, for a configuration F *)
Definition wfof (F : cfg) (w : wrk) : wfacts := c_w F (w_kind w).
Definition wstep (F : cfg) (data : bool) (w : wrk) := wstepC (c_cancel_codes F) (wfof F w) data w.
Definition throw (F : cfg) (e : exn) (w : wrk) := throwC (c_cancel_codes F) (wfof F w) e w.
Definition cancel (F : cfg) (w : wrk) : wrk * list Z := throw F ECancel w.
Definition wrun (F : cfg) (n : nat) (w : wrk) := wrunC (c_cancel_codes F) (wfof F w) n w.
Definition unwind_bound (F : cfg) (w : wrk) : nat := unwind_boundC (wfof F w).
Definition hole (F : cfg) (w : wrk) : bool := holeC (c_cancel_codes F) (wfof F w) w.
Definition parked_stage (F : cfg) (w : wrk) : stage :=
  w_stage (fst (skipC (c_cancel_codes F) (wfof F w) (skip_fuel (wfof F w)) w)).

(* ------------------------------------------------------------------ session *)
Inductive lstate :=
| LNone
| LTaking                         (* port taken from the pool, before the bind (1st suspension of start_server) *)
| LBound                          (* bound, start_server not yet returned (2nd suspension) *)
| LSet (open : bool) (port_held : bool).   (* connection.passive_server is set *)

Record sess := {
  alive : bool;      (* dispatcher loop running *)
  ctrl : bool;       (* control transport open *)
  table : bool;      (* entry in Server.connections *)
  slot : bool;       (* connection.acquired and not yet released *)
  user : bool;       (* connection.user set, per-user slot not yet released *)
  pool : bool;       (* available_data_ports configured *)
  lst : lstate;
  data : bool;       (* connection.data_connection set and open *)
  aux : bool;        (* helper tasks (greeting/response_writer/parse_command/handler) alive *)
  port_lost : bool;  (* a pool port taken and never returned, owner gone (F5) *)
  orphan : bool;     (* a bound listener owned by nobody (F5) *)
  leaked : bool      (* a data stream abandoned unclosed by a worker that has been reaped (F4) *)
}.

Record state := { ss : sess; ws : list wrk }.

Definition init_sess (pool_cfg : bool) : sess :=
  {| alive := true; ctrl := true; table := true; slot := false; user := false; pool := pool_cfg;
     lst := LNone; data := false; aux := true; port_lost := false; orphan := false; leaked := false |}.
Definition init (pool_cfg : bool) : state := {| ss := init_sess pool_cfg; ws := [] |}.

Definition upd_sess (s : sess) (al ct tb sl us : bool) (l : lstate) (d ax pl orp lk : bool) : sess :=
  {| alive := al; ctrl := ct; table := tb; slot := sl; user := us; pool := pool s; lst := l; data := d;
     aux := ax; port_lost := pl; orphan := orp; leaked := lk |}.

Definition set_lst (s : sess) (l : lstate) : sess :=
  upd_sess s (alive s) (ctrl s) (table s) (slot s) (user s) l (data s) (aux s) (port_lost s) (orphan s) (leaked s).
Definition set_data (s : sess) (d : bool) : sess :=
  upd_sess s (alive s) (ctrl s) (table s) (slot s) (user s) (lst s) d (aux s) (port_lost s) (orphan s) (leaked s).
Definition set_leaked (s : sess) (b : bool) : sess :=
  upd_sess s (alive s) (ctrl s) (table s) (slot s) (user s) (lst s) (data s) (aux s) (port_lost s) (orphan s) (orb (leaked s) b).

Definition guard_holds (s0 : sess) (g : guard) : bool :=
  match g with
  | GLoopOpen | GAnyTasks => true
  | GHasPassive => match lst s0 with LSet _ _ => true | _ => false end
  | GHasData => data s0
  | GHasUser => user s0
  | GPorts => pool s0
  | GAcquired => slot s0
  | GUnknown => false
  end.

(* accumulator of the finally block: session, "tasks were cancelled", "cancelled tasks were awaited" *)
Definition fin_acc : Type := (sess * bool * bool)%type.

Definition act (a : faction) (acc : fin_acc) : fin_acc :=
  let '(s, c, w) := acc in
  match a with
  | ALog | AWaitTask | AUnknown => acc
  | ACancelAll =>
      (* the handler task inside _start_passive_server is cancelled too: `except OSError`
         does not see CancelledError, the port is not given back; a bound listener stays (F5) *)
      (match lst s with
       | LTaking => upd_sess s (alive s) (ctrl s) (table s) (slot s) (user s) LNone (data s) (aux s)
                             (orb (port_lost s) (pool s)) (orphan s) (leaked s)
       | LBound => upd_sess s (alive s) (ctrl s) (table s) (slot s) (user s) LNone (data s) (aux s)
                            (orb (port_lost s) (pool s)) true (leaked s)
       | _ => s
       end, true, w)
  | AClosePassive => (match lst s with LSet _ p => set_lst s (LSet false p) | _ => s end, c, w)
  | APutPort => (match lst s with LSet o _ => set_lst s (LSet o false) | _ => s end, c, w)
  | AClosedata => (set_data s false, c, w)
  | ACloseControl => (upd_sess s (alive s) false (table s) (slot s) (user s) (lst s) (data s) (aux s)
                               (port_lost s) (orphan s) (leaked s), c, w)
  | ARelease => (upd_sess s (alive s) (ctrl s) (table s) false (user s) (lst s) (data s) (aux s)
                          (port_lost s) (orphan s) (leaked s), c, w)
  | ANotifyLogout => (upd_sess s (alive s) (ctrl s) (table s) (slot s) false (lst s) (data s) (aux s)
                               (port_lost s) (orphan s) (leaked s), c, w)
  | APop => (upd_sess s (alive s) (ctrl s) false (slot s) (user s) (lst s) (data s) (aux s)
                      (port_lost s) (orphan s) (leaked s), c, w)
  | AAwait => (if c then upd_sess s (alive s) (ctrl s) (table s) (slot s) (user s) (lst s) (data s) false
                                  (port_lost s) (orphan s) (leaked s) else s, c, true)
  end.

Definition run_fin (fin : list fstmt) (s0 : sess) : fin_acc :=
  fold_left (fun acc st => if forallb (guard_holds s0) (fst st) then act (snd st) acc else acc)
            fin (s0, false, false).

Definition map_cancel (F : cfg) (l : list wrk) : list wrk := map (fun w => fst (cancel F w)) l.

(* when the source returns the port on cancellation, a listener start-up that is interrupted before the bind
   leaves nothing behind; after the bind the port is returned and only the bound listener stays *)
Definition giveback_pre (F : cfg) (s : sess) : sess :=
  if c_giveback F then
    match lst s with
    | LTaking => set_lst s LNone
    | LBound => upd_sess s (alive s) (ctrl s) (table s) (slot s) (user s) LNone (data s) (aux s) (port_lost s) true (leaked s)
    | _ => s
    end
  else s.

(* the dispatcher leaves its loop: the finally block, then (cancelled) tasks unwind on their own *)
Definition end_session (F : cfg) (st : state) : state :=
  let '(s, c, _) := run_fin (c_fin F) (giveback_pre F (ss st)) in
  {| ss := upd_sess s false (ctrl s) (table s) (slot s) (user s) (lst s) (data s) (aux s)
                    (port_lost s) (orphan s) (leaked s);
     ws := if c then map_cancel F (ws st) else ws st |}.

Definition unwind (F : cfg) (st : state) : state :=
  {| ss := ss st; ws := map (fun w => fst (wrun F (unwind_bound F w) w)) (ws st) |}.

Definition unwind_replies (F : cfg) (st : state) : list Z :=
  flat_map (fun w => snd (wrun F (unwind_bound F w) w)) (ws st).

(* -- the except ladders of the dispatcher (R3) *)
Definition handles (cls : string) (e : exn) : bool :=
  if String.eqb cls "BaseException" then true
  else if String.eqb cls "Exception" then negb (exn_eqb e ECancel)
  else if String.eqb cls "asyncio.CancelledError" then exn_eqb e ECancel
  else if String.eqb cls "errors.PathIOError" then exn_eqb e EPathIO
  else if orb (String.eqb cls "asyncio.TimeoutError") (String.eqb cls "TimeoutError") then exn_eqb e ETimeout
  else false.

Fixpoint find_clause (t : list (string * list string)) (e : exn) : option (list string) :=
  match t with
  | [] => None
  | (c, a) :: r => if handles c e then Some a else find_clause r e
  end.

Definition reply_of_action (a : string) : list Z :=
  if prefix "response:" a then [code_of (substring 9 (String.length a - 9) a)] else [].

(* result of task.result() raising e inside the loop: Some replies = the loop continues *)
Definition on_task_exn (F : cfg) (e : exn) : option (list Z) :=
  match find_clause (c_task_exc F) e with
  | Some acts => if existsb (String.eqb "continue") acts then Some (flat_map reply_of_action acts) else None
  | None => None
  end.

Fixpoint reap (F : cfg) (l : list wrk) : list wrk * list Z * bool (* session survives *) * bool (* leak *) :=
  match l with
  | [] => ([], [], true, false)
  | w :: r =>
      let '(keep, rs, ok, lk) := reap F r in
      if terminal (w_stage w) then
        match w_stage w with
        | Failed e => match on_task_exn F e with
                      | Some rr => (keep, rr ++ rs, ok, orb lk (w_leak w))
                      | None => (keep, rs, false, orb lk (w_leak w))
                      end
        | Cancelled => match on_task_exn F ECancel with
                       | Some rr => (keep, rr ++ rs, ok, orb lk (w_leak w))
                       | None => (keep, rs, false, orb lk (w_leak w))
                       end
        | _ => (keep, rs, ok, orb lk (w_leak w))
        end
      else (w :: keep, rs, ok, lk)
  end.

Inductive event :=
| Greet | Login | Pasv | LStep | DataArrives
| Spawn (k : wkind) (payload : list Z)
| WStep (i : nat)
| WThrow (i : nat) (e : exn)       (* BackendFault = EPathIO, SocketTimeout = ETimeout, Cancel = ECancel *)
| WaitTimeout (i : nat)
| Abor | Reap
| Quit | PeerEOF | HandlerError | IdleTimeout | ServerClose.

Fixpoint upd_nth {A} (n : nat) (f : A -> A) (l : list A) : list A :=
  match l, n with
  | [], _ => []
  | x :: r, O => f x :: r
  | x :: r, S m => x :: upd_nth m f r
  end.

Definition wake (w : wrk) : wrk :=
  match w_stage w with WaitingData _ => set_stage w (WaitingData true) | _ => w end.

Definition step (F : cfg) (st : state) (ev : event) : state * list Z :=
  let s := ss st in
  if negb (alive s) then
    match ev with
    | WStep i =>
        match nth_error (ws st) i with
        | Some w => let '(w', _, _) := wstep F false w in
                    ({| ss := s; ws := upd_nth i (fun _ => w') (ws st) |}, [])
        | None => (st, [])
        end
    | _ => (st, [])
    end
  else
  match ev with
  | Greet => ({| ss := upd_sess s true (ctrl s) (table s) true (user s) (lst s) (data s) (aux s)
                                 (port_lost s) (orphan s) (leaked s); ws := ws st |}, [220%Z])
  | Login => ({| ss := upd_sess s true (ctrl s) (table s) (slot s) true (lst s) (data s) (aux s)
                                 (port_lost s) (orphan s) (leaked s); ws := ws st |}, [230%Z])
  | Pasv =>
      match lst s with
      | LNone => ({| ss := set_lst s LTaking; ws := ws st |}, [])
      | LSet _ _ => ({| ss := set_data s false; ws := ws st |}, [227%Z])   (* a stale data connection is closed and dropped *)
      | _ => (st, [])
      end
  | LStep =>
      match lst s with
      | LTaking => ({| ss := set_lst s LBound; ws := ws st |}, [])
      | LBound => ({| ss := set_data (set_lst s (LSet true (pool s))) false; ws := ws st |}, [227%Z])
      | _ => (st, [])
      end
  | DataArrives =>
      match lst s with
      | LSet true _ => if data s then (st, [])    (* second connection: closed at once by the handler *)
                       else ({| ss := set_data s true; ws := map wake (ws st) |}, [])
      | _ => (st, [])
      end
  | Spawn k p =>
      match lst s with
      | LSet _ _ => ({| ss := s; ws := ws st ++ [{| w_kind := k; w_stage := Spawned; w_exc := None; w_leak := false;
                                                   w_moved := []; w_rest := p |}] |}, [150%Z])
      | _ => (st, [503%Z])
      end
  | WStep i =>
      match nth_error (ws st) i with
      | Some w => let '(w', took, r) := wstep F (data s) w in
                  ({| ss := if took then set_data s false else s; ws := upd_nth i (fun _ => w') (ws st) |}, r)
      | None => (st, [])
      end
  | WThrow i e =>
      match nth_error (ws st) i with
      | Some w => let '(w', r) := throw F e w in ({| ss := s; ws := upd_nth i (fun _ => w') (ws st) |}, r)
      | None => (st, [])
      end
  | WaitTimeout i =>
      match nth_error (ws st) i with
      | Some w => match w_stage w with
                  | WaitingData false =>
                      ({| ss := s; ws := upd_nth i (fun w => set_stage w Refused) (ws st) |},
                       [wf_wait_fail (c_w F (w_kind w))])
                  | _ => (st, [])
                  end
      | None => (st, [])
      end
  | Abor =>
      let busy := match c_abor F with
                  | AbTruthy => negb (match ws st with [] => true | _ => false end)
                  | AbNotDone => existsb (fun w => negb (terminal (w_stage w))) (ws st)
                  | AbUnknown => false
                  end in
      if busy then
        ({| ss := s; ws := map_cancel F (ws st) |}, flat_map (fun w => snd (cancel F w)) (ws st))
      else (st, [226%Z])
  | Reap =>
      let '(keep, rs, ok, lk) := reap F (ws st) in
      let st' := {| ss := set_leaked s lk; ws := keep |} in
      if ok then (st', rs) else (end_session F st', rs)
  | Quit => (end_session F st, [221%Z])
  | PeerEOF | HandlerError | IdleTimeout | ServerClose => (end_session F st, [])
  end.

Fixpoint run (F : cfg) (st : state) (evs : list event) : state * list Z :=
  match evs with
  | [] => (st, [])
  | e :: r => let '(st1, r1) := step F st e in
              let '(st2, r2) := run F st1 r in (st2, r1 ++ r2)
  end.

(* ------------------------------------------------------------------ ledger *)
Definition b2z (b : bool) : Z := if b then 1%Z else 0%Z.
Definition countb {A} (f : A -> bool) (l : list A) : Z := Z.of_nat (List.length (filter f l)).

(* [control; listener; port; data in session; data in worker; file handles; tasks; slot; user slot; table] *)
Definition ledger (F : cfg) (st : state) : list Z :=
  let s := ss st in
  [ b2z (ctrl s);
    b2z (orb (match lst s with LBound | LSet true _ => true | _ => false end) (orphan s));
    b2z (orb (andb (pool s) (match lst s with LTaking | LBound | LSet _ true => true | _ => false end)) (port_lost s));
    b2z (data s);
    b2z (orb (existsb (fun w => stream_held (c_w F (w_kind w)) w) (ws st)) (leaked s));
    countb (fun w => file_open (c_w F (w_kind w)) w) (ws st);
    (countb (fun w => negb (terminal (w_stage w))) (ws st) + b2z (aux s) + b2z (alive s))%Z;
    b2z (slot s); b2z (user s); b2z (table s) ].

Definition ledger_empty (l : list Z) : bool := forallb (Z.eqb 0) l.

(* what the finally block must achieve on the session part, whatever the session holds *)
Definition sess_released (s : sess) : bool :=
  negb (ctrl s) && negb (table s) && negb (slot s) && negb (user s) && negb (data s) && negb (aux s)
  && match lst s with LNone => true | LSet false false => true | LSet false true => negb (pool s) | _ => false end.

(* states without an open hole: no listener start-up in progress, nothing already leaked,
   no worker parked in a hole *)
Definition sess_hole_free (s : sess) : bool :=
  negb (port_lost s) && negb (orphan s) && negb (leaked s)
  && match lst s with LTaking | LBound => false | _ => true end.

Definition hole_free (F : cfg) (st : state) : bool :=
  sess_hole_free (ss st) && forallb (fun w => negb (w_leak w) && negb (hole F w)) (ws st).

(* ------------------------------------------------------------------ checkers (closed obligations) *)
Definition ctx_shape_ok (l : list citem) : bool :=
  match l with
  | [CStream] | [CFile; CStream] | [CStream; CFile] => true
  | _ => false
  end.

Definition wfacts_ok (wf : wfacts) : bool :=
  ctx_shape_ok (wf_ctx wf) && wf_detach_first wf && wf_has_worker wf && wf_reply_after wf.

Definition workers_ok (F : cfg) : bool :=
  wfacts_ok (c_retr F) && wfacts_ok (c_stor F) && wfacts_ok (c_list F) && wfacts_ok (c_mlsd F).

Definition all_bool (f : bool -> bool) : bool := f true && f false.
Definition all_lst (f : lstate -> bool) : bool :=
  f LNone && f LTaking && f LBound && all_bool (fun o => all_bool (fun p => f (LSet o p))).

(* the finally block, model-checked on every session configuration *)
Definition fin_ok (fin : list fstmt) : bool :=
  all_bool (fun al => all_bool (fun ct => all_bool (fun tb => all_bool (fun sl => all_bool (fun us =>
  all_bool (fun po => all_lst (fun l => all_bool (fun d => all_bool (fun ax => all_bool (fun pl =>
  all_bool (fun orp => all_bool (fun lk =>
    let s := {| alive := al; ctrl := ct; table := tb; slot := sl; user := us; pool := po; lst := l;
                data := d; aux := ax; port_lost := pl; orphan := orp; leaked := lk |} in
    let '(s', c, w) := run_fin fin s in
    c && w
    && (negb (sess_hole_free s) || (sess_released s' && sess_hole_free s'))
    && Bool.eqb (pool s') (pool s)
  )))))))))))).

Definition codes_eqb (l : list Z) : bool :=
  match l with [a; b] => Z.eqb a 426 && Z.eqb b 226 | _ => false end.
Definition cancel_codes_ok (F : cfg) : bool :=
  match c_cancel_codes F with Some l => codes_eqb l | None => false end.

Definition sound12 (F : cfg) : bool := workers_ok F && fin_ok (c_fin F).
Definition sound14 (F : cfg) : bool :=
  workers_ok F && cancel_codes_ok F
  && match c_abor F with AbUnknown => false | _ => true end.

(* ---- the repaired shapes (fix commits "transfer workers enter the data stream context before the file",
   "ABOR is answered when the only workers are finished ones", "ABOR before the data connection is made answers
   426/226"): closed obligations that are false on the former, defective shapes *)
Definition sf_shape (l : list citem) : bool :=
  match l with [CStream] | [CStream; CFile] => true | _ => false end.
Definition stream_first_ok (F : cfg) : bool :=
  forallb (fun k => sf_shape (wf_ctx (c_w F k))) [KRetr; KStor; KList; KMlsd].
Definition abor_notdone (F : cfg) : bool := match c_abor F with AbNotDone => true | _ => false end.
Definition cancelled_task_answered (F : cfg) : bool :=
  match on_task_exn F ECancel with Some l => codes_eqb l | None => false end.
Definition repaired12 (F : cfg) : bool := sound12 F && stream_first_ok F.
Definition repaired14 (F : cfg) : bool :=
  sound14 F && stream_first_ok F && abor_notdone F && cancelled_task_answered F.

(* a transfer whose own failure (or an earlier abort) is still to be reported by the dispatcher *)
Definition pending_failure (w : wrk) : bool :=
  match w_stage w with Failed _ | Cancelled => true | _ => false end.
(* R1: another task (the abor handler) runs only while the worker is suspended, has not started or has finished *)
Definition at_rest (F : cfg) (w : wrk) : bool :=
  negb (pending_failure w) && (terminal (w_stage w) || parks (c_w F (w_kind w)) (w_stage w)).
(* no listener start-up in progress (F5, not repaired) *)
Definition startup_free (s : sess) : bool :=
  match lst s with LTaking | LBound => false | _ => true end.

(* ABOR is safe for a worker at this point (exactly the complement of the refuted stages) *)
Definition cancelled_task_ok (F : cfg) : bool :=
  match on_task_exn F ECancel with Some l => codes_eqb l | None => false end.

Definition abor_safe (F : cfg) (w : wrk) : bool :=
  let wf := c_w F (w_kind w) in
  negb (w_leak w) &&
  if terminal (w_stage w) then
    (* F3: finished, not reaped *)
    match c_abor F, w_stage w with
    | AbNotDone, (Replied | Refused | Aborted) => true
    | _, _ => false
    end
  else
    match parked_stage F w with
    | Spawned => cancelled_task_ok F                                   (* F2 *)
    | WaitingData _ => negb (wf_wait_outside wf) || cancelled_task_ok F (* F2 *)
    | Detached | EnteringCtx _ | Seeking | Loop _ | ExitingCtx _ => negb (hole F w)   (* F4 *)
    | _ => false                                                       (* finishes before it can be cancelled: F3 *)
    end.

(* ABOR, then everything that happens without further input: the cancelled workers unwind,
   the dispatcher reaps them.  Result: final state, replies queued from ABOR on *)
Definition abor_run (F : cfg) (st : state) : state * list Z :=
  let '(st1, r1) := step F st Abor in
  let st2 := unwind F st1 in
  let '(st3, r3) := step F st2 Reap in
  (st3, r1 ++ unwind_replies F st1 ++ r3).

Definition ends (ev : event) : bool :=
  match ev with Quit | PeerEOF | HandlerError | IdleTimeout | ServerClose => true | _ => false end.

(* Server.close(): close the main listener, cancel every dispatcher, wait for them *)
Record server := { main_listener : bool; sessions : list state }.
Definition server_close (F : cfg) (srv : server) : server :=
  {| main_listener := false;
     sessions := map (fun st => unwind F (fst (step F st ServerClose))) (sessions srv) |}.
Definition server_ledger_empty (F : cfg) (srv : server) : bool :=
  negb (main_listener srv) && forallb (fun st => ledger_empty (ledger F st)) (sessions srv).

(* ------------------------------------------------------------------ harness interface *)
Definition kind_of_z (z : Z) : wkind :=
  match z with 0%Z => KRetr | 1%Z => KStor | 2%Z => KList | _ => KMlsd end.
Definition exn_of_z (z : Z) : exn :=
  match z with 0%Z => ECancel | 1%Z => EPathIO | 2%Z => ETimeout | _ => EOther end.

Definition event_of_sx (a : sx) : event :=
  let tag := z_of_sx (nth_sx 0 a) in
  let n := Z.to_nat (z_of_sx (nth_sx 1 a)) in
  match tag with
  | 0%Z => Greet | 1%Z => Login | 2%Z => Pasv | 3%Z => LStep | 4%Z => DataArrives
  | 5%Z => Spawn (kind_of_z (z_of_sx (nth_sx 1 a))) (text_of_sx (nth_sx 2 a))
  | 6%Z => WStep n
  | 7%Z => WThrow n (exn_of_z (z_of_sx (nth_sx 2 a)))
  | 8%Z => WaitTimeout n
  | 9%Z => Abor | 10%Z => Reap | 11%Z => Quit | 12%Z => PeerEOF | 13%Z => HandlerError
  | 14%Z => IdleTimeout | _ => ServerClose
  end.

Definition z_of_stage (s : stage) : list Z :=
  match s with
  | Spawned => [0%Z] | WaitingData b => [1%Z; b2z b] | Detached => [2%Z]
  | EnteringCtx i => [3%Z; Z.of_nat i] | Seeking => [4%Z] | Loop k => [5%Z; Z.of_nat k]
  | ExitingCtx i => [6%Z; Z.of_nat i] | Replied => [7%Z] | Refused => [8%Z] | Aborted => [9%Z]
  | Failed e => [10%Z; match e with ECancel => 0 | EPathIO => 1 | ETimeout => 2 | EOther => 3 end]%Z
  | Cancelled => [11%Z]
  end.

Definition sx_of_zs (l : list Z) : sx := L (map I l).

Definition sx_of_wrk (F : cfg) (w : wrk) : sx :=
  L [sx_of_zs (z_of_stage (w_stage w)); sx_of_zs (w_moved w); sx_of_zs (w_rest w);
     sx_of_bool (stream_held (c_w F (w_kind w)) w); sx_of_bool (file_open (c_w F (w_kind w)) w);
     sx_of_bool (parks (c_w F (w_kind w)) (w_stage w)); sx_of_bool (hole F w); sx_of_bool (abor_safe F w)].

(* run a trace; then optionally let every worker unwind.
   a = (pool events unwind?) ; result = (alive ledger replies workers hole_free) *)
Definition run_trace (F : cfg) (a : sx) : sx :=
  let evs := map event_of_sx (list_of_sx (nth_sx 1 a)) in
  let '(st, rs) := run F (init (bool_of_sx (nth_sx 0 a))) evs in
  let st := if bool_of_sx (nth_sx 2 a) then unwind F st else st in
  L [sx_of_bool (alive (ss st)); sx_of_zs (ledger F st); sx_of_zs rs; L (map (sx_of_wrk F) (ws st));
     sx_of_bool (hole_free F st)].

Definition sx_of_wfacts (wf : wfacts) : sx :=
  L [sx_of_zs (map (fun c => match c with CFile => 0 | CStream => 1 | COther => 2 end)%Z (wf_ctx wf));
     sx_of_bool (wf_detach_first wf); sx_of_bool (wf_wait_outside wf); sx_of_bool (wf_has_worker wf);
     sx_of_bool (wf_reply_after wf); I (wf_done_code wf); I (wf_wait_fail wf)].

(* run a trace, then ABOR and everything that follows without further input (abor_run).
   a = (pool events) ; result = (alive ledger abor-replies workers-after-unwinding all-abor_safe
                                 ledger-before workers-before replies-before) *)
Definition run_abor (F : cfg) (a : sx) : sx :=
  let evs := map event_of_sx (list_of_sx (nth_sx 1 a)) in
  let '(st, rs) := run F (init (bool_of_sx (nth_sx 0 a))) evs in
  let '(st', ra) := abor_run F st in
  L [sx_of_bool (alive (ss st')); sx_of_zs (ledger F st'); sx_of_zs ra;
     L (map (sx_of_wrk F) (ws (unwind F (fst (step F st Abor)))));
     sx_of_bool (forallb (fun w => negb (w_leak w) && at_rest F w) (ws st)); sx_of_zs (ledger F st); L (map (sx_of_wrk F) (ws st));
     sx_of_zs rs].

Definition run_transfer (F : cfg) (fn : Z) (a : sx) : sx :=
  match fn with
  | 0%Z => run_trace F a
  | 3%Z => run_abor F a
  | 1%Z => L [sx_of_bool (sound12 F); sx_of_bool (sound14 F); sx_of_bool (workers_ok F);
              sx_of_bool (fin_ok (c_fin F)); sx_of_bool (cancel_codes_ok F);
              I (match c_abor F with AbTruthy => 0 | AbNotDone => 1 | AbUnknown => 2 end)%Z;
              sx_of_bool (cancelled_task_ok F); sx_of_bool (repaired12 F); sx_of_bool (repaired14 F);
              sx_of_bool (stream_first_ok F); sx_of_bool (abor_notdone F)]
  | 2%Z => L (map (fun k => sx_of_wfacts (c_w F k)) [KRetr; KStor; KList; KMlsd])
  | _ => sx_err 99
  end.
