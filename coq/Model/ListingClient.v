(* Model of the client-side glue around the listing parsers (C07):
     Client.list()   : the AsyncLister loop over the data stream's lines with the parser chain
                       parse_list_line (unix, then windows, then custom) / parse_mlsx_line,
                       skipping "." and ".." ; the MLSD -> LIST fallback on a 50x reply
     Client.stat()   : MLST reply (Server.mlst: response("250", ["start", s, "end"], True)) parsed as
                       parse_mlsx_line(info[1].lstrip()), and on a 50x reply the fallback
                       `for p, info in await self.list(path.parent): if p.name == path.name`
   The reply framing itself is Model/Framing.v (C06).  No proofs here. *)
From Coq Require Import ZArith QArith Qround List Bool.
From Verif Require Import Lib.Sx Lib.PyStr Lib.PyStr2 Lib.Civil Model.LsDate Model.Listing.
Import ListNotations.
Open Scope Z_scope.

(* ---- Client.parse_list_line: the chain.  The Windows `dir` parser and the custom parser are
   parameters (both may only raise ValueError/KeyError/IndexError or return a result); the
   chain raises ValueError("All parsers failed to parse") when every parser raised. ---- *)
Fixpoint first_ok {A : Type} (ps : list (text -> res A)) (b : text) : res A :=
  match ps with
  | [] => Err E_VALUE
  | p :: ps' => match p b with Ok r => Ok r | Err _ => first_ok ps' b end
  end.

Definition parse_list_line (unix : text -> res (text * linfo)) (others : list (text -> res (text * linfo)))
                           (b : text) : res (text * linfo) :=
  first_ok (unix :: others) b.

(* parse_list_line_windows, first statement only: line.index("M") raises ValueError when the line
   has no 'M'.  (Used by the harness to exercise the chain on server lines; the full Windows parser
   is outside the model.) *)
Definition windows_needs_M (b : text) : bool := existsb (fun c => c =? 77) b.

(* ---- the eager `await client.list(...)`: every line through `parse`; a parsed line without a
   "type" fact raises ValueError (checked before the "." / ".." skip); "." / ".." are skipped; the
   first failing line raises for the whole listing ---- *)
Definition is_dot_name (n : text) : bool := text_eqb n DOT || text_eqb n DOTDOT.

Fixpoint client_collect {I : Type} (parse : text -> res (text * I)) (has_type : I -> bool) (lines : list text)
  : res (list (text * I)) :=
  match lines with
  | [] => Ok []
  | l :: rest =>
      bind (parse l) (fun r =>
      if negb (has_type (snd r)) then Err E_VALUE          (* if "type" not in info: raise ValueError *)
      else if is_dot_name (fst r) then client_collect parse has_type rest
      else bind (client_collect parse has_type rest) (fun rs => Ok (r :: rs)))
  end.

Definition entry_has_type (e : list (text * text)) : bool :=
  match dict_get [116; 121; 112; 101] e with Some _ => true | None => false end.

(* Client.list(path, raw_command): which parser reads the data lines.
   raw = 0: None (MLSD, falling back to LIST when MLSD is answered 50x), 1: "MLSD", 2: "LIST".
   mlsd_code: the first digit pair of the reply to MLSD is 50 (true) or the transfer started (false). *)
Inductive list_plan : Type := UseMLSD | UseLIST | RaiseStatus.
Definition list_plan_of (raw : Z) (mlsd_50x : bool) : list_plan :=
  if raw =? 2 then UseLIST
  else if negb mlsd_50x then UseMLSD
  else if raw =? 0 then UseLIST else RaiseStatus.

(* A CONNECTION's history of list() calls.  Each call is (raw, mlsd_50x of THAT call).  Client.list keeps
   nothing between calls (no "this server has no MLSD" memory): the plan of every call is list_plan_of of
   that call alone; refused commands earlier on the connection (a listing before login answered 503, a
   forbidden path answered 550, an unknown command answered 502) are not arguments of anything. *)
Definition list_plans (calls : list (Z * bool)) : list list_plan :=
  map (fun c => list_plan_of (fst c) (snd c)) calls.

Definition plan_code (p : list_plan) : Z :=
  match p with UseMLSD => 0 | UseLIST => 1 | RaiseStatus => 2 end.

(* ---- Client.stat ---- *)
Definition t_start : text := [115; 116; 97; 114; 116].
Definition t_end : text := [101; 110; 100].
Definition c250 : text := [50; 53; 48].

(* Server.mlst: the lines given to response("250", ..., True) *)
Definition mlst_lines (st : option stats) (kind : Z) (name : text) : list text :=
  [t_start; build_mlsx_string st kind name; t_end].

(* name, info = self.parse_mlsx_line(info[1].lstrip()); return info   (IndexError: one-line reply;
   ValueError: no pathname in the line) *)
Definition client_stat_mlst (info : list text) : res (list (text * text)) :=
  match nth_error info 1 with
  | None => Err E_INDEX
  | Some l => bind (parse_mlsx_line (lstrip l)) (fun r => Ok (snd r))
  end.

(* the fallback loop over the parent's listing: first entry whose name equals path.name;
   None = StatusCodeError("2xx", "550", "path does not exists") *)
Definition client_stat_via_list {I : Type} (name : text) (listing : list (text * I)) : option I :=
  match find (fun r => text_eqb (fst r) name) listing with
  | Some r => Some (snd r)
  | None => None
  end.

(* ---- the listing workers under backend faults ----
   mlsd_worker / list_worker call the backend once per entry (exists, stat, is_file, is_dir).  A
   PathIOError out of one of these calls is NOT caught inside the loop: it leaves the worker, the
   command is answered 451 after the 150 and the client's list() raises StatusCodeError.
   `faulty e` = some backend call made for entry e raises.  None = the command failed. *)
Fixpoint worker_lines (faulty : dentry -> bool) (line_of : dentry -> list text) (dir : list dentry)
  : option (list text) :=
  match dir with
  | [] => Some []
  | e :: rest =>
      if faulty e then None
      else match worker_lines faulty line_of rest with
           | Some ls => Some (line_of e ++ ls)
           | None => None
           end
  end.

Definition mlsd_worker (faulty : dentry -> bool) (dir : list dentry) : option (list text) :=
  worker_lines faulty (fun e => [build_mlsx_string (de_stat e) (de_kind e) (de_name e)]) dir.

Definition list_worker (half off now : Z) (faulty : dentry -> bool) (dir : list dentry) : option (list text) :=
  worker_lines faulty (fun e => match de_stat e with
                                | Some st => [build_list_string half off now st (de_name e)]
                                | None => []
                                end) dir.

(* ---- sub-second timestamps ----
   st_mtime / st_ctime are floats (seconds with a fractional part); time.gmtime / time.localtime
   FLOOR them.  A float is an exact rational num/den: the facts are those of its floor. *)
Definition format_mlsx_time_real (q : Q) : text := format_mlsx_time (Qfloor q).

(* ---- harness interface: extends run_listing ---- *)
Definition sx_of_entry (e : list (text * text)) : sx := L (map sx_of_kv e).

Definition run_listing_client (fn : Z) (a : sx) : sx :=
  let z i := z_of_sx (nth_sx i a) in
  let t i := text_of_sx (nth_sx i a) in
  match fn with
  | 30 => (* client_stat_mlst on a list of info lines *)
      sx_of_res sx_of_entry (client_stat_mlst (map text_of_sx (list_of_sx (nth_sx 0 a))))
  | 31 => (* eager LIST listing: half two now lines ; windows parser approximated by its first statement
             is NOT used here: lines on which the unix parser fails give Err *)
      sx_of_res (fun rs => L (map sx_of_linfo rs))
        (client_collect (parse_list_line_unix (z 0%nat) (z 1%nat) (dt_of_sx (nth_sx 2 a))) (fun _ => true)
                        (map text_of_sx (list_of_sx (nth_sx 3 a))))
  | 32 => (* eager MLSD listing *)
      sx_of_res (fun rs => L (map (fun r => L [sx_of_text (fst r); sx_of_entry (snd r)]) rs))
        (client_collect parse_mlsx_line entry_has_type (map text_of_sx (list_of_sx (nth_sx 0 a))))
  | 33 => (* list_plan_of *)
      I (match list_plan_of (z 0%nat) (negb (z 1%nat =? 0)) with UseMLSD => 0 | UseLIST => 1 | RaiseStatus => 2 end)
  | 34 => (* the server's MLST lines *)
      L (map sx_of_text (mlst_lines (opt_stats_of_sx (nth_sx 0 a)) (z 1%nat) (t 2%nat)))
  | 35 => (* worker outcome under faults: list of 0/1 fault flags -> 1 = completes, 0 = fails *)
      I (match worker_lines (fun e => negb (de_kind e =? 0)) (fun _ => [])
                 (map (fun f => mkdentry [] None (z_of_sx f)) (list_of_sx (nth_sx 0 a))) with
         | Some _ => 1 | None => 0 end)
  | 36 => (* _format_mlsx_time of the float num/den (den > 0) *)
      sx_of_text (format_mlsx_time_real (Qmake (z 0%nat) (Z.to_pos (z 1%nat))))
  | 37 => (* list_plans over a connection's history [[raw, 50x?], ...] *)
      L (map (fun p => I (plan_code p))
             (list_plans (map (fun c => (z_of_sx (nth_sx 0 c), negb (z_of_sx (nth_sx 1 c) =? 0))) (list_of_sx (nth_sx 0 a)))))
  | _ => run_listing fn a
  end.
