(* C13: the sequential session semantics of Model/Session.v extended with a FAULT ORACLE on the
   backend interface.  Every backend call site of a command (decorator probes, body calls, worker
   calls: open / seek / each read / each write / close / each list step / per-entry exists, stat,
   is_file, is_dir) consumes one entry of the fault plan; a planned fault - or a genuine backend
   error - raises.  What the raise is (PathIOError or a raw exception) is decided by [wrapped]
   (universal_exception outermost, from Gen.Faultsites); what the dispatcher does with a
   PathIOError is [react] (from Gen.Dispatch.d_task_except).  The data stream a worker detached
   from the session is an explicit piece of state ([fw_dst]); the order in which the worker enters
   its `async with` items ([cstor], [cretr], [clist], [cmlsd], from Gen.Dispatch.workers) decides
   which faults close it.  No proofs here. *)
From Coq Require Import ZArith List Bool String Arith.
From Verif Require Import Lib.Sx Lib.PyStr Lib.Facts Model.Session.
Import ListNotations.
Open Scope list_scope.

(* the data stream owned by the command being executed *)
Inductive dstate := StNone | StOpen | StClosed.

Record fw := {
  fw_s : sess;
  fw_fs : node;
  fw_plan : list bool;              (* fault oracle: head = "the next backend call raises" *)
  fw_n : nat;                       (* backend calls made so far in this session *)
  fw_faults : nat;                  (* ghost: how many of them raised *)
  fw_log : list (string * bool);    (* ghost, newest first: method, raised *)
  fw_codes : list text;             (* replies queued by the current command, in order *)
  fw_dst : dstate;                  (* data stream detached by the current command *)
  fw_sent : list (list Z);          (* blocks / listing names written to it, newest first *)
  fw_info : text;                   (* text of a 257 PWD reply *)
}.

Definition upd_s (w : fw) (s : sess) : fw :=
  {| fw_s := s; fw_fs := fw_fs w; fw_plan := fw_plan w; fw_n := fw_n w; fw_faults := fw_faults w;
     fw_log := fw_log w; fw_codes := fw_codes w; fw_dst := fw_dst w; fw_sent := fw_sent w; fw_info := fw_info w |}.
Definition upd_fs (w : fw) (f : node) : fw :=
  {| fw_s := fw_s w; fw_fs := f; fw_plan := fw_plan w; fw_n := fw_n w; fw_faults := fw_faults w;
     fw_log := fw_log w; fw_codes := fw_codes w; fw_dst := fw_dst w; fw_sent := fw_sent w; fw_info := fw_info w |}.
Definition reply (w : fw) (c : text) : fw :=
  {| fw_s := fw_s w; fw_fs := fw_fs w; fw_plan := fw_plan w; fw_n := fw_n w; fw_faults := fw_faults w;
     fw_log := fw_log w; fw_codes := fw_codes w ++ [c]; fw_dst := fw_dst w; fw_sent := fw_sent w; fw_info := fw_info w |}.
Definition set_dst (w : fw) (d : dstate) : fw :=
  {| fw_s := fw_s w; fw_fs := fw_fs w; fw_plan := fw_plan w; fw_n := fw_n w; fw_faults := fw_faults w;
     fw_log := fw_log w; fw_codes := fw_codes w; fw_dst := d; fw_sent := fw_sent w; fw_info := fw_info w |}.
Definition send (b : list Z) (w : fw) : fw :=
  {| fw_s := fw_s w; fw_fs := fw_fs w; fw_plan := fw_plan w; fw_n := fw_n w; fw_faults := fw_faults w;
     fw_log := fw_log w; fw_codes := fw_codes w; fw_dst := fw_dst w; fw_sent := b :: fw_sent w; fw_info := fw_info w |}.
Definition tick (m : string) (raised : bool) (w : fw) : fw :=
  {| fw_s := fw_s w; fw_fs := fw_fs w; fw_plan := tl (fw_plan w); fw_n := S (fw_n w);
     fw_faults := if raised then S (fw_faults w) else fw_faults w;
     fw_log := (m, raised) :: fw_log w; fw_codes := fw_codes w; fw_dst := fw_dst w; fw_sent := fw_sent w;
     fw_info := fw_info w |}.
(* a new command starts: the per-command accumulators are emptied *)
Definition fresh (w : fw) : fw :=
  {| fw_s := fw_s w; fw_fs := fw_fs w; fw_plan := fw_plan w; fw_n := fw_n w; fw_faults := fw_faults w;
     fw_log := fw_log w; fw_codes := []; fw_dst := StNone; fw_sent := []; fw_info := [] |}.

Definition close_data (w : fw) : fw :=
  match fw_dst w with StOpen => set_dst w StClosed | _ => w end.

(* result of anything that may raise: [Fault pio w] = an exception propagates; pio = it is a PathIOError *)
Inductive res (A : Type) : Type :=
| Ok (a : A) (w : fw)
| Fault (pio : bool) (w : fw).
Arguments Ok {A} a w.
Arguments Fault {A} pio w.

(* the dispatcher's `except` entry for PathIOError and a worker's flattened context items, from the facts *)
(* the clause of the except ladder around task.result() that a PathIOError reaches: clauses are tried in
   order; a clause for an unrelated class (CancelledError, TimeoutError: ABOR handling) is skipped, a clause
   for any other class met BEFORE `errors.PathIOError` may be one of its bases and makes the answer unknown *)
Fixpoint ladder_for_pio (l : list (string * list string)) : option (list string) :=
  match l with
  | [] => None
  | (c, acts) :: r =>
      if String.eqb c "errors.PathIOError" then Some acts
      else if String.eqb c "asyncio.CancelledError" || String.eqb c "asyncio.TimeoutError" then ladder_for_pio r
      else None
  end.
Definition react_of (d : dispatcher_facts) : option (list string) := ladder_for_pio (d_task_except d).

Definition is_stream (it : string) : bool := String.eqb it "stream".

(* ------------------------------------------------------------------ byte / tree operations at call granularity *)
Fixpoint chunks_fuel (fuel blk : nat) (l : list Z) : list (list Z) :=
  match fuel with
  | O => []
  | S f => match l with [] => [] | _ => firstn blk l :: chunks_fuel f blk (skipn blk l) end
  end.
(* read(0) returns b"": no block at all *)
Definition chunks (blk : nat) (l : list Z) : list (list Z) :=
  match blk with O => [] | _ => chunks_fuel (List.length l) blk l end.

(* open(real_path, mode) for STOR/APPE: wb / ab, or r+b when a restart offset is set; returns the initial position *)
Definition open_w (p : list text) (m : smode) (rest : Z) (n : node) : option (nat * node) :=
  match split_path p with
  | None => None
  | Some (par, x) =>
      match lookup par n with
      | Some (NDir ch) =>
          match assoc_t x ch with
          | Some (NDir _) => None
          | Some (NFile old) =>
              if (0 <? rest)%Z then Some (O, n)
              else match m with
                   | MW => match modify p (fun _ => Some (NFile [])) n with
                           | Some n' => Some (O, n') | None => None end
                   | MA => Some (List.length old, n)
                   end
          | None =>
              if (0 <? rest)%Z then None
              else match modify par (fun d => match d with
                                              | NDir c => Some (NDir (c ++ [(x, NFile [])]))
                                              | NFile _ => None end) n with
                   | Some n' => Some (O, n') | None => None end
          end
      | _ => None
      end
  end.

Definition open_r (p : list text) (n : node) : option (nat * node) :=
  match lookup p n with Some (NFile _) => Some (O, n) | _ => None end.

Definition write_op (p : list text) (pos : nat) (c : list Z) (n : node) : option (unit * node) :=
  match modify p (fun f => match f with NFile old => Some (NFile (write_at pos c old)) | NDir _ => None end) n with
  | Some n' => Some (tt, n') | None => None end.

Definition content_of (p : list text) (n : node) : list Z :=
  match lookup p n with Some (NFile c) => c | _ => [] end.
Definition names_of (p : list text) (n : node) : list text :=
  match lookup p n with Some (NDir ch) => map fst ch | _ => [] end.

Definition pure_op {A} (f : node -> option A) (n : node) : option (A * node) :=
  match f n with Some a => Some (a, n) | None => None end.
Definition mut_op (f : node -> option node) (n : node) : option (unit * node) :=
  match f n with Some n' => Some (tt, n') | None => None end.
Definition nop (n : node) : option (unit * node) := Some (tt, n).

(* the value of a PathConditions probe / of exists, is_file, is_dir *)
Definition probe_val (m : string) (p : list text) (n : node) : option bool :=
  if String.eqb m "exists" then Some (exists_ p n)
  else if String.eqb m "is_dir" then Some (is_dir p n)
  else if String.eqb m "is_file" then Some (is_file p n)
  else None.

Section F.
  Variable users : list user.
  Variable table : list (string * (string * list deco * option string)).
  Variable conds : list (string * (string * bool)).      (* PathConditions name -> (method, failing value) *)
  Variable react : option (list string).                 (* dispatcher: actions for PathIOError *)
  Variable wrapped : string -> bool.                     (* method carries universal_exception outermost *)
  Variables cstor cretr clist cmlsd : list string.       (* `async with` items of the four workers, in order *)
  Variable blk : nat.                                    (* block_size *)

  (* ---- one backend call: consumes one plan entry *)
  Definition call {A} (m : string) (op : node -> option (A * node)) (w : fw) : res A :=
    if hd false (fw_plan w) then Fault (wrapped m) (tick m true w)
    else match op (fw_fs w) with
         | Some (a, f) => Ok a (upd_fs (tick m false w) f)
         | None => Fault (wrapped m) (tick m true w)      (* a genuine backend error raises the same way *)
         end.

  (* ---- PathConditions: one probe per condition, in order *)
  Fixpoint fconds (cs : list string) (p : list text) (w : fw) : res bool :=
    match cs with
    | [] => Ok true w
    | c :: r =>
        match assoc_s c conds with
        | None => Ok false w
        | Some (m, fl) =>
            match call m (pure_op (probe_val m p)) w with
            | Ok v w' => if Bool.eqb v fl then Ok false w' else fconds r p w'
            | Fault pio w' => Fault pio w'
            end
        end
    end.

  (* ---- the decorator stack, outermost first *)
  Fixpoint fdecos (ds : list deco) (arg : text) (w : fw) (body : fw -> res bool) : res bool :=
    match ds with
    | [] => body w
    | DConn fields _ fc :: r =>
        match find (fun f => negb (has_field (fw_s w) f)) fields with
        | Some _ => Ok true (reply w (t_of fc))
        | None => fdecos r arg w body
        end
    | DPathCond cs :: r =>
        match fconds cs (resolve (s_cwd (fw_s w)) arg) w with
        | Ok true w' => fdecos r arg w' body
        | Ok false w' => Ok true (reply w' (code "550"))
        | Fault pio w' => Fault pio w'
        end
    | DPathPerm ps :: r =>
        match ps, cur_user users (fw_s w) with
        | f :: _, Some u =>
            let pm := perm_of u (resolve (s_cwd (fw_s w)) arg) in
            if (if String.eqb f "readable" then pm_r pm else pm_w pm) then fdecos r arg w body
            else Ok true (reply w (code "550"))
        | [], _ => Ok true w
        | _, None => Ok false w
        end
    | DWorker :: r => fdecos r arg w body
    | DOther _ :: r => fdecos r arg w body
    end.

  (* ---- `async with i1, i2, ...:` enter in source order; [entered] is innermost first *)
  Fixpoint enter (items entered : list string) (open_op : node -> option (nat * node)) (pos : nat) (w : fw)
    : list string * res nat :=
    match items with
    | [] => (entered, Ok pos w)
    | it :: r =>
        if is_stream it then enter r (it :: entered) open_op pos w
        else match call "open" open_op w with
             | Ok p w' => enter r (it :: entered) open_op p w'
             | Fault pio w' => (entered, Fault pio w')
             end
    end.

  (* exits run innermost first, every entered item is exited; a raising close replaces the pending exception *)
  Fixpoint unwind (entered : list string) (exc : option bool) (w : fw) : option bool * fw :=
    match entered with
    | [] => (exc, w)
    | it :: r =>
        if is_stream it then unwind r exc (close_data w)
        else match call "close" nop w with
             | Ok _ w' => unwind r exc w'
             | Fault pio w' => unwind r (Some pio) w'
             end
    end.

  Definition scoped (items : list string) (open_op : node -> option (nat * node))
             (body : nat -> fw -> res unit) (done : string) (w : fw) : res bool :=
    match enter items [] open_op O w with
    | (entered, Fault pio w1) =>
        match unwind entered (Some pio) w1 with
        | (Some e, w2) => Fault e w2
        | (None, w2) => Fault pio w2
        end
    | (entered, Ok pos w1) =>
        match body pos w1 with
        | Ok _ w2 =>
            match unwind entered None w2 with
            | (None, w3) => Ok true (reply w3 (code done))      (* the completion reply follows the contexts *)
            | (Some e, w3) => Fault e w3
            end
        | Fault pio w2 =>
            match unwind entered (Some pio) w2 with
            | (Some e, w3) => Fault e w3
            | (None, w3) => Fault pio w3
            end
        end
    end.

  (* ---- worker bodies *)
  Fixpoint write_loop (p : list text) (cs : list (list Z)) (pos : nat) (w : fw) : res unit :=
    match cs with
    | [] => Ok tt w
    | c :: r =>
        match call "write" (write_op p pos c) w with
        | Ok _ w' => write_loop p r (pos + List.length c) w'
        | Fault pio w' => Fault pio w'
        end
    end.

  Definition stor_body (p : list text) (rest : Z) (payload : list Z) (pos : nat) (w : fw) : res unit :=
    if (0 <? rest)%Z then
      match call "seek" nop w with
      | Ok _ w' => write_loop p (chunks blk payload) (Z.to_nat rest) w'
      | Fault pio w' => Fault pio w'
      end
    else write_loop p (chunks blk payload) pos w.

  (* every block is one read; the read that returns b"" ends the loop *)
  Fixpoint read_loop (bs : list (list Z)) (w : fw) : res unit :=
    match bs with
    | [] =>
        match call "read" nop w with
        | Ok _ w' => Ok tt w'
        | Fault pio w' => Fault pio w'
        end
    | b :: r =>
        match call "read" nop w with
        | Ok _ w' => read_loop r (send b w')
        | Fault pio w' => Fault pio w'
        end
    end.

  Definition retr_body (p : list text) (rest : Z) (pos : nat) (w : fw) : res unit :=
    if (0 <? rest)%Z then
      match call "seek" nop w with
      | Ok _ w' => read_loop (chunks blk (skipn (Z.to_nat rest) (content_of p (fw_fs w')))) w'
      | Fault pio w' => Fault pio w'
      end
    else read_loop (chunks blk (content_of p (fw_fs w))) w.

  (* build_list_string behind the worker's own exists() test: exists; stat *)
  Definition list_entry (q : list text) (w : fw) : res bool :=
    match call "exists" (pure_op (probe_val "exists" q)) w with
    | Fault pio w' => Fault pio w'
    | Ok false w1 => Ok false w1
    | Ok true w1 =>
        match call "stat" (pure_op (fun n => lookup q n)) w1 with
        | Fault pio w' => Fault pio w'
        | Ok _ w2 => Ok true w2
        end
    end.

  (* build_mlsx_string: exists; stat (when it exists); is_file; is_dir (when not a file) *)
  Definition mlsx_entry (q : list text) (w : fw) : res bool :=
    match call "exists" (pure_op (probe_val "exists" q)) w with
    | Fault pio w' => Fault pio w'
    | Ok ex w1 =>
        match (if ex then
                 match call "stat" (pure_op (fun n => lookup q n)) w1 with
                 | Fault pio w' => Fault pio w'
                 | Ok _ w2 => Ok tt w2
                 end
               else Ok tt w1) with
        | Fault pio w' => Fault pio w'
        | Ok _ w2 =>
            match call "is_file" (pure_op (probe_val "is_file" q)) w2 with
            | Fault pio w' => Fault pio w'
            | Ok true w3 => Ok true w3
            | Ok false w3 =>
                match call "is_dir" (pure_op (probe_val "is_dir" q)) w3 with
                | Fault pio w' => Fault pio w'
                | Ok _ w4 => Ok true w4
                end
            end
        end
    end.

  (* `async for path in path_io.list(real_path)`: one list step per entry and one that ends the iteration *)
  Fixpoint list_loop (mlsx : bool) (p : list text) (names : list text) (w : fw) : res unit :=
    match names with
    | [] =>
        match call "list" nop w with
        | Ok _ w' => Ok tt w'
        | Fault pio w' => Fault pio w'
        end
    | x :: r =>
        match call "list" nop w with
        | Fault pio w' => Fault pio w'
        | Ok _ w1 =>
            match (if mlsx then mlsx_entry (p ++ [x]) w1 else list_entry (p ++ [x]) w1) with
            | Fault pio w' => Fault pio w'
            | Ok true w2 => list_loop mlsx p r (send x w2)
            | Ok false w2 => list_loop mlsx p r w2
            end
        end
    end.

  Definition no_open (n : node) : option (nat * node) := Some (O, n).

  (* ---- a handler that starts a worker: 150, then the worker waits for the data connection (425),
          detaches it from the session FIRST, and runs *)
  Definition spawn (worker : fw -> res bool) (w : fw) : res bool :=
    let w1 := reply w (code "150") in
    if s_data (fw_s w1) then worker (set_dst (upd_s w1 (set_data (fw_s w1) false)) StOpen)
    else Ok true (reply w1 (code "425")).

  Definition to_world (w : fw) : world := {| w_s := fw_s w; w_fs := fw_fs w; w_log := [] |}.
  Definition no_self (_ : string) (_ : text) (_ : dataact) (_ : bool) (x : world) : result := (x, mk_out [], true).

  (* ---- handler bodies; the ones that reach the backend are written at call granularity, the
          others are Session.body's *)
  Definition fbody (self : string -> text -> dataact -> bool -> fw -> res bool)
             (name : string) (arg : text) (d : dataact) (appe : bool) (w : fw) : res bool :=
    let s := fw_s w in
    let p := resolve (s_cwd s) arg in
    if String.eqb name "mkd" then
      match call "mkdir" (mut_op (mkdir_p p)) w with
      | Ok _ w' => Ok true (reply w' (code "257"))
      | Fault pio w' => Fault pio w'
      end
    else if String.eqb name "rmd" then
      match call "rmdir" (mut_op (rmdir p)) w with
      | Ok _ w' => Ok true (reply w' (code "250"))
      | Fault pio w' => Fault pio w'
      end
    else if String.eqb name "dele" then
      match call "unlink" (mut_op (unlink p)) w with
      | Ok _ w' => Ok true (reply w' (code "250"))
      | Fault pio w' => Fault pio w'
      end
    else if String.eqb name "rnto" then
      match s_rnfr s with
      | None => Ok true (reply w (code "503"))
      | Some src =>
          (* `del connection.rename_from` precedes the backend call *)
          match call "rename" (mut_op (rename src p)) (upd_s w (set_rnfr s None)) with
          | Ok _ w' => Ok true (reply w' (code "250"))
          | Fault pio w' => Fault pio w'
          end
      end
    else if String.eqb name "mlst" then
      match mlsx_entry p w with
      | Ok _ w' => Ok true (reply w' (code "250"))
      | Fault pio w' => Fault pio w'
      end
    else if String.eqb name "list" then
      spawn (fun w1 => scoped clist no_open (fun _ w2 => list_loop false p (names_of p (fw_fs w2)) w2) "226" w1) w
    else if String.eqb name "mlsd" then
      spawn (fun w1 => scoped cmlsd no_open (fun _ w2 => list_loop true p (names_of p (fw_fs w2)) w2) "200" w1) w
    else if String.eqb name "retr" then
      spawn (fun w1 => scoped cretr (open_r p) (retr_body p (s_rest s)) "226" w1) w
    else if String.eqb name "stor" then
      match call "is_dir" (pure_op (probe_val "is_dir" (removelast p))) w with
      | Fault pio w' => Fault pio w'
      | Ok false w' => Ok true (reply w' (code "550"))
      | Ok true w' =>
          let payload := match d with DSend b => b | DNone => [] end in
          spawn (fun w1 => scoped cstor (open_w p (if appe then MA else MW) (s_rest s))
                                  (stor_body p (s_rest s) payload) "226" w1) w'
      end
    else if String.eqb name "cdup" then self "cwd"%string (path_str (removelast (s_cwd s))) d false w
    else if String.eqb name "appe" then self "stor"%string arg d true w
    else
      let '(x, o, keep) := Session.body users no_self name arg d appe (to_world w) in
      Ok keep {| fw_s := w_s x; fw_fs := fw_fs w; fw_plan := fw_plan w; fw_n := fw_n w; fw_faults := fw_faults w;
                 fw_log := fw_log w; fw_codes := fw_codes w ++ o_codes o; fw_dst := fw_dst w;
                 fw_sent := fw_sent w; fw_info := o_info o |}.

  Fixpoint fhandler (fuel : nat) (name : string) (arg : text) (d : dataact) (appe : bool) (w : fw) : res bool :=
    match fuel with
    | O => Ok true w
    | S f =>
        match handler_of table name with
        | None => Ok true w
        | Some (ds, _) => fdecos ds arg w (fbody (fhandler f) name arg d appe)
        end
    end.

  (* ---- the dispatcher's reaction to a task that raised *)
  Definition responses (acts : list string) : list text :=
    flat_map (fun a => if prefix "response:" a then [t_of (substring 9 3 a)] else []) acts.

  Definition end_fw (w : fw) : fw := upd_s w (end_sess (fw_s w)).

  Definition on_raise (pio : bool) (w : fw) : fw :=
    match pio, react with
    | true, Some acts =>
        let w1 := {| fw_s := fw_s w; fw_fs := fw_fs w; fw_plan := fw_plan w; fw_n := fw_n w; fw_faults := fw_faults w;
                     fw_log := fw_log w; fw_codes := fw_codes w ++ responses acts; fw_dst := fw_dst w;
                     fw_sent := fw_sent w; fw_info := fw_info w |} in
        if mem_s "continue" acts then w1 else end_fw w1      (* falling out of the except block: result is unbound *)
    | _, _ => end_fw w                                         (* not caught: `except Exception` logs, the session closes *)
    end.

  Definition clear_rest (v : text) (w : fw) : fw :=
    if is_transfer v then upd_s w (set_rest (fw_s w) 0%Z) else w.

  Definition fstep (w0 : fw) (e : event) : fw :=
    let w := fresh w0 in
    if s_ended (fw_s w) then w
    else if text_eqb (e_verb e) V_DATACONN then
      if s_passive (fw_s w) && negb (s_data (fw_s w)) then upd_s w (set_data (fw_s w) true) else w
    else
      match verb_handler table (e_verb e) with
      | None => reply w (code "502")
      | Some h =>
          (* the dispatcher hands the pending restart offset to a transfer command (transfer_offset, read by
             the worker: here the handler simply still sees s_rest) and clears restart_offset for EVERY known
             verb - at dispatch, hence whether the command then completes, fails or raises *)
          let w1 := if is_transfer (e_verb e) then w else upd_s w (set_rest (fw_s w) 0%Z) in
          match fhandler 3 h (e_arg e) (e_data e) false w1 with
          | Ok true w2 => clear_rest (e_verb e) w2
          | Ok false w2 => end_fw (clear_rest (e_verb e) w2)
          | Fault pio w2 => on_raise pio (clear_rest (e_verb e) w2)
          end
      end.

  Fixpoint frun (w : fw) (es : list event) : fw * list fw :=
    match es with
    | [] => (w, [])
    | e :: r => let w1 := fstep w e in
                let '(w2, ws) := frun w1 r in (w2, w1 :: ws)
    end.

  (* ---- two sessions on one backend: the records of the sessions are separate, the tree (and the
          fault plan / ghosts) are shared; [who] selects the session that executes the command *)
  Record duo := { d_a : sess; d_b : sess; d_w : fw }.

  Definition step2 (who : bool) (x : duo) (e : event) : duo :=
    let w' := fstep (upd_s (d_w x) (if who then d_a x else d_b x)) e in
    {| d_a := if who then fw_s w' else d_a x; d_b := if who then d_b x else fw_s w'; d_w := w' |}.

  Fixpoint frun2 (x : duo) (es : list (bool * event)) : duo * list fw :=
    match es with
    | [] => (x, [])
    | (who, e) :: r => let x1 := step2 who x e in
                       let '(x2, ws) := frun2 x1 r in (x2, d_w x1 :: ws)
    end.
End F.

(* ------------------------------------------------------------------ reference parameters (today's source) *)
Local Open Scope string_scope.
Definition ref_conds : list (string * (string * bool)) :=
  [("path_must_exists", ("exists", false)); ("path_must_not_exists", ("exists", true));
   ("path_must_be_dir", ("is_dir", false)); ("path_must_be_file", ("is_file", false))].
Definition ref_react : option (list string) := Some ["response:451"; "continue"].
Definition ctx_file_first (f : string) : list string := [f; "stream"].
Definition ctx_stream_first (f : string) : list string := ["stream"; f].
Definition ctx_stream_only : list string := ["stream"].
Local Close Scope string_scope.

Definition init_fw (fs : node) (plan : list bool) : fw :=
  {| fw_s := init_sess; fw_fs := fs; fw_plan := plan; fw_n := 0; fw_faults := 0; fw_log := [];
     fw_codes := []; fw_dst := StNone; fw_sent := []; fw_info := [] |}.

(* ------------------------------------------------------------------ harness interface *)
Definition sx_of_string (s : string) : sx := sx_of_text (t_of s).
Definition sx_of_dst (d : dstate) : sx := I (match d with StNone => 0 | StOpen => 1 | StClosed => 2 end)%Z.

(* one executed command: [codes; data-stream state; blocks sent (oldest first); PWD text; session;
   backend calls of this command (oldest first) as (method, raised)] *)
Definition sx_of_step (before after : fw) : sx :=
  let k := (fw_n after - fw_n before)%nat in
  L [ sx_of_texts (fw_codes after); sx_of_dst (fw_dst after); sx_of_texts (rev (fw_sent after));
      sx_of_text (fw_info after); sx_of_sess (fw_s after);
      L (map (fun e => L [sx_of_string (fst e); sx_of_bool (snd e)]) (rev (firstn k (fw_log after)))) ].

Fixpoint sx_steps (w : fw) (ws : list fw) : list sx :=
  match ws with
  | [] => []
  | w1 :: r => sx_of_step w w1 :: sx_steps w1 r
  end.

Section Run.
  Variable table : list (string * (string * list deco * option string)).
  Variable conds : list (string * (string * bool)).
  Variable react : option (list string).
  Variable wrapped : string -> bool.
  Variables cstor cretr clist cmlsd : list string.

  (* fn 0: [users; tree; events [session 0/1; verb; arg; payload option]; plan (0/1 per backend call of the
           run); block size] -> [final session A; final session B; final tree; steps; total backend calls]
           (two sessions on one backend; a single-session script simply never selects session 1)
     fn 1: the structural parameters this binary was built with *)
  Definition run_faults (fn : Z) (a : sx) : sx :=
    match fn with
    | 0%Z =>
        let users := map user_of_sx (list_of_sx (nth_sx 0 a)) in
        let fs := node_of_sx_fuel 64 (nth_sx 1 a) in
        let es := map (fun x => (negb (bool_of_sx (nth_sx 0 x)),
                                 event_of_sx (L (tl (list_of_sx x))))) (list_of_sx (nth_sx 2 a)) in
        let plan := map bool_of_sx (list_of_sx (nth_sx 3 a)) in
        let blk := Z.to_nat (z_of_sx (nth_sx 4 a)) in
        let w0 := init_fw fs plan in
        let x0 := {| d_a := init_sess; d_b := init_sess; d_w := w0 |} in
        let '(x, ws) := frun2 users table conds react wrapped cstor cretr clist cmlsd blk x0 es in
        L [ sx_of_sess (d_a x); sx_of_sess (d_b x); sx_of_node_fuel 64 (fw_fs (d_w x)); L (sx_steps w0 ws);
            I (Z.of_nat (fw_n (d_w x))) ]
    | 1%Z =>
        L [ L (map sx_of_string cstor); L (map sx_of_string cretr); L (map sx_of_string clist);
            L (map sx_of_string cmlsd);
            match react with Some acts => L [L (map sx_of_string acts)] | None => L [] end;
            L (map (fun m => L [sx_of_string m; sx_of_bool (wrapped m)])
                   ["exists"; "is_dir"; "is_file"; "mkdir"; "rmdir"; "unlink"; "list"; "stat"; "open"; "seek";
                    "write"; "read"; "close"; "rename"]%string) ]
    | _ => sx_err 99
    end.
End Run.
