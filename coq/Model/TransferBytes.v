(* TransferBytes: the data path of STOR / APPE / RETR as written (C01).

     server.py  dispatcher:    for a known verb: if cmd in ("retr","stor","appe"): transfer_offset = restart_offset
                                                 restart_offset = 0
                stor_worker:   file_mode = "r+b" if transfer_offset else mode
                               async with stream, file_out:
                                   if transfer_offset: await file_out.seek(transfer_offset)
                                   async for data in stream.iter_by_block(block_size):
                                       await file_out.write(data)
                               response("226")
                retr_worker:   open "rb"; same seek; async for data in file_in.iter_by_block(block_size):
                                   await stream.write(data);   response("226") after the contexts
     common.py  AsyncStreamIterator.__anext__: data = await read(); return data if data else STOP
                (stops at the FIRST empty read); StreamIO.write = writer.write(data) + drain
     client.py  upload_stream / append_stream / download_stream (the caller's own chunks),
                upload() / download() (block loops over a local file)

   Nondeterminism is explicit: the network is a list of segments (any segmentation of the byte
   stream), every read takes an oracle (how many more segments have arrived before the read, how
   many of the available bytes it returns), every backend read takes a short-read oracle, a
   buffered backend takes a flush oracle.  The theorems quantify over all of them.
   No proofs here (Proofs/TransferBytes.v). *)
From Coq Require Import ZArith Bool Arith String List.
From Verif Require Import Lib.Sx Lib.Facts Lib.XferFacts Model.Bytes.
Import ListNotations.
Open Scope string_scope.
Open Scope list_scope.
Open Scope nat_scope.

(* ------------------------------------------------------------------------------------------ *)
(* The network and asyncio.StreamReader.read(block)                                            *)

(* k more segments arrive and are appended to the reader's buffer *)
Fixpoint deliver (k : nat) (buf : bytes) (net : list bytes) : bytes * list bytes :=
  match k, net with
  | S k', s :: net' => deliver k' (buf ++ s) net'
  | _, _ => (buf, net)
  end.

(* read() blocks while the buffer is empty and EOF has not arrived: segments keep arriving
   until the buffer is non-empty or the network is exhausted (then EOF is delivered) *)
Fixpoint wait_data (buf : bytes) (net : list bytes) : bytes * list bytes :=
  match buf, net with
  | [], s :: net' => wait_data s net'
  | _, _ => (buf, net)
  end.

(* one read(block): oracle o = (segments arriving first, requested length).
   Returns a non-empty prefix (at most block bytes) of what is buffered; empty only when the
   buffer is empty and the network is exhausted, i.e. at EOF. *)
Definition sock_read (block : nat) (o : nat * nat) (buf : bytes) (net : list bytes)
  : bytes * (bytes * list bytes) :=
  let '(b1, n1) := deliver (fst o) buf net in
  let '(b2, n2) := wait_data b1 n1 in
  let n := take_len block (snd o) (length b2) in
  (firstn n b2, (skipn n b2, n2)).

(* the values returned by successive read(block) calls, up to and including the first empty
   one.  When the oracle list is exhausted reads are full (0 extra segments, block bytes). *)
Fixpoint sock_reads (fuel block : nat) (oracle : list (nat * nat)) (buf : bytes) (net : list bytes)
  : list bytes :=
  match fuel with
  | O => []
  | S f =>
      let o := match oracle with [] => (O, block) | x :: _ => x end in
      let '(d, (b', n')) := sock_read block o buf net in
      match d with
      | [] => [[]]
      | _ :: _ => d :: sock_reads f block (tl oracle) b' n'
      end
  end.

(* every read before EOF returns at least one byte: fuel = bytes + 1 always suffices *)
Definition sock_trace (block : nat) (oracle : list (nat * nat)) (segs : list bytes) : list bytes :=
  sock_reads (S (length (concat segs))) block oracle [] segs.

(* an adversarial segmentation given by cut sizes: successive segments of the given lengths
   (a size 0 is read as 1), the remainder as a last segment *)
Fixpoint cut_by (sizes : list nat) (s : bytes) : list bytes :=
  match sizes with
  | [] => match s with [] => [] | _ :: _ => [s] end
  | n :: r =>
      match s with
      | [] => []
      | _ :: _ => firstn (Nat.max 1 n) s :: cut_by r (skipn (Nat.max 1 n) s)
      end
  end.

(* ------------------------------------------------------------------------------------------ *)
(* AsyncStreamIterator + the worker loops                                                      *)

(* the blocks the `async for` body sees: everything before the FIRST empty read *)
Fixpoint iter_blocks (reads : list bytes) : list bytes :=
  match reads with
  | [] => []
  | d :: r => match d with
              | [] => []
              | _ :: _ => d :: iter_blocks r
              end
  end.

(* async for data in stream.iter_by_block(bs): await file_out.write(data) *)
Fixpoint stor_loop (h : handle) (reads : list bytes) : handle :=
  match reads with
  | [] => h
  | d :: r => match d with
              | [] => h
              | _ :: _ => stor_loop (h_write d h) r
              end
  end.

(* async for data in file_in.iter_by_block(bs): await stream.write(data)
   (StreamIO.write queues all of data, in order, on the connection) *)
Fixpoint send_loop (sent : bytes) (reads : list bytes) : bytes :=
  match reads with
  | [] => sent
  | d :: r => match d with
              | [] => sent
              | _ :: _ => send_loop (sent ++ d) r
              end
  end.

(* the values returned by successive backend read(block) calls up to the first empty one;
   oracle: requested lengths (short reads), full reads when exhausted *)
Fixpoint file_reads (fuel block : nat) (oracle : list nat) (h : handle) : list bytes :=
  match fuel with
  | O => []
  | S f =>
      let r := match oracle with [] => block | x :: _ => x end in
      let '(d, h') := h_read block r h in
      match d with
      | [] => [[]]
      | _ :: _ => d :: file_reads f block (tl oracle) h'
      end
  end.

Definition file_trace (block : nat) (oracle : list nat) (h : handle) : list bytes :=
  file_reads (S (length (h_content h) - h_pos h)) block oracle h.

(* ------------------------------------------------------------------------------------------ *)
(* open-mode selection, parametric in the table extracted from stor_worker / retr_worker
   (Gen.Dispatch w_open_modes: "handed:<m>" (the worker's handed offset, connection.transfer_offset, is
   non-zero) / "nohanded:<m>" / "<m>", "$mode" = the verb's mode; the tags "restart:" / "norestart:" of
   the pre-F14 source, where the worker read connection.restart_offset itself, are NOT interpreted) *)

Definition mode_of_name (verb_mode : mode) (s : string) : option mode :=
  if String.eqb s "wb" then Some WB
  else if String.eqb s "ab" then Some AB
  else if String.eqb s "r+b" then Some RPB
  else if String.eqb s "rb" then Some RB
  else if String.eqb s "$mode" then Some verb_mode
  else None.

Definition strip_prefix (p s : string) : option string :=
  if String.prefix p s then Some (String.substring (String.length p) (String.length s - String.length p) s)
  else None.

Fixpoint select_mode (table : list string) (verb_mode : mode) (restart : bool) : option mode :=
  match table with
  | [] => None
  | e :: r =>
      match strip_prefix "handed:" e, strip_prefix "nohanded:" e with
      | Some m, _ => if restart then mode_of_name verb_mode m else select_mode r verb_mode restart
      | None, Some m => if restart then select_mode r verb_mode restart else mode_of_name verb_mode m
      | None, None => mode_of_name verb_mode e
      end
  end.

Definition expected_stor_modes : list string := ["handed:r+b"; "nohanded:$mode"]%string.
Definition expected_retr_modes : list string := ["rb"]%string.

(* mode argument each verb hands to stor(): Gen.Xfer (stor's default, appe's delegation) *)
Definition verb_mode_of_name (s : string) : option mode := mode_of_name RB s.

(* ------------------------------------------------------------------------------------------ *)
(* the workers                                                                                 *)

(* stor_worker: file content when both contexts have exited.  None = the mode table cannot be
   interpreted (then nothing is claimed). *)
Definition stor_worker (table : list string) (verb_mode : mode) (off : nat) (old : bytes)
           (reads : list bytes) : option bytes :=
  let restart := negb (off =? 0) in
  match select_mode table verb_mode restart with
  | None => None
  | Some m =>
      let h0 := h_open m old in
      let h1 := if restart then h_seek off h0 else h0 in
      Some (h_content (stor_loop h1 reads))
  end.

(* the same when the file may be MISSING (old = None).  "r+b" (and "rb") on a missing path raise
   FileNotFoundError on every backend (PathIO, AsyncPathIO, MemoryPathIO): the worker ends with
   451, nothing is created, no 226.  Outer option: the mode table is interpretable; inner: Some c =
   stored, 226 sent, content c; None = 451, the file is still missing. *)
Definition h_open_opt (m : mode) (old : option bytes) : option handle :=
  match old with
  | Some c => Some (h_open m c)
  | None => match m with
            | WB | AB => Some (h_open m [])
            | RPB | RB => None
            end
  end.

Definition stor_worker_on (table : list string) (verb_mode : mode) (off : nat) (old : option bytes)
           (reads : list bytes) : option (option bytes) :=
  let restart := negb (off =? 0) in
  match select_mode table verb_mode restart with
  | None => None
  | Some m =>
      match h_open_opt m old with
      | None => Some None
      | Some h0 =>
          let h1 := if restart then h_seek off h0 else h0 in
          Some (Some (h_content (stor_loop h1 reads)))
      end
  end.

(* retr_worker: bytes queued on the data connection before it is closed *)
Definition retr_worker (table : list string) (off : nat) (content : bytes)
           (block : nat) (oracle : list nat) : option bytes :=
  let restart := negb (off =? 0) in
  match select_mode table RB restart with
  | None => None
  | Some m =>
      let h0 := h_open m content in
      let h1 := if restart then h_seek off h0 else h0 in
      Some (send_loop [] (file_trace block oracle h1))
  end.

(* ------------------------------------------------------------------------------------------ *)
(* the client side                                                                             *)

(* upload_stream / append_stream: `await stream.write(c)` for each of the caller's chunks *)
Definition client_send (chunks : list bytes) : bytes := send_loop [] (chunks ++ [[]]).
(* NB an empty chunk written by the caller is a no-op on the wire; the model of the caller's
   chunk list therefore is `concat`: *)
Definition client_wire (chunks : list bytes) : bytes := concat chunks.

(* download_stream: `async for b in stream.iter_by_block(cb)` collected (stream.read() is the
   one-read case) *)
Definition client_recv (reads : list bytes) : bytes := send_loop [] reads.

(* upload(): async for block in file_in.iter_by_block(bs): await stream.write(block) *)
Definition client_upload_wire (local : bytes) (cblock : nat) (coracle : list nat) : bytes :=
  send_loop [] (file_trace cblock coracle (h_open RB local)).

(* download(): open(destination, "wb"); async for block in stream.iter_by_block(bs): write *)
Definition client_download_file (reads : list bytes) : bytes :=
  h_content (stor_loop (h_open WB []) reads).

(* ------------------------------------------------------------------------------------------ *)
(* HOW THE CALLER CONSUMES a readable object (the stream handed out by download_stream /
   get_stream, or a path-io file object): not one loop with one block size, but a PROGRAM.
   The object is abstract: a state, one read `rd block o s` (o: the oracle of that read) and
   what is still to come `rest s`.
     CIter block k os   a new `iter_by_block(block)` loop left with `break` after at most k
                        blocks (it also ends at the first empty read); `os`: one oracle per
                        __anext__ (missing ones: dflt).  AsyncStreamIterator keeps no state
                        besides `read_coro`, so RESUMING an interrupted iterator is another
                        CIter with the same block size.
     CRead n o          one direct `read(n)` between / after loops.
   Whatever is left when the program ends is taken by a final `read()`. *)
Section Consume.
  Variables (St Or : Type).
  Variable rd : nat -> Or -> St -> bytes * St.
  Variable rest : St -> bytes.
  Variable dflt : Or.

  Inductive cop : Type :=
  | CIter (block k : nat) (os : list Or)
  | CRead (n : nat) (o : Or).

  Fixpoint iter_take (k block : nat) (os : list Or) (s : St) : bytes * St :=
    match k with
    | O => ([], s)
    | S k' =>
        let '(d, s') := rd block (hd dflt os) s in
        match d with
        | [] => ([], s')
        | _ :: _ => let '(r, s'') := iter_take k' block (tl os) s' in (d ++ r, s'')
        end
    end.

  (* the iterator of seeded change C01-r6-2: every block handed out has already started the
     read of the next one; when the loop is left, that block is never looked at *)
  Fixpoint iter_take_prefetching (k block : nat) (os : list Or) (s : St) : bytes * St :=
    match k with
    | O => ([], s)
    | S k' =>
        let '(d, s') := rd block (hd dflt os) s in
        match d with
        | [] => ([], s')
        | _ :: _ =>
            match k' with
            | O => (d, snd (rd block (hd dflt (tl os)) s'))
            | S _ => let '(r, s'') := iter_take_prefetching k' block (tl os) s' in (d ++ r, s'')
            end
        end
    end.

  Definition cop_run (it : nat -> nat -> list Or -> St -> bytes * St) (op : cop) (s : St) : bytes * St :=
    match op with
    | CIter block k os => it k block os s
    | CRead n o => rd n o s
    end.

  Fixpoint consume_with (it : nat -> nat -> list Or -> St -> bytes * St) (prog : list cop) (s : St) : bytes :=
    match prog with
    | [] => rest s
    | op :: p => let '(d, s') := cop_run it op s in d ++ consume_with it p s'
    end.

  Definition consume := consume_with iter_take.

  Definition cop_ok (op : cop) : Prop :=
    match op with CIter block _ _ => 1 <= block | CRead n _ => 1 <= n end.
End Consume.
Arguments CIter {Or} _ _ _.
Arguments CRead {Or} _ _.
Arguments cop_ok {Or} _.

(* the two readable objects of aioftp *)
Definition sock_rd (block : nat) (o : nat * nat) (s : bytes * list bytes) : bytes * (bytes * list bytes) :=
  sock_read block o (fst s) (snd s).
Definition sock_rest (s : bytes * list bytes) : bytes := fst s ++ concat (snd s).
Definition sock_consume (prog : list (cop (nat * nat))) (segs : list bytes) : bytes :=
  consume _ _ sock_rd sock_rest (O, O) prog ([], segs).
Definition file_rest (h : handle) : bytes := skipn (h_pos h) (h_content h).
Definition file_consume (prog : list (cop nat)) (h : handle) : bytes :=
  consume _ _ h_read file_rest O prog h.

(* ------------------------------------------------------------------------------------------ *)
(* end to end (the network preserves the byte stream: `segs` is any segmentation of the wire)   *)

Definition e2e_stor (table : list string) (verb_mode : mode) (off : nat) (old : bytes)
           (block : nat) (segs : list bytes) (oracle : list (nat * nat)) : option bytes :=
  stor_worker table verb_mode off old (sock_trace block oracle segs).

(* RETR: the server's bytes cross the network cut at `cuts`, the client reads with its own
   block size and oracle *)
Definition e2e_retr (table : list string) (off : nat) (content : bytes)
           (block : nat) (foracle : list nat)
           (cuts : list nat) (cblock : nat) (coracle : list (nat * nat)) : option bytes :=
  match retr_worker table off content block foracle with
  | None => None
  | Some wire => Some (client_recv (sock_trace cblock coracle (cut_by cuts wire)))
  end.

(* ------------------------------------------------------------------------------------------ *)
(* what other sessions can see, and when the 226 is queued                                     *)

(* A backend may buffer writes (PathIO: a BufferedWriter): what another opener of the path sees
   is the `visible` content; a write reaches it when the flush oracle says so, close() always
   flushes.  Truncation by "wb" is visible at open. *)
Inductive step : Type :=
| SOpen (m : mode)
| SSeek (off : nat)
| SWrite (d : bytes) (flush : bool)
| SCloseStream
| SCloseFile
| SReply
| SCloseFileFail (k : nat)   (* close() raises after flushing only k bytes (quota / ENOSPC / EFBIG at the flush) *)
| SObserve.    (* some session stats / lists the path (MLST, MLSD, LIST): it is told length v_visible; observing changes nothing *)

Record vstate : Type := mkV {
  v_handle : handle;            (* the worker's own view *)
  v_visible : bytes;            (* what every other opener sees *)
  v_file_open : bool;
  v_at_reply : option (bytes * bool)   (* visible content and file_open when the 226 is queued *)
}.

Definition v_init (old : bytes) : vstate := mkV (mkH old 0) old false None.

Definition v_step (v : vstate) (s : step) : vstate :=
  match s with
  | SOpen m =>
      let h := h_open m (v_visible v) in
      mkV h (h_content h) true (v_at_reply v)
  | SSeek off => mkV (h_seek off (v_handle v)) (v_visible v) (v_file_open v) (v_at_reply v)
  | SWrite d flush =>
      let h := h_write d (v_handle v) in
      mkV h (if flush then h_content h else v_visible v) (v_file_open v) (v_at_reply v)
  | SCloseStream => v
  | SCloseFile => mkV (v_handle v) (h_content (v_handle v)) false (v_at_reply v)
  | SReply => mkV (v_handle v) (v_visible v) (v_file_open v) (Some (v_visible v, v_file_open v))
  | SCloseFileFail k => mkV (v_handle v) (firstn k (h_content (v_handle v))) false (v_at_reply v)
  | SObserve => v
  end.

(* the size a stat / listing reports: the size of what every opener sees *)
Definition observed_size (v : vstate) : nat := length (v_visible v).

Definition is_observe (s : step) : bool := match s with SObserve => true | _ => false end.
Definition strip_observe (l : list step) : list step := filter (fun s => negb (is_observe s)) l.

Definition v_run (old : bytes) (script : list step) : vstate := fold_left v_step script (v_init old).

Fixpoint write_steps (blocks : list bytes) (flushes : list bool) : list step :=
  match blocks with
  | [] => []
  | d :: r => SWrite d (hd false flushes) :: write_steps r (tl flushes)
  end.

(* the statement sequence of stor_worker, parametric in two structural facts: the items of its
   `async with` by role (Gen.Xfer xf_stor_ctx: "FILE", "STREAM"; entered in order, exited in
   reverse) and whether the completion reply follows the outermost async with (Gen.Dispatch
   w_reply_after_ctx) *)
Definition exit_steps (ctx : list string) : list step :=
  map (fun c => if String.eqb c "STREAM" then SCloseStream else SCloseFile) (rev ctx).

Definition stor_script (reply_after_ctx : bool) (ctx : list string) (m : mode) (off : nat)
           (blocks : list bytes) (flushes : list bool) : list step :=
  [SOpen m] ++ (if off =? 0 then [] else [SSeek off]) ++ write_steps blocks flushes
  ++ (if reply_after_ctx then exit_steps ctx ++ [SReply] else SReply :: exit_steps ctx).

(* the same statement sequence when the file's close() FAILS: the exception leaves the `async with`
   (the other context item is still exited) and the statement after it -- the completion reply --
   is never reached *)
Definition stor_script_close_fails (ctx : list string) (m : mode) (off : nat)
           (blocks : list bytes) (flushes : list bool) (k : nat) : list step :=
  [SOpen m] ++ (if off =? 0 then [] else [SSeek off]) ++ write_steps blocks flushes
  ++ map (fun c => if String.eqb c "STREAM" then SCloseStream else SCloseFileFail k) (rev ctx).

(* ------------------------------------------------------------------------------------------ *)
(* the restart offset across commands.  Dispatcher, for a verb of the table, when the command is
   dispatched and BEFORE its handler runs:
       if cmd in HANDED: connection.transfer_offset = connection.restart_offset
       if cmd not in EXEMPT: connection.restart_offset = 0        (today: EXEMPT is empty)
   a verb missing from the table only gets a 502; rest(): restart_offset := int(arg), by the handler,
   i.e. after the dispatcher's own clearing.  The transfer workers read transfer_offset.
   (HANDED = [] and EXEMPT = [retr; stor; appe] with workers reading restart_offset was the pre-F14
   source; the model keeps both lists as parameters so that shape stays expressible.) *)
Inductive cmdk : Type :=
| CRest (n : nat)
| CVerb (v : string).

Record ostate : Type := mkO { o_restart : nat; o_transfer : nat }.

Definition disp_verb (table : list (string * string)) (handed exempt : list string) (s : ostate) (v : string) : ostate :=
  match assoc_s v table with
  | None => s                 (* verb not in the table: "502 not implemented", nothing else happens *)
  | Some _ =>
      mkO (if mem_s v exempt then o_restart s else O)
          (if mem_s v handed then o_restart s else o_transfer s)
  end.

Definition disp_step (table : list (string * string)) (handed exempt : list string) (s : ostate) (c : cmdk) : ostate :=
  match c with
  | CRest n =>
      match assoc_s "rest" table with
      | Some _ => mkO n (o_transfer (disp_verb table handed exempt s "rest"))
      | None => s
      end
  | CVerb v => disp_verb table handed exempt s v
  end.

Definition offset_after (table : list (string * string)) (handed exempt : list string) (hist : list cmdk) (s : ostate) : ostate :=
  fold_left (disp_step table handed exempt) hist s.

(* the offset each handed command's worker reads, in order of the commands *)
Fixpoint transfer_trace (table : list (string * string)) (handed exempt : list string) (hist : list cmdk) (s : ostate) : list nat :=
  match hist with
  | [] => []
  | c :: r =>
      let s' := disp_step table handed exempt s c in
      match c with
      | CVerb v => match assoc_s v table with
                   | Some _ => if mem_s v handed then o_transfer s' :: transfer_trace table handed exempt r s'
                               else transfer_trace table handed exempt r s'
                   | None => transfer_trace table handed exempt r s'
                   end
      | CRest _ => transfer_trace table handed exempt r s'
      end
  end.

(* what Client.get_stream sends before the data flows: TYPE I, the passive command, REST o when
   o is non-zero, the transfer verb *)
Definition get_stream_cmds (passive verb : string) (off : nat) : list cmdk :=
  [CVerb "type"; CVerb passive] ++ (if off =? 0 then [] else [CRest off]) ++ [CVerb verb].

(* ------------------------------------------------------------------------------------------ *)
(* structural facts of today's source that the theorems are instantiated with *)
Definition list_string_eqb (a b : list string) : bool :=
  (Nat.eqb (List.length a) (List.length b)) && forallb (fun p => String.eqb (fst p) (snd p)) (combine a b).

Definition check_worker (ws : list worker) (name : string) (modes : list string) : bool :=
  match find_worker name ws with
  | None => false
  | Some w =>
      list_string_eqb (w_open_modes w) modes
      && w_reply_after_ctx w && w_detach_first w
      && match w_ctx w with [c] => Nat.eqb (List.length c) 2 | _ => false end   (* one async with, two items *)
      && list_string_eqb (w_codes w) ["226"%string]
  end.

Definition check_dispatch_facts (ws : list worker) (hs : list handler) (d : dispatcher_facts) : bool :=
  check_worker ws "stor_worker" expected_stor_modes
  && check_worker ws "retr_worker" expected_retr_modes
  && match find_handler "appe" hs with
     | Some h => match h_delegate h with Some t => String.eqb t "stor" | None => false end
     | None => false
     end
  && match find_handler "stor" hs with
     | Some h => list_string_eqb (h_spawns h) ["stor_worker"%string]
     | None => false
     end
  && match find_handler "retr" hs with
     | Some h => list_string_eqb (h_spawns h) ["retr_worker"%string]
     | None => false
     end
  && list_string_eqb (d_reset_exempt d) []
  && list_string_eqb (d_offset_handed d) ["retr"; "stor"; "appe"]%string
  && forallb (fun v => match assoc_s v (d_table d) with Some t => String.eqb t v | None => false end)
             ["stor"; "appe"; "retr"; "rest"; "type"; "pasv"; "epsv"]%string
  && d_table_literal d.

(* the data-path statements this model was written from (Gen.Xfer, role-normalised; locals are
   alpha-renamed L0, L1, .. in order of first occurrence, parameters and free variables keep their
   names; the dispatcher's locals are resolved by binding: HANDLER := commands_mapping.get(CMD),
   CMD, REST := the parsed command; early-exit shapes are flattened, see tools/py2v/gen_xfer.py) *)
(* the worker's one `async with` holds exactly the file and the data stream (either order: the
   reply comes after both have exited) *)
Definition ctx_roles_ok (ctx : list string) : bool :=
  Nat.eqb (List.length ctx) 2 && mem_s "FILE" ctx && mem_s "STREAM" ctx.

Definition check_xfer_modes (f : xfer_facts) : bool :=
  String.eqb (xf_stor_default_mode f) "wb" && String.eqb (xf_appe_mode f) "ab"
  && ctx_roles_ok (xf_stor_ctx f)
  && ctx_roles_ok (xf_retr_ctx f).

Definition check_xfer_shapes (f : xfer_facts) : bool :=
  list_string_eqb (xf_stor_body f)
       ["if conn.transfer_offset: await FILE.seek(conn.transfer_offset)";
        "async for ITEM in STREAM.iter_by_block(conn.block_size): await FILE.write(ITEM)"]
  && list_string_eqb (xf_retr_body f)
       ["if conn.transfer_offset: await FILE.seek(conn.transfer_offset)";
        "async for ITEM in FILE.iter_by_block(conn.block_size): await STREAM.write(ITEM)"]
  && String.eqb (xf_stor_open f) "conn.path_io.open(real_path, mode=file_mode)"
  && String.eqb (xf_retr_open f) "conn.path_io.open(real_path, mode='rb')"
  && list_string_eqb (xf_rest_body f)
       ["rest.isascii() and rest.isdigit() and (len(rest) <= 18) => conn.restart_offset = int(rest)";
        "not (rest.isascii() and rest.isdigit() and (len(rest) <= 18)) => conn.restart_offset = 0"]
  && list_string_eqb (xf_reset_stmt f)
       ["L0.add(asyncio.create_task(HANDLER(conn, REST)))";
        "if CMD in ('retr', 'stor', 'appe'): conn.transfer_offset = conn.restart_offset";
        "conn.restart_offset = 0"]
  && list_string_eqb (xf_offset_init f) ["restart_offset=0"; "transfer_offset=0"]
  (* the builders of MLST / MLSD / LIST answers keep no state of their own: the only attributes of the
     server object they touch are these helpers (a per-server cache of answers would show up here) *)
  (* the workers touch the backend through ONE call each: the open of real_path itself (no temporary
     sibling name, no rename, no unlink) *)
  && list_string_eqb (xf_worker_fs_calls f)
       ["conn.path_io.open(real_path, mode=file_mode)"; "--"; "conn.path_io.open(real_path, mode='rb')"]
  (* the file context's exit awaits close() and lets its exception out (no try / except around it) *)
  && list_string_eqb (xf_file_ctx_aexit f) ["if self.close is not None: await self.close()"]
  && list_string_eqb (xf_observer_state f)
       ["_build_mlsx_facts_from_stats"; "_format_mlsx_time"; "build_list_mtime"; "build_list_string";
        "build_mlsx_string"; "encoding"; "get_paths"]
  && list_string_eqb (xf_backend_wiring f)
       ["self.path_io_factory = pathio.PathIONursery(path_io_factory)";
        "connection.path_io = self.path_io_factory(**kw)"]
  && list_string_eqb (xf_nursery_call f)
       ["L0 = self.factory(*args, state=self.state, **kwargs)";
        "if self.state is None: self.state = L0.state"; "return L0"]
  && list_string_eqb (xf_iter_anext f)
       ["L0 = await self.read_coro()"; "if L0: return L0"; "raise StopAsyncIteration"]
  && list_string_eqb (xf_iter_by_block_stream f) ["return AsyncStreamIterator(lambda: self.read(count))"]
  && list_string_eqb (xf_iter_by_block_file f) ["return AsyncStreamIterator(lambda: self.read(count))"]
  && list_string_eqb (xf_throttle_read f)
       ["await self.wait('read')"; "L0 = _now()"; "L1 = await super().read(count)";
        "self.append('read', L1, L0)"; "return L1"]
  && list_string_eqb (xf_throttle_write f)
       ["await self.wait('write')"; "L0 = _now()"; "await super().write(data)";
        "self.append('write', data, L0)"]
  && list_string_eqb (xf_stream_read f) ["return await self.reader.read(count)"]
  && list_string_eqb (xf_stream_write f) ["self.writer.write(data)"; "await self.writer.drain()"]
  && (1 <=? xf_default_block_size f)%Z
  && list_string_eqb (xf_get_stream f)
       ["L0, L1 = await self.get_passive_connection(conn_type)";
        "if offset: await self.command('REST ' + str(offset), '350')";
        "await self.command(*command_args)"]
  && String.eqb (xf_passive_first_cmd f) "self.command('TYPE ' + conn_type, '200')"
  && match xf_stream_verbs f with
     | [(n1, a1); (n2, a2); (n3, a3)] =>
         String.eqb n1 "upload_stream" && list_string_eqb a1 ["'STOR ' + str(PATH)"; "'1xx'"; "offset=offset"]
         && String.eqb n2 "append_stream" && list_string_eqb a2 ["'APPE ' + str(PATH)"; "'1xx'"; "offset=offset"]
         && String.eqb n3 "download_stream" && list_string_eqb a3 ["'RETR ' + str(PATH)"; "'1xx'"; "offset=offset"]
     | _ => false
     end
  && list_string_eqb (xf_finish f)
       ["self.close()"; "await self.client.command(None, expected_codes, wait_codes)"]
  && list_string_eqb (xf_aexit f) ["if exc is None: await self.finish() else: self.close()"]
  && list_string_eqb (xf_upload_file f)
       ["async with self.path_io.open(SRC, mode='rb') as L0, self.upload_stream(DST) as L1: async for L2 in L0.iter_by_block(block_size): await L1.write(L2)"]
  && list_string_eqb (xf_download_file f)
       ["async with self.path_io.open(DST, mode='wb') as L0, self.download_stream(SRC) as L1: async for L2 in L1.iter_by_block(block_size): await L0.write(L2)"].

Definition check_xfer_facts (f : xfer_facts) : bool := check_xfer_modes f && check_xfer_shapes f.

(* the mode each upload verb hands to stor(): STOR the default of the `mode` parameter, APPE the
   literal it delegates with *)
Definition verb_mode (f : xfer_facts) (verb : string) : option mode :=
  if String.eqb verb "stor" then verb_mode_of_name (xf_stor_default_mode f)
  else if String.eqb verb "appe" then verb_mode_of_name (xf_appe_mode f)
  else None.

(* ------------------------------------------------------------------------------------------ *)
(* harness interface *)
Definition oracle2_of_sx (s : sx) : list (nat * nat) :=
  map (fun p => (nat_of_sx (nth_sx 0 p), nat_of_sx (nth_sx 1 p))) (list_of_sx s).

Definition sx_of_obytes (o : option bytes) : sx :=
  match o with Some b => sx_ok (sx_of_bytes b) | None => sx_err 1 end.

Definition cmdk_of_sx (s : sx) : cmdk :=
  (* (0 n) = REST n ; (1 k) = verb: 0 type 1 pasv 2 epsv 3 stor 4 appe 5 retr 6 other *)
  match z_of_sx (nth_sx 0 s) with
  | 0%Z => CRest (nat_of_sx (nth_sx 1 s))
  | _ => CVerb (match z_of_sx (nth_sx 1 s) with
                | 0%Z => "type" | 1%Z => "pasv" | 2%Z => "epsv" | 3%Z => "stor"
                | 4%Z => "appe" | 5%Z => "retr" | _ => "noop"
                end)%string
  end.

Definition run_bytes (fn : Z) (a : sx) : sx :=
  match fn with
  | 0%Z => (* write_at off data old *)
      sx_of_bytes (write_at (nat_of_sx (nth_sx 0 a)) (bytes_of_sx (nth_sx 1 a)) (bytes_of_sx (nth_sx 2 a)))
  | 1%Z => (* spec_store mode off payload old *)
      sx_of_bytes (spec_store (mode_of_sx (nth_sx 0 a)) (nat_of_sx (nth_sx 1 a))
                              (bytes_of_sx (nth_sx 2 a)) (bytes_of_sx (nth_sx 3 a)))
  | 2%Z => (* spec_retr off content *)
      sx_of_bytes (spec_retr (nat_of_sx (nth_sx 0 a)) (bytes_of_sx (nth_sx 1 a)))
  | 3%Z => (* e2e_stor: mode off old block cuts oracle payload *)
      sx_of_obytes (e2e_stor expected_stor_modes (mode_of_sx (nth_sx 0 a)) (nat_of_sx (nth_sx 1 a))
                             (bytes_of_sx (nth_sx 2 a)) (nat_of_sx (nth_sx 3 a))
                             (cut_by (nats_of_sx (nth_sx 4 a)) (bytes_of_sx (nth_sx 6 a)))
                             (oracle2_of_sx (nth_sx 5 a)))
  | 4%Z => (* e2e_retr: off content block foracle cuts cblock coracle *)
      sx_of_obytes (e2e_retr expected_retr_modes (nat_of_sx (nth_sx 0 a)) (bytes_of_sx (nth_sx 1 a))
                             (nat_of_sx (nth_sx 2 a)) (nats_of_sx (nth_sx 3 a))
                             (nats_of_sx (nth_sx 4 a)) (nat_of_sx (nth_sx 5 a))
                             (oracle2_of_sx (nth_sx 6 a)))
  | 5%Z => (* sock_trace block oracle segs : the read trace itself *)
      sx_of_byteses (sock_trace (nat_of_sx (nth_sx 0 a)) (oracle2_of_sx (nth_sx 1 a))
                                (byteses_of_sx (nth_sx 2 a)))
  | 6%Z => (* file_trace block oracle content pos *)
      sx_of_byteses (file_trace (nat_of_sx (nth_sx 0 a)) (nats_of_sx (nth_sx 1 a))
                                (mkH (bytes_of_sx (nth_sx 2 a)) (nat_of_sx (nth_sx 3 a))))
  | 7%Z => (* stor_loop on a scripted read trace (may be non-conforming): mode old off reads *)
      let h0 := h_open (mode_of_sx (nth_sx 0 a)) (bytes_of_sx (nth_sx 1 a)) in
      let off := nat_of_sx (nth_sx 2 a) in
      let h1 := if off =? 0 then h0 else h_seek off h0 in
      sx_of_bytes (h_content (stor_loop h1 (byteses_of_sx (nth_sx 3 a))))
  | 8%Z => (* stor_script: reply_after ctx_kind mode off old blocks flushes -> (visible at reply, open at reply, final visible) *)
      let ctx := (if bool_of_sx (nth_sx 1 a) then ["FILE"; "STREAM"] else ["STREAM"; "FILE"])%string in
      let v := v_run (bytes_of_sx (nth_sx 4 a))
                     (stor_script (bool_of_sx (nth_sx 0 a)) ctx (mode_of_sx (nth_sx 2 a))
                                  (nat_of_sx (nth_sx 3 a)) (byteses_of_sx (nth_sx 5 a))
                                  (map bool_of_sx (list_of_sx (nth_sx 6 a)))) in
      match v_at_reply v with
      | Some (vis, op) => L [sx_of_bytes vis; sx_of_bool op; sx_of_bytes (v_visible v)]
      | None => sx_err 2
      end
  | 9%Z => (* transfer_trace (today's table / handed / exempt) hist: the offset each transfer command is served from *)
      L (map sx_of_nat
          (transfer_trace (map (fun v => (v, v)) ["type"; "pasv"; "epsv"; "stor"; "appe"; "retr"; "rest"]%string)
                          ["retr"; "stor"; "appe"]%string [] (map cmdk_of_sx (list_of_sx (nth_sx 0 a))) (mkO O O)))
  | 10%Z => (* upload(): local cblock coracle -> wire ; download(): reads -> file *)
      sx_of_bytes (client_upload_wire (bytes_of_sx (nth_sx 0 a)) (nat_of_sx (nth_sx 1 a)) (nats_of_sx (nth_sx 2 a)))
  | 11%Z =>
      sx_of_bytes (client_download_file (byteses_of_sx (nth_sx 0 a)))
  | 12%Z => (* cut_by sizes s *)
      sx_of_byteses (cut_by (nats_of_sx (nth_sx 0 a)) (bytes_of_sx (nth_sx 1 a)))
  | 15%Z => (* stor_worker_on: mode off old-or-missing reads ; (0 (0 bytes)) stored, (0 (1)) = 451 and still missing *)
      let old := match list_of_sx (nth_sx 2 a) with
                 | [] => None
                 | x :: _ => Some (bytes_of_sx x)
                 end in
      match stor_worker_on expected_stor_modes (mode_of_sx (nth_sx 0 a)) (nat_of_sx (nth_sx 1 a)) old
                           (byteses_of_sx (nth_sx 3 a)) with
      | None => sx_err 1
      | Some None => sx_ok (L [I 1%Z])
      | Some (Some c) => sx_ok (L [I 0%Z; sx_of_bytes c])
      end
  | _ => sx_err 99
  end.
