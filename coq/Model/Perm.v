(* Model of the permission lookup and decision (C04):
     Permission.is_parent, User.get_permissions             (server.py:67-72,145-161)
     PathPermissions.__call__ wrapper                       (server.py:511-550)
   and a checker over the structural facts of the dispatch table (Lib/Facts.v; the data is the
   regenerated Gen/Dispatch.v, instantiated in Props/C04.v). *)
From Coq Require Import ZArith List Bool String.
From Verif Require Import Lib.Sx Lib.PyStr Lib.PosixPath Lib.Facts Model.Paths.
Import ListNotations.
Open Scope list_scope.
Open Scope Z_scope.

(* p_id is a ghost tag (position in the user's list; -1 for the default) so that the harness can
   compare object identity; no model function inspects it *)
Record perm : Type := mkperm { p_id : Z; p_path : ppath; p_read : bool; p_write : bool }.

(* Permission() : path "/", readable, writable *)
Definition default_perm : perm := mkperm (-1) (parse [SLASH]) true true.

(* try: other.relative_to(self.path); return True / except ValueError: return False *)
Definition is_parent (p : perm) (other : ppath) : bool :=
  match relative_to other (p_path p) with Some _ => true | None => false end.

(* key=lambda p: len(path.relative_to(p.path).parts) *)
Definition key (path : ppath) (p : perm) : nat :=
  match relative_to path (p_path p) with
  | Some r => List.length (pparts r)
  | None => O                                   (* not reached: only called on filtered entries *)
  end.

(* min(iterable, key=k): the FIRST element with the least key *)
Fixpoint min_by (k : perm -> nat) (l : list perm) (best : perm) : perm :=
  match l with
  | [] => best
  | x :: r => if Nat.ltb (k x) (k best) then min_by k r x else min_by k r best
  end.

Definition get_permissions (perms : list perm) (path : ppath) : perm :=
  match filter (fun p => is_parent p path) perms with
  | [] => default_perm                          (* default=Permission() *)
  | x :: r => min_by (key path) r x
  end.

(* ---- independent specification: one pass, by depth of the entry ---- *)
Definition ancestor (a path : ppath) : bool :=
  (anchor a =? anchor path) && is_prefix (parts a) (parts path).
Definition depth (p : perm) : nat := List.length (parts (p_path p)).

Fixpoint nearest_from (path : ppath) (l : list perm) (best : option perm) : option perm :=
  match l with
  | [] => best
  | x :: r =>
      if ancestor (p_path x) path then
        match best with
        | None => nearest_from path r (Some x)
        | Some b => if Nat.ltb (depth b) (depth x) then nearest_from path r (Some x)
                    else nearest_from path r best
        end
      else nearest_from path r best
  end.

(* the entry with the longest path that is an ancestor-or-equal, first in list order among
   equals; allow-all when there is none *)
Definition nearest (perms : list perm) (path : ppath) : perm :=
  match nearest_from path perms None with Some p => p | None => default_perm end.

(* ---- PathPermissions wrapper ----
     for permission in self.permissions:
         if not getattr(current_permission, permission):
             connection.response("550", "permission denied"); return True
         return await f(cls, connection, rest, *args)          <- inside the for
   so only the FIRST listed flag is ever looked at; with no flag at all the wrapper falls off
   the loop and returns None without calling f. *)
Inductive flag : Type := Readable | Writable.
Definition getflag (p : perm) (f : flag) : bool :=
  match f with Readable => p_read p | Writable => p_write p end.

Inductive pp_outcome : Type :=
| Deny550                 (* response 550 "permission denied", handler body not run *)
| CallBody                (* the wrapped handler runs *)
| FallThrough.            (* no flag listed: returns None, body not run *)

Definition path_permissions (flags : list flag) (cur : perm) : pp_outcome :=
  match flags with
  | [] => FallThrough
  | f :: _ => if getflag cur f then CallBody else Deny550
  end.

(* the whole wrapper: resolve, look up on the VIRTUAL path, decide.  None = get_paths raised *)
Definition authorise (base cwd : ppath) (perms : list perm) (flags : list flag) (rest : text)
  : option (pp_outcome * perm) :=
  match get_paths base cwd rest with
  | None => None
  | Some (_, virt) => let cur := get_permissions perms virt in
                      Some (path_permissions flags cur, cur)
  end.

(* ---- checker over the dispatch facts ---- *)
Local Open Scope string_scope.

Definition flag_of_string (s : string) : option flag :=
  if String.eqb s "readable" then Some Readable
  else if String.eqb s "writable" then Some Writable else None.

Definition reader_verbs : list string := ["cwd"; "cdup"; "list"; "mlsd"; "mlst"; "retr"].
Definition writer_verbs : list string := ["mkd"; "rmd"; "dele"; "rnfr"; "rnto"; "stor"; "appe"].

(* the flag lists of the PathPermissions decorators of a handler, in order *)
Definition perm_decos (h : handler) : list (list string) :=
  flat_map (fun d => match d with DPathPerm l => [l] | _ => [] end) (h_decos h).

(* a delegating body is `return await self.X(connection, ...)`: X is the decorated method *)
Fixpoint resolve_handler (fuel : nat) (hs : list handler) (n : string) : option handler :=
  match fuel with
  | O => None
  | S f =>
      match find_handler n hs with
      | None => None
      | Some h => match h_delegate h with
                  | Some n' => resolve_handler f hs n'
                  | None => Some h
                  end
      end
  end.

Definition verb_handler (d : dispatcher_facts) (hs : list handler) (verb : string) : option handler :=
  match assoc_s verb (d_table d) with
  | Some n => resolve_handler 4 hs n
  | None => None
  end.

Fixpoint strings_eqb (a b : list string) : bool :=
  match a, b with
  | [], [] => true
  | x :: a', y :: b' => String.eqb x y && strings_eqb a' b'
  | _, _ => false
  end.

(* the verb's (delegation-resolved) handler has exactly one PathPermissions decorator and it
   lists exactly the flag fl *)
Definition verb_carries (d : dispatcher_facts) (hs : list handler) (fl verb : string) : bool :=
  match verb_handler d hs verb with
  | Some h => match perm_decos h with
              | [l] => strings_eqb l [fl]
              | _ => false
              end
  | None => false
  end.

Definition is_nil {A} (l : list A) : bool := match l with [] => true | _ => false end.

(* a delegator does nothing by itself before the delegate's decorators run *)
Definition delegator_inert (h : handler) : bool :=
  match h_delegate h with
  | None => true
  | Some _ => is_nil (h_backend h) && is_nil (h_conn_sets h) && is_nil (h_conn_dels h)
              && is_nil (h_spawns h) && is_nil (h_codes h) && negb (h_starts_passive h)
              && is_nil (perm_decos h)
  end.

Definition check_perm_table (d : dispatcher_facts) (hs : list handler) : bool :=
  forallb (verb_carries d hs "readable") reader_verbs
  && forallb (verb_carries d hs "writable") writer_verbs
  (* every PathPermissions decorator anywhere lists exactly one flag, a known one *)
  && forallb (fun h => forallb (fun l => match l with
                                         | [f] => match flag_of_string f with Some _ => true | None => false end
                                         | _ => false end) (perm_decos h)) hs
  && forallb delegator_inert hs
  (* every handler whose body resolves a client path is permission-checked *)
  && forallb (fun h => negb (h_get_paths h) || negb (is_nil (perm_decos h))) hs.

(* what the table makes the wrapper decide for a verb *)
Definition verb_outcome (d : dispatcher_facts) (hs : list handler) (verb : string) (cur : perm)
  : option pp_outcome :=
  match verb_handler d hs verb with
  | Some h =>
      match perm_decos h with
      | [l] => Some (path_permissions (flat_map (fun s => match flag_of_string s with
                                                          | Some f => [f] | None => [] end) l) cur)
      | _ => None
      end
  | None => None
  end.

(* ---- harness interface ---- *)
Local Open Scope Z_scope.
Definition perm_of_sx (s : sx) : perm :=
  mkperm (z_of_sx (nth_sx 0 s)) (parse (text_of_sx (nth_sx 1 s)))
         (bool_of_sx (nth_sx 2 s)) (bool_of_sx (nth_sx 3 s)).
Definition sx_of_perm (p : perm) : sx :=
  L [I (p_id p); sx_of_ppath (p_path p); sx_of_bool (p_read p); sx_of_bool (p_write p)].
Definition flag_of_sx (s : sx) : flag := if z_of_sx s =? 0 then Readable else Writable.
Definition sx_of_outcome (o : pp_outcome) : sx :=
  I (match o with Deny550 => 550 | CallBody => 0 | FallThrough => 1 end).

Definition run_perm (fn : Z) (a : sx) : sx :=
  let perms := map perm_of_sx (list_of_sx (nth_sx 0 a)) in
  match fn with
  | 40 => sx_of_perm (get_permissions perms (parse (text_of_sx (nth_sx 1 a))))
  | 41 => sx_of_perm (nearest perms (parse (text_of_sx (nth_sx 1 a))))
  | 42 => (* perms, flags, base, cwd, rest *)
      match authorise (parse (text_of_sx (nth_sx 2 a))) (parse (text_of_sx (nth_sx 3 a))) perms
                      (map flag_of_sx (list_of_sx (nth_sx 1 a))) (text_of_sx (nth_sx 4 a)) with
      | Some (o, cur) => sx_ok (L [sx_of_outcome o; sx_of_perm cur])
      | None => sx_err 1
      end
  | _ => sx_err 99
  end.
