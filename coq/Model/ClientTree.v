(* Model of the client's tree operations (C09):
     Client.upload / download / list(recursive) / remove / make_directory / exists / stat
                                                                     (client.py)
   A tree is a finite rose tree; the remote file system is a tree plus the session's
   current directory; the client functions are transcribed from the Python as functions
   issuing abstract remote operations (Stat/Exists, Mkd, Stor, List, Dele, Rmd, Retr)
   which are interpreted relative to the server-side cwd.  Queue-based walks carry fuel;
   running out of fuel is the distinguished result [OutOfFuel] which the theorems exclude.
   No proofs here (Proofs/ClientTree.v). *)
From Coq Require Import ZArith List Bool.
From Verif Require Import Lib.Sx.
Import ListNotations.
Open Scope Z_scope.

Definition name := text.

Inductive tree : Type :=
| File (content : list Z)
| Dir (children : list (name * tree)).

Fixpoint name_eqb (a b : name) : bool :=
  match a, b with
  | [], [] => true
  | x :: a', y :: b' => (x =? y) && name_eqb a' b'
  | _, _ => false
  end.

(* ------------------------------------------------------------------ *)
(* minimal pure-path algebra (PurePosixPath on well-formed parts)      *)

Record ppath : Type := mkp { p_abs : bool; p_parts : list name }.

(* PurePosixPath(name): the empty string has no parts *)
Definition of_name (n : name) : ppath :=
  mkp false (match n with [] => [] | _ => [n] end).

(* a / b *)
Definition pjoin (a b : ppath) : ppath :=
  if p_abs b then b else mkp (p_abs a) (p_parts a ++ p_parts b).

(* .name ('' when there are no parts) *)
Definition pname (p : ppath) : name := last (p_parts p) [].

(* .parent *)
Definition pparent (p : ppath) : ppath := mkp (p_abs p) (removelast (p_parts p)).

Fixpoint strip_prefix (pre p : list name) : option (list name) :=
  match pre with
  | [] => Some p
  | a :: pre' =>
      match p with
      | [] => None
      | b :: p' => if name_eqb a b then strip_prefix pre' p' else None
      end
  end.

(* p.relative_to(base); None = ValueError *)
Definition prelative_to (p base : ppath) : option ppath :=
  if Bool.eqb (p_abs p) (p_abs base)
  then match strip_prefix (p_parts base) (p_parts p) with
       | Some r => Some (mkp false r)
       | None => None
       end
  else None.

(* how the server reads a path argument: relative to the session's cwd *)
Definition resolve (cwd : list name) (p : ppath) : list name :=
  if p_abs p then p_parts p else cwd ++ p_parts p.

(* ------------------------------------------------------------------ *)
(* file-system trees                                                   *)

Fixpoint assoc (n : name) (l : list (name * tree)) : option tree :=
  match l with
  | [] => None
  | (m, t) :: r => if name_eqb n m then Some t else assoc n r
  end.

(* replace in place, or append at the end (the order MemoryPathIO keeps) *)
Fixpoint set_child (n : name) (v : tree) (l : list (name * tree)) : list (name * tree) :=
  match l with
  | [] => [(n, v)]
  | (m, t) :: r => if name_eqb n m then (m, v) :: r else (m, t) :: set_child n v r
  end.

Fixpoint del_child (n : name) (l : list (name * tree)) : list (name * tree) :=
  match l with
  | [] => []
  | (m, t) :: r => if name_eqb n m then r else (m, t) :: del_child n r
  end.

Definition as_dir (t : tree) : list (name * tree) :=
  match t with Dir ch => ch | File _ => [] end.

Definition child_or (n : name) (ch : list (name * tree)) : tree :=
  match assoc n ch with Some c => c | None => Dir [] end.

Definition is_dir (t : tree) : bool := match t with Dir _ => true | File _ => false end.

Fixpoint lookup (t : tree) (p : list name) : option tree :=
  match p with
  | [] => Some t
  | n :: r =>
      match t with
      | Dir ch => match assoc n ch with Some c => lookup c r | None => None end
      | File _ => None
      end
  end.

(* what an observer sees at a path *)
Inductive entry : Type := EFile (c : list Z) | EDir.
Definition entry_of (t : tree) : entry := match t with File c => EFile c | Dir _ => EDir end.
Definition look (t : tree) (p : list name) : option entry := option_map entry_of (lookup t p).

(* some proper prefix of p is a file *)
Fixpoint blocked (t : tree) (p : list name) : bool :=
  match p with
  | [] => false
  | n :: r =>
      match t with
      | File _ => true
      | Dir ch => match assoc n ch with Some c => blocked c r | None => false end
      end
  end.

(* total update: walk down p creating directories on the way, apply f at the end *)
Fixpoint update_at (t : tree) (p : list name) (f : tree -> tree) : tree :=
  match p with
  | [] => f t
  | n :: r => let ch := as_dir t in Dir (set_child n (update_at (child_or n ch) r f) ch)
  end.

Definition dirify (t : tree) : tree := Dir (as_dir t).
Definition ensure_dir (t : tree) (p : list name) : tree := update_at t p dirify.
Definition write_at (t : tree) (p : list name) (c : list Z) : tree := update_at t p (fun _ => File c).

Fixpoint remove_at (t : tree) (p : list name) : tree :=
  match p with
  | [] => t
  | n :: r =>
      match t with
      | File _ => t
      | Dir ch =>
          match r with
          | [] => Dir (del_child n ch)
          | _ => match assoc n ch with
                 | Some c => Dir (set_child n (remove_at c r) ch)
                 | None => t
                 end
          end
      end
  end.

(* the specification of upload/download: src laid over whatever is at the destination *)
Fixpoint overlay (src : tree) (t : tree) : tree :=
  match src with
  | File c => File c
  | Dir sch =>
      Dir ((fix go (l : list (name * tree)) (ch : list (name * tree)) : list (name * tree) :=
              match l with
              | [] => ch
              | (n, s) :: r => go r (set_child n (overlay s (child_or n ch)) ch)
              end) sch (as_dir t))
  end.

Definition graft (t : tree) (p : list name) (src : tree) : tree := update_at t p (overlay src).

Fixpoint tree_size (t : tree) : nat :=
  match t with
  | File _ => 1%nat
  | Dir ch => S ((fix go (l : list (name * tree)) : nat :=
                    match l with [] => O | (_, c) :: r => (tree_size c + go r)%nat end) ch)
  end.

(* every node strictly below a directory, with its path (prefixed by `pre`), in preorder *)
Fixpoint nodes (pre : list name) (t : tree) : list (list name * tree) :=
  match t with
  | File _ => []
  | Dir ch =>
      (fix go (l : list (name * tree)) : list (list name * tree) :=
         match l with
         | [] => []
         | (n, c) :: r => (pre ++ [n], c) :: nodes (pre ++ [n]) c ++ go r
         end) ch
  end.

(* what a recursive listing must return: every entry once, with its path and type *)
Definition entries (pre : list name) (t : tree) : list (list name * bool) :=
  map (fun pt => (fst pt, is_dir (snd pt))) (nodes pre t).

(* ------------------------------------------------------------------ *)
(* results                                                             *)

Inductive res (A : Type) : Type :=
| Ok (a : A)
| Fail (code : Z)       (* a command was refused: StatusCodeError / PathIOError propagates *)
| OutOfFuel.
Arguments Ok {A} a.
Arguments Fail {A} code.
Arguments OutOfFuel {A}.

Definition bind {A B} (r : res A) (f : A -> res B) : res B :=
  match r with Ok a => f a | Fail c => Fail c | OutOfFuel => OutOfFuel end.

(* ------------------------------------------------------------------ *)
(* the remote operations, interpreted relative to the server-side cwd   *)

(* Stat p (MLST, or LIST of the parent): None = 550; Some true = directory *)
Definition r_stat (cwd : list name) (fs : tree) (p : ppath) : option bool :=
  option_map is_dir (lookup fs (resolve cwd p)).

(* Mkd p: 550 when it exists; mkdir(parents=True) *)
Definition r_mkd (cwd : list name) (fs : tree) (p : ppath) : res tree :=
  let a := resolve cwd p in
  match lookup fs a with
  | Some _ => Fail 550
  | None => if blocked fs a then Fail 451 else Ok (ensure_dir fs a)
  end.

(* Stor p bytes: parent must be a directory; the target must not be one *)
Definition r_stor (cwd : list name) (fs : tree) (p : ppath) (c : list Z) : res tree :=
  let a := resolve cwd p in
  match a with
  | [] => Fail 451
  | _ => match lookup fs (removelast a) with
         | Some (Dir _) =>
             match lookup fs a with
             | Some (Dir _) => Fail 451
             | _ => Ok (write_at fs a c)
             end
         | _ => Fail 550
         end
  end.

(* List p: (name, is_dir) of every child, in backend order *)
Definition r_list (cwd : list name) (fs : tree) (p : ppath) : res (list (name * bool)) :=
  match lookup fs (resolve cwd p) with
  | None => Fail 550
  | Some (File _) => Ok []
  | Some (Dir ch) => Ok (map (fun nt => (fst nt, is_dir (snd nt))) ch)
  end.

Definition r_dele (cwd : list name) (fs : tree) (p : ppath) : res tree :=
  let a := resolve cwd p in
  match lookup fs a with
  | Some (File _) => Ok (remove_at fs a)
  | _ => Fail 550
  end.

Definition r_rmd (cwd : list name) (fs : tree) (p : ppath) : res tree :=
  let a := resolve cwd p in
  match a with
  | [] => Fail 451
  | _ => match lookup fs a with
         | Some (Dir []) => Ok (remove_at fs a)
         | Some (Dir _) => Fail 451
         | _ => Fail 550
         end
  end.

Definition r_retr (cwd : list name) (fs : tree) (p : ppath) : res (list Z) :=
  match lookup fs (resolve cwd p) with
  | Some (File c) => Ok c
  | _ => Fail 550
  end.

(* ------------------------------------------------------------------ *)
(* Client.exists / make_directory                                       *)

Definition c_exists (cwd : list name) (fs : tree) (p : ppath) : bool :=
  match r_stat cwd fs p with Some _ => true | None => false end.

(* while path.name and not await self.exists(path): need_create.append(path); path = path.parent
   rparts = the parts of `path`, reversed *)
Fixpoint md_need (cwd : list name) (fs : tree) (ab : bool) (rparts : list name) : list ppath :=
  match rparts with
  | [] => []
  | _ :: up =>
      let p := mkp ab (rev rparts) in
      if c_exists cwd fs p then [] else p :: md_need cwd fs ab up
  end.

Fixpoint mkd_all (cwd : list name) (ps : list ppath) (fs : tree) : res tree :=
  match ps with
  | [] => Ok fs
  | p :: r => bind (r_mkd cwd fs p) (mkd_all cwd r)
  end.

Definition make_directory (cwd : list name) (fs : tree) (p : ppath) : res tree :=
  mkd_all cwd (rev (md_need cwd fs (p_abs p) (rev (p_parts p)))) fs.

(* ------------------------------------------------------------------ *)
(* Client.upload                                                        *)

(* the file branch: make_directory(destination.parent); STOR destination *)
Definition upload_file (cwd : list name) (fs : tree) (dst' : ppath) (c : list Z) : res tree :=
  bind (make_directory cwd fs (pparent dst')) (fun fs1 => r_stor cwd fs1 dst' c).

(* HISTORICAL, the code before the fix of F1:
     if write_into: relative = destination.name / path.relative_to(source)
     else:          relative = path.relative_to(source.parent)
   rel = path.relative_to(source) *)
Definition relative_bug (write_into : bool) (dst' : ppath) (src_name : name) (rel : list name) : ppath :=
  if write_into then pjoin (of_name (pname dst')) (mkp false rel)
  else pjoin (of_name src_name) (mkp false rel).

(* the code now (fix: Client.upload places a directory's children under the destination):
     relative = destination / path.relative_to(source) *)
Definition relative_fixed (dst' : ppath) (rel : list name) : ppath := pjoin dst' (mkp false rel).

Definition queue := list (list name * list (name * tree)).

(* one pass of `async for path in self.path_io.list(src)`; rel = src.relative_to(source) *)
Fixpoint upload_children (cwd : list name) (relf : list name -> ppath) (rel : list name)
         (ch : list (name * tree)) (fs : tree) : res (tree * queue) :=
  match ch with
  | [] => Ok (fs, [])
  | (n, t) :: rest =>
      let r := rel ++ [n] in
      match t with
      | Dir sub =>
          bind (make_directory cwd fs (relf r)) (fun fs1 =>
          bind (upload_children cwd relf rel rest fs1) (fun fq =>
          Ok (fst fq, (r, sub) :: snd fq)))
      | File c =>
          (* self.upload(path, relative, write_into=True): the file branch *)
          bind (upload_file cwd fs (relf r) c) (fun fs1 =>
          upload_children cwd relf rel rest fs1)
      end
  end.

(* while sources: src = sources.popleft(); ... sources.append(path) *)
Fixpoint upload_loop (fuel : nat) (cwd : list name) (relf : list name -> ppath)
         (q : queue) (fs : tree) : res tree :=
  match q with
  | [] => Ok fs
  | (rel, ch) :: qrest =>
      match fuel with
      | O => OutOfFuel
      | S f =>
          bind (upload_children cwd relf rel ch fs) (fun fq =>
          upload_loop f cwd relf (qrest ++ snd fq) (fst fq))
      end
  end.

Definition final_destination (src_name : name) (dst : ppath) (write_into : bool) : ppath :=
  if write_into then dst else pjoin dst (of_name src_name).

Definition upload_gen (fixed : bool) (cwd : list name) (fs : tree) (src_name : name) (src : tree)
           (dst : ppath) (write_into : bool) : res tree :=
  let dst' := final_destination src_name dst write_into in
  match src with
  | File c => upload_file cwd fs dst' c
  | Dir ch =>
      bind (make_directory cwd fs dst') (fun fs1 =>
      upload_loop (tree_size src) cwd
        (if fixed then relative_fixed dst' else relative_bug write_into dst' src_name)
        [([], ch)] fs1)
  end.

(* [fixed] is a fact about client.py: tools/py2v/gen_client_walks.py reads the computation of `relative`
   from the source on every run (Gen/ClientWalks.v upload_relative_fixed; any third form fails closed);
   Extract/ExC09.v and Props/C09.v instantiate it.  Both values are proved about in Proofs/ClientTree.v. *)
(* Client.upload (aioftp after "fix: Client.upload places a directory's children under the destination") *)
Definition upload := upload_gen true.
(* HISTORICAL: the code before that fix (finding F1); kept so that a revert is recognised and characterised *)
Definition upload_old := upload_gen false.

(* ------------------------------------------------------------------ *)
(* Client.list(path, recursive=...)                                     *)

Definition item := (ppath * bool)%type.

Definition list_items (cur : ppath) (ents : list (name * bool)) : list item :=
  map (fun e => (pjoin cur (mkp false [fst e]), snd e)) ents.

Fixpoint list_loop (fuel : nat) (cwd : list name) (fs : tree) (recursive : bool)
         (cur : ppath) (dirs : list ppath) (acc : list item) : res (list item) :=
  match fuel with
  | O => OutOfFuel
  | S f =>
      bind (r_list cwd fs cur) (fun ents =>
        let items := list_items cur ents in
        let dirs' := dirs ++ (if recursive then map fst (filter snd items) else []) in
        match dirs' with
        | [] => Ok (acc ++ items)
        | nxt :: rest => list_loop f cwd fs recursive nxt rest (acc ++ items)
        end)
  end.

Definition list_path (fuel : nat) (cwd : list name) (fs : tree) (recursive : bool) (p : ppath)
  : res (list item) :=
  list_loop fuel cwd fs recursive p [] [].

(* ------------------------------------------------------------------ *)
(* Client.remove                                                        *)

Fixpoint remove (fuel : nat) (cwd : list name) (fs : tree) (p : ppath) : res tree :=
  match fuel with
  | O => OutOfFuel
  | S f =>
      match r_stat cwd fs p with
      | None => Ok fs
      | Some false => r_dele cwd fs p
      | Some true =>
          bind (r_list cwd fs p) (fun ents =>
          bind ((fix each (l : list (name * bool)) (fs0 : tree) : res tree :=
                   match l with
                   | [] => Ok fs0
                   | e :: r => bind (remove f cwd fs0 (pjoin p (mkp false [fst e]))) (each r)
                   end) ents fs) (fun fs1 =>
          r_rmd cwd fs1 p))
      end
  end.

(* ------------------------------------------------------------------ *)
(* Client.download: the local side is a tree with its own cwd           *)

(* path_io.mkdir(p, parents=True, exist_ok=True) *)
Definition l_mkdir_p (lcwd : list name) (lfs : tree) (p : ppath) : res tree :=
  let a := resolve lcwd p in
  match lookup lfs a with
  | Some (Dir _) => Ok lfs
  | Some (File _) => Fail 17
  | None => if blocked lfs a then Fail 20 else Ok (ensure_dir lfs a)
  end.

(* open(p, "wb") + write + close *)
Definition l_write (lcwd : list name) (lfs : tree) (p : ppath) (c : list Z) : res tree :=
  r_stor lcwd lfs p c.

Fixpoint download_to (fuel : nat) (cwd : list name) (rfs : tree) (lcwd : list name) (lfs : tree)
         (src dst' : ppath) : res tree :=
  match fuel with
  | O => OutOfFuel
  | S f =>
      match r_stat cwd rfs src with
      | None => Fail 550
      | Some false =>
          bind (l_mkdir_p lcwd lfs (pparent dst')) (fun l1 =>
          bind (r_retr cwd rfs src) (fun c =>
          l_write lcwd l1 dst' c))
      | Some true =>
          bind (l_mkdir_p lcwd lfs dst') (fun l1 =>
          bind (r_list cwd rfs src) (fun ents =>
            (fix each (l : list (name * bool)) (l0 : tree) : res tree :=
               match l with
               | [] => Ok l0
               | e :: r =>
                   let nm := pjoin src (mkp false [fst e]) in
                   match prelative_to nm src with
                   | None => Fail 1
                   | Some rel => bind (download_to f cwd rfs lcwd l0 nm (pjoin dst' rel)) (each r)
                   end
               end) ents l1))
      end
  end.

Definition download (fuel : nat) (cwd : list name) (rfs : tree) (lcwd : list name) (lfs : tree)
           (src dst : ppath) (write_into : bool) : res tree :=
  download_to fuel cwd rfs lcwd lfs src (final_destination (pname src) dst write_into).

(* ------------------------------------------------------------------ *)
(* sequences of operations on ONE client session                        *)

(* Client.change_directory(p): CWD p; the server resolves p against the session's cwd and answers 550
   unless it is a directory.  (p without '.'/'..' parts; the no-argument CDUP form is not modelled.) *)
Definition r_cwd (cwd : list name) (fs : tree) (p : ppath) : res (list name) :=
  match lookup fs (resolve cwd p) with
  | Some (Dir _) => Ok (resolve cwd p)
  | _ => Fail 550
  end.

Inductive cop : Type :=
| OCd (p : ppath)
| OMkdir (p : ppath)
| OUpload (nm : name) (src : tree) (dst : ppath) (wi : bool)
| ORemove (p : ppath).

(* the whole state a client operation can depend on: the server-side cwd of the session and the remote
   tree.  The client object itself carries NO state between operations in this model. *)
Definition cstate : Type := (list name * tree)%type.

Definition step (fixed : bool) (st : cstate) (o : cop) : res cstate :=
  let (cwd, fs) := st in
  match o with
  | OCd p => bind (r_cwd cwd fs p) (fun c => Ok (c, fs))
  | OMkdir p => bind (make_directory cwd fs p) (fun fs' => Ok (cwd, fs'))
  | OUpload nm src dst wi => bind (upload_gen fixed cwd fs nm src dst wi) (fun fs' => Ok (cwd, fs'))
  | ORemove p => bind (remove (S (tree_size fs)) cwd fs p) (fun fs' => Ok (cwd, fs'))
  end.

Fixpoint run_seq (fixed : bool) (st : cstate) (ops : list cop) : res cstate :=
  match ops with
  | [] => Ok st
  | o :: r => bind (step fixed st o) (fun st' => run_seq fixed st' r)
  end.

(* ------------------------------------------------------------------ *)
(* harness interface                                                    *)

Fixpoint sx_of_tree (t : tree) : sx :=
  match t with
  | File c => L [I 0; sx_of_text c]
  | Dir ch =>
      L [I 1; L ((fix go (l : list (name * tree)) : list sx :=
                    match l with
                    | [] => []
                    | (n, c) :: r => L [sx_of_text n; sx_of_tree c] :: go r
                    end) ch)]
  end.

Fixpoint tree_of_sx (s : sx) : tree :=
  match s with
  | I _ => File []
  | L l =>
      match l with
      | [I 0; c] => File (text_of_sx c)
      | [I 1; L chs] =>
          Dir ((fix go (l : list sx) : list (name * tree) :=
                  match l with
                  | [] => []
                  | L [nm; t] :: r => (text_of_sx nm, tree_of_sx t) :: go r
                  | _ :: r => go r
                  end) chs)
      | _ => File []
      end
  end.

Definition ppath_of_sx (s : sx) : ppath :=
  mkp (bool_of_sx (nth_sx 0 s)) (texts_of_sx (nth_sx 1 s)).
Definition sx_of_ppath (p : ppath) : sx := L [sx_of_bool (p_abs p); sx_of_texts (p_parts p)].

Definition sx_of_res {A} (f : A -> sx) (r : res A) : sx :=
  match r with
  | Ok a => L [I 0; f a]
  | Fail c => L [I (-1); I c]
  | OutOfFuel => L [I (-2)]
  end.

Definition sx_of_items (l : list item) : sx :=
  L (map (fun it => L [sx_of_ppath (fst it); sx_of_bool (snd it)]) l).

Definition cop_of_sx (s : sx) : cop :=
  match z_of_sx (nth_sx 0 s) with
  | 0 => OCd (ppath_of_sx (nth_sx 1 s))
  | 1 => OMkdir (ppath_of_sx (nth_sx 1 s))
  | 2 => OUpload (text_of_sx (nth_sx 1 s)) (tree_of_sx (nth_sx 2 s)) (ppath_of_sx (nth_sx 3 s))
                 (bool_of_sx (nth_sx 4 s))
  | _ => ORemove (ppath_of_sx (nth_sx 1 s))
  end.

Definition sx_of_cstate (st : cstate) : sx := L [sx_of_texts (fst st); sx_of_tree (snd st)].

Definition run_clienttree (fixed : bool) (fn : Z) (a : sx) : sx :=
  let cwd := texts_of_sx (nth_sx 0 a) in
  let fs := tree_of_sx (nth_sx 1 a) in
  match fn with
  | 0 => (* upload as /repo has it now ([fixed] read from the source): cwd remote src_name src dst write_into *)
      sx_of_res sx_of_tree
        (upload_gen fixed cwd fs (text_of_sx (nth_sx 2 a)) (tree_of_sx (nth_sx 3 a))
                (ppath_of_sx (nth_sx 4 a)) (bool_of_sx (nth_sx 5 a)))
  | 1 => sx_of_res sx_of_tree
        (upload cwd fs (text_of_sx (nth_sx 2 a)) (tree_of_sx (nth_sx 3 a))
                      (ppath_of_sx (nth_sx 4 a)) (bool_of_sx (nth_sx 5 a)))
  | 2 => (* the specification: graft remote (cwd / dst [/ src.name]) src *)
      sx_of_tree
        (graft fs (resolve cwd (final_destination (text_of_sx (nth_sx 2 a))
                                                  (ppath_of_sx (nth_sx 4 a)) (bool_of_sx (nth_sx 5 a))))
               (tree_of_sx (nth_sx 3 a)))
  | 3 => (* list: cwd remote path recursive *)
      sx_of_res sx_of_items
        (list_path (S (tree_size fs)) cwd fs (bool_of_sx (nth_sx 3 a)) (ppath_of_sx (nth_sx 2 a)))
  | 4 => (* remove: cwd remote path *)
      sx_of_res sx_of_tree (remove (S (tree_size fs)) cwd fs (ppath_of_sx (nth_sx 2 a)))
  | 5 => (* download: cwd remote lcwd local src dst write_into *)
      sx_of_res sx_of_tree
        (download (S (tree_size fs)) cwd fs (texts_of_sx (nth_sx 2 a)) (tree_of_sx (nth_sx 3 a))
                  (ppath_of_sx (nth_sx 4 a)) (ppath_of_sx (nth_sx 5 a)) (bool_of_sx (nth_sx 6 a)))
  | 6 => (* make_directory: cwd remote path *)
      sx_of_res sx_of_tree (make_directory cwd fs (ppath_of_sx (nth_sx 2 a)))
  | 7 => (* spec of remove: cwd remote path *)
      sx_of_tree (remove_at fs (resolve cwd (ppath_of_sx (nth_sx 2 a))))
  | 8 => (* spec of list: every entry below cwd/path *)
      match lookup fs (resolve cwd (ppath_of_sx (nth_sx 2 a))) with
      | Some t => L (map (fun e => L [sx_of_texts (fst e); sx_of_bool (snd e)])
                         (entries (p_parts (ppath_of_sx (nth_sx 2 a))) t))
      | None => sx_err 550
      end
  | 9 => (* upload_old as found (F1), whatever the source says now *)
      sx_of_res sx_of_tree
        (upload_old cwd fs (text_of_sx (nth_sx 2 a)) (tree_of_sx (nth_sx 3 a))
                (ppath_of_sx (nth_sx 4 a)) (bool_of_sx (nth_sx 5 a)))
  | 10 => (* which form of upload the source has: 1 = fixed *)
      sx_of_bool fixed
  | 11 => (* one operation of a session: cwd remote op *)
      sx_of_res sx_of_cstate (step fixed (cwd, fs) (cop_of_sx (nth_sx 2 a)))
  | 12 => (* a sequence of operations on one session: cwd remote [op...] *)
      sx_of_res sx_of_cstate (run_seq fixed (cwd, fs) (map cop_of_sx (list_of_sx (nth_sx 2 a))))
  | _ => sx_err 99
  end.
