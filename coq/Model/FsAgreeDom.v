(* FsAgreeDom: the decidable domain on which MemFS (MemoryPathIO) and PosixFS (PathIO/AsyncPathIO on a
   POSIX kernel) agree AT THE BACKEND API -- operation by operation, including the open-mode x
   seek/read/write matrix -- and the comparison up to the class of the error.  Definitions only
   (the harness evaluates `api_ok` on the trees a sequence reaches; Proofs/BackendsMatrix.v proves the
   agreement on this domain and gives a witness for every excluded cell). *)
From Coq Require Import ZArith List Bool.
From Verif Require Import Lib.Sx Model.FsBase Model.MemFS.
Import ListNotations.
Open Scope Z_scope.

(* capabilities of the handle io.open returns on disk; MemoryPathIO always hands out the node's own
   BytesIO: readable and writable whatever the mode *)
Definition disk_readable (m : mode) : bool := match m with RB | RPB => true | _ => false end.
Definition disk_writable (m : mode) : bool := match m with WB | AB | RPB => true | _ => false end.

Definition cap_ok (r1 w1 r2 w2 : bool) (h : hop) : bool :=
  match h with
  | HSeek _ => true
  | HRead _ => eqb r1 r2
  | HWrite _ => eqb w1 w2
  end.

(* one cell of the matrix mode x {seek, read, write} *)
Definition hop_cell_ok (m : mode) (h : hop) : bool := cap_ok true true (disk_readable m) (disk_writable m) h.

(* 'ab': O_APPEND writes at the end whatever the position, MemoryPathIO only positions at the end
   once: no write after a successful seek, no read *)
Fixpoint ab_script_ok (sought : bool) (s : list hop) : bool :=
  match s with
  | [] => true
  | HSeek off :: r => ab_script_ok (sought || (0 <=? off)) r
  | HRead _ :: _ => false
  | HWrite _ :: r => negb sought && ab_script_ok sought r
  end.

Definition script_ok (m : mode) (s : list hop) : bool :=
  match m with
  | AB => ab_script_ok false s
  | _ => forallb (hop_cell_ok m) s
  end.

Definition is_root (p : path) : bool := match p with [] => true | _ => false end.

Definition open_ok (t : node) (p : path) (m : mode) (s : list hop) : bool :=
  script_ok m s &&
  match m with
  | WB | AB => negb (is_root p)
  | _ => true
  end.

(* rename onto a missing destination (what RNTO's guard establishes); renaming over an existing
   entry follows rename(2)'s type rules on disk and replaces unconditionally in memory: outside the
   domain.  (Before the repair of MemoryPathIO.rename the domain also had to exclude source ==
   destination, a destination below a file and a destination inside the source: F17, F07b, F07a.) *)
Definition rename_ok (t : node) (a b : path) : bool :=
  negb (is_root a) && negb (m_exists t b).

Definition api_ok (t : node) (o : fsop) : bool :=
  match o with
  | Rename a b => rename_ok t a b
  | Open p m s => open_ok t p m s
  | Rmdir p => negb (is_root p)             (* removing the base directory itself: excluded *)
  | _ => true
  end.

(* along a sequence: decided on the trees MemFS reaches *)
Fixpoint api_oks (t : node) (os : list fsop) : bool :=
  match os with
  | [] => true
  | o :: r => api_ok t o && api_oks (snd (m_run t o)) r
  end.

(* comparison up to the class of the error (the API shows PathIOError for every one of them), also
   inside the per-call results of a handle script *)
Definition blank_hres (h : hres) : hres := match h with HErr _ => HErr EValue | _ => h end.
Definition blank_value (v : value) : value :=
  match v with VOpen rs => VOpen (map blank_hres rs) | _ => v end.
Definition blank (r : result) : result :=
  match r with Ok v => Ok (blank_value v) | Err _ => Err EValue end.
Definition blank_step (x : result * node) : result * node := (blank (fst x), snd x).

(* per operation of a sequence: is it inside the domain (on the tree MemFS has reached) *)
Fixpoint api_ok_trace (t : node) (os : list fsop) : list bool :=
  match os with
  | [] => []
  | o :: r => api_ok t o :: api_ok_trace (snd (m_run t o)) r
  end.
