(* Model of the connection accounting of aioftp.Server (C10):
     AvailableConnections                       server.py:349-385
     MemoryUserManager.get_user / notify_logout server.py:245-279
     Server.greeting / user / pass_ / quit      server.py:1041-1100
     dispatcher `finally`                        server.py:982-1006  (interpreted from the
                                                 normalised statements of Gen.Dispatch.d_finally)
   Several concurrent sessions, arbitrary interleaving of their events.  No proofs here. *)
From Coq Require Import ZArith List Bool String Ascii.
From Verif Require Import Lib.Sx Lib.Facts.
Import ListNotations.
Open Scope Z_scope.

(* ------------------------------------------------------------------ AvailableConnections *)
(* c_max = None: unlimited (value is None in Python, every operation is a no-op) *)
Record counter := { c_max : option Z; c_val : Z }.

Definition mk_counter (m : option Z) : counter :=
  {| c_max := m; c_val := match m with Some v => v | None => 0 end |}.

(* what Python's `.value` shows *)
Definition c_value (c : counter) : option Z :=
  match c_max c with Some _ => Some (c_val c) | None => None end.

Definition locked (c : counter) : bool :=
  match c_max c with Some _ => c_val c =? 0 | None => false end.

(* acquire/release mutate first and raise ValueError afterwards: the counter keeps the
   out-of-bounds value; the boolean is `no exception` *)
Definition acquire (c : counter) : counter * bool :=
  match c_max c with
  | None => (c, true)
  | Some _ => let v := c_val c - 1 in ({| c_max := c_max c; c_val := v |}, 0 <=? v)
  end.

Definition release (c : counter) : counter * bool :=
  match c_max c with
  | None => (c, true)
  | Some m => let v := c_val c + 1 in ({| c_max := c_max c; c_val := v |}, v <=? m)
  end.

(* ------------------------------------------------------------------ users *)
Record user := { u_login : option text; u_password : option text; u_limit : option Z }.

Fixpoint teqb (a b : text) : bool :=
  match a, b with
  | [], [] => true
  | x :: a', y :: b' => (x =? y) && teqb a' b'
  | _, _ => false
  end.

(* the `for u in self.users` loop of get_user: the first anonymous user is the fallback,
   the first exact login wins and stops the loop.  Users are identified by their index
   (the dict of counters is keyed by object identity). *)
Fixpoint lookup (us : list user) (login : text) (idx : nat) (fallback : option nat) : option nat :=
  match us with
  | [] => fallback
  | u :: r =>
      match u_login u with
      | None =>
          match fallback with
          | None => lookup r login (S idx) (Some idx)
          | Some _ => lookup r login (S idx) fallback
          end
      | Some l => if teqb l login then Some idx else lookup r login (S idx) fallback
      end
  end.

(* ------------------------------------------------------------------ sessions *)
Inductive phase := Live | Closing | Dead.
(* Closing: the dispatcher's finally has run (server slot given back, connection popped) and the
   notify_logout task(s) it created have not run yet: the user slot is still held. *)

Record sess := {
  s_phase : phase;
  s_greeted : bool;          (* the greeting task has run *)
  s_acquired : bool;         (* connection.acquired *)
  s_user : option nat;       (* connection.user (index into the user list) *)
  s_logged : bool;           (* connection.logged *)
  s_pending : nat;           (* notify_logout tasks created by the finally block, not yet run *)
}.

Definition new_sess : sess :=
  {| s_phase := Live; s_greeted := false; s_acquired := false; s_user := None;
     s_logged := false; s_pending := 0 |}.

Definition is_live (s : sess) : bool := match s_phase s with Live => true | _ => false end.

Record state := {
  st_srv : counter;
  st_ucs : list counter;     (* user_manager.available_connections, by user index *)
  st_sess : list sess;       (* session id = index *)
  st_errs : Z;               (* number of ValueError / KeyError raised by the accounting *)
}.

Record config := {
  cfg_limit : option Z;
  cfg_users : list user;
  cfg_fin : list string;     (* Gen.Dispatch: d_finally dispatcher *)
  cfg_loop_open : bool;      (* `not loop.is_closed()` when a finally runs: adversarial *)
  cfg_atomic : bool;         (* Gen fact: user()/get_user/notify_logout have no suspension point *)
}.

Definition init (cfg : config) : state :=
  {| st_srv := mk_counter (cfg_limit cfg);
     st_ucs := map (fun u => mk_counter (u_limit u)) (cfg_users cfg);
     st_sess := []; st_errs := 0 |}.

Fixpoint upd {A} (i : nat) (f : A -> A) (l : list A) : list A :=
  match l, i with
  | [], _ => []
  | x :: r, O => f x :: r
  | x :: r, S j => x :: upd j f r
  end.

Definition set_sess (i : nat) (s : sess) (st : state) : state :=
  {| st_srv := st_srv st; st_ucs := st_ucs st;
     st_sess := upd i (fun _ => s) (st_sess st); st_errs := st_errs st |}.

Definition err_of (ok : bool) : Z := if ok then 0 else 1.

Definition rel_srv (st : state) : state :=
  let (c, ok) := release (st_srv st) in
  {| st_srv := c; st_ucs := st_ucs st; st_sess := st_sess st; st_errs := st_errs st + err_of ok |}.

Definition acq_srv (st : state) : state :=
  let (c, ok) := acquire (st_srv st) in
  {| st_srv := c; st_ucs := st_ucs st; st_sess := st_sess st; st_errs := st_errs st + err_of ok |}.

Definition on_user (op : counter -> counter * bool) (u : nat) (st : state) : state :=
  match nth_error (st_ucs st) u with
  | None => (* KeyError *)
      {| st_srv := st_srv st; st_ucs := st_ucs st; st_sess := st_sess st; st_errs := st_errs st + 1 |}
  | Some c =>
      let (c', ok) := op c in
      {| st_srv := st_srv st; st_ucs := upd u (fun _ => c') (st_ucs st); st_sess := st_sess st;
         st_errs := st_errs st + err_of ok |}
  end.

Definition rel_user := on_user release.
Definition acq_user := on_user acquire.

(* ------------------------------------------------------------------ the finally block *)
(* statements are "g1,g2=>action" (tools/py2v/gen_dispatch.py) *)
Definition is_char (c : ascii) (n : nat) : bool := Nat.eqb (nat_of_ascii c) n.

Fixpoint split_arrow (s : string) : string * string :=
  match s with
  | EmptyString => (EmptyString, EmptyString)
  | String c r =>
      match r with
      | String c2 r2 =>
          if is_char c 61 && is_char c2 62 then (EmptyString, r2)
          else let (a, b) := split_arrow r in (String c a, b)
      | EmptyString => (String c EmptyString, EmptyString)
      end
  end.

Fixpoint split_comma (s : string) : list string :=
  match s with
  | EmptyString => [EmptyString]
  | String c r =>
      if is_char c 44 then EmptyString :: split_comma r
      else match split_comma r with
           | h :: t => String c h :: t
           | [] => [String c EmptyString]
           end
  end.

Definition nonempty (s : string) : bool := match s with EmptyString => false | _ => true end.

Inductive eff :=
| ENone
| ERelSrv (guards : list string)
| ELogout (guards : list string).

Definition classify (stmt : string) : eff :=
  let (g, a) := split_arrow stmt in
  let gs := filter nonempty (split_comma g) in
  if String.eqb a "release:server_slot" then ERelSrv gs
  else if String.eqb a "notify_logout" then ELogout gs
  else ENone.

Definition has_user (s : sess) : bool := match s_user s with Some _ => true | None => false end.

(* guards the counters model does not know (has:passive_server, ports, ...) count as true: they
   can only guard a release when the closed check on the finally block fails *)
Definition guard_holds (cfg : config) (s : sess) (g : string) : bool :=
  if String.eqb g "acquired" then s_acquired s
  else if String.eqb g "has:user" then has_user s
  else if String.eqb g "loop_open" then cfg_loop_open cfg
  else true.

Definition guards_hold (cfg : config) (s : sess) (gs : list string) : bool :=
  forallb (guard_holds cfg s) gs.

Definition apply_eff (cfg : config) (s : sess) (acc : state * nat) (e : eff) : state * nat :=
  match e with
  | ENone => acc
  | ERelSrv gs => if guards_hold cfg s gs then (rel_srv (fst acc), snd acc) else acc
  | ELogout gs => if guards_hold cfg s gs then (fst acc, S (snd acc)) else acc
  end.

Definition relevant (e : eff) : bool := match e with ENone => false | _ => true end.

(* the dispatcher's finally for session i, whatever ended it *)
Definition end_session (cfg : config) (i : nat) (st : state) : state :=
  match nth_error (st_sess st) i with
  | None => st
  | Some s =>
      if is_live s then
        let '(st1, n) := fold_left (apply_eff cfg s) (map classify (cfg_fin cfg)) (st, 0%nat) in
        match n, s_user s with
        | O, _ => set_sess i {| s_phase := Dead; s_greeted := s_greeted s; s_acquired := s_acquired s;
                                s_user := s_user s; s_logged := s_logged s; s_pending := 0 |} st1
        | S _, Some _ =>
            set_sess i {| s_phase := Closing; s_greeted := s_greeted s; s_acquired := s_acquired s;
                          s_user := s_user s; s_logged := s_logged s; s_pending := n |} st1
        | S _, None => (* connection.user raises AttributeError inside the finally *)
            set_sess i {| s_phase := Dead; s_greeted := s_greeted s; s_acquired := s_acquired s;
                          s_user := None; s_logged := s_logged s; s_pending := 0 |}
                     {| st_srv := st_srv st1; st_ucs := st_ucs st1; st_sess := st_sess st1;
                        st_errs := st_errs st1 + 1 |}
        end
      else st
  end.

Fixpoint iter_n {A} (n : nat) (f : A -> A) (a : A) : A :=
  match n with O => a | S k => iter_n k f (f a) end.

(* the notify_logout task(s) of a closed session run *)
Definition logout_runs (i : nat) (st : state) : state :=
  match nth_error (st_sess st) i with
  | None => st
  | Some s =>
      match s_phase s, s_user s with
      | Closing, Some u =>
          set_sess i {| s_phase := Dead; s_greeted := s_greeted s; s_acquired := s_acquired s;
                        s_user := s_user s; s_logged := s_logged s; s_pending := 0 |}
                   (iter_n (s_pending s) (rel_user u) st)
      | _, _ => st
      end
  end.

(* ------------------------------------------------------------------ events *)
Inductive event :=
| Connect                          (* a dispatcher starts: new session, id = number of sessions so far *)
| Greeting (i : nat)               (* the greeting task of session i runs (if it was not cancelled) *)
| User (i : nat) (login : text)
| UserErr (i : nat)                (* USER whose get_user raises (a custom user manager) *)
| Pass (i : nat) (pw : text)
| PassErr (i : nat)                (* PASS whose authenticate raises (a custom user manager) *)
| Other (i : nat)                  (* any other command *)
| Quit (i : nat)
| Drop (i : nat)                   (* peer vanished / EOF / reset *)
| IdleTimeout (i : nat)
| HandlerError (i : nat)           (* some handler raised *)
| LogoutRuns (i : nat)             (* the notify_logout task created by the finally block runs *)
| ServerClose                      (* Server.close(): every registered dispatcher is cancelled *)
| UserBegin (i : nat)              (* only if user() could be suspended after notify_logout(old) ... *)
| UserEnd (i : nat) (login : text). (* ... and resumed here; ignored when cfg_atomic *)

Definition out := (nat * Z)%type.   (* (session, reply code) *)

Definition with_user (s : sess) (u : option nat) (lg : bool) : sess :=
  {| s_phase := s_phase s; s_greeted := s_greeted s; s_acquired := s_acquired s;
     s_user := u; s_logged := lg; s_pending := s_pending s |}.

(* first half of user(): `if connection.future.user.done(): await notify_logout(connection.user)`.
   Returns false when the release raised (the handler dies with the user still attached). *)
Definition user_begin (s : sess) (st : state) : state * bool :=
  match s_user s with
  | None => (st, true)
  | Some u => let st1 := rel_user u st in (st1, st_errs st1 =? st_errs st)
  end.

(* `del connection.user; del connection.logged` *)
Definition detach (i : nat) (s : sess) (st : state) : state := set_sess i (with_user s None false) st.

(* rest of user(): get_user (lookup, locked?, acquire) and attach; `s` is the detached session
   already stored at index i *)
Definition user_end (cfg : config) (i : nat) (s : sess) (login : text) (st : state)
  : state * list out :=
  match lookup (cfg_users cfg) login 0 None with
  | None => (st, [(i, 530)])
  | Some k =>
      match nth_error (st_ucs st) k, nth_error (cfg_users cfg) k with
      | Some c, Some u =>
          if locked c then (st, [(i, 530)])
          else
            let st1 := acq_user k st in
            if st_errs st1 =? st_errs st then
              match u_login u, u_password u with
              | Some _, Some _ => (set_sess i (with_user s (Some k) false) st1, [(i, 331)])
              | _, _ => (set_sess i (with_user s (Some k) true) st1, [(i, 230)])
              end
            else (end_session cfg i st1, [])
      | _, _ => (end_session cfg i
                   {| st_srv := st_srv st; st_ucs := st_ucs st; st_sess := st_sess st;
                      st_errs := st_errs st + 1 |}, [])
      end
  end.

Definition opt_teqb (a : option text) (b : text) : bool :=
  match a with Some x => teqb x b | None => false end.

Fixpoint end_all (cfg : config) (n : nat) (st : state) : state :=
  match n with
  | O => st
  | S k => end_session cfg k (end_all cfg k st)
  end.

Definition live_sess (st : state) (i : nat) : option sess :=
  match nth_error (st_sess st) i with
  | Some s => if is_live s then Some s else None
  | None => None
  end.

Definition step (cfg : config) (st : state) (e : event) : state * list out :=
  match e with
  | Connect =>
      ({| st_srv := st_srv st; st_ucs := st_ucs st; st_sess := st_sess st ++ [new_sess];
          st_errs := st_errs st |}, [])
  | Greeting i =>
      match live_sess st i with
      | Some s =>
          if s_greeted s then (st, [])
          else if locked (st_srv st) then
            (end_session cfg i
               (set_sess i {| s_phase := Live; s_greeted := true; s_acquired := s_acquired s;
                              s_user := s_user s; s_logged := s_logged s; s_pending := 0 |} st),
             [(i, 421)])
          else
            let st1 := acq_srv
               (set_sess i {| s_phase := Live; s_greeted := true; s_acquired := true;
                              s_user := s_user s; s_logged := s_logged s; s_pending := 0 |} st) in
            if st_errs st1 =? st_errs st then (st1, [(i, 220)])
            else (end_session cfg i st1, [])
      | None => (st, [])
      end
  | User i login =>
      match live_sess st i with
      | Some s =>
          let (st1, ok) := user_begin s st in
          if ok then user_end cfg i (with_user s None false) login (detach i s st1)
          else (end_session cfg i st1, [])
      | None => (st, [])
      end
  | UserErr i =>
      match live_sess st i with
      | Some s =>
          let (st1, ok) := user_begin s st in
          if ok then (end_session cfg i (detach i s st1), [])
          else (end_session cfg i st1, [])
      | None => (st, [])
      end
  | Pass i pw =>
      match live_sess st i with
      | Some s =>
          match s_user s with
          | None => (st, [(i, 503)])
          | Some k =>
              if s_logged s then (st, [(i, 503)])
              else
                match nth_error (cfg_users cfg) k with
                | Some u =>
                    if opt_teqb (u_password u) pw
                    then (set_sess i (with_user s (Some k) true) st, [(i, 230)])
                    else (st, [(i, 530)])
                | None => (st, [(i, 530)])
                end
          end
      | None => (st, [])
      end
  | PassErr i =>
      match live_sess st i with
      | Some s =>
          match s_user s with
          | None => (st, [(i, 503)])
          | Some _ => if s_logged s then (st, [(i, 503)]) else (end_session cfg i st, [])
          end
      | None => (st, [])
      end
  | Other i => (st, [])
  | Quit i =>
      match live_sess st i with
      | Some _ => (end_session cfg i st, [(i, 221)])
      | None => (st, [])
      end
  | Drop i | IdleTimeout i | HandlerError i => (end_session cfg i st, [])
  | LogoutRuns i => (logout_runs i st, [])
  | ServerClose => (end_all cfg (List.length (st_sess st)) st, [])
  | UserBegin i =>
      if cfg_atomic cfg then (st, [])
      else match live_sess st i with
           | Some s => let (st1, ok) := user_begin s st in
                       if ok then (st1, []) else (end_session cfg i st1, [])
           | None => (st, [])
           end
  | UserEnd i login =>
      if cfg_atomic cfg then (st, [])
      else match live_sess st i with
           | Some s => user_end cfg i (with_user s None false) login (detach i s st)
           | None => (st, [])
           end
  end.

Fixpoint run (cfg : config) (st : state) (evs : list event) : state :=
  match evs with
  | [] => st
  | e :: r => run cfg (fst (step cfg st e)) r
  end.

(* every intermediate (outputs, state), for the harness *)
Fixpoint trace (cfg : config) (st : state) (evs : list event) : list (list out * state) :=
  match evs with
  | [] => []
  | e :: r => let (st', o) := step cfg st e in (o, st') :: trace cfg st' r
  end.

(* ------------------------------------------------------------------ closed checks on Gen facts *)
Fixpoint slist_eqb (a b : list string) : bool :=
  match a, b with
  | [], [] => true
  | x :: a', y :: b' => String.eqb x y && slist_eqb a' b'
  | _, _ => false
  end.

Definition eff_eqb (a b : eff) : bool :=
  match a, b with
  | ENone, ENone => true
  | ERelSrv g1, ERelSrv g2 | ELogout g1, ELogout g2 => slist_eqb g1 g2
  | _, _ => false
  end.

Fixpoint effs_eqb (a b : list eff) : bool :=
  match a, b with
  | [], [] => true
  | x :: a', y :: b' => eff_eqb x y && effs_eqb a' b'
  | _, _ => false
  end.

(* the finally block releases the server slot exactly once, guarded by exactly `acquired`, and
   schedules notify_logout exactly once, guarded by exactly `has:user` (neither under loop_open) *)
Definition check_finally (fin : list string) : bool :=
  let r := filter relevant (map classify fin) in
  effs_eqb r [ERelSrv ["acquired"%string]; ELogout ["has:user"%string]]
  || effs_eqb r [ELogout ["has:user"%string]; ERelSrv ["acquired"%string]].

(* atomicity: the model runs greeting() and user() as single steps.  Sound iff
   - MemoryUserManager.get_user/authenticate/notify_logout are undecorated coroutine functions
     without any suspension construct (awaiting them directly runs them to completion),
   - AvailableConnections.locked/acquire/release are plain undecorated functions,
   - user() awaits nothing but those two user-manager calls and greeting() awaits nothing,
     both undecorated. *)
Definition mfacts := list (string * (bool * (list string * list string))).

Definition method_is (fs : mfacts) (is_async : bool) (name : string) : bool :=
  match assoc_s name fs with
  | Some (a, (decos, susp)) =>
      Bool.eqb a is_async && match decos with [] => true | _ => false end
      && match susp with [] => true | _ => false end
  | None => false
  end.

Definition check_atomic (um cm : mfacts) (hs : list handler) : bool :=
  forallb (method_is um true) ["get_user"; "authenticate"; "notify_logout"]%string
  && forallb (method_is cm false) ["locked"; "acquire"; "release"]%string
  && match find_handler "user" hs with
     | Some h => slist_eqb (h_awaits h) ["self.user_manager.notify_logout"; "self.user_manager.get_user"]%string
                 && match h_decos h with [] => true | _ => false end
     | None => false
     end
  && match find_handler "greeting" hs with
     | Some h => match h_awaits h, h_decos h with [], [] => true | _, _ => false end
     | None => false
     end.

(* frame: only greeting touches `acquired` and the server counter, only user touches the `user`
   key and the user manager's get_user/notify_logout; greeting is started once per session by the
   dispatcher and is not reachable as a command; a handler returning False ends the session *)
Definition touches_srv (h : handler) : bool :=
  mem_s "acquired" (h_conn_sets h) || mem_s "acquired" (h_conn_dels h)
  || existsb (String.prefix "self.available_connections") (h_self_calls h)
  || mem_s "available_connections" (h_self_writes h).

Definition touches_user (h : handler) : bool :=
  mem_s "user" (h_conn_sets h) || mem_s "user" (h_conn_dels h)
  || mem_s "self.user_manager.notify_logout" (h_self_calls h)
  || mem_s "self.user_manager.get_user" (h_self_calls h)
  || mem_s "user_manager" (h_self_writes h).

Definition count_s (x : string) (l : list string) : nat :=
  List.length (filter (String.eqb x) l).

Definition check_frame (d : dispatcher_facts) (hs : list handler) : bool :=
  forallb (fun h => String.eqb (h_name h) "greeting" || negb (touches_srv h)) hs
  && forallb (fun h => String.eqb (h_name h) "user" || negb (touches_user h)) hs
  && Nat.eqb (count_s "greeting" (d_initial_pending d)) 1
  && negb (existsb (fun p => String.eqb (snd p) "greeting") (d_table d))
  && d_false_ends d && d_table_literal d
  && match find_handler "greeting" hs with Some h => touches_srv h | None => false end
  && match find_handler "user" hs with Some h => touches_user h | None => false end.

(* ------------------------------------------------------------------ harness interface *)
Definition string_of_text (t : text) : string :=
  fold_right (fun c s => String (ascii_of_N (Z.to_N c)) s) EmptyString t.

Definition opt_z_of_sx (s : sx) : option Z :=
  match list_of_sx s with [] => None | x :: _ => Some (z_of_sx x) end.
Definition opt_text_of_sx (s : sx) : option text :=
  match list_of_sx s with [] => None | x :: _ => Some (text_of_sx x) end.

Definition user_of_sx (s : sx) : user :=
  {| u_login := opt_text_of_sx (nth_sx 0 s); u_password := opt_text_of_sx (nth_sx 1 s);
     u_limit := opt_z_of_sx (nth_sx 2 s) |}.

(* config: [limit?; users; fin (list of texts); loop_open; atomic] *)
Definition config_of_sx (s : sx) : config :=
  {| cfg_limit := opt_z_of_sx (nth_sx 0 s);
     cfg_users := map user_of_sx (list_of_sx (nth_sx 1 s));
     cfg_fin := map (fun t => string_of_text (text_of_sx t)) (list_of_sx (nth_sx 2 s));
     cfg_loop_open := bool_of_sx (nth_sx 3 s);
     cfg_atomic := bool_of_sx (nth_sx 4 s) |}.

Definition nat_of_sx (s : sx) : nat := Z.to_nat (z_of_sx s).

(* event: [tag; session; text] *)
Definition event_of_sx (s : sx) : event :=
  let i := nat_of_sx (nth_sx 1 s) in
  let t := text_of_sx (nth_sx 2 s) in
  match z_of_sx (nth_sx 0 s) with
  | 0 => Connect
  | 1 => Greeting i
  | 2 => User i t
  | 3 => UserErr i
  | 4 => Pass i t
  | 5 => Other i
  | 6 => Quit i
  | 7 => Drop i
  | 8 => IdleTimeout i
  | 9 => HandlerError i
  | 10 => LogoutRuns i
  | 11 => ServerClose
  | 12 => UserBegin i
  | 13 => UserEnd i t
  | 14 => PassErr i
  | _ => Other i
  end.

Definition sx_of_optz (o : option Z) : sx := sx_of_option I o.

Definition sx_of_phase (p : phase) : sx := I (match p with Live => 0 | Closing => 1 | Dead => 2 end).

Definition sx_of_sess (s : sess) : sx :=
  L [sx_of_phase (s_phase s); sx_of_bool (s_greeted s); sx_of_bool (s_acquired s);
     sx_of_option (fun u => I (Z.of_nat u)) (s_user s); sx_of_bool (s_logged s)].

Definition sx_of_snapshot (p : list out * state) : sx :=
  let (o, st) := p in
  L [L (map (fun x => L [I (Z.of_nat (fst x)); I (snd x)]) o);
     sx_of_optz (c_value (st_srv st));
     L (map (fun c => sx_of_optz (c_value c)) (st_ucs st));
     L (map sx_of_sess (st_sess st));
     I (st_errs st)].

Definition run_counters (fn : Z) (a : sx) : sx :=
  match fn with
  | 0 => (* [config; events] -> snapshot after every event *)
      let cfg := config_of_sx (nth_sx 0 a) in
      L (map sx_of_snapshot (trace cfg (init cfg) (map event_of_sx (list_of_sx (nth_sx 1 a)))))
  | 1 => (* closed check on a finally block *)
      sx_of_bool (check_finally (map (fun t => string_of_text (text_of_sx t)) (list_of_sx (nth_sx 0 a))))
  | 2 => (* get_user lookup: [users; login] *)
      sx_of_option (fun u => I (Z.of_nat u))
        (lookup (map user_of_sx (list_of_sx (nth_sx 0 a))) (text_of_sx (nth_sx 1 a)) 0 None)
  | _ => sx_err 99
  end.
