(* Model of aioftp.common.Throttle / StreamThrottle / ThrottleStreamIO (common.py:323-537)
   over Q (exact rationals; no reals, no floats).  Executable definitions only; proofs are in
   Proofs/Throttle.v.

   Python                                   here
   ------                                   ----
   Throttle._limit/_start/_sum/reset_rate   record throttle
   Throttle.wait()                          wake th now   (the instant the sleep ends:
                                            now + max(0, end - now) = max now end)
   Throttle.append(data, start)             append (len data) start th
   Throttle.limit = v                       set_limit v th
   Throttle.clone()                         clone th
   round(x)  (Fraction.__round__)           round_half_even
   ThrottleStreamIO.wait(name)              stream_wake  (asyncio.wait on all tasks = the max)
   ThrottleStreamIO.append(name, data, s)   stream_append (to ALL throttles of that direction)
   read()/readline()/write()                events Eval; Start; Done of one actor

   Objects are indices into a store (list throttle): sharing an object = using the same index. *)
From Coq Require Import ZArith QArith Qminmax List Bool.
From Verif Require Import Lib.Sx.
Import ListNotations.

Definition Qlt_bool (a b : Q) : bool := negb (Qle_bool b a).

(* Python's round() on a rational: round half to even (fractions.Fraction.__round__) *)
Definition round_half_even (q : Q) : Z :=
  let n := Qnum q in
  let d := Zpos (Qden q) in
  let f := (n / d)%Z in
  let r := (n mod d)%Z in
  match (2 * r ?= d)%Z with
  | Lt => f
  | Gt => (f + 1)%Z
  | Eq => if Z.even f then f else (f + 1)%Z
  end.

Record throttle := mkT { limit : option Q; reset_rate : Q; start : option Q; sum : Z }.

Definition fresh (l : option Q) (r : Q) : throttle := mkT l r None 0.

(* `self._limit is not None and self._limit > 0` *)
Definition positive_limit (th : throttle) : option Q :=
  match limit th with
  | Some l => if Qlt_bool 0 l then Some l else None
  | None => None
  end.

(* `if curr_throttle.limit:`  -- None and 0 are falsy *)
Definition truthy_limit (th : throttle) : bool :=
  match limit th with
  | Some l => negb (Qeq_bool l 0)
  | None => false
  end.

(* Throttle.wait(): the time at which the coroutine continues when called at `now` *)
Definition wake (th : throttle) (now : Q) : Q :=
  match positive_limit th, start th with
  | Some l, Some s => Qmax now (s + inject_Z (sum th) / l)
  | _, _ => now
  end.

(* Throttle.append(data, start) with n = len(data), t = start *)
Definition append (n : Z) (t : Q) (th : throttle) : throttle :=
  match positive_limit th with
  | None => th
  | Some l =>
      let s0 := match start th with Some s => s | None => t end in
      if Qlt_bool (reset_rate th) (t - s0)
      then mkT (limit th) (reset_rate th) (Some t)
               (sum th - round_half_even ((t - s0) * l) + n)
      else mkT (limit th) (reset_rate th) (Some s0) (sum th + n)
  end.

Definition set_limit (v : option Q) (th : throttle) : throttle :=
  mkT v (reset_rate th) None 0.

Definition clone (th : throttle) : throttle :=
  mkT (limit th) (reset_rate th) None 0.

(* ---------------------------------------------------------------- streams *)

Definition dummy : throttle := fresh None 0.
Definition get (store : list throttle) (k : nat) : throttle := nth k store dummy.

Fixpoint upd {A} (l : list A) (k : nat) (v : A) : list A :=
  match l, k with
  | [], _ => []
  | _ :: r, O => v :: r
  | x :: r, S k' => x :: upd r k' v
  end.

(* an actor = one sequential user of one direction of one throttles dict:
   a_pairs lists the dict's StreamThrottle values as (read id, write id) in dict order *)
Record actor := mkA { a_pairs : list (nat * nat); a_write : bool }.

Definition dir_id (wr : bool) (p : nat * nat) : nat := if wr then snd p else fst p.
Definition ids_of (a : actor) : list nat := map (dir_id (a_write a)) (a_pairs a).

(* ThrottleStreamIO.wait(name): one task per throttle with a truthy limit, asyncio.wait(all) *)
Definition stream_wake (store : list throttle) (ids : list nat) (now : Q) : Q :=
  fold_left
    (fun acc k =>
       let th := get store k in
       if truthy_limit th then Qmax acc (wake th now) else acc)
    ids now.

(* ThrottleStreamIO.append(name, data, start) *)
Definition stream_append (store : list throttle) (ids : list nat) (n : Z) (t : Q) : list throttle :=
  fold_left (fun st k => upd st k (append n t (get st k))) ids store.

Inductive status := Idle | Evaluated (w : Q) | Started (ts : Q).

Inductive event :=
| Eval (a : nat) (t : Q)              (* the wait() tasks of actor a run at time t *)
| Start (a : nat) (t : Q)             (* `start = _now()` after the wait *)
| Done (a : nat) (t : Q) (n : Z)      (* the I/O returned n bytes; append(n, recorded start) *)
| SetLimit (k : nat) (v : option Q)   (* throttle.limit = v *)
| CloneAll                            (* every object replaced by its clone() (all actors idle) *)
| Abort (a : nat) (t : Q).            (* the operation of actor a ended at t WITHOUT append(): the timed
                                         super().read()/write() raised (asyncio.TimeoutError of
                                         with_timeout, a connection error), or the task was cancelled
                                         during the throttle wait or the I/O *)

Record sys := mkS { s_store : list throttle; s_stat : list status; s_clock : Q }.

Definition is_idle (s : status) : bool := match s with Idle => true | _ => false end.

Definition step (actors : list actor) (st : sys) (e : event) : option sys :=
  match e with
  | Eval a t =>
      match nth_error actors a, nth_error (s_stat st) a with
      | Some ac, Some Idle =>
          if Qle_bool (s_clock st) t
          then Some (mkS (s_store st)
                         (upd (s_stat st) a (Evaluated (stream_wake (s_store st) (ids_of ac) t)))
                         t)
          else None
      | _, _ => None
      end
  | Start a t =>
      match nth_error (s_stat st) a with
      | Some (Evaluated w) =>
          if Qle_bool (s_clock st) t && Qle_bool w t
          then Some (mkS (s_store st) (upd (s_stat st) a (Started t)) t)
          else None
      | _ => None
      end
  | Done a t n =>
      match nth_error actors a, nth_error (s_stat st) a with
      | Some ac, Some (Started ts) =>
          if Qle_bool (s_clock st) t && (0 <=? n)%Z
          then Some (mkS (stream_append (s_store st) (ids_of ac) n ts)
                         (upd (s_stat st) a Idle) t)
          else None
      | _, _ => None
      end
  | SetLimit k v =>
      Some (mkS (upd (s_store st) k (set_limit v (get (s_store st) k))) (s_stat st) (s_clock st))
  | CloneAll =>
      if forallb is_idle (s_stat st)
      then Some (mkS (map clone (s_store st)) (s_stat st) (s_clock st))
      else None
  | Abort a t =>
      match nth_error (s_stat st) a with
      | Some Idle | None => None
      | Some _ =>
          if Qle_bool (s_clock st) t
          then Some (mkS (s_store st) (upd (s_stat st) a Idle) t)
          else None
      end
  end.

Fixpoint run (actors : list actor) (st : sys) (tr : list event) : option sys :=
  match tr with
  | [] => Some st
  | e :: r => match step actors st e with Some st' => run actors st' r | None => None end
  end.

Definition init_sys (store : list throttle) (actors : list actor) (t : Q) : sys :=
  mkS store (map (fun _ => Idle) actors) t.

(* ---------------------------------------------------------------- one operation under a timeout

   StreamIO.read/readline/write are `asyncio.wait_for(<the socket I/O>, self.<x>_timeout)`
   (with_timeout); ThrottleStreamIO.read/readline/write do
       await self.wait(name); start = _now(); await super().<op>(...); self.append(name, data, start)
   so the throttle wait is OUTSIDE the timed region: whatever the timeout, the I/O starts at the
   wake time; only the socket I/O itself (duration d) runs against the timeout. *)

(* outcome of the timed region entered at ts: (completed?, instant it ends).  wait_for(aw, T):
   T = None never fires; the awaitable wins only if it finishes strictly before the deadline
   (the harness never generates d = T); T <= 0 cancels at once. *)
Definition timed_end (tmo : option Q) (ts d : Q) : bool * Q :=
  match tmo with
  | None => (true, (ts + d)%Q)
  | Some T => if Qlt_bool d T then (true, (ts + d)%Q) else (false, (ts + Qmax 0 T)%Q)
  end.

(* the events of one read()/readline()/write() of actor a called at `now`, whose socket I/O takes d
   and moves n bytes, on a stream whose effective timeout for that direction is tmo *)
Definition op_events (store : list throttle) (ac : actor) (a : nat) (tmo : option Q)
                     (now d : Q) (n : Z) : list event :=
  let w := stream_wake store (ids_of ac) now in
  let r := timed_end tmo w d in
  [Eval a now; Start a w; if fst r then Done a (snd r) n else Abort a (snd r)].

(* ---------------------------------------------------------------- harness interface *)

Definition sx_of_q (q : Q) : sx :=
  let r := Qred q in L [I (Qnum r); I (Zpos (Qden r))].
Definition q_of_sx (s : sx) : Q :=
  match list_of_sx s with
  | [n; d] => Qmake (z_of_sx n) (Z.to_pos (z_of_sx d))
  | _ => 0
  end.
Definition sx_of_oq (o : option Q) : sx := sx_of_option sx_of_q o.
Definition oq_of_sx (s : sx) : option Q :=
  match list_of_sx s with
  | [x] => Some (q_of_sx x)
  | _ => None
  end.

Definition sx_of_throttle (th : throttle) : sx :=
  L [sx_of_oq (limit th); sx_of_q (reset_rate th); sx_of_oq (start th); I (sum th)].
Definition throttle_of_sx (s : sx) : throttle :=
  mkT (oq_of_sx (nth_sx 0 s)) (q_of_sx (nth_sx 1 s)) (oq_of_sx (nth_sx 2 s)) (z_of_sx (nth_sx 3 s)).

Definition actor_of_sx (s : sx) : actor :=
  mkA (map (fun p => (Z.to_nat (z_of_sx (nth_sx 0 p)), Z.to_nat (z_of_sx (nth_sx 1 p))))
           (list_of_sx (nth_sx 0 s)))
      (bool_of_sx (nth_sx 1 s)).

Definition event_of_sx (s : sx) : event :=
  let tag := z_of_sx (nth_sx 0 s) in
  let a := Z.to_nat (z_of_sx (nth_sx 1 s)) in
  if (tag =? 0)%Z then Eval a (q_of_sx (nth_sx 2 s))
  else if (tag =? 1)%Z then Start a (q_of_sx (nth_sx 2 s))
  else if (tag =? 2)%Z then Done a (q_of_sx (nth_sx 2 s)) (z_of_sx (nth_sx 3 s))
  else if (tag =? 3)%Z then SetLimit a (oq_of_sx (nth_sx 2 s))
  else if (tag =? 5)%Z then Abort a (q_of_sx (nth_sx 2 s))
  else CloneAll.

Definition sx_of_status (s : status) : sx :=
  match s with
  | Idle => L [I 0]
  | Evaluated w => L [I 1; sx_of_q w]
  | Started t => L [I 2; sx_of_q t]
  end.

(* after every event: [1; statuses; store]; a refused event ends the log with [0] *)
Fixpoint run_log (actors : list actor) (st : sys) (tr : list event) : list sx :=
  match tr with
  | [] => []
  | e :: r =>
      match step actors st e with
      | Some st' =>
          L [I 1; L (map sx_of_status (s_stat st')); L (map sx_of_throttle (s_store st'))]
            :: run_log actors st' r
      | None => [L [I 0]]
      end
  end.

(* fn 0: round_half_even [num den]
   fn 1: trace   [store; actors; clock0; events]  -> log
   fn 2: wake    [throttle; now]
   fn 3: append  [throttle; n; t]
   fn 4: clone   [throttle]
   fn 5: set_limit [throttle; limit option]
   fn 6: timed_end [timeout option; ts; d] -> [completed; end] *)
Definition run_throttle (fn : Z) (a : sx) : sx :=
  if (fn =? 0)%Z then I (round_half_even (q_of_sx a))
  else if (fn =? 1)%Z then
    let store := map throttle_of_sx (list_of_sx (nth_sx 0 a)) in
    let actors := map actor_of_sx (list_of_sx (nth_sx 1 a)) in
    let t0 := q_of_sx (nth_sx 2 a) in
    let evs := map event_of_sx (list_of_sx (nth_sx 3 a)) in
    L (run_log actors (init_sys store actors t0) evs)
  else if (fn =? 2)%Z then sx_of_q (wake (throttle_of_sx (nth_sx 0 a)) (q_of_sx (nth_sx 1 a)))
  else if (fn =? 3)%Z then
    sx_of_throttle (append (z_of_sx (nth_sx 1 a)) (q_of_sx (nth_sx 2 a)) (throttle_of_sx (nth_sx 0 a)))
  else if (fn =? 4)%Z then sx_of_throttle (clone (throttle_of_sx (nth_sx 0 a)))
  else if (fn =? 5)%Z then
    sx_of_throttle (set_limit (oq_of_sx (nth_sx 1 a)) (throttle_of_sx (nth_sx 0 a)))
  else if (fn =? 6)%Z then
    let r := timed_end (oq_of_sx (nth_sx 0 a)) (q_of_sx (nth_sx 1 a)) (q_of_sx (nth_sx 2 a)) in
    L [sx_of_bool (fst r); sx_of_q (snd r)]
  else sx_err 99.
