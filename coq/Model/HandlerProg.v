(* HandlerProg: an interpreter for the command handlers of server.py as PROGRAMS (C05).

   tools/py2v/gen_handlers.py translates the body of each of the 25 handlers (the code after the
   decorators) into the statement language of Lib/HandlerFacts.v.  This file gives that language
   its meaning on the world of Model/Session.v (same session record, same tree operations, same
   ghost log), so that the hand-written [body] of Model/Session.v is no longer a transcription
   checked by footprints: it is the denotation of the translated source
   (Proofs/HandlerProg.v: run_handler_prog (prog_of name) ... = Some (body ... name ...)).

   Conventions
     * a value is a text, a boolean, an integer, a REAL path, a VIRTUAL path (both are the
       normalised parts [resolve] returns -- the model has no base_path -- but the interpreter keeps
       them apart: current_directory takes a virtual path, rename_from and the backend take a real
       one), a GetUserResponse state, a user (index into the user table), a stream, or opaque;
     * reading an ABSENT connection attribute (connection.rename_from, connection.user) raises
       (AttributeError): like every exception other than PathIOError it ends the session with what
       was queued so far; int() of a text that is not a digit string raises too;
     * a failing backend call raises PathIOError: the dispatcher answers 451 and continues;
     * [None] = no denotation: an unclassified node, an unknown attribute / backend method / worker,
       a value of the wrong kind, a handler that falls off its end.

   NAMED ABSTRACTIONS (the model deliberately does not look inside; each is one node):
     HGetPaths        = [resolve] (C13/C17 tie get_paths, base_path containment included)
     HGetUser         = the oracle [get_user] below: MemoryUserManager.get_user without the
                        per-user connection limit (C10)
     CAuth            = the oracle [authenticate]: password equality
     HNotifyLogout    = nothing (per-user connection counters, C10)
     HAbstract "throttle" = nothing (throttles do not change replies or state, C01 timing theorems)
     HHelper "build_mlsx_string" = one logged "stat" of the path (the line's text is not modelled)
     HSpawnWorker     = the model's worker ([with_data] + the transfer): the workers are C01/C12's;
                        the denotation is defined only if the handler then queues exactly 150 and
                        returns True
     HStartPassive    = the listener starts (passive_server set); the NoAvailablePort branch
                        (421, session ends) is NOT taken (port pools: C16)
     HPickSocket      = a socket of the wanted family is found; the else branch (PASV 503 on an
                        IPv6-only listener) is NOT taken; the reply's address text is opaque
     HDefCallback     = nothing at definition time: the callback runs when the peer connects
                        ([step]'s V_DATACONN branch; [run_callback] below is its denotation)
     CWorkersRunning  = false: in the sequential model every worker has finished before the next
                        command (abort of a running transfer: C04)
     connection.transfer_type = un-modelled attribute (assignment has no effect)
   No proofs here. *)
From Coq Require Import ZArith List Bool String.
From Verif Require Import Lib.Sx Lib.PyStr Lib.Facts Lib.HandlerFacts Model.Session.
Import ListNotations.
Open Scope list_scope.
Open Scope string_scope.

Inductive hval : Type :=
| VText (t : text)
| VBool (b : bool)
| VInt (z : Z)
| VReal (p : list text)
| VVirt (p : list text)
| VState (s : string)
| VUser (i : nat)
| VNoUser
| VStream
| VOpaque.

Inductive ev (A : Type) : Type := Val (a : A) | Raises | NoDen.
Arguments Val {A} a.
Arguments Raises {A}.
Arguments NoDen {A}.

Record hstate := mkHS {
  st_w : world;
  st_out : out;
  st_env : list (string * hval);
  st_spawn : option (world -> world * out)   (* the worker scheduled by this handler, if any *)
}.

Inductive outcome : Type :=
| Next (st : hstate)
| Done (r : result)
| Undef.

(* ------------------------------------------------------------------ oracles of the model *)
(* MemoryUserManager.get_user (without the connection limit) *)
Definition get_user (users : list user) (login : text) : string * option nat :=
  match find_user users 0 login None with
  | None => ("ERROR", None)
  | Some i =>
      match nth_error users i with
      | None => ("ERROR", None)
      | Some u =>
          match u_login u, u_password u with
          | None, _ | _, None => ("OK", Some i)
          | Some _, Some _ => ("PASSWORD_REQUIRED", Some i)
          end
      end
  end.

(* MemoryUserManager.authenticate: user.password == password *)
Definition authenticate (users : list user) (i : nat) (pw : text) : bool :=
  match nth_error users i with
  | Some u => opt_text_eqb (u_password u) (Some pw)
  | None => false
  end.

(* s.replace(DQUOTE, DQUOTE DQUOTE) is [Session.dbl_quote] *)

(* ------------------------------------------------------------------ connection attributes *)
Definition known_attrs : list string := ["logged"; "user"; "passive_server"; "data_connection"; "rename_from"].

Definition set_listener (s : sess) : sess :=
  {| s_user := s_user s; s_logged := s_logged s; s_cwd := s_cwd s; s_rnfr := s_rnfr s; s_rest := s_rest s;
     s_passive := true; s_data := s_data s; s_ended := s_ended s |}.

Definition set_attr (a : string) (v : hval) (s : sess) : option sess :=
  if String.eqb a "current_directory" then match v with VVirt p => Some (set_cwd s p) | _ => None end
  else if String.eqb a "rename_from" then match v with VReal p => Some (set_rnfr s (Some p)) | _ => None end
  else if String.eqb a "logged" then match v with VBool true => Some (set_login s (s_user s) true (s_cwd s)) | _ => None end
  else if String.eqb a "user" then match v with VUser i => Some (set_login s (Some i) (s_logged s) (s_cwd s)) | _ => None end
  else if String.eqb a "restart_offset" then match v with VInt z => Some (set_rest s z) | _ => None end
  else if String.eqb a "data_connection" then match v with VStream => Some (set_data s true) | _ => None end
  else None.

(* attributes the session model does not have: assigning them changes nothing *)
Definition unmodelled_attrs : list string := ["transfer_type"].

Definition del_attr (a : string) (s : sess) : option sess :=
  if String.eqb a "user" then Some (set_login s None (s_logged s) (s_cwd s))
  else if String.eqb a "logged" then Some (set_login s (s_user s) false (s_cwd s))
  else if String.eqb a "rename_from" then Some (set_rnfr s None)
  else if String.eqb a "data_connection" then Some (set_data s false)
  else None.

(* ------------------------------------------------------------------ backend *)
Definition backend_probe (m : string) (p : list text) (fs : node) : option bool :=
  if String.eqb m "is_dir" then Some (is_dir p fs)
  else if String.eqb m "is_file" then Some (is_file p fs)
  else if String.eqb m "exists" then Some (exists_ p fs)
  else None.

(* path written to the ghost log, new tree (None = PathIOError) *)
Definition backend_op (m : string) (vals : list hval) (kw : list (string * hval)) (fs : node)
  : option (list text * option node) :=
  match vals, kw with
  | [VReal p], [(k, VBool true)] =>
      if String.eqb m "mkdir" && String.eqb k "parents" then Some (p, mkdir_p p fs) else None
  | [VReal p], [] =>
      if String.eqb m "rmdir" then Some (p, rmdir p fs)
      else if String.eqb m "unlink" then Some (p, unlink p fs)
      else None
  | [VReal src; VReal dst], [] =>
      if String.eqb m "rename" then Some (dst, rename src dst fs) else None
  | _, _ => None
  end.

(* ------------------------------------------------------------------ workers (C01 / C12 own their insides) *)
Definition worker_den (name : string) (vals : list hval) (d : dataact) : option (world -> world * out) :=
  match vals with
  | [VReal p] =>
      if String.eqb name "list_worker" then
        Some (fun w1 => (log_call w1 "list" p,
                {| o_codes := [code "226"]; o_info := []; o_bytes := None;
                   o_listing := Some (listing_of p (w_fs w1)) |}))
      else if String.eqb name "mlsd_worker" then
        Some (fun w1 => (log_call w1 "list" p,
                {| o_codes := [code "200"]; o_info := []; o_bytes := None;
                   o_listing := Some (listing_of p (w_fs w1)) |}))
      else if String.eqb name "retr_worker" then
        Some (fun w1 =>
           match lookup p (w_fs w1) with
           | Some (NFile c) =>
               (log_call w1 "open" p,
                {| o_codes := [code "226"]; o_info := [];
                   o_bytes := Some (skipn (Z.to_nat (s_rest (w_s w1))) c); o_listing := None |})
           | _ => (log_call w1 "open" p, mk_out [code "451"])
           end)
      else None
  | [VReal p; VText m] =>
      if String.eqb name "stor_worker" then
        match (if text_eqb m (t_of "ab") then Some MA else if text_eqb m (t_of "wb") then Some MW else None) with
        | Some sm =>
            Some (fun w1 =>
              let payload := match d with DSend b => b | DNone => [] end in
              let w2 := log_call w1 "open" p in
              match store p sm (s_rest (w_s w1)) payload (w_fs w1) with
              | Some f => (set_fs w2 f, mk_out [code "226"])
              | None => (w2, mk_out [code "451"])
              end)
        | None => None
        end
      else None
  | _ => None
  end.

(* ------------------------------------------------------------------ state helpers *)
Definition init_state (w : world) : hstate := mkHS w (mk_out []) [] None.
Definition with_w (st : hstate) (w : world) : hstate := mkHS w (st_out st) (st_env st) (st_spawn st).
Definition with_sess (st : hstate) (s : sess) : hstate := with_w st (set_sess (st_w st) s).
Definition bind (st : hstate) (x : string) (v : hval) : hstate :=
  mkHS (st_w st) (st_out st) ((x, v) :: st_env st) (st_spawn st).

Definition add_reply (st : hstate) (c : text) (info : option text) : hstate :=
  let o := st_out st in
  mkHS (st_w st)
       {| o_codes := o_codes o ++ [c];
          o_info := match info with Some t => t | None => o_info o end;
          o_bytes := o_bytes o; o_listing := o_listing o |}
       (st_env st) (st_spawn st).

Definition out_empty (o : out) : bool :=
  match o_codes o, o_info o, o_bytes o, o_listing o with
  | [], [], None, None => true
  | _, _, _, _ => false
  end.

Definition out_is_150 (o : out) : bool :=
  match o_codes o, o_info o, o_bytes o, o_listing o with
  | [c], [], None, None => text_eqb c (code "150")
  | _, _, _, _ => false
  end.

(* an exception other than PathIOError: the dispatcher logs it and closes the connection *)
Definition raise_out (st : hstate) : outcome :=
  match st_spawn st with
  | None => Done (st_w st, st_out st, false)
  | Some _ => Undef
  end.

(* PathIOError: 451, the session continues *)
Definition fail451 (st : hstate) (w1 : world) : outcome :=
  match st_spawn st with
  | None =>
      let o := st_out st in
      Done (w1, {| o_codes := o_codes o ++ [code "451"]; o_info := o_info o; o_bytes := o_bytes o;
                   o_listing := o_listing o |}, true)
  | Some _ => Undef
  end.

(* `return <keep>`: a handler that scheduled a worker must have queued exactly 150 and return True;
   the model then runs the worker to completion ([with_data]: its 150 is the handler's) *)
Definition finish (st : hstate) (keep : bool) : outcome :=
  match st_spawn st with
  | None => Done (st_w st, st_out st, keep)
  | Some k => if keep && out_is_150 (st_out st) then Done (with_data (st_w st) k) else Undef
  end.

Section Interp.
  Variable users : list user.
  Variable self : string -> text -> dataact -> bool -> world -> result.
  Variable arg : text.
  Variable d : dataact.
  Variable params : list (string * hval).

  Fixpoint eval (e : hexpr) (st : hstate) : ev hval :=
    let s := w_s (st_w st) in
    match e with
    | ELit l => Val (VText (t_of l))
    | EBool b => Val (VBool b)
    | EInt z => Val (VInt z)
    | ERest => Val (VText arg)
    | EParam x => match assoc_s x params with Some v => Val v | None => NoDen end
    | EVar x => match assoc_s x (st_env st) with Some v => Val v | None => NoDen end
    | EAttr a =>
        if String.eqb a "current_directory" then Val (VVirt (s_cwd s))
        else if String.eqb a "rename_from" then
          match s_rnfr s with Some p => Val (VReal p) | None => Raises end
        else if String.eqb a "user" then
          match s_user s with Some i => Val (VUser i) | None => Raises end
        else if String.eqb a "restart_offset" then Val (VInt (s_rest s))
        else NoDen
    | EUserHome =>
        match s_user s with
        | None => Raises
        | Some i => match nth_error users i with Some u => Val (VVirt (u_home u)) | None => NoDen end
        end
    | EParent x =>
        match eval x st with
        | Val (VReal p) => Val (VReal (removelast p))
        | Val (VVirt p) => Val (VVirt (removelast p))
        | Val _ => NoDen
        | Raises => Raises
        | NoDen => NoDen
        end
    | EIntOf x =>
        match eval x st with
        | Val (VText t) => match int_of_digits t with Some z => Val (VInt z) | None => Raises end
        | Val _ => NoDen
        | Raises => Raises
        | NoDen => NoDen
        end
    | EStr x =>
        match eval x st with
        | Val (VVirt p) => Val (VText (path_str p))
        | Val _ => NoDen
        | Raises => Raises
        | NoDen => NoDen
        end
    | EDblQuote x =>
        match eval x st with
        | Val (VText t) => Val (VText (dbl_quote t))
        | Val _ => NoDen
        | Raises => Raises
        | NoDen => NoDen
        end
    | EQuoted x =>
        match eval x st with
        | Val (VText t) => Val (VText ([34%Z] ++ t ++ [34%Z])%list)
        | Val _ => NoDen
        | Raises => Raises
        | NoDen => NoDen
        end
    | ENewStream => Val VStream
    | EOpaque => Val VOpaque
    | EOther _ => NoDen
    end.

  Fixpoint evals (es : list hexpr) (st : hstate) : ev (list hval) :=
    match es with
    | [] => Val []
    | e :: r =>
        match eval e st with
        | Val v => match evals r st with Val vs => Val (v :: vs) | Raises => Raises | NoDen => NoDen end
        | Raises => Raises
        | NoDen => NoDen
        end
    end.

  Fixpoint evalkw (kw : list (string * hexpr)) (st : hstate) : ev (list (string * hval)) :=
    match kw with
    | [] => Val []
    | (k, e) :: r =>
        match eval e st with
        | Val v => match evalkw r st with Val vs => Val ((k, v) :: vs) | Raises => Raises | NoDen => NoDen end
        | Raises => Raises
        | NoDen => NoDen
        end
    end.

  Definition eval_text (e : hexpr) (st : hstate) : ev text :=
    match eval e st with
    | Val (VText t) => Val t
    | Val _ => NoDen
    | Raises => Raises
    | NoDen => NoDen
    end.

  Fixpoint cond (c : hcond) (st : hstate) : ev (bool * hstate) :=
    match c with
    | CIn e lits =>
        match eval_text e st with
        | Val t => Val (existsb (fun l => text_eqb t (t_of l)) lits, st)
        | Raises => Raises | NoDen => NoDen
        end
    | CEq e lit =>
        match eval_text e st with
        | Val t => Val (text_eqb t (t_of lit), st)
        | Raises => Raises | NoDen => NoDen
        end
    | CTruthy e =>
        match eval_text e st with
        | Val t => Val (match t with [] => false | _ :: _ => true end, st)
        | Raises => Raises | NoDen => NoDen
        end
    | CIsAscii e =>
        match eval_text e st with
        | Val t => Val (str_isascii t, st)
        | Raises => Raises | NoDen => NoDen
        end
    | CIsDigit e =>
        match eval_text e st with
        | Val t => Val (str_isdigit t, st)
        | Raises => Raises | NoDen => NoDen
        end
    | CLenLe e n =>
        match eval_text e st with
        | Val t => Val ((Z.of_nat (List.length t) <=? n)%Z, st)
        | Raises => Raises | NoDen => NoDen
        end
    | CDone a =>
        if mem_s a known_attrs then Val (has_field (w_s (st_w st)) a, st) else NoDen
    | CNot x =>
        match cond x st with
        | Val (b, st') => Val (negb b, st')
        | Raises => Raises | NoDen => NoDen
        end
    | CAnd x y =>
        match cond x st with
        | Val (true, st') => cond y st'
        | Val (false, st') => Val (false, st')
        | Raises => Raises | NoDen => NoDen
        end
    | CStateIs e state =>
        match eval e st with
        | Val (VState s') => Val (String.eqb s' state, st)
        | Val _ => NoDen
        | Raises => Raises | NoDen => NoDen
        end
    | CAuth u pw =>
        match eval u st with
        | Val (VUser i) =>
            match eval_text pw st with
            | Val p => Val (authenticate users i p, st)
            | Raises => Raises | NoDen => NoDen
            end
        | Val _ => NoDen
        | Raises => Raises | NoDen => NoDen
        end
    | CBackend m e =>
        match eval e st with
        | Val (VReal p) =>
            match backend_probe m p (w_fs (st_w st)) with
            | Some b => Val (b, with_w st (log_call (st_w st) m p))
            | None => NoDen
            end
        | Val _ => NoDen
        | Raises => Raises | NoDen => NoDen
        end
    | CWorkersRunning => Val (false, st)
    | COther _ => NoDen
    end.

  Fixpoint exec (s : hstmt) (st : hstate) {struct s} : outcome :=
    let block :=
      fix block (l : list hstmt) (st : hstate) {struct l} : outcome :=
        match l with
        | [] => Next st
        | x :: r => match exec x st with Next st' => block r st' | o => o end
        end in
    match s with
    | HLet x e =>
        match eval e st with Val v => Next (bind st x v) | Raises => raise_out st | NoDen => Undef end
    | HIf c t e =>
        match cond c st with
        | Val (true, st') => block t st'
        | Val (false, st') => block e st'
        | Raises => raise_out st
        | NoDen => Undef
        end
    | HReply c i =>
        match eval_text c st with
        | Val ct =>
            match eval i st with
            | Val (VText t) => Next (add_reply st ct (Some t))
            | Val VOpaque => Next (add_reply st ct None)
            | Val _ => Undef
            | Raises => raise_out st
            | NoDen => Undef
            end
        | Raises => raise_out st
        | NoDen => Undef
        end
    | HReturn b => finish st b
    | HSetAttr a e =>
        match eval e st with
        | Val v =>
            if mem_s a unmodelled_attrs then match v with VText _ => Next st | _ => Undef end
            else match set_attr a v (w_s (st_w st)) with Some s' => Next (with_sess st s') | None => Undef end
        | Raises => raise_out st
        | NoDen => Undef
        end
    | HDelAttr a =>
        match del_attr a (w_s (st_w st)) with Some s' => Next (with_sess st s') | None => Undef end
    | HGetPaths r v e =>
        match eval_text e st with
        | Val t =>
            let p := resolve (s_cwd (w_s (st_w st))) t in
            Next (bind (bind st r (VReal p)) v (VVirt p))
        | Raises => raise_out st
        | NoDen => Undef
        end
    | HBackend m args kw =>
        match evals args st with
        | Val vals =>
            match evalkw kw st with
            | Val kws =>
                match backend_op m vals kws (w_fs (st_w st)) with
                | Some (lp, res) =>
                    let w1 := log_call (st_w st) m lp in
                    match res with
                    | Some f => Next (with_w st (set_fs w1 f))
                    | None => fail451 st w1
                    end
                | None => Undef
                end
            | Raises => raise_out st
            | NoDen => Undef
            end
        | Raises => raise_out st
        | NoDen => Undef
        end
    | HHelper dst h args =>
        match evals args st with
        | Val [VReal p] =>
            if String.eqb h "build_mlsx_string"
            then Next (bind (with_w st (log_call (st_w st) "stat" p)) dst VOpaque)
            else Undef
        | Val _ => Undef
        | Raises => raise_out st
        | NoDen => Undef
        end
    | HGetUser sx ux ix e =>
        match eval_text e st with
        | Val login =>
            let '(state, ui) := get_user users login in
            Next (bind (bind (bind st sx (VState state)) ux (match ui with Some i => VUser i | None => VNoUser end))
                       ix VOpaque)
        | Raises => raise_out st
        | NoDen => Undef
        end
    | HNotifyLogout => Next st
    | HSpawnWorker wn caps =>
        match evals caps st with
        | Val vals =>
            match worker_den wn vals d, st_spawn st with
            | Some k, None => Next (mkHS (st_w st) (st_out st) (st_env st) (Some k))
            | _, _ => Undef
            end
        | Raises => raise_out st
        | NoDen => Undef
        end
    | HDelegate h args =>
        if out_empty (st_out st) && match st_spawn st with None => true | Some _ => false end then
          match evals args st with
          | Val [VText t] => Done (self h t d false (st_w st))
          | Val [VVirt p] => Done (self h (path_str p) d false (st_w st))
          | Val [VText t; VText m] =>
              if String.eqb h "stor" then
                if text_eqb m (t_of "ab") then Done (self h t d true (st_w st))
                else if text_eqb m (t_of "wb") then Done (self h t d false (st_w st))
                else Undef
              else Undef
          | Val _ => Undef
          | Raises => raise_out st
          | NoDen => Undef
          end
        else Undef
    | HDefCallback _ _ => Next st
    | HCloseWriter => Undef
    | HStartPassive a _ _ =>
        if String.eqb a "passive_server" then Next (with_sess st (set_listener (w_s (st_w st)))) else Undef
    | HPickSocket _ _ => Next st
    | HCloseData => if s_data (w_s (st_w st)) then Next st else raise_out st
    | HCancelWorkers => Undef
    | HRaise _ => raise_out st
    | HAbstract k _ => if String.eqb k "throttle" then Next st else Undef
    | HOther _ => Undef
    end.

  Fixpoint exec_block (l : list hstmt) (st : hstate) : outcome :=
    match l with
    | [] => Next st
    | x :: r => match exec x st with Next st' => exec_block r st' | o => o end
    end.
End Interp.

(* the handler's extra parameters: [appe] = "the mode argument was passed as ab" (APPE's delegation) *)
Definition param_vals (p : hprog) (appe : bool) : list (string * hval) :=
  map (fun pd => (fst pd, VText (if appe && String.eqb (fst pd) "mode" then t_of "ab" else t_of (snd pd))))
      (hp_params p).

Definition run_handler_prog (users : list user)
           (self : string -> text -> dataact -> bool -> world -> result)
           (p : hprog) (arg : text) (d : dataact) (appe : bool) (w : world) : option result :=
  match exec_block users self arg d (param_vals p appe) (hp_body p) (init_state w) with
  | Done r => Some r
  | Next _ => None        (* fell off the end: Python returns None *)
  | Undef => None
  end.

(* the passive listener's callback on a new data connection: session state after it ran *)
Definition run_callback (users : list user) (cb : list hstmt) (s : sess) : option sess :=
  let w := {| w_s := s; w_fs := NDir []; w_log := [] |} in
  let step1 (x : hstmt) (st : hstate) : outcome :=
    match x with
    | HCloseWriter => Next st
    | _ => exec users (fun _ _ _ _ w => (w, mk_out [], true)) [] DNone [] x st
    end in
  match cb with
  | [HIf c [t] [e]] =>
      match cond users [] [] c (init_state w) with
      | Val (b, st) =>
          match step1 (if b then t else e) st with
          | Next st' => Some (w_s (st_w st'))
          | _ => None
          end
      | _ => None
      end
  | _ => None
  end.

(* ------------------------------------------------------------------ reference programs *)
(* hand-checked transcription of the 25 handler bodies of server.py; Proofs/HandlerProg.v checks
   (closed obligation, vm_compute, every run) that TODAY's translated source equals this list *)
Definition P (b : list hstmt) : hprog := {| hp_params := []; hp_body := b |}.
Definition data_callback : hstmt :=
  HDefCallback "handler" [HIf (CDone "data_connection") [HCloseWriter] [HSetAttr "data_connection" ENewStream]].
Definition drop_stale_data : hstmt := HIf (CDone "data_connection") [HCloseData; HDelAttr "data_connection"] [].
Definition start_listener (c : string) : hstmt :=
  HIf (CNot (CDone "passive_server"))
      [HStartPassive "passive_server" "handler" [HReply (ELit "421") EOpaque; HReturn false]; HLet "x0" (ELit c)]
      [HLet "x0" (ELit c)].

Definition ref_programs : list (string * hprog) := [
  ("abor", P [
       HIf CWorkersRunning [HCancelWorkers] [HReply (ELit "226") EOpaque];
       HReturn true]);
  ("appe", P [HDelegate "stor" [ERest; ELit "ab"]]);
  ("cdup", P [HDelegate "cwd" [EParent (EAttr "current_directory")]]);
  ("cwd", P [
       HGetPaths "x0" "x1" ERest;
       HSetAttr "current_directory" (EVar "x1");
       HReply (ELit "250") EOpaque;
       HReturn true]);
  ("dele", P [
       HGetPaths "x0" "x1" ERest;
       HBackend "unlink" [EVar "x0"] [];
       HReply (ELit "250") EOpaque;
       HReturn true]);
  ("epsv", P [
       data_callback;
       HIf (CTruthy ERest) [HLet "x0" (ELit "522"); HReply (EVar "x0") EOpaque; HReturn true] [];
       start_listener "229";
       HPickSocket "if L0.family in (socket.AF_INET, socket.AF_INET6): L1, L2, *L1 = L0.getsockname() break" [];
       drop_stale_data;
       HReply (EVar "x0") EOpaque;
       HReturn true]);
  ("list", P [
       HGetPaths "x0" "x1" ERest;
       HSpawnWorker "list_worker" [EVar "x0"];
       HReply (ELit "150") EOpaque;
       HReturn true]);
  ("mkd", P [
       HGetPaths "x0" "x1" ERest;
       HBackend "mkdir" [EVar "x0"] [("parents", EBool true)];
       HReply (ELit "257") EOpaque;
       HReturn true]);
  ("mlsd", P [
       HGetPaths "x0" "x1" ERest;
       HSpawnWorker "mlsd_worker" [EVar "x0"];
       HReply (ELit "150") EOpaque;
       HReturn true]);
  ("mlst", P [
       HGetPaths "x0" "x1" ERest;
       HHelper "x2" "build_mlsx_string" [EVar "x0"];
       HReply (ELit "250") EOpaque;
       HReturn true]);
  ("pass_", P [
       HIf (CDone "logged") [HLet "x0" (ELit "503")]
           [HIf (CAuth (EAttr "user") ERest)
                [HSetAttr "logged" (EBool true); HLet "x0" (ELit "230")]
                [HLet "x0" (ELit "530")]];
       HReply (EVar "x0") EOpaque;
       HReturn true]);
  ("pasv", P [
       data_callback;
       start_listener "227";
       HPickSocket "if L0.family == socket.AF_INET: L1, L2 = L0.getsockname() if self.ipv4_pasv_forced_response_address: L1 = self.ipv4_pasv_forced_response_address break"
                   [HReply (ELit "503") EOpaque; HReturn false];
       drop_stale_data;
       HReply (EVar "x0") EOpaque;
       HReturn true]);
  ("pbsz", P [HReply (ELit "200") EOpaque; HReturn true]);
  ("prot", P [
       HIf (CEq ERest "P") [HLet "x0" (ELit "200")] [HLet "x0" (ELit "502")];
       HReply (EVar "x0") EOpaque;
       HReturn true]);
  ("pwd", P [
       HLet "x0" (EDblQuote (EStr (EAttr "current_directory")));
       HReply (ELit "257") (EQuoted (EVar "x0"));
       HReturn true]);
  ("quit", P [HReply (ELit "221") EOpaque; HReturn false]);
  ("rest", P [
       HIf (CAnd (CAnd (CIsAscii ERest) (CIsDigit ERest)) (CLenLe ERest 18))
           [HSetAttr "restart_offset" (EIntOf ERest); HReply (ELit "350") EOpaque]
           [HSetAttr "restart_offset" (EInt 0); HReply (ELit "501") EOpaque];
       HReturn true]);
  ("retr", P [
       HGetPaths "x0" "x1" ERest;
       HSpawnWorker "retr_worker" [EVar "x0"];
       HReply (ELit "150") EOpaque;
       HReturn true]);
  ("rmd", P [
       HGetPaths "x0" "x1" ERest;
       HBackend "rmdir" [EVar "x0"] [];
       HReply (ELit "250") EOpaque;
       HReturn true]);
  ("rnfr", P [
       HGetPaths "x0" "x1" ERest;
       HSetAttr "rename_from" (EVar "x0");
       HReply (ELit "350") EOpaque;
       HReturn true]);
  ("rnto", P [
       HGetPaths "x0" "x1" ERest;
       HLet "x2" (EAttr "rename_from");
       HDelAttr "rename_from";
       HBackend "rename" [EVar "x2"; EVar "x0"] [];
       HReply (ELit "250") EOpaque;
       HReturn true]);
  ("stor", {| hp_params := [("mode", "wb")]; hp_body := [
       HGetPaths "x0" "x1" ERest;
       HIf (CBackend "is_dir" (EParent (EVar "x0")))
           [HSpawnWorker "stor_worker" [EVar "x0"; EParam "mode"]; HLet "x2" (ELit "150")]
           [HLet "x2" (ELit "550")];
       HReply (EVar "x2") EOpaque;
       HReturn true] |});
  ("syst", P [HReply (ELit "215") EOpaque; HReturn true]);
  ("type", P [
       HIf (CIn ERest ["I"; "A"]) [HSetAttr "transfer_type" ERest; HLet "x0" (ELit "200")] [HLet "x0" (ELit "502")];
       HReply (EVar "x0") EOpaque;
       HReturn true]);
  ("user", P [
       HIf (CDone "user") [HNotifyLogout] [];
       HDelAttr "logged";
       HDelAttr "rename_from";
       HDelAttr "user";
       HGetUser "x0" "x1" "x2" ERest;
       HIf (CStateIs (EVar "x0") "OK")
           [HLet "x3" (ELit "230"); HSetAttr "logged" (EBool true); HSetAttr "user" (EVar "x1")]
           [HIf (CStateIs (EVar "x0") "PASSWORD_REQUIRED")
                [HLet "x3" (ELit "331"); HSetAttr "user" (EVar "x1")]
                [HIf (CStateIs (EVar "x0") "ERROR") [HLet "x3" (ELit "530")] [HRaise "NotImplementedError"]]];
       HIf (CDone "user")
           [HSetAttr "current_directory" EUserHome;
            HAbstract "throttle" "if connection.user not in self.throttle_per_user: L0 = StreamThrottle.from_limits(connection.user.read_speed_limit, connection.user.write_speed_limit) self.throttle_per_user[connection.user] = L0";
            HAbstract "throttle" "connection.command_connection.throttles.update(user_global=self.throttle_per_user[connection.user], user_per_connection=StreamThrottle.from_limits(connection.user.read_speed_limit_per_connection, connection.user.write_speed_limit_per_connection))"]
           [];
       HReply (EVar "x3") EOpaque;
       HReturn true])
].

Definition prog_of (progs : list (string * hprog)) (name : string) : hprog :=
  match assoc_s name progs with
  | Some p => p
  | None => P [HOther "no such handler"]
  end.

Definition handler_names : list string := map fst ref_programs.

(* ------------------------------------------------------------------ the whole handler from programs *)
(* [handler] of Model/Session.v with every body replaced by the denotation of its program *)
Definition prog_body (users : list user) (progs : list (string * hprog))
           (self : string -> text -> dataact -> bool -> world -> result)
           (name : string) (arg : text) (d : dataact) (appe : bool) (w : world) : result :=
  match run_handler_prog users self (prog_of progs name) arg d appe w with
  | Some r => r
  | None => (w, mk_out [], true)
  end.

Fixpoint handler_prog (users : list user) (table : list (string * (string * list deco * option string)))
         (progs : list (string * hprog)) (fuel : nat)
         (name : string) (arg : text) (d : dataact) (appe : bool) (w : world) : result :=
  match fuel with
  | O => (w, mk_out [], true)
  | S f =>
      match handler_of table name with
      | None => (w, mk_out [], true)
      | Some (ds, _) => run_decos users ds arg w (prog_body users progs (handler_prog users table progs f) name arg d appe)
      end
  end.

(* ------------------------------------------------------------------ what a transfer handler schedules *)
(* the statements a handler runs before its first reply: for LIST / MLSD / RETR / STOR this is path resolution
   (+ STOR's parent probe) and the scheduling of the worker.  [scheduled] returns the world after them and the
   worker closure that will be run LATER, when the data connection arrives -- in whatever world that is *)
Fixpoint before_reply (l : list hstmt) : list hstmt :=
  match l with
  | [] => []
  | HReply _ _ :: _ => []
  | x :: r => x :: before_reply r
  end.

Definition scheduled (users : list user) (self : string -> text -> dataact -> bool -> world -> result)
           (p : hprog) (arg : text) (d : dataact) (appe : bool) (w : world)
  : option (world * option (world -> world * out)) :=
  match exec_block users self arg d (param_vals p appe) (before_reply (hp_body p)) (init_state w) with
  | Next st => Some (st_w st, st_spawn st)
  | _ => None
  end.
