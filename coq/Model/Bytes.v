(* Bytes: files as byte lists, the file operations the transfer workers use, and the
   specification of what a store / a retrieve must produce (C01).

   A file is `list Z` (bytes below 256; nothing here depends on the bound).  A file handle is
   (content, position).  The operations are those of io.BytesIO (MemoryPathIO) and of a POSIX
   file opened through pathlib (PathIO, AsyncPathIO), restricted to how server.py uses them:
     open "wb"  : truncate, position 0
     open "ab"  : keep, position at the end   (POSIX O_APPEND writes at the end whatever the
                  position; BytesIO just starts at the end: they coincide because the workers
                  never seek a file opened "ab" -- a restart offset selects "r+b" instead)
     open "r+b" : keep, position 0            (the file must exist: on disk a missing file is
                  FileNotFoundError, MemoryPathIO creates it -- that divergence is C18's; every
                  statement about "r+b" here is about an existing file `old`)
     open "rb"  : keep, position 0
     seek o     : position := o (absolute; beyond the end is allowed and changes nothing yet)
     write d    : non-empty d is stored at the position: the gap beyond the old end is filled
                  with zero bytes, existing bytes are overwritten, the file is extended as needed;
                  position += len d.  (The workers never write an empty block: the iterator stops
                  on it; `write_at _ [] old = old` keeps the function total.)
     read n     : up to n bytes from the position, empty exactly at/after the end.
   No proofs here (Proofs/Bytes.v). *)
From Coq Require Import ZArith List Bool Arith.
From Verif Require Import Lib.Sx.
Import ListNotations.

Definition bytes := list Z.

Definition zeros (n : nat) : bytes := repeat 0%Z n.

Definition write_at (off : nat) (data old : bytes) : bytes :=
  match data with
  | [] => old
  | _ :: _ =>
      firstn off old ++ zeros (off - length old) ++ data ++ skipn (off + length data) old
  end.

Inductive mode : Type := WB | AB | RPB | RB.

Record handle : Type := mkH { h_content : bytes; h_pos : nat }.

Definition h_open (m : mode) (old : bytes) : handle :=
  match m with
  | WB => mkH [] 0
  | AB => mkH old (length old)
  | RPB => mkH old 0
  | RB => mkH old 0
  end.

Definition h_seek (off : nat) (h : handle) : handle := mkH (h_content h) off.

Definition h_write (d : bytes) (h : handle) : handle :=
  mkH (write_at (h_pos h) d (h_content h)) (h_pos h + length d).

(* lo <= clamp lo hi x <= max lo hi *)
Definition clamp (lo hi x : nat) : nat := Nat.max lo (Nat.min hi x).

(* how many bytes a read(block) hands out when `avail` bytes could be returned and the
   oracle asks for r: at least 1, at most min(block, avail) -- a short read is allowed,
   an empty one is not unless nothing is available *)
Definition take_len (block r avail : nat) : nat := clamp 1 (Nat.min block avail) r.

(* backend read(block) with a short-read oracle r (r >= block: the full read of BytesIO / a
   regular file) *)
Definition h_read (block r : nat) (h : handle) : bytes * handle :=
  let avail := skipn (h_pos h) (h_content h) in
  let d := firstn (take_len block r (length avail)) avail in
  (d, mkH (h_content h) (h_pos h + length d)).

(* ---- specification: what must be in the file after a store, on the wire after a retrieve ---- *)

(* m is the mode of the verb (STOR: wb, APPE: ab); off the restart offset (0 = none) *)
Definition spec_store (m : mode) (off : nat) (payload old : bytes) : bytes :=
  match off with
  | O => match m with
         | WB => payload
         | AB => old ++ payload
         | RPB | RB => write_at 0 payload old     (* not selected by any verb; kept total *)
         end
  | S _ => write_at off payload old
  end.

Definition spec_retr (off : nat) (content : bytes) : bytes := skipn off content.

(* ---- harness interface helpers ---- *)
Definition nat_of_sx (s : sx) : nat := Z.to_nat (z_of_sx s).
Definition sx_of_nat (n : nat) : sx := I (Z.of_nat n).
Definition bytes_of_sx (s : sx) : bytes := text_of_sx s.
Definition sx_of_bytes (b : bytes) : sx := sx_of_text b.
Definition nats_of_sx (s : sx) : list nat := map nat_of_sx (list_of_sx s).
Definition byteses_of_sx (s : sx) : list bytes := map bytes_of_sx (list_of_sx s).
Definition sx_of_byteses (l : list bytes) : sx := L (map sx_of_bytes l).
Definition mode_of_sx (s : sx) : mode :=
  match z_of_sx s with
  | 0%Z => WB
  | 1%Z => AB
  | 2%Z => RPB
  | _ => RB
  end.
