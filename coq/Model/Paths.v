(* Model of Server.get_paths (server.py:1008-1039), C02.
   POSIX flavour on the real side here; the Windows flavour of the real side is in
   Model/PathsWin.v.  The independent specification `normalize` is at the end. *)
From Coq Require Import ZArith List Bool.
From Verif Require Import Lib.Sx Lib.PyStr Lib.PosixPath.
Import ListNotations.
Open Scope Z_scope.

Definition root : ppath := parse [SLASH].            (* pathlib.PurePosixPath("/") *)

(*  for part in virtual_path.parts[1:]:
        if part == "..": resolved = resolved.parent
        else:            resolved /= part                                   *)
Definition fold_step (resolved : ppath) (part : text) : ppath :=
  if text_eqb part dotdot then parent resolved else joinp resolved (parse part).

Definition resolve (v : ppath) : ppath := fold_left fold_step (tl (pparts v)) root.

(* the virtual half: everything before `base_path = ...` *)
Definition virtual_of (cwd v0 : ppath) : ppath :=
  let v := if is_absolute v0 then v0 else joinp cwd v0 in
  resolve v.

(* get_paths with the argument already a PurePosixPath (cdup passes one).
   None = the ValueError of relative_to("/") escapes. *)
Definition get_paths_p (base cwd v0 : ppath) : option (ppath * ppath) :=
  let resolved := virtual_of cwd v0 in
  match relative_to resolved (parse [SLASH]) with
  | None => None
  | Some rel =>
      let real := joinp base (parse (to_str rel)) in       (* base_path / str(...) *)
      if is_relative_to real base then Some (real, resolved)
      else Some (base, root)
  end.

(* get_paths(connection, path : str) *)
Definition get_paths (base cwd : ppath) (s : text) : option (ppath * ppath) :=
  get_paths_p base cwd (parse s).

(* ---- cwd / cdup as far as the working directory is concerned ----
   cwd:  real, virtual = get_paths(connection, rest); current_directory = virtual
   cdup: cwd(connection, current_directory.parent)
   `accepted` says whether the decorators (existence, is_dir, permission) let the
   command through; a refused command leaves the working directory alone. *)
Inductive nav : Type :=
| Cwd (arg : text) (accepted : bool)
| Cdup (accepted : bool).

Definition nav_step (base cwd : ppath) (c : nav) : ppath :=
  match c with
  | Cwd s true => match get_paths base cwd s with Some (_, v) => v | None => cwd end
  | Cdup true => match get_paths_p base cwd (parent cwd) with Some (_, v) => v | None => cwd end
  | _ => cwd
  end.

Definition nav_run (base home : ppath) (h : list nav) : ppath := fold_left (nav_step base) h home.

(* ---- independent specification ----
   A stack of names; a segment is pushed, '..' pops (nothing to pop at the root),
   '.' and '' are skipped.  The stack is kept reversed (top first). *)
Definition spec_step (st : list text) (seg : text) : list text :=
  if text_eqb seg dotdot then tl st
  else if text_eqb seg [] || text_eqb seg dot then st
  else seg :: st.

Definition starts_slash (s : text) : bool :=
  match s with c :: _ => c =? SLASH | [] => false end.

(* cwd_parts: the names of the working directory below '/', in order (may contain '..') *)
Definition normalize (cwd_parts : list text) (s : text) : list text :=
  let st0 := if starts_slash s then [] else fold_left spec_step cwd_parts [] in
  rev (fold_left spec_step (split_on SLASH s) st0).

(* the property oracle, as booleans *)
Definition no_dotdot (l : list text) : bool := forallb (fun x => negb (text_eqb x dotdot)) l.
Definition confined (base real : ppath) : bool :=
  (anchor base =? anchor real) && is_prefix (parts base) (parts real)
  && no_dotdot (skipn (length (parts base)) (parts real)).

(* ---- harness interface ---- *)
Definition sx_of_pair (r : option (ppath * ppath)) : sx :=
  match r with
  | Some (re, vi) => sx_ok (L [sx_of_ppath re; sx_of_ppath vi; sx_of_text (to_str re); sx_of_text (to_str vi)])
  | None => sx_err 1
  end.

Definition nav_of_sx (s : sx) : nav :=
  match list_of_sx s with
  | [I 0; a; b] => Cwd (text_of_sx a) (bool_of_sx b)
  | [I 1; b] => Cdup (bool_of_sx b)
  | _ => Cdup false
  end.

Definition run_paths (fn : Z) (a : sx) : sx :=
  if fn <? 10 then run_posixpath fn a else
  let s0 := text_of_sx (nth_sx 0 a) in
  let s1 := text_of_sx (nth_sx 1 a) in
  let s2 := text_of_sx (nth_sx 2 a) in
  match fn with
  | 10 => sx_of_pair (get_paths (parse s0) (parse s1) s2)           (* base, cwd, path *)
  | 11 => sx_of_texts (normalize (parts (parse s0)) s1)             (* cwd, path *)
  | 12 => sx_of_ppath (nav_run (parse s0) (parse s1) (map nav_of_sx (list_of_sx (nth_sx 2 a))))
  | _ => sx_err 99
  end.
