(* TransferFiles: several files, several uploads (C01, round 4).

   The backend is a map from FULL names to contents.  stor_worker opens `real_path` itself
   (regenerated fact xf_stor_open = "conn.path_io.open(real_path, mode=file_mode)") and nothing
   else (xf_stor_fs_calls: the only path_io call of the worker is that open), so an upload of name
   n is stor_worker_on applied to the entry of n, and every other entry -- `x.json` next to
   `x.csv`, a `x.part` somebody stored earlier -- is not touched.  Two uploads that overlap in
   time hold two handles on two entries; their block writes interleave in any order.
   No proofs here. *)
From Coq Require Import ZArith Bool Arith String List.
From Verif Require Import Lib.Sx Lib.Facts Lib.XferFacts Model.Bytes Model.TransferBytes Model.TransferTimed.
Import ListNotations.
Open Scope string_scope.
Open Scope list_scope.
Open Scope nat_scope.

Definition fs : Type := list (string * bytes).

Fixpoint fs_get (f : fs) (n : string) : option bytes :=
  match f with
  | [] => None
  | (k, c) :: r => if String.eqb k n then Some c else fs_get r n
  end.

Fixpoint fs_set (f : fs) (n : string) (c : bytes) : fs :=
  match f with
  | [] => [(n, c)]
  | (k, c0) :: r => if String.eqb k n then (k, c) :: r else (k, c0) :: fs_set r n c
  end.

(* one acknowledged-or-refused upload: (table, verb mode, offset, name, read trace).
   Some f' with the entry replaced when a 226 is sent; the same f when the worker ends with 451
   (restart offset on a missing file); None when the mode table cannot be interpreted *)
Definition fs_upload (table : list string) (f : fs) (vm : mode) (off : nat) (n : string) (reads : list bytes)
  : option fs :=
  match stor_worker_on table vm off (fs_get f n) reads with
  | None => None
  | Some None => Some f
  | Some (Some c) => Some (fs_set f n c)
  end.

Record upload : Type := mkUp { u_mode : mode; u_off : nat; u_name : string; u_reads : list bytes }.

Fixpoint fs_history (table : list string) (f : fs) (h : list upload) : option fs :=
  match h with
  | [] => Some f
  | u :: r => match fs_upload table f (u_mode u) (u_off u) (u_name u) (u_reads u) with
              | None => None
              | Some f' => fs_history table f' r
              end
  end.

(* two uploads in flight at once: each worker has opened ITS entry and holds its own handle; the
   schedule says whose next block is written (true = the first worker); when one side has no block
   left its turns are skipped; when the schedule ends the remaining blocks are written *)
Fixpoint interleave (sched : list bool) (ha hb : handle) (ba bb : list bytes) : handle * handle :=
  match sched with
  | [] => (fold_left (fun h d => h_write d h) ba ha, fold_left (fun h d => h_write d h) bb hb)
  | true :: r => match ba with
                 | [] => interleave r ha hb ba bb
                 | d :: ba' => interleave r (h_write d ha) hb ba' bb
                 end
  | false :: r => match bb with
                  | [] => interleave r ha hb ba bb
                  | d :: bb' => interleave r ha (h_write d hb) ba bb'
                  end
  end.

Definition open_for (table : list string) (f : fs) (vm : mode) (off : nat) (n : string) : option handle :=
  match select_mode table vm (negb (off =? 0)) with
  | None => None
  | Some m => match h_open_opt m (fs_get f n) with
              | None => None
              | Some h0 => Some (if negb (off =? 0) then h_seek off h0 else h0)
              end
  end.

(* both open, blocks interleave, both close: the two entries afterwards *)
Definition fs_overlap (table : list string) (f : fs) (ua ub : upload) (sched : list bool) : option fs :=
  match open_for table f (u_mode ua) (u_off ua) (u_name ua), open_for table f (u_mode ub) (u_off ub) (u_name ub) with
  | Some ha, Some hb =>
      let '(ha', hb') := interleave sched ha hb (iter_blocks (u_reads ua)) (iter_blocks (u_reads ub)) in
      Some (fs_set (fs_set f (u_name ua) (h_content ha')) (u_name ub) (h_content hb'))
  | _, _ => None
  end.

(* ------------------------------------------------------------------------------------------ *)
(* harness interface *)
Definition upload_of_sx (names : list string) (s : sx) : upload :=
  (* (name index, mode, offset, payload-as-one-block) *)
  mkUp (mode_of_sx (nth_sx 1 s)) (nat_of_sx (nth_sx 2 s))
       (nth (nat_of_sx (nth_sx 0 s)) names "?")
       (match bytes_of_sx (nth_sx 3 s) with [] => [[]] | p => [p; []] end).

Definition name_family : list string :=
  ["x.csv"; "x.json"; "x.part"; "x"; "x.tar.gz"; "x.tar"; "y.csv"; "x.csv.part"].

Definition sx_of_fs (f : fs) : sx :=
  L (map (fun n => match fs_get f n with
                   | None => L []
                   | Some c => L [sx_of_bytes c]
                   end) name_family).

Definition fs_of_sx (s : sx) : fs :=
  (* list of (name index, content) *)
  fold_left (fun f p => fs_set f (nth (nat_of_sx (nth_sx 0 p)) name_family "?") (bytes_of_sx (nth_sx 1 p)))
            (list_of_sx s) [].

Definition run_files (fn : Z) (a : sx) : sx :=
  match fn with
  | 16%Z => (* fs_history: initial fs, list of uploads -> content of every name of the family *)
      match fs_history expected_stor_modes (fs_of_sx (nth_sx 0 a))
                       (map (upload_of_sx name_family) (list_of_sx (nth_sx 1 a))) with
      | None => sx_err 1
      | Some f => sx_ok (sx_of_fs f)
      end
  | 17%Z => (* fs_overlap: initial fs, upload a, upload b, schedule *)
      match fs_overlap expected_stor_modes (fs_of_sx (nth_sx 0 a))
                       (upload_of_sx name_family (nth_sx 1 a)) (upload_of_sx name_family (nth_sx 2 a))
                       (map bool_of_sx (list_of_sx (nth_sx 3 a))) with
      | None => sx_err 1
      | Some f => sx_ok (sx_of_fs f)
      end
  | _ => run_timed fn a
  end.
