(* C02 over ONE control connection with several logins.

   The Connection object of a session survives USER/PASS: Server.user() replaces
   connection.user, connection.logged and connection.current_directory (:= home_path) and nothing
   else.  Every path command resolves its argument with get_paths(connection, rest), i.e. with
   the base_path of the user that is logged in NOW and the working directory as it is NOW.
   This file models which real paths are handed to the storage backend along such a history:

     sess_step   the handlers as written, on the state (base_path of connection.user,
                 connection.current_directory, connection.rename_from)
     spec_step   an independent bookkeeping: (index of the current user, stack of names,
                 rename source as (owner, names)); outputs are LABELLED (owner, names, parent?)
                 and only `realise` turns them into paths (base of the owner ++ names)

   Proofs/PathsSess.v equates the two, proves that every output is owned by the CURRENT user
   (user() drops a pending rename source since the repair of F18) and confined in the current
   user's base unless it is the parent probe of the virtual root (finding F19). *)
From Coq Require Import ZArith List Bool.
From Verif Require Import Lib.Sx Lib.PyStr Lib.PosixPath Model.Paths Model.PathsWin.
Import ListNotations.
Open Scope Z_scope.

Record suser : Type := mkuser { u_base : ppath; u_home : ppath }.

Inductive sev : Type :=
| ELogin (i : nat)                 (* USER (+PASS) resolving to users[i]: user := it, cwd := its home_path *)
| ENav (c : nav)                   (* CWD / CDUP (Model/Paths.v), accepted or refused by the decorators *)
| EPath (s : text)                 (* MLST MKD RMD DELE RETR LIST MLSD: the backend gets real_path *)
| EStor (s : text)                 (* STOR APPE: is_dir(real_path.parent), then open(real_path) *)
| ERnfr (s : text) (accepted : bool)   (* accepted: connection.rename_from = real_path *)
| ERnto (s : text) (accepted : bool).  (* accepted: rename(connection.rename_from, real_path); del rename_from *)

Record sst : Type := mkst { s_base : ppath; s_cwd : ppath; s_rnfr : option ppath }.

Definition sess_start (u : suser) : sst := mkst (u_base u) (u_home u) None.

Definition real_of (r : option (ppath * ppath)) : list ppath :=
  match r with Some (re, _) => [re] | None => [] end.

(* one command: the new state and the real paths handed to connection.path_io, in call order
   (repeated calls on the same path are listed once) *)
Definition sess_step (users : list suser) (st : sst) (e : sev) : sst * list ppath :=
  let base := s_base st in
  let cwd := s_cwd st in
  match e with
  | ELogin i =>
      match nth_error users i with
      | Some u => (mkst (u_base u) (u_home u) None, [])      (* user(): del connection.rename_from (F18 repaired) *)
      | None => (mkst base cwd None, [])                      (* unknown user: 530, nobody logged in; rename_from is gone too *)
      end
  | ENav c =>
      (mkst base (nav_step base cwd c) (s_rnfr st),
       match c with
       | Cwd s _ => real_of (get_paths base cwd s)
       | Cdup _ => real_of (get_paths_p base cwd (parent cwd))
       end)
  | EPath s => (st, real_of (get_paths base cwd s))
  | EStor s =>
      (st, match get_paths base cwd s with Some (re, _) => [parent re; re] | None => [] end)
  | ERnfr s ok =>
      match get_paths base cwd s with
      | Some (re, _) => ((if ok then mkst base cwd (Some re) else st), [re])
      | None => (st, [])
      end
  | ERnto s ok =>
      match s_rnfr st with
      | None => (st, [])                                               (* 503 before any path is looked at *)
      | Some r =>
          match get_paths base cwd s with
          | Some (re, _) => if ok then (mkst base cwd None, [re; r]) else (st, [re])
          | None => (st, [])
          end
      end
  end.

(* per command: (base_path of the user logged in when the command ran, paths handed to the backend) *)
Fixpoint sess_run (users : list suser) (st : sst) (h : list sev) : list (ppath * list ppath) :=
  match h with
  | [] => []
  | e :: h' => let (st', o) := sess_step users st e in (s_base st, o) :: sess_run users st' h'
  end.

Fixpoint sess_final (users : list suser) (st : sst) (h : list sev) : sst :=
  match h with
  | [] => st
  | e :: h' => sess_final users (fst (sess_step users st e)) h'
  end.

(* ---- independent bookkeeping ---- *)
Record lab : Type := mklab { l_owner : nat; l_names : list text; l_parent : bool }.
Record pst : Type := mkpst { p_cur : nat; p_stack : list text; p_rnfr : option (nat * list text) }.

Definition spec_start (i : nat) (u : suser) : pst := mkpst i (parts (u_home u)) None.

Definition spec_cdup (stack : list text) : list text := rev (fold_left spec_step (removelast stack) []).

Definition pspec_step (users : list suser) (st : pst) (e : sev) : pst * list lab :=
  let cur := p_cur st in
  let stack := p_stack st in
  match e with
  | ELogin i =>
      match nth_error users i with
      | Some u => (mkpst i (parts (u_home u)) None, [])
      | None => (mkpst cur stack None, [])
      end
  | ENav (Cwd s ok) =>
      let n := normalize stack s in
      (mkpst cur (if ok then n else stack) (p_rnfr st), [mklab cur n false])
  | ENav (Cdup ok) =>
      let n := spec_cdup stack in
      (mkpst cur (if ok then n else stack) (p_rnfr st), [mklab cur n false])
  | EPath s => (st, [mklab cur (normalize stack s) false])
  | EStor s => let n := normalize stack s in (st, [mklab cur n true; mklab cur n false])
  | ERnfr s ok =>
      let n := normalize stack s in
      ((if ok then mkpst cur stack (Some (cur, n)) else st), [mklab cur n false])
  | ERnto s ok =>
      match p_rnfr st with
      | None => (st, [])
      | Some (o, c) =>
          let n := normalize stack s in
          if ok then (mkpst cur stack None, [mklab cur n false; mklab o c false])
          else (st, [mklab cur n false])
      end
  end.

(* (current user at that command, labelled outputs of the command) *)
Fixpoint pspec_run (users : list suser) (st : pst) (h : list sev) : list (nat * list lab) :=
  match h with
  | [] => []
  | e :: h' => let (st', o) := pspec_step users st e in (p_cur st, o) :: pspec_run users st' h'
  end.

Definition base_of (users : list suser) (i : nat) : ppath :=
  match nth_error users i with Some u => u_base u | None => mkp 0 [] end.

Definition realise (users : list suser) (l : lab) : ppath :=
  let b := base_of users (l_owner l) in
  let p := mkp (anchor b) (parts b ++ l_names l) in
  if l_parent l then parent p else p.

(* ---- harness interface ---- *)
Definition user_of_sx (s : sx) : suser :=
  mkuser (parse (text_of_sx (nth_sx 0 s))) (parse (text_of_sx (nth_sx 1 s))).

Definition sev_of_sx (s : sx) : sev :=
  match list_of_sx s with
  | [I 0; i] => ELogin (Z.to_nat (z_of_sx i))
  | [I 1; a; b] => ENav (Cwd (text_of_sx a) (bool_of_sx b))
  | [I 2; b] => ENav (Cdup (bool_of_sx b))
  | [I 3; a] => EPath (text_of_sx a)
  | [I 4; a] => EStor (text_of_sx a)
  | [I 5; a; b] => ERnfr (text_of_sx a) (bool_of_sx b)
  | [I 6; a; b] => ERnto (text_of_sx a) (bool_of_sx b)
  | _ => ELogin 0
  end.

Definition sx_of_path1 (p : ppath) : sx := L [sx_of_ppath p; sx_of_text (to_str p)].
Definition sx_of_paths (l : list ppath) : sx := L (map sx_of_path1 l).

Definition sx_of_lab (l : lab) : sx :=
  L [I (Z.of_nat (l_owner l)); sx_of_texts (l_names l); sx_of_bool (l_parent l)].

(* fn 50: users, index of the first login, history -> per command the backend paths, and the final cwd
   fn 51: the same through the independent bookkeeping: per command (current user, labelled outputs) *)
Definition run_pathssess (fn : Z) (a : sx) : sx :=
  if fn <? 50 then run_pathswin fn a else
  let users := map user_of_sx (list_of_sx (nth_sx 0 a)) in
  let i := Z.to_nat (z_of_sx (nth_sx 1 a)) in
  let h := map sev_of_sx (list_of_sx (nth_sx 2 a)) in
  match nth_error users i with
  | None => sx_err 2
  | Some u =>
      match fn with
      | 50 => sx_ok (L [L (map (fun bo => L [sx_of_path1 (fst bo); sx_of_paths (snd bo)]) (sess_run users (sess_start u) h));
                        sx_of_path1 (s_cwd (sess_final users (sess_start u) h))])
      | 51 => sx_ok (L (map (fun co => L [I (Z.of_nat (fst co)); L (map sx_of_lab (snd co))])
                            (pspec_run users (spec_start i u) h)))
      | _ => sx_err 99
      end
  end.
