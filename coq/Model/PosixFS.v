(* PosixFS: the operations of aioftp.PathIO / AsyncPathIO as pathlib (CPython 3.12) issues them
   on a POSIX file system (Linux): path resolution with ENOENT/ENOTDIR, mkdir(2), pathlib's
   mkdir(parents, exist_ok) recursion, rmdir(2), unlink(2), glob('*') (every entry, dot-files
   included; empty for a non-directory), stat(2), rename(2) with its replacement rules,
   open modes rb/wb/ab/r+b (O_APPEND for 'ab'), seek/read/write with zero fill.
   A model of the kernel + interpreter: validated against the real kernel by the
   correspondence (real PathIO in a temporary directory), not proved.
   Permissions, symlinks, hard links, name-length limits and times are outside the model.
   Directory order is unspecified on a real file system; the model keeps insertion order and
   every comparison goes through sorted listings / `abs`. *)
From Coq Require Import ZArith List Bool.
From Verif Require Import Lib.Sx Model.FsBase.
Import ListNotations.
Open Scope Z_scope.

Inductive resolved := Found (n : node) | Fail (e : err).

(* kernel path walk: a missing component is ENOENT, continuing below a non-directory ENOTDIR *)
Fixpoint resolve (p : path) (t : node) : resolved :=
  match p with
  | [] => Found t
  | x :: p' =>
      match t with
      | File _ => Fail ENOTDIR
      | Dir es => match assoc x es with
                  | Some c => resolve p' c
                  | None => Fail ENOENT
                  end
      end
  end.

(* Path.exists / is_dir / is_file swallow ENOENT and ENOTDIR *)
Definition p_exists (t : node) (p : path) : bool :=
  match resolve p t with Found _ => true | Fail _ => false end.
Definition p_is_dir (t : node) (p : path) : bool :=
  match resolve p t with Found (Dir _) => true | _ => false end.
Definition p_is_file (t : node) (p : path) : bool :=
  match resolve p t with Found (File _) => true | _ => false end.

(* resolve the parent directory of the last component: the entries of that directory *)
Definition resolve_parent (t : node) (pp : path) : entries + err :=
  match resolve pp t with
  | Fail e => inr e
  | Found (File _) => inr ENOTDIR
  | Found (Dir es) => inl es
  end.

(* mkdir(2) *)
Definition sys_mkdir (t : node) (p : path) : node + err :=
  match unsnoc p with
  | None => inr EEXIST                          (* the root exists *)
  | Some (pp, x) =>
      match resolve_parent t pp with
      | inr e => inr e
      | inl es =>
          match assoc x es with
          | Some _ => inr EEXIST
          | None => inl (upd pp (on_dir (fun es => es ++ [(x, Dir [])])) t)
          end
      end
  end.

(* pathlib.Path.mkdir with parents=False:
     try: os.mkdir(self)
     except FileNotFoundError: raise
     except OSError: if not exist_ok or not self.is_dir(): raise *)
Definition p_mkdir_flat (t : node) (p : path) (exist_ok : bool) : result * node :=
  match sys_mkdir t p with
  | inl t' => (Ok VUnit, t')
  | inr ENOENT => (Err ENOENT, t)
  | inr e => if exist_ok && p_is_dir t p then (Ok VUnit, t) else (Err e, t)
  end.

(* parents=True, on the reversed path (self.parent is the tail):
     except FileNotFoundError:
         if self.parent == self: raise
         self.parent.mkdir(parents=True, exist_ok=True)
         self.mkdir(mode, parents=False, exist_ok=exist_ok) *)
Fixpoint p_mkdir_parents (rp : list name) (t : node) (exist_ok : bool) : result * node :=
  match sys_mkdir t (rev rp) with
  | inl t' => (Ok VUnit, t')
  | inr ENOENT =>
      match rp with
      | [] => (Err ENOENT, t)
      | _ :: rp' =>
          match p_mkdir_parents rp' t true with
          | (Ok _, t1) => p_mkdir_flat t1 (rev rp) exist_ok
          | (Err e, t1) => (Err e, t1)
          end
      end
  | inr e => if exist_ok && p_is_dir t (rev rp) then (Ok VUnit, t) else (Err e, t)
  end.

Definition p_mkdir (t : node) (p : path) (parents exist_ok : bool) : result * node :=
  if parents then p_mkdir_parents (rev p) t exist_ok else p_mkdir_flat t p exist_ok.

Definition p_remove (t : node) (p : path) : node :=
  match unsnoc p with
  | None => t
  | Some (pp, x) => upd pp (on_dir (remove_first x)) t
  end.

(* rmdir(2) *)
Definition p_rmdir (t : node) (p : path) : result * node :=
  match resolve p t with
  | Fail e => (Err e, t)
  | Found (File _) => (Err ENOTDIR, t)
  | Found (Dir (_ :: _)) => (Err ENOTEMPTY, t)
  | Found (Dir []) =>
      match p with
      | [] => (Err ERoot, t)      (* would remove the base directory itself: excluded *)
      | _ => (Ok VUnit, p_remove t p)
      end
  end.

(* unlink(2) *)
Definition p_unlink (t : node) (p : path) : result * node :=
  match resolve p t with
  | Fail e => (Err e, t)
  | Found (Dir _) => (Err EISDIR, t)
  | Found (File _) => (Ok VUnit, p_remove t p)
  end.

(* path.glob('*') *)
Definition p_list (t : node) (p : path) : result :=
  match resolve p t with
  | Found (Dir es) => Ok (VNames (map fst es))
  | _ => Ok (VNames [])
  end.

Definition p_stat (t : node) (p : path) : result :=
  match resolve p t with
  | Fail e => Err e
  | Found (File d) => Ok (VStat false (zlen d))
  | Found (Dir _) => Ok (VStat true 0)
  end.

(* rename(2), Linux order of checks: both parents are resolved, then the source entry, then
   same-object, ancestry (EINVAL: into own subtree; ENOTEMPTY: onto an own ancestor), then the
   type/emptiness rules for an existing target. *)
Definition p_rename (t : node) (a b : path) : result * node :=
  match unsnoc a, unsnoc b with
  | Some (ap, an), Some (bp, bn) =>
      match resolve_parent t ap with
      | inr e => (Err e, t)
      | inl ses =>
          match resolve_parent t bp with
          | inr e => (Err e, t)
          | inl des =>
              match assoc an ses with
              | None => (Err ENOENT, t)
              | Some sn =>
                  if path_eqb a b then (Ok VUnit, t)
                  else if is_prefix a b then (Err EINVAL, t)
                  else if is_prefix b a then (Err ENOTEMPTY, t)
                  else
                    let move := upd bp (on_dir (put bn sn)) (upd ap (on_dir (remove_first an)) t) in
                    match sn, assoc bn des with
                    | _, None => (Ok VUnit, move)
                    | Dir _, Some (File _) => (Err ENOTDIR, t)
                    | Dir _, Some (Dir (_ :: _)) => (Err ENOTEMPTY, t)
                    | Dir _, Some (Dir []) => (Ok VUnit, move)
                    | File _, Some (Dir _) => (Err EISDIR, t)
                    | File _, Some (File _) => (Ok VUnit, move)
                    end
              end
          end
      end
  | _, _ => (Err ERoot, t)                  (* the root as source or destination: excluded *)
  end.

(* open(2) as io.open issues it + the script on the handle + close *)
Definition p_open (t : node) (p : path) (m : mode) (s : list hop) : result * node :=
  let run (readable writable append : bool) data pos t0 :=
    let '(rs, data') := run_hops readable writable append EINVAL data pos s in
    (Ok (VOpen rs), upd p (fun _ => File data') t0) in
  match m with
  | BadMode => (Err EValue, t)
  | RB =>
      match resolve p t with
      | Fail e => (Err e, t)
      | Found (Dir _) => (Err EISDIR, t)
      | Found (File d) => run true false false d 0 t
      end
  | RPB =>
      match resolve p t with
      | Fail e => (Err e, t)
      | Found (Dir _) => (Err EISDIR, t)
      | Found (File d) => run true true false d 0 t
      end
  | _ =>   (* WB: O_WRONLY|O_CREAT|O_TRUNC   AB: O_WRONLY|O_CREAT|O_APPEND *)
      match unsnoc p with
      | None => (Err EISDIR, t)
      | Some (pp, x) =>
          match resolve_parent t pp with
          | inr e => (Err e, t)
          | inl es =>
              match assoc x es with
              | Some (Dir _) => (Err EISDIR, t)
              | Some (File d) =>
                  match m with
                  | WB => run false true false [] 0 t
                  | _ => run false true true d (zlen d) t
                  end
              | None =>
                  let t1 := upd pp (on_dir (fun es => es ++ [(x, File [])])) t in
                  match m with
                  | WB => run false true false [] 0 t1
                  | _ => run false true true [] 0 t1
                  end
              end
          end
      end
  end.

Definition p_run (t : node) (o : fsop) : result * node :=
  match o with
  | Exists p => (Ok (VBool (p_exists t p)), t)
  | IsDir p => (Ok (VBool (p_is_dir t p)), t)
  | IsFile p => (Ok (VBool (p_is_file t p)), t)
  | Mkdir p parents exist_ok => p_mkdir t p parents exist_ok
  | Rmdir p => p_rmdir t p
  | Unlink p => p_unlink t p
  | List p => (p_list t p, t)
  | Stat p => (p_stat t p, t)
  | Rename a b => p_rename t a b
  | Open p m s => p_open t p m s
  end.
