(* FsBase: what the two storage models (MemFS = aioftp.MemoryPathIO, PosixFS = pathlib on a
   POSIX kernel) share: names, paths, the node tree, the backend interface (`fsop`, results),
   the abstract tree `abs` and the wire encoding for the harness.  No proofs here.

   A tree is the content of the (virtual) root directory; a path is the list of names below
   the root ([] = the root itself).  Directory entries are kept in a list: for MemFS that is
   MemoryPathIO's insertion order (observable through `list`), for PosixFS it is "directory
   order", which a real file system leaves unspecified -- every observation of it goes through
   `abs` / sorted listings. *)
From Coq Require Import ZArith List Bool.
From Verif Require Import Lib.Sx.
Import ListNotations.
Open Scope Z_scope.

Definition name := list Z.
Definition path := list name.
Definition bytes := list Z.

Fixpoint name_eqb (a b : name) : bool :=
  match a, b with
  | [], [] => true
  | x :: a', y :: b' => (x =? y) && name_eqb a' b'
  | _, _ => false
  end.

Fixpoint path_eqb (a b : path) : bool :=
  match a, b with
  | [], [] => true
  | x :: a', y :: b' => name_eqb x y && path_eqb a' b'
  | _, _ => false
  end.

(* a is a (not necessarily proper) prefix of b *)
Fixpoint is_prefix (a b : path) : bool :=
  match a, b with
  | [], _ => true
  | x :: a', y :: b' => name_eqb x y && is_prefix a' b'
  | _ :: _, [] => false
  end.

Inductive node : Type :=
| File (data : bytes)
| Dir (es : list (name * node)).

Definition entries := list (name * node).

Definition is_dir_node (n : node) : bool := match n with Dir _ => true | File _ => false end.
Definition is_file_node (n : node) : bool := match n with File _ => true | Dir _ => false end.

(* first entry with that name: `for node in nodes: if node.name == part: break` *)
Fixpoint assoc (x : name) (es : entries) : option node :=
  match es with
  | [] => None
  | (n, c) :: r => if name_eqb n x then Some c else assoc x r
  end.

(* replace the first entry named x (no-op when there is none) *)
Fixpoint set_assoc (x : name) (c : node) (es : entries) : entries :=
  match es with
  | [] => []
  | (n, c0) :: r => if name_eqb n x then (n, c) :: r else (n, c0) :: set_assoc x c r
  end.

(* remove the first entry named x *)
Fixpoint remove_first (x : name) (es : entries) : entries :=
  match es with
  | [] => []
  | (n, c) :: r => if name_eqb n x then r else (n, c) :: remove_first x r
  end.

(* replace in place when the name is present, append otherwise *)
Definition put (x : name) (c : node) (es : entries) : entries :=
  match assoc x es with
  | Some _ => set_assoc x c es
  | None => es ++ [(x, c)]
  end.

(* MemoryPathIO.get_node: walk by names, None when a component is missing or when the walk
   would have to continue below a file. *)
Fixpoint lookup (p : path) (t : node) : option node :=
  match p with
  | [] => Some t
  | x :: p' =>
      match t with
      | File _ => None
      | Dir es => match assoc x es with
                  | Some c => lookup p' c
                  | None => None
                  end
      end
  end.

(* apply f to the node at p (no-op when p does not resolve) *)
Fixpoint upd (p : path) (f : node -> node) (t : node) : node :=
  match p with
  | [] => f t
  | x :: p' =>
      match t with
      | File _ => t
      | Dir es => match assoc x es with
                  | Some c => Dir (set_assoc x (upd p' f c) es)
                  | None => t
                  end
      end
  end.

Definition on_dir (f : entries -> entries) (n : node) : node :=
  match n with Dir es => Dir (f es) | File _ => n end.

(* path -> (parent, last name) *)
Fixpoint unsnoc (p : path) : option (path * name) :=
  match p with
  | [] => None
  | x :: r => match unsnoc r with
              | None => Some ([], x)
              | Some (q, l) => Some (x :: q, l)
              end
  end.

(* ---- zero-filling write and slicing: io.BytesIO / pwrite(2) ---- *)
Fixpoint zeros (n : nat) : bytes := match n with O => [] | S k => 0 :: zeros k end.

(* an empty write changes nothing (no zero fill up to the position) *)
Definition write_at (data : bytes) (pos : Z) (d : bytes) : bytes :=
  match d with
  | [] => data
  | _ =>
      let n := Z.to_nat pos in
      let len := length data in
      firstn n data ++ zeros (n - len) ++ d ++ skipn (n + length d) data
  end.

Definition read_at (data : bytes) (pos n : Z) : bytes :=
  let rest := skipn (Z.to_nat pos) data in
  if n <? 0 then rest else firstn (Z.to_nat n) rest.

Definition zlen (d : bytes) : Z := Z.of_nat (length d).

(* ---- the backend interface ---- *)
Inductive mode := RB | WB | AB | RPB | BadMode.
Inductive hop := HSeek (off : Z) | HRead (n : Z) | HWrite (d : bytes).

Inductive fsop : Type :=
| Exists (p : path) | IsDir (p : path) | IsFile (p : path)
| Mkdir (p : path) (parents exist_ok : bool)
| Rmdir (p : path) | Unlink (p : path)
| List (p : path) | Stat (p : path)
| Rename (a b : path)
| Open (p : path) (m : mode) (script : list hop).   (* open; script on the handle; close *)

(* The class of the exception inside PathIOError (diagnostics only: the API shows PathIOError) *)
Inductive err :=
| ENOENT | ENOTDIR | EEXIST | ENOTEMPTY | EISDIR | EINVAL
| EValue          (* ValueError: invalid mode, negative seek on BytesIO *)
| EAttr           (* AttributeError: MemoryPathIO treating a list / BytesIO as the other *)
| EUnsupported    (* io.UnsupportedOperation: read on a write-only handle and vice versa *)
| ETimeout        (* asyncio.TimeoutError from with_timeout (AsyncPathIO with a finite path_timeout) *)
| ERoot.          (* mutation aimed at the root itself: outside the property, not modelled *)

Inductive hres := HPos (z : Z) | HBytes (b : bytes) | HUnit | HErr (e : err).

Inductive value :=
| VUnit | VBool (b : bool) | VNames (l : list name)
| VStat (isdir : bool) (size : Z)        (* size is reported for files only (0 for directories) *)
| VOpen (rs : list hres).

Inductive result := Ok (v : value) | Err (e : err).

Definition is_ok (r : result) : bool := match r with Ok _ => true | Err _ => false end.

(* the script of an open handle.  `readable`/`writable`/`append` are the capabilities of the
   handle; errors: negative seek -> eseek, operation not permitted on this handle -> EUnsupported *)
Fixpoint run_hops (readable writable append : bool) (eseek : err)
         (data : bytes) (pos : Z) (s : list hop) : list hres * bytes :=
  match s with
  | [] => ([], data)
  | HSeek off :: r =>
      if off <? 0 then
        let '(rs, d') := run_hops readable writable append eseek data pos r in (HErr eseek :: rs, d')
      else
        let '(rs, d') := run_hops readable writable append eseek data off r in (HPos off :: rs, d')
  | HRead n :: r =>
      if readable then
        let b := read_at data pos n in
        let '(rs, d') := run_hops readable writable append eseek data (pos + zlen b) r in
        (HBytes b :: rs, d')
      else
        let '(rs, d') := run_hops readable writable append eseek data pos r in
        (HErr EUnsupported :: rs, d')
  | HWrite d :: r =>
      if writable then
        let at_ := if append then zlen data else pos in
        let data' := write_at data at_ d in
        let '(rs, d') := run_hops readable writable append eseek data' (at_ + zlen d) r in
        (HUnit :: rs, d')
      else
        let '(rs, d') := run_hops readable writable append eseek data pos r in
        (HErr EUnsupported :: rs, d')
  end.

(* ---- abstract tree: names sorted, file bytes ---- *)
Inductive atree : Type :=
| AFile (data : bytes)
| ADir (es : list (name * atree)).

Fixpoint name_leb (a b : name) : bool :=
  match a, b with
  | [], _ => true
  | _ :: _, [] => false
  | x :: a', y :: b' => if x <? y then true else if y <? x then false else name_leb a' b'
  end.

Fixpoint ainsert (e : name * atree) (l : list (name * atree)) : list (name * atree) :=
  match l with
  | [] => [e]
  | h :: r => if name_leb (fst e) (fst h) then e :: l else h :: ainsert e r
  end.

Definition asort (l : list (name * atree)) : list (name * atree) := fold_right ainsert [] l.

Fixpoint abs (t : node) : atree :=
  match t with
  | File d => AFile d
  | Dir es =>
      ADir (asort ((fix go (es : entries) : list (name * atree) :=
                      match es with
                      | [] => []
                      | (n, c) :: r => (n, abs c) :: go r
                      end) es))
  end.

(* listings are compared as sorted sets *)
Fixpoint ninsert (x : name) (l : list name) : list name :=
  match l with
  | [] => [x]
  | h :: r => if name_leb x h then x :: l else h :: ninsert x r
  end.
Definition nsort (l : list name) : list name := fold_right ninsert [] l.

Definition canon_value (v : value) : value :=
  match v with VNames l => VNames (nsort l) | _ => v end.
Definition canon_result (r : result) : result :=
  match r with Ok v => Ok (canon_value v) | Err e => Err e end.

(* compare only success/failure and the value: every failure is PathIOError at the API *)
Definition result_api (r : result) : option value :=
  match r with Ok v => Some (canon_value v) | Err _ => None end.

(* ---- wire encoding for the harness ---- *)
Definition sx_of_name (n : name) : sx := sx_of_text n.
Definition sx_of_path (p : path) : sx := L (map sx_of_name p).
Definition path_of_sx (s : sx) : path := map text_of_sx (list_of_sx s).

Fixpoint sx_of_node (t : node) : sx :=
  match t with
  | File d => L [I 0; sx_of_text d]
  | Dir es =>
      L [I 1; L ((fix go (es : entries) : list sx :=
                    match es with
                    | [] => []
                    | (n, c) :: r => L [sx_of_name n; sx_of_node c] :: go r
                    end) es)]
  end.

Fixpoint sx_of_atree (t : atree) : sx :=
  match t with
  | AFile d => L [I 0; sx_of_text d]
  | ADir es =>
      L [I 1; L ((fix go (es : list (name * atree)) : list sx :=
                    match es with
                    | [] => []
                    | (n, c) :: r => L [sx_of_name n; sx_of_atree c] :: go r
                    end) es)]
  end.

(* tree: (0 bytes) | (1 ((name tree) ...)) ; anything else decodes to an empty directory *)
Fixpoint node_of_sx (s : sx) : node :=
  match s with
  | I _ => Dir []
  | L l =>
      match l with
      | I 0 :: d :: _ => File (text_of_sx d)
      | I 1 :: L es :: _ =>
          Dir ((fix go (l : list sx) : entries :=
                  match l with
                  | [] => []
                  | e :: r =>
                      match e with
                      | L (n :: c :: _) => (text_of_sx n, node_of_sx c) :: go r
                      | _ => go r
                      end
                  end) es)
      | _ => Dir []
      end
  end.

Definition err_code (e : err) : Z :=
  match e with
  | ENOENT => 2 | ENOTDIR => 20 | EEXIST => 17 | ENOTEMPTY => 39 | EISDIR => 21 | EINVAL => 22
  | EValue => 100 | EAttr => 101 | EUnsupported => 102 | ETimeout => 110 | ERoot => 199
  end.

Definition sx_of_hres (h : hres) : sx :=
  match h with
  | HPos z => L [I 0; I z]
  | HBytes b => L [I 1; sx_of_text b]
  | HUnit => L [I 2]
  | HErr e => L [I (-1); I (err_code e)]
  end.

Definition sx_of_value (v : value) : sx :=
  match v with
  | VUnit => L [I 0]
  | VBool b => L [I 1; sx_of_bool b]
  | VNames l => L [I 2; L (map sx_of_name l)]
  | VStat d sz => L [I 3; sx_of_bool d; I sz]
  | VOpen rs => L [I 4; L (map sx_of_hres rs)]
  end.

Definition sx_of_result (r : result) : sx :=
  match r with
  | Ok v => sx_ok (sx_of_value v)
  | Err e => sx_err (err_code e)
  end.

Definition mode_of_z (z : Z) : mode :=
  match z with 0 => RB | 1 => WB | 2 => AB | 3 => RPB | _ => BadMode end.

Definition hop_of_sx (s : sx) : hop :=
  match z_of_sx (nth_sx 0 s) with
  | 0 => HSeek (z_of_sx (nth_sx 1 s))
  | 1 => HRead (z_of_sx (nth_sx 1 s))
  | _ => HWrite (text_of_sx (nth_sx 1 s))
  end.

(* (tag args...) *)
Definition fsop_of_sx (s : sx) : fsop :=
  let p := path_of_sx (nth_sx 1 s) in
  match z_of_sx (nth_sx 0 s) with
  | 0 => Exists p
  | 1 => IsDir p
  | 2 => IsFile p
  | 3 => Mkdir p (bool_of_sx (nth_sx 2 s)) (bool_of_sx (nth_sx 3 s))
  | 4 => Rmdir p
  | 5 => Unlink p
  | 6 => List p
  | 7 => Stat p
  | 8 => Rename p (path_of_sx (nth_sx 2 s))
  | _ => Open p (mode_of_z (z_of_sx (nth_sx 2 s))) (map hop_of_sx (list_of_sx (nth_sx 3 s)))
  end.

(* run a sequence of operations of a backend `run` from a tree; per op: result and tree after *)
Fixpoint run_ops (run : node -> fsop -> result * node) (t : node) (ops : list fsop)
  : list (result * node) :=
  match ops with
  | [] => []
  | o :: r => let '(res, t') := run t o in (res, t') :: run_ops run t' r
  end.
