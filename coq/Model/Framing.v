(* Model of the reply / command framing (C06):
     server: Server.write_response, write_line, parse_command   (server.py)
     client: BaseClient.parse_line, parse_response, check_codes, command,
             Code.matches                                        (client.py)
   Text level: the wire is the text before encoding; that splitting at byte 10
   commutes with the codec is the codec assumption recorded in the trusted base
   and exercised by the correspondence (which feeds real bytes, segmented). *)
From Coq Require Import ZArith List Bool.
From Verif Require Import Lib.Sx Lib.PyStr.
Import ListNotations.
Open Scope Z_scope.

Definition LF : Z := 10.
Definition CR : Z := 13.
Definition eol : text := [CR; LF].
Definition DASH : Z := 45.
Definition SP : Z := 32.

Fixpoint split_last {A} (l : list A) : option (list A * A) :=
  match l with
  | [] => None
  | x :: r =>
      match r with
      | [] => Some ([], x)
      | _ => match split_last r with
             | Some (b, t) => Some (x :: b, t)
             | None => None
             end
      end
  end.

(* Server.write_response: the lines handed to write_line, in order.
   None = the tuple unpacking raises ValueError (too few lines). *)
Definition write_response (code : text) (lines : list text) (list_mode : bool)
  : option (list text) :=
  if list_mode then
    match lines with
    | [] => None
    | head :: rest =>
        match split_last rest with
        | None => None
        | Some (body, tail) =>
            Some ((code ++ DASH :: head)
                    :: map (fun l => SP :: l) body
                    ++ [code ++ SP :: tail])
        end
    end
  else
    match split_last lines with
    | None => None
    | Some (body, tail) =>
        Some (map (fun l => code ++ DASH :: l) body ++ [code ++ SP :: tail])
    end.

(* write_line appends END_OF_LINE to each *)
Definition wire (ls : list text) : text := flat_map (fun l => l ++ eol) ls.

(* StreamReader.readline as a function of the byte stream: split after every LF *)
Fixpoint split_lines (s : text) : list text :=
  match s with
  | [] => []
  | c :: r =>
      if c =? LF then [c] :: split_lines r
      else match split_lines r with
           | [] => [[c]]
           | h :: t => (c :: h) :: t
           end
  end.

Inductive presult : Type :=
| POk (code : text) (info : list text) (rest : list text)
| PStatusErr (code curr : text) (info : list text) (rest : list text)
| PReset.

(* the `while` of parse_response, one line per iteration *)
Fixpoint parse_loop (code : text) (info_rev : list text) (ls : list text) : presult :=
  match ls with
  | [] => PReset
  | l :: ls' =>
      let s := rstrip l in
      let cc := firstn 3 s in
      let r := skipn 3 s in
      if str_isdigit cc then
        if text_eqb cc code then
          if starts_with [DASH] r then parse_loop code (r :: info_rev) ls'
          else POk code (rev (r :: info_rev)) ls'
        else PStatusErr code cc (rev (r :: info_rev)) ls'
      else parse_loop code ((cc ++ r) :: info_rev) ls'
  end.

Definition parse_response (ls : list text) : presult :=
  match ls with
  | [] => PReset
  | l :: ls' =>
      let s := rstrip l in
      let code := firstn 3 s in
      let r := skipn 3 s in
      if starts_with [DASH] r || negb (str_isdigit code)
      then parse_loop code [r] ls'
      else POk code [r] ls'
  end.

(* Code.matches: map over (mask, code) stops at the shorter one *)
Fixpoint matches (mask code : text) : bool :=
  match mask, code with
  | m :: ms, c :: cs => (negb (is_digit_char m) || (m =? c)) && matches ms cs
  | _, _ => true
  end.

Definition any_matches (masks : list text) (code : text) : bool :=
  existsb (fun m => matches m code) masks.

Inductive cresult : Type :=
| COk (code : text) (info : list text) (rest : list text)
| CStatusErr (rest : list text)        (* StatusCodeError from parse_response or check_codes *)
| CReset
| CFuel.

(* BaseClient.command(None, expected, wait): skip replies matching a wait mask *)
Fixpoint command_recv (fuel : nat) (expected wait : list text) (ls : list text) : cresult :=
  match fuel with
  | O => CFuel
  | S f =>
      match parse_response ls with
      | PReset => CReset
      | PStatusErr _ _ _ rest => CStatusErr rest
      | POk code info rest =>
          if any_matches wait code then command_recv f expected wait rest
          else match expected with
               | [] => COk code info rest
               | _ => if any_matches expected code then COk code info rest
                      else CStatusErr rest
               end
      end
  end.

(* successive parse_response calls on ONE stream until it is exhausted (ConnectionResetError);
   every result is reported without its rest: the rest is what the next call starts from *)
Fixpoint parse_seq (fuel : nat) (ls : list text) : list presult :=
  match fuel with
  | O => []
  | S f =>
      match parse_response ls with
      | POk c i rest => POk c i [] :: parse_seq f rest
      | PStatusErr c cc i rest => PStatusErr c cc i [] :: parse_seq f rest
      | PReset => [PReset]
      end
  end.

(* successive command(None, expected, wait) calls on ONE stream: each starts from what the
   previous one left; a StatusCodeError leaves the stream usable, a reset ends the session.
   Every result but the last is reported without its rest. *)
Fixpoint command_seq (fuel : nat) (cmds : list (list text * list text)) (ls : list text)
  : list cresult :=
  match cmds with
  | [] => []
  | (e, w) :: cs =>
      match command_recv fuel e w ls with
      | COk c i rest =>
          match cs with [] => [COk c i rest] | _ => COk c i [] :: command_seq fuel cs rest end
      | CStatusErr rest =>
          match cs with [] => [CStatusErr rest] | _ => CStatusErr [] :: command_seq fuel cs rest end
      | r => [r]
      end
  end.

(* Server.parse_command on one line (already split off by readline) *)
Definition parse_command (line : text) : option (text * text) :=
  match line with
  | [] => None                       (* ConnectionResetError *)
  | _ => let s := rstrip line in
         let '(cmd, _, rest) := partition SP s in
         Some (lower cmd, rest)
  end.

(* client side: "VERB " + arg + END_OF_LINE *)
Definition build_command (verb arg : text) : text := verb ++ [SP] ++ arg ++ eol.

(* ---- harness interface ---- *)
Definition sx_of_presult (r : presult) : sx :=
  match r with
  | POk c i k => L [I 0; sx_of_text c; sx_of_texts i; sx_of_text (concat k)]
  | PStatusErr c cc i k => L [I 1; sx_of_text c; sx_of_text cc; sx_of_texts i; sx_of_text (concat k)]
  | PReset => L [I 2]
  end.

Definition sx_of_cresult (r : cresult) : sx :=
  match r with
  | COk c i k => L [I 0; sx_of_text c; sx_of_texts i; sx_of_text (concat k)]
  | CStatusErr k => L [I 1; sx_of_text (concat k)]
  | CReset => L [I 2]
  | CFuel => L [I 3]
  end.

Definition run_framing (fn : Z) (a : sx) : sx :=
  match fn with
  | 0 => (* write_response code lines list -> wire text or error *)
      match write_response (text_of_sx (nth_sx 0 a)) (texts_of_sx (nth_sx 1 a))
                           (bool_of_sx (nth_sx 2 a)) with
      | Some ls => sx_ok (sx_of_text (wire ls))
      | None => sx_err 1
      end
  | 1 => sx_of_presult (parse_response (split_lines (text_of_sx (nth_sx 0 a))))
  | 2 => sx_of_bool (matches (text_of_sx (nth_sx 0 a)) (text_of_sx (nth_sx 1 a)))
  | 3 => let s := split_lines (text_of_sx (nth_sx 2 a)) in
         sx_of_cresult (command_recv (S (length s)) (texts_of_sx (nth_sx 0 a))
                                     (texts_of_sx (nth_sx 1 a)) s)
  | 4 => match parse_command (text_of_sx (nth_sx 0 a)) with
         | Some (c, r) => sx_ok (L [sx_of_text c; sx_of_text r])
         | None => sx_err 2
         end
  | 5 => let s := split_lines (text_of_sx (nth_sx 0 a)) in
         L (map sx_of_presult (parse_seq (S (length s)) s))
  | 6 => (* [(expected, wait); ...] stream *)
         let s := split_lines (text_of_sx (nth_sx 1 a)) in
         let cmds := map (fun c => (texts_of_sx (nth_sx 0 c), texts_of_sx (nth_sx 1 c)))
                         (list_of_sx (nth_sx 0 a)) in
         L (map sx_of_cresult (command_seq (S (length s)) cmds s))
  | _ => sx_err 99
  end.
