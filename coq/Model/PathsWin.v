(* Server.get_paths with a Windows-flavoured base_path (pathlib.PureWindowsPath), as exercised
   by the repository's own test_get_paths_windows_traverse.  The virtual half is the same code
   (Model/Paths.v: virtual_of); only `base_path / str(...)` and `is_relative_to` change flavour. *)
From Coq Require Import ZArith List Bool.
From Verif Require Import Lib.Sx Lib.PyStr Lib.PosixPath Lib.WinPath Model.Paths.
Import ListNotations.
Open Scope Z_scope.

Inductive wres : Type :=
| WOut                                  (* outside the modelled fragment of PureWindowsPath (UNC) *)
| WErr                                  (* ValueError from relative_to("/") *)
| WOk (real : wpath) (virt : ppath).

(* base_raw: the string base_path was built from (pathlib joins the raw strings) *)
Definition get_paths_win (base_raw : text) (cwd : ppath) (s : text) : wres :=
  let resolved := virtual_of cwd (parse s) in
  match relative_to resolved (parse [SLASH]) with
  | None => WErr
  | Some rel =>
      match wparse base_raw, wparse (to_str rel) with
      | Some base, Some r =>
          let real := wjoin base r in
          if w_is_relative_to real base then WOk real resolved else WOk base root
      | _, _ => WOut
      end
  end.

(* the property oracle for this flavour *)
Fixpoint texts_eqb (a b : list text) : bool :=
  match a, b with
  | [], [] => true
  | x :: a', y :: b' => text_eqb x y && texts_eqb a' b'
  | _, _ => false
  end.

Definition wconfined (base real : wpath) : bool :=
  text_eqb (wdrive base) (wdrive real) && Bool.eqb (wroot base) (wroot real)
  && is_prefix (wparts base) (wparts real)
  && no_dotdot (skipn (length (wparts base)) (wparts real)).

(* the virtual path is the location addressed: real = base + the virtual components *)
Definition wlocated (base real : wpath) (virt : ppath) : bool :=
  text_eqb (wdrive base) (wdrive real) && Bool.eqb (wroot base) (wroot real)
  && texts_eqb (wparts real) (wparts base ++ parts virt).

(* components that mean nothing special to PureWindowsPath *)
Definition plain (x : text) : bool := forallb (fun c => negb (c =? BSL) && negb (c =? COLON)) x.

(* ---- harness interface ---- *)
Definition sx_of_wres (r : wres) : sx :=
  match r with
  | WOut => sx_err 7
  | WErr => sx_err 1
  | WOk re vi => sx_ok (L [sx_of_wpath re; sx_of_ppath vi; sx_of_text (wto_str re); sx_of_text (to_str vi)])
  end.

Definition run_pathswin (fn : Z) (a : sx) : sx :=
  if fn <? 20 then run_paths fn a else
  if fn <? 30 then run_winpath fn a else
  match fn with
  | 30 => sx_of_wres (get_paths_win (text_of_sx (nth_sx 0 a)) (parse (text_of_sx (nth_sx 1 a)))
                                     (text_of_sx (nth_sx 2 a)))
  | _ => sx_err 99
  end.
