(* Model of the ls-style date handling (C07), two layers.
   Layer 1 (text <-> record):
     time.strftime("%b %e %H:%M") / ("%b %e  %Y") / ("%Y%m%d%H%M%S") in the C locale,
     datetime.strftime("%Y%m%d%H%M00")                       (server.py, client.py)
     datetime.strptime for the three formats the client uses, as the regular expressions
     CPython 3.12 _strptime builds for them, matched with the regex engine's backtracking order
     (list of successes, first one wins), then the "unconverted data" and date-validity checks.
   Layer 2 (arithmetic on Z seconds through Lib/Civil.v):
     Server.build_list_mtime (half-year switch), Client.parse_ls_date (year inference, the
     'Feb 29' branch, the ValueError fallback), Client.format_date_time.
   The constants HALF_OF_YEAR_IN_SECONDS / TWO_YEARS_IN_SECONDS are parameters (instantiated from
   Gen.Consts in Props).  Time zone = fixed offset `off` (local = UTC + off). *)
From Coq Require Import ZArith List Bool.
From Verif Require Import Lib.Sx Lib.PyStr Lib.PyStr2 Lib.Civil.
Import ListNotations.
Open Scope Z_scope.

(* ---------------- layer 1a: formatting ---------------- *)
Definition SP : Z := 32.
Definition COLON : Z := 58.

(* "%b %e %H:%M" *)
Definition fmt_b_e_HM (t : dt) : text :=
  month_abbr (mo t) ++ [SP] ++ spad2 (dy t) ++ [SP] ++ zfill2 (hh t) ++ [COLON] ++ zfill2 (mi t).

(* "%b %e  %Y"  (glibc: %Y is not padded) *)
Definition fmt_b_e_Y (t : dt) : text :=
  month_abbr (mo t) ++ [SP] ++ spad2 (dy t) ++ [SP; SP] ++ str_of_Z (yr t).

(* "%Y%m%d%H%M%S" *)
Definition fmt_14 (t : dt) : text :=
  str_of_Z (yr t) ++ zfill2 (mo t) ++ zfill2 (dy t) ++ zfill2 (hh t) ++ zfill2 (mi t) ++ zfill2 (ss t).

(* Server._format_mlsx_time: strftime("%Y%m%d%H%M%S", gmtime(seconds)) *)
Definition format_mlsx_time (seconds : Z) : text := fmt_14 (civil_of_epoch seconds).

(* Client.format_date_time: d.strftime("%Y%m%d%H%M00") *)
Definition format_date_time (t : dt) : text := fmt_14 (minute_floor t).

(* ---------------- layer 1b: strptime ---------------- *)
Inductive tok : Type :=
| TLit (c : Z)     (* a literal character of the format *)
| TSp              (* whitespace in the format -> \s+ *)
| Tb               (* %b : (?P<b>jan|feb|...|dec), IGNORECASE *)
| Td               (* %d : (?P<d>3[0-1]|[1-2]\d|0[1-9]|[1-9]| [1-9]) *)
| TH               (* %H : (?P<H>2[0-3]|[0-1]\d|\d) *)
| TM               (* %M : (?P<M>[0-5]\d|\d) *)
| TY.              (* %Y : (?P<Y>\d\d\d\d) *)

Definition cls : Type := Z -> bool.
Definition rng (lo hi : Z) : cls := fun c => (lo <=? c) && (c <=? hi).
Definition one (x : Z) : cls := fun c => c =? x.
Definition dec : cls := is_decimal_char.                 (* \d on str patterns *)
Definition ci (x : Z) : cls := fun c => ascii_lower_char c =? x.   (* IGNORECASE, ASCII letters *)

(* one alternative = a sequence of character classes *)
Fixpoint match_alt (a : list cls) (s : text) : option (text * text) :=
  match a with
  | [] => Some ([], s)
  | p :: a' =>
      match s with
      | [] => None
      | c :: r =>
          if p c then
            match match_alt a' r with
            | Some (m, rest) => Some (c :: m, rest)
            | None => None
            end
          else None
      end
  end.

Definition month_abbrs_lower : list text := map (map ascii_lower_char) month_abbrs.

Definition alts_of (t : tok) : list (list cls) :=
  match t with
  | TLit c => [[one c]]
  | TSp => []
  | Tb => map (map ci) month_abbrs_lower
  | Td => [ [one 51; rng 48 49]; [rng 49 50; dec]; [one 48; rng 49 57]; [rng 49 57]; [one 32; rng 49 57] ]
  | TH => [ [one 50; rng 48 51]; [rng 48 49; dec]; [dec] ]
  | TM => [ [rng 48 53; dec]; [dec] ]
  | TY => [ [dec; dec; dec; dec] ]
  end.

(* \s+ : greedy, gives characters back one at a time *)
Fixpoint sp_matches (s : text) : list (text * text) :=
  match s with
  | [] => []
  | c :: r =>
      if is_space c
      then map (fun mr => (c :: fst mr, snd mr)) (sp_matches r) ++ [([c], r)]
      else []
  end.

Definition opt_list {A} (o : option A) : list A := match o with Some a => [a] | None => [] end.

(* all matches of one token at the start of s, in the engine's preference order *)
Definition tok_matches (t : tok) (s : text) : list (text * text) :=
  match t with
  | TSp => sp_matches s
  | _ => flat_map (fun a => opt_list (match_alt a s)) (alts_of t)
  end.

(* all matches of a token sequence, in backtracking (depth-first) order *)
Fixpoint match_seq (ts : list tok) (s : text) : list (list (tok * text) * text) :=
  match ts with
  | [] => [([], s)]
  | t :: ts' =>
      flat_map (fun mr => map (fun gr => ((t, fst mr) :: fst gr, snd gr)) (match_seq ts' (snd mr)))
               (tok_matches t s)
  end.

Definition tok_eqb (a b : tok) : bool :=
  match a, b with
  | TLit x, TLit y => x =? y
  | TSp, TSp | Tb, Tb | Td, Td | TH, TH | TM, TM | TY, TY => true
  | _, _ => false
  end.

Fixpoint group (t : tok) (g : list (tok * text)) : option text :=
  match g with
  | [] => None
  | (t', m) :: r => if tok_eqb t' t then Some m else group t r
  end.

Fixpoint index_text (x : text) (l : list text) (i : Z) : Z :=
  match l with
  | [] => 0
  | h :: r => if text_eqb h x then i else index_text x r (i + 1)
  end.

Definition month_of_text (m : text) : Z := index_text (map ascii_lower_char m) month_abbrs_lower 1.

Definition group_int (t : tok) (g : list (tok * text)) (default : Z) : Z :=
  match group t g with Some m => int_of_decimals m | None => default end.

(* datetime(year, month, day, hour, minute): the constructor's range checks *)
Definition make_datetime (y m d h mn : Z) : option dt :=
  if (1 <=? y) && (y <=? 9999) && valid_date y m d then Some (mkdt y m d h mn 0) else None.

(* datetime.strptime(s, fmt): None = ValueError *)
Definition strptime (fmt : list tok) (s : text) : option dt :=
  match match_seq fmt s with
  | [] => None                                   (* does not match format *)
  | (g, rest) :: _ =>
      match rest with
      | _ :: _ => None                           (* unconverted data remains *)
      | [] =>
          let y := group_int TY g 1900 in
          let m := match group Tb g with Some x => month_of_text x | None => 1 end in
          let d := group_int Td g 1 in
          make_datetime y m d (group_int TH g 0) (group_int TM g 0)
      end
  end.

Definition fmt1 : list tok := [Tb; TSp; Td; TSp; TH; TLit COLON; TM].               (* "%b %d %H:%M" *)
Definition fmt2 : list tok := [TY; TSp; Tb; TSp; Td; TSp; TH; TLit COLON; TM].     (* "%Y %b %d %H:%M" *)
Definition fmt3 : list tok := [Tb; TSp; Td; TSp; TY].                               (* "%b %d  %Y" *)

(* ---------------- layer 2: arithmetic ---------------- *)
(* Server.build_list_mtime(st_mtime, now): localtime = UTC + off *)
Definition build_list_mtime (half off st_mtime now : Z) : text :=
  let t := civil_of_epoch (st_mtime + off) in
  if (now - half <? st_mtime) && (st_mtime <=? now) then fmt_b_e_HM t else fmt_b_e_Y t.

(* while not calendar.isleap(y): y -= 1   (at most 7 steps between leap years) *)
Fixpoint prev_leap (fuel : nat) (y : Z) : Z :=
  match fuel with
  | O => y
  | S f => if is_leap y then y else prev_leap f (y - 1)
  end.

(* d.replace(year=y): None = ValueError *)
Definition replace_year (d : dt) (y : Z) : option dt :=
  if (1 <=? y) && (y <=? 9999) && valid_date y (mo d) (dy d)
  then Some (mkdt y (mo d) (dy d) (hh d) (mi d) (ss d)) else None.

Definition FEB29 : text := [70; 101; 98; 32; 50; 57].

(* the `try:` block of parse_ls_date; None = ValueError raised inside it *)
Definition parse_ls_date_try (half two_years : Z) (s : text) (now : dt) : option dt :=
  if starts_with FEB29 s then
    let p := prev_leap 8 (yr now) in
    match strptime fmt2 (str_of_Z p ++ [SP] ++ s) with
    | None => None
    | Some d =>
        let diff := epoch_of_civil now - epoch_of_civil d in
        if diff >? two_years then replace_year d (p + 4) else Some d
    end
  else
    match strptime fmt1 s with
    | None => None
    | Some d0 =>
        match replace_year d0 (yr now) with
        | None => None
        | Some d =>
            let diff := epoch_of_civil now - epoch_of_civil d in
            if diff >? half then replace_year d (yr now + 1)
            else if diff <? - half then replace_year d (yr now - 1)
            else Some d
        end
    end.

(* Client.parse_ls_date(s, now=now) up to the final formatting; None = ValueError *)
Definition parse_ls_date_dt (half two_years : Z) (s : text) (now : dt) : option dt :=
  match parse_ls_date_try half two_years s now with
  | Some d => Some d
  | None => strptime fmt3 s
  end.

Definition parse_ls_date (half two_years : Z) (s : text) (now : dt) : option text :=
  match parse_ls_date_dt half two_years s now with
  | Some d => Some (format_date_time d)
  | None => None
  end.

(* the client's naive datetime.now() in the zone UTC + off, from the UTC clock *)
Definition client_now (off now_utc : Z) : dt := civil_of_epoch (now_utc + off).
