(* C13: the executable (boolean) checks on the structural parameters of Model/Faults.v.  Props/C13.v
   evaluates them by vm_compute on the facts regenerated from the source; Proofs/FaultsStep.v proves that
   they imply the hypotheses of the theorems.  No proofs here. *)
From Coq Require Import ZArith List Bool String.
From Verif Require Import Lib.Facts Model.Session Model.Faults.
Import ListNotations.
Open Scope list_scope.
Local Open Scope string_scope.

Definition backend_ops : list string :=
  ["exists"; "is_dir"; "is_file"; "mkdir"; "rmdir"; "unlink"; "list"; "stat"; "open"; "seek"; "write"; "read";
   "close"; "rename"].

(* the dispatcher answers a PathIOError of any task with 451 and goes on (logging calls in the except
   block do not matter) *)
Definition not_log (a : string) : bool := negb (String.eqb a "log").
Definition react_ok (r : option (list string)) : bool :=
  match r with
  | Some acts =>
      match filter not_log acts with
      | [a; b] => String.eqb a "response:451" && String.eqb b "continue"
      | _ => false
      end
  | None => false
  end.

(* the shape of a worker's `async with` *)
Definition file_item (it : string) : bool := String.eqb it "file" || String.eqb it "file_in" || String.eqb it "file_out".

Inductive shape := FileFirst | StreamFirst | StreamOnly | Unknown.
Definition shape_of (c : list string) : shape :=
  match c with
  | [a; b] => if file_item a && is_stream b then FileFirst
              else if is_stream a && file_item b then StreamFirst else Unknown
  | [a] => if is_stream a then StreamOnly else Unknown
  | _ => Unknown
  end.
Definition shape_eqb (a b : shape) : bool :=
  match a, b with
  | FileFirst, FileFirst | StreamFirst, StreamFirst | StreamOnly, StreamOnly | Unknown, Unknown => true
  | _, _ => false
  end.

(* everything the containment theorems need from the parameters *)
Definition params_ok (conds : list (string * (string * bool))) (react : option (list string))
           (wrapped : string -> bool) (cstor cretr clist cmlsd : list string) : bool :=
  forallb wrapped backend_ops
  && forallb (fun e => wrapped (fst (snd e))) conds
  && react_ok react
  && (shape_eqb (shape_of cstor) FileFirst || shape_eqb (shape_of cstor) StreamFirst)
  && (shape_eqb (shape_of cretr) FileFirst || shape_eqb (shape_of cretr) StreamFirst)
  && shape_eqb (shape_of clist) StreamOnly && shape_eqb (shape_of cmlsd) StreamOnly.

(* the repaired order: the data stream is entered before the file in both transfer workers *)
Definition stream_first_ok (cstor cretr : list string) : bool :=
  shape_eqb (shape_of cstor) StreamFirst && shape_eqb (shape_of cretr) StreamFirst.

(* reply classes *)
Definition is_2xx (c : list Z) : bool := match c with 50%Z :: _ => true | _ => false end.

(* the verb is served by handler [hname] whose only decorator is the login guard (PWD, PASV: the probes of
   "the session is still usable") *)
Definition login_only (table : list (string * (string * list deco * option string))) (verb hname : string) : bool :=
  match Session.verb_handler table (Session.t_of verb) with
  | Some h =>
      String.eqb h hname &&
      match Session.handler_of table hname with
      | Some ([DConn [f] _ _], _) => String.eqb f "logged"
      | _ => false
      end
  | None => false
  end.
