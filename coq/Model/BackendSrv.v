(* BackendSrv: the part of aioftp.Server that talks to the storage backend, as a function of an
   abstract backend `run : node -> fsop -> result * node` (MemFS.m_run or PosixFS.p_run):
   for every tree-touching command the handler's PathConditions stack (550 with the first
   failing predicate), then the backend call(s) of the body / worker, then the reply codes
   (PathIOError anywhere -> 451 from the dispatcher).  server.py:1111-1390.

   Paths are the already resolved real paths below the user's base ([] = the base itself).
   Transfers are sequentialised (the data connection is there, the peer sends `blocks` / reads
   to EOF); `restart` is the value of connection.restart_offset when the worker runs.
   Session state relevant to the backend: rename_from. Login, permissions, PASV bookkeeping,
   cwd resolution are backend-independent and live in other models (C02-C05). *)
From Coq Require Import ZArith List Bool.
From Verif Require Import Lib.Sx Model.FsBase.
Import ListNotations.
Open Scope Z_scope.

Inductive cmd : Type :=
| CMkd (p : path) | CRmd (p : path) | CDele (p : path)
| CRnfr (p : path) | CRnto (p : path)
| CStor (p : path) (restart : Z) (blocks : list bytes)
| CAppe (p : path) (restart : Z) (blocks : list bytes)
| CRetr (p : path) (restart : Z)
| CList (p : path) | CMlsd (p : path)
| CCwd (p : path) | CMlst (p : path).

Inductive payload : Type :=
| PNone
| PBytes (b : bytes)
| PEntries (l : list (name * (bool * Z))).    (* name, is_dir, size (files) -- sorted by name *)

Definition reply := (list Z * payload)%type.

Definition failing (r : reply) : bool := existsb (fun c => 400 <=? c) (fst r).

Inductive guard := GTrue | GFalse | GErr.

Fixpoint einsert (e : name * (bool * Z)) (l : list (name * (bool * Z))) :=
  match l with
  | [] => [e]
  | h :: r => if name_leb (fst e) (fst h) then e :: l else h :: einsert e r
  end.
Definition esort (l : list (name * (bool * Z))) := fold_right einsert [] l.

Definition hres_ok (h : hres) : bool := match h with HErr _ => false | _ => true end.

(* AbstractPathIO.iter_by_block(block_size), the loop of retr_worker: read(block_size) until b"";
   `retrieve` below issues one read(-1) instead -- Proofs/BackendsMatrix.v read_blocks_concat: the
   blocks concatenate to exactly that, for every block size *)
Fixpoint read_blocks (fuel : nat) (data : bytes) (pos bs : Z) : list bytes :=
  match fuel with
  | O => []
  | S k =>
      match read_at data pos bs with
      | [] => []
      | b => b :: read_blocks k data (pos + zlen b) bs
      end
  end.

Section Srv.
  Variable run : node -> fsop -> result * node.

  Definition ask (t : node) (o : fsop) : guard :=
    match fst (run t o) with
    | Ok (VBool true) => GTrue
    | Ok (VBool false) => GFalse
    | _ => GErr
    end.

  (* PathConditions(c1, c2, ...): first failing predicate -> 550; PathIOError -> 451 *)
  Fixpoint conds (t : node) (cs : list (fsop * bool)) (k : reply * node) : reply * node :=
    match cs with
    | [] => k
    | (o, want) :: r =>
        match ask t o with
        | GErr => (([451], PNone), t)
        | GTrue => if want then conds t r k else (([550], PNone), t)
        | GFalse => if want then (([550], PNone), t) else conds t r k
        end
    end.

  Definition simple (t : node) (o : fsop) (okcode : Z) : reply * node :=
    match run t o with
    | (Ok _, t') => (([okcode], PNone), t')
    | (Err _, t') => (([451], PNone), t')
    end.

  (* stat of every listed entry: LIST (exists + stat) and MLSD (exists, stat, is_file, is_dir) *)
  Fixpoint stat_entries (t : node) (p : path) (ns : list name) : option (list (name * (bool * Z))) :=
    match ns with
    | [] => Some []
    | n :: r =>
        match fst (run t (Stat (p ++ [n]))), stat_entries t p r with
        | Ok (VStat d sz), Some l => Some ((n, (d, sz)) :: l)
        | _, _ => None
        end
    end.

  Definition listing (t : node) (p : path) (donecode : Z) : reply * node :=
    match fst (run t (List p)) with
    | Ok (VNames ns) =>
        match stat_entries t p ns with
        | Some l => (([150; donecode], PEntries (esort l)), t)
        | None => (([150; 451], PNone), t)
        end
    | _ => (([150; 451], PNone), t)
    end.

  (* stor_worker: file_mode = "r+b" if restart_offset else mode; seek(restart) if restart_offset *)
  Definition store (t : node) (p : path) (m : mode) (restart : Z) (blocks : list bytes) : reply * node :=
    match unsnoc p with
    | None => (([550], PNone), t)          (* the base itself: real_path.parent is outside; excluded *)
    | Some (pp, _) =>
        match ask t (IsDir pp) with
        | GErr => (([451], PNone), t)
        | GFalse => (([550], PNone), t)
        | GTrue =>
            let fm := if 0 <? restart then RPB else m in
            let script := (if 0 <? restart then [HSeek restart] else []) ++ map HWrite blocks in
            match run t (Open p fm script) with
            | (Ok (VOpen rs), t') =>
                if forallb hres_ok rs then (([150; 226], PNone), t') else (([150; 451], PNone), t')
            | (_, t') => (([150; 451], PNone), t')
            end
        end
    end.

  Definition retrieve (t : node) (p : path) (restart : Z) : reply * node :=
    let script := (if 0 <? restart then [HSeek restart] else []) ++ [HRead (-1)] in
    match run t (Open p RB script) with
    | (Ok (VOpen rs), t') =>
        match last rs (HErr EValue) with
        | HBytes b => if forallb hres_ok rs then (([150; 226], PBytes b), t')
                      else (([150; 451], PNone), t')
        | _ => (([150; 451], PNone), t')
        end
    | (_, t') => (([150; 451], PNone), t')
    end.

  Definition srv_step (st : option path * node) (c : cmd) : reply * (option path * node) :=
    let '(rf, t) := st in
    let keep (x : reply * node) := (fst x, (rf, snd x)) in
    match c with
    | CMkd p => keep (conds t [(Exists p, false)] (simple t (Mkdir p true false) 257))
    | CRmd p => keep (conds t [(Exists p, true); (IsDir p, true)] (simple t (Rmdir p) 250))
    | CDele p => keep (conds t [(Exists p, true); (IsFile p, true)] (simple t (Unlink p) 250))
    | CRnfr p =>
        match ask t (Exists p) with
        | GErr => (([451], PNone), (rf, t))
        | GFalse => (([550], PNone), (rf, t))
        | GTrue => (([350], PNone), (Some p, t))
        end
    | CRnto p =>
        match rf with
        | None => (([503], PNone), (rf, t))
        | Some a =>
            match ask t (Exists p) with
            | GErr => (([451], PNone), (rf, t))
            | GTrue => (([550], PNone), (rf, t))       (* rename_from is kept *)
            | GFalse =>
                let '(r, t') := simple t (Rename a p) 250 in (r, (None, t'))
            end
        end
    | CStor p restart blocks => keep (store t p WB restart blocks)
    | CAppe p restart blocks => keep (store t p AB restart blocks)
    | CRetr p restart =>
        keep (conds t [(Exists p, true); (IsFile p, true)] (retrieve t p restart))
    | CList p => keep (conds t [(Exists p, true)] (listing t p 226))
    | CMlsd p => keep (conds t [(Exists p, true)] (listing t p 200))
    | CCwd p => keep (conds t [(Exists p, true); (IsDir p, true)] (([250], PNone), t))
    | CMlst p =>
        keep (conds t [(Exists p, true)]
                (match fst (run t (Stat p)) with
                 | Ok (VStat d sz) => (([250], PEntries [([], (d, sz))]), t)
                 | _ => (([451], PNone), t)
                 end))
    end.

  Fixpoint srv_run (st : option path * node) (cs : list cmd) : list (reply * node) :=
    match cs with
    | [] => []
    | c :: r => let '(rep, st') := srv_step st c in (rep, snd st') :: srv_run st' r
    end.
End Srv.

(* ---- wire encoding ---- *)
Definition cmd_of_sx (s : sx) : cmd :=
  let p := path_of_sx (nth_sx 1 s) in
  match z_of_sx (nth_sx 0 s) with
  | 0 => CMkd p
  | 1 => CRmd p
  | 2 => CDele p
  | 3 => CRnfr p
  | 4 => CRnto p
  | 5 => CStor p (z_of_sx (nth_sx 2 s)) (map text_of_sx (list_of_sx (nth_sx 3 s)))
  | 6 => CAppe p (z_of_sx (nth_sx 2 s)) (map text_of_sx (list_of_sx (nth_sx 3 s)))
  | 7 => CRetr p (z_of_sx (nth_sx 2 s))
  | 8 => CList p
  | 9 => CMlsd p
  | 10 => CCwd p
  | _ => CMlst p
  end.

Definition sx_of_payload (p : payload) : sx :=
  match p with
  | PNone => L [I 0]
  | PBytes b => L [I 1; sx_of_text b]
  | PEntries l => L [I 2; L (map (fun e => L [sx_of_name (fst e); sx_of_bool (fst (snd e)); I (snd (snd e))]) l)]
  end.

Definition sx_of_reply (r : reply) : sx := L [L (map I (fst r)); sx_of_payload (snd r)].
