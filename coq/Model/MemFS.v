(* MemFS: aioftp.pathio.MemoryPathIO transcribed operation by operation (pathio.py:612-849),
   quirks included:
     - get_node through a file returns None                                  (lookup)
     - _open: 'rb' on a directory -> AttributeError (list has no seek); 'wb'/'ab' create a
       missing file, 'r+b' on a missing file is FileNotFoundError (since the fix of F06); every
       handle is the node's BytesIO itself: readable AND writable whatever the mode; 'ab' only
       positions at the end once (no O_APPEND)
     - rename (since the fix of F07a/F07b/F17): the source is looked up first (also when source ==
       destination), the destination parent must exist and be a directory, the destination must
       not lie inside the source; then the source entry is removed from its parent (`pop` +
       `break`), renamed, and replaces / is appended under the destination parent.  An existing
       destination is replaced whatever the types (rename(2) is stricter; RNTO's guard makes
       that unreachable through the server).
   Times (ctime/mtime) are not modelled.  The return value of write (None) is HUnit. *)
From Coq Require Import ZArith List Bool.
From Verif Require Import Lib.Sx Model.FsBase.
Import ListNotations.
Open Scope Z_scope.

Definition get_node (t : node) (p : path) : option node := lookup p t.

Definition m_exists (t : node) (p : path) : bool :=
  match get_node t p with Some _ => true | None => false end.
Definition m_is_dir (t : node) (p : path) : bool :=
  match get_node t p with Some (Dir _) => true | _ => false end.
Definition m_is_file (t : node) (p : path) : bool :=
  match get_node t p with Some (File _) => true | _ => false end.

(* the `else:` branch of mkdir (parents=True): walk from the root, creating what is missing;
   None = NotADirectoryError (the walk has to continue below a file) *)
Fixpoint m_mkdir_walk (p : path) (t : node) : option node :=
  match p with
  | [] => Some t
  | x :: p' =>
      match t with
      | File _ => None
      | Dir es =>
          match assoc x es with
          | Some c => match m_mkdir_walk p' c with
                      | Some c' => Some (Dir (set_assoc x c' es))
                      | None => None
                      end
          | None => match m_mkdir_walk p' (Dir []) with
                    | Some c' => Some (Dir (es ++ [(x, c')]))
                    | None => None
                    end
          end
      end
  end.

Definition m_mkdir (t : node) (p : path) (parents exist_ok : bool) : result * node :=
  match get_node t p with
  | Some n =>
      if negb (is_dir_node n) || negb exist_ok then (Err EEXIST, t) else (Ok VUnit, t)
  | None =>
      if negb parents then
        match unsnoc p with
        | None => (Err ERoot, t)            (* unreachable: get_node [] is the root *)
        | Some (pp, x) =>
            match get_node t pp with
            | None => (Err ENOENT, t)
            | Some (File _) => (Err ENOTDIR, t)
            | Some (Dir _) => (Ok VUnit, upd pp (on_dir (fun es => es ++ [(x, Dir [])])) t)
            end
        end
      else
        match m_mkdir_walk p t with
        | Some t' => (Ok VUnit, t')
        | None => (Err ENOTDIR, t)
        end
  end.

(* rmdir / unlink: `for i, node in enumerate(parent.content): if node.name == path.name: break`
   then `parent.content.pop(i)`; get_node(path) succeeded, so the first match exists *)
Definition m_remove (t : node) (p : path) : node :=
  match unsnoc p with
  | None => t
  | Some (pp, x) => upd pp (on_dir (remove_first x)) t
  end.

Definition m_rmdir (t : node) (p : path) : result * node :=
  match get_node t p with
  | None => (Err ENOENT, t)
  | Some (File _) => (Err ENOTDIR, t)
  | Some (Dir (_ :: _)) => (Err ENOTEMPTY, t)
  | Some (Dir []) =>
      match p with
      | [] => (Err ERoot, t)     (* real code: UnboundLocalError; mutation of the root, excluded *)
      | _ => (Ok VUnit, m_remove t p)
      end
  end.

Definition m_unlink (t : node) (p : path) : result * node :=
  match get_node t p with
  | None => (Err ENOENT, t)
  | Some (Dir _) => (Err EISDIR, t)
  | Some (File _) => (Ok VUnit, m_remove t p)
  end.

(* list: names in insertion order; empty for a file or a missing path *)
Definition m_list (t : node) (p : path) : result :=
  match get_node t p with
  | Some (Dir es) => Ok (VNames (map fst es))
  | _ => Ok (VNames [])
  end.

Definition m_stat (t : node) (p : path) : result :=
  match get_node t p with
  | None => Err ENOENT
  | Some (File d) => Ok (VStat false (zlen d))
  | Some (Dir _) => Ok (VStat true 0)
  end.

(* rename: validation first (FileNotFoundError / NotADirectoryError / OSError "Invalid argument"),
   then pop-and-break = remove the first entry of that name *)
Definition m_rename (t : node) (a b : path) : result * node :=
  match get_node t a with
  | None => (Err ENOENT, t)
  | Some sn =>
      if path_eqb a b then (Ok VUnit, t)
      else
        match unsnoc a, unsnoc b with
        | Some (ap, an), Some (bp, bn) =>
            match get_node t bp with
            | None => (Err ENOENT, t)
            | Some (File _) => (Err ENOTDIR, t)
            | Some (Dir _) =>
                if is_prefix a b then (Err EINVAL, t)      (* destination.is_relative_to(source) *)
                else (Ok VUnit, upd bp (on_dir (put bn sn)) (upd ap (on_dir (remove_first an)) t))
            end
        | _, _ => (Err ERoot, t)               (* the root as source or destination: excluded *)
        end
  end.

(* _open + the script on the returned BytesIO + close (a no-op) *)
Definition m_open (t : node) (p : path) (m : mode) (s : list hop) : result * node :=
  let run data pos :=
    let '(rs, data') := run_hops true true false EValue data pos s in
    (Ok (VOpen rs), upd p (fun _ => File data') t) in
  match m with
  | BadMode => (Err EValue, t)
  | RB =>
      match get_node t p with
      | None => (Err ENOENT, t)
      | Some (Dir _) => (Err EAttr, t)
      | Some (File d) => run d 0
      end
  | _ =>
      match get_node t p with
      | None =>
          match m, unsnoc p with
          | RPB, _ => (Err ENOENT, t)            (* if mode == "r+b": raise FileNotFoundError *)
          | _, None => (Err ERoot, t)
          | _, Some (pp, x) =>
              match get_node t pp with
              | Some (Dir _) =>
                  let t1 := upd pp (on_dir (fun es => es ++ [(x, File [])])) t in
                  let '(rs, data') := run_hops true true false EValue [] 0 s in
                  (Ok (VOpen rs), upd p (fun _ => File data') t1)
              | _ => (Err ENOENT, t)
              end
          end
      | Some (Dir _) => (Err EISDIR, t)
      | Some (File d) =>
          match m with
          | WB => run [] 0
          | AB => run d (zlen d)
          | _ => run d 0
          end
      end
  end.

Definition m_run (t : node) (o : fsop) : result * node :=
  match o with
  | Exists p => (Ok (VBool (m_exists t p)), t)
  | IsDir p => (Ok (VBool (m_is_dir t p)), t)
  | IsFile p => (Ok (VBool (m_is_file t p)), t)
  | Mkdir p parents exist_ok => m_mkdir t p parents exist_ok
  | Rmdir p => m_rmdir t p
  | Unlink p => m_unlink t p
  | List p => (m_list t p, t)
  | Stat p => (m_stat t p, t)
  | Rename a b => m_rename t a b
  | Open p m s => m_open t p m s
  end.
