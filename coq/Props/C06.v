(* C06 — Reply framing: what the server encodes is what the client decodes.
   Property statements only; proofs live in Proofs/Framing.v. *)
From Coq Require Import ZArith List Bool.
From Verif Require Import Lib.Sx Lib.PyStr Model.Framing Proofs.Framing.
Import ListNotations.
Open Scope Z_scope.

(* Every reply the server can emit (3 ASCII-digit code; >=1 LF-free lines, >=2 in list mode),
   followed by ANY further stream k, is decoded by the client into the same code and the same
   number of lines, each intact up to the one-character separator and Python's rstrip, and
   exactly the reply's bytes are consumed (what remains is k). *)
Theorem C06_decode_encode : forall (r : reply) (k : text),
  reply_ok r ->
  parse_response (split_lines (reply_wire r ++ k))
  = POk (fst (fst r)) (decoded_info (snd (fst r)) (snd r)) (split_lines k).
Proof. exact decode_one. Qed.
Print Assumptions C06_decode_encode.

(* A multi-line reply whose last line carries a different (numeric) code is rejected, and exactly
   its lines are consumed: what remains is k, so the next reply decodes by C06_decode_encode. *)
Theorem C06_mismatch_rejected : forall code other body bad k,
  good_code code -> good_code other -> other <> code ->
  Forall lf_free body -> lf_free bad ->
  forall head, lf_free head ->
  exists info,
    parse_response (split_lines (wire ((code ++ DASH :: head)
                                         :: map (fun l => code ++ DASH :: l) body
                                         ++ [other ++ SP :: bad]) ++ k))
    = PStatusErr code other info (split_lines k).
Proof. exact mismatch_in_reply. Qed.
Print Assumptions C06_mismatch_rejected.

(* any continuation line with another numeric code, wherever it stands *)
Theorem C06_mismatch_any_line : forall code acc l rest,
  str_isdigit (firstn 3 (rstrip l)) = true ->
  text_eqb (firstn 3 (rstrip l)) code = false ->
  parse_loop code acc (l :: rest)
  = PStatusErr code (firstn 3 (rstrip l)) (rev (skipn 3 (rstrip l) :: acc)) rest.
Proof. exact mismatch_rejected. Qed.
Print Assumptions C06_mismatch_any_line.

(* masks: digit-for-digit, any non-digit mask character is a wildcard *)
Theorem C06_matches_spec : forall mask code,
  matches mask code = true <->
  forall i, (i < Nat.min (length mask) (length code))%nat ->
       is_digit_char (nth i mask 0) = false \/ nth i mask 0 = nth i code 0.
Proof. exact matches_spec. Qed.
Print Assumptions C06_matches_spec.

(* command(): skips exactly the replies matching a wait mask, returns the first that does not,
   raises iff no expected mask matches; consumes exactly those replies *)
Theorem C06_command_loop : forall waits (last : reply) expected wait k fuel,
  Forall reply_ok waits -> reply_ok last ->
  Forall (fun r => any_matches wait (fst (fst r)) = true) waits ->
  any_matches wait (fst (fst last)) = false ->
  (length waits < fuel)%nat ->
  command_recv fuel expected wait (split_lines (replies_wire waits ++ reply_wire last ++ k))
  = match expected with
    | [] => COk (fst (fst last)) (decoded_info (snd (fst last)) (snd last)) (split_lines k)
    | _ => if any_matches expected (fst (fst last))
           then COk (fst (fst last)) (decoded_info (snd (fst last)) (snd last)) (split_lines k)
           else CStatusErr (split_lines k)
    end.
Proof. exact command_loop. Qed.
Print Assumptions C06_command_loop.

(* whole reply sequences on one stream, well-formed replies of all three forms interleaved in any
   order with multi-line replies whose closing line carries another code: successive
   parse_response calls return, item by item, the decoded reply resp. the rejection, whatever
   precedes and follows, and the stream is exhausted exactly after the last item
   (so no mis-framed or rejected reply desynchronises a later one) *)
Theorem C06_decode_sequence : forall (items : list item) (fuel : nat),
  Forall item_ok items -> (length items < fuel)%nat ->
  exists results,
    parse_seq fuel (split_lines (flat_map item_wire items)) = results ++ [PReset]
    /\ Forall2 item_result items results.
Proof. exact decode_sequence. Qed.
Print Assumptions C06_decode_sequence.

(* the property as a statement about the byte stream: decode (encode r1 ++ ... ++ encode rn ++ k)
   = [r1; ...; rn] ++ decode k, for ANY list of well-formed replies - no bound on the number of
   lines, the length of a line or the size of a reply (so also for replies that fill a block, a
   buffer or a segment exactly) - and any following stream k: no residue between two replies,
   nothing of k consumed *)
Theorem C06_decode_reply_stream_then : forall (rs : list reply) (k : text) (f : nat),
  Forall reply_ok rs ->
  parse_seq (length rs + f) (split_lines (replies_wire rs ++ k))
  = map decoded rs ++ parse_seq f (split_lines k).
Proof. exact decode_reply_stream_then. Qed.
Print Assumptions C06_decode_reply_stream_then.

Theorem C06_decode_reply_stream : forall (rs : list reply),
  Forall reply_ok rs ->
  parse_seq (S (length rs)) (split_lines (replies_wire rs)) = map decoded rs ++ [PReset].
Proof. exact decode_reply_stream. Qed.
Print Assumptions C06_decode_reply_stream.

(* non-vacuity: two replies back to back (a multi-line one, then a single-line one) *)
Example C06_reply_stream_example :
  parse_seq 3 (split_lines (replies_wire
     [([50;49;52], [[97];[98]], false); ([50;48;48], [[99]], false)]))
  = [POk [50;49;52] [[45;97];[32;98]] []; POk [50;48;48] [[32;99]] []; PReset].
Proof. vm_compute. reflexivity. Qed.

(* two successive command() calls on one stream, ANY expected / wait masks (overlapping or not):
   the second call starts exactly after the reply the first one stopped at - also when the first
   one raised StatusCodeError - so a reply matching both a wait and an expected mask is passed
   over, never returned *)
Theorem C06_command_then_command :
  forall waits1 last1 e1 w1 waits2 last2 e2 w2 k fuel,
  Forall reply_ok waits1 -> reply_ok last1 ->
  Forall (fun r => any_matches w1 (fst (fst r)) = true) waits1 ->
  any_matches w1 (fst (fst last1)) = false ->
  Forall reply_ok waits2 -> reply_ok last2 ->
  Forall (fun r => any_matches w2 (fst (fst r)) = true) waits2 ->
  any_matches w2 (fst (fst last2)) = false ->
  (length waits1 < fuel)%nat -> (length waits2 < fuel)%nat ->
  command_seq fuel [(e1, w1); (e2, w2)]
    (split_lines (replies_wire waits1 ++ reply_wire last1
                  ++ replies_wire waits2 ++ reply_wire last2 ++ k))
  = [command_outcome e1 last1 []; command_outcome e2 last2 (split_lines k)].
Proof. exact command_then_command. Qed.
Print Assumptions C06_command_then_command.

(* non-vacuity of the overlapping case: wait mask "226" and expected mask "2xx" both match 226;
   the 226 is skipped, 250 returned, and the next command reads the 200 *)
Example C06_overlap_example :
  command_seq 9 [([[50;120;120]], [[50;50;54]]); ([[120;120;120]], [])]
    (split_lines [50;50;54;32;97;13;10; 50;53;48;32;98;13;10; 50;48;48;32;99;13;10])
  = [COk [50;53;48] [[32;98]] []; COk [50;48;48] [[32;99]] []].
Proof. vm_compute. reflexivity. Qed.

(* command line: "VERB arg\r\n" built by the client is parsed by the server to (verb, arg) *)
Theorem C06_parse_command_build : forall verb arg,
  verb <> [] ->
  forallb (fun c => negb (is_space c)) verb = true ->
  rstrip arg = arg ->
  parse_command (build_command verb arg) = Some (lower verb, arg).
Proof. exact parse_command_build. Qed.
Print Assumptions C06_parse_command_build.
