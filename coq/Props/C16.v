(* C16 -- Configured timeouts bound how long a stalled peer can hold a session.
   Property statements only; proofs live in Proofs/Timeouts.v.  The timed model (Model/Timeouts.v)
   is parametric in the wiring "which timeout governs which await"; section A re-derives that
   wiring from the facts regenerated from /repo/src/aioftp/{common,server}.py on every run
   (Gen/Timeouts.v, Gen/Dispatch.v) and checks it is the one the theorems of section B speak about. *)
From Coq Require Import QArith ZArith List Bool String.
From Verif Require Import Lib.Sx Lib.Facts Model.Timeouts Proofs.Timeouts Gen.Dispatch Gen.Timeouts.
Import ListNotations.
Open Scope Q_scope.

(* ================================================================ A. the tie to the source *)
Open Scope string_scope.

Fixpoint site_kws (q : string) (l : list (string * (string * list (string * string))))
  : option (list (string * string)) :=
  match l with
  | [] => None
  | (k, (_, kws)) :: r => if String.eqb k q then Some kws else site_kws q r
  end.

Fixpoint slist_eqb (a b : list string) : bool :=
  match a, b with
  | [], [] => true
  | x :: r, y :: r' => String.eqb x y && slist_eqb r r'
  | _, _ => false
  end.

(* wiring of the control stream (site "dispatcher") and of the data stream built at [data_site] *)
Definition gen_wiring (data_site : string) : option wiring :=
  let mt := method_timeout connection_kwargs streamio_defaults streamio_init streamio_timed in
  match site_kws "dispatcher" stream_sites, site_kws data_site stream_sites with
  | Some ck, Some dk =>
      match mt ck "readline", mt ck "write", mt dk "read", mt dk "write",
            site_expr connection_kwargs cc_timeout_when_wait with
      | Some a, Some b, Some c, Some d, Some e =>
          Some {| w_ctrl_read := a; w_ctrl_write := b; w_data_read := c; w_data_write := d;
                  w_wait := e;
                  w_wait_continues :=
                    slist_eqb cc_except_actions ["response:self.fail_code"; "return:True"] |}
      | _, _, _, _, _ => None
      end
  | _, _ => None
  end.

Lemma C16_translator_ok : Gen.Timeouts.translator_ok_timeouts && Gen.Dispatch.translator_ok = true.
Proof. vm_compute. reflexivity. Qed.

(* control stream: read_timeout=self.idle_timeout, write_timeout=self.socket_timeout; data streams
   (PASV and EPSV): timeout=connection.socket_timeout = self.socket_timeout; StreamIO.__init__'s
   `timeout if X is None else X` (fact semantics "is-none": ONLY None falls back, 0 is kept -- a source
   that goes back to `X or timeout` is translated with semantics "or" to the wiring [or_wiring], which is
   not [std_wiring], and these two lemmas fail); readline/read under read_timeout, write under write_timeout; the wait of
   ConnectionConditions(wait=True) uses connection.wait_future_timeout = self.wait_future_timeout and its
   TimeoutError handler replies fail_code and returns True *)
Lemma C16_wiring_pasv : gen_wiring "pasv.handler" = Some std_wiring.
Proof. vm_compute. reflexivity. Qed.

Lemma C16_wiring_epsv : gen_wiring "epsv.handler" = Some std_wiring.
Proof. vm_compute. reflexivity. Qed.

(* there is no other place where a stream is built *)
Lemma C16_stream_sites : map fst stream_sites = ["dispatcher"; "pasv.handler"; "epsv.handler"].
Proof. vm_compute. reflexivity. Qed.

(* with_timeout(name) is asyncio.wait_for(<the call>, getattr(self, name)), nothing scaled or added *)
Lemma C16_with_timeout_is_wait_for :
  String.eqb with_timeout_coro "f(cls, *args, **kwargs)"
  && String.eqb with_timeout_timeout "getattr(cls, name)" = true.
Proof. vm_compute. reflexivity. Qed.

(* ThrottleStreamIO forwards its keywords to StreamIO.__init__ and awaits the throttle BEFORE the
   timed call (the throttle sleep is not under the timeout: this is the epsilon of the harness) *)
Lemma C16_throttle_outside_timeout :
  throttle_init_forwards
  && forallb (fun m => snd (snd m)) throttle_methods
  && slist_eqb (map fst throttle_methods) ["read"; "readline"; "write"] = true.
Proof. vm_compute. reflexivity. Qed.

(* ConnectionConditions: wait_for(shield(aggregate), timeout), timeout = 0 when not waiting,
   only asyncio.TimeoutError is handled, and the wrapped function runs otherwise *)
Lemma C16_conncond_shape :
  slist_eqb cc_wait_for_args ["asyncio.shield(aggregate)"; "timeout"]
  && String.eqb cc_timeout_otherwise "0"
  && String.eqb cc_except "asyncio.TimeoutError"
  && slist_eqb cc_except_guards ["not future.done()"]
  && String.eqb cc_fallthrough "await f(cls, connection, rest, *args)" = true.
Proof. vm_compute. reflexivity. Qed.

(* every @worker waits for the data connection (wait=True, 425), outside the @worker wrapper, and
   touches the data stream only through the timed read / write (and close) *)
Definition worker_ok (x : string * (string * list string * string * string * list string)) : bool :=
  let '(_, (_, fields, wait, code, ops)) := x in
  slist_eqb fields ["data_connection"] && String.eqb wait "True" && String.eqb code "425"
  && forallb (fun o => mem_s o ["read"; "write"; "close"]) ops.

Lemma C16_workers_wait_425 :
  forallb worker_ok data_workers
  && slist_eqb (map fst data_workers) ["mlsd_worker"; "list_worker"; "stor_worker"; "retr_worker"]
  && Nat.eqb (List.length Gen.Dispatch.workers) (List.length data_workers) = true.
Proof. vm_compute. reflexivity. Qed.

(* parse_command starts with the timed readline on the control stream, is part of the initial task
   set and is re-spawned each time a command line has been received; replies are written through the
   same stream *)
Lemma C16_parse_command_respawned :
  String.eqb parse_command_initial_stream "stream"
  && String.eqb parse_command_respawn_stream "stream"
  && String.eqb parse_command_first_statement "line = await stream.readline()"
  && String.eqb response_writer_stream "stream"
  && response_writer_writes_stream
  && match assoc "command_connection" connection_kwargs with Some v => String.eqb v "stream" | None => false end
  = true.
Proof. vm_compute. reflexivity. Qed.

(* parse_command either returns a TUPLE -- the only result for which the dispatcher starts the next reader (obligation
   above) -- or raises into the dispatcher (TimeoutError of the timed readline, ConnectionResetError on EOF,
   UnicodeDecodeError on a line that is not valid in the server encoding): it handles no exception itself, returns
   nothing else and awaits nothing but the timed readline.  So a session never goes on without a reader and its idle
   timer (abort_at of the model is "raises into the dispatcher") *)
Lemma C16_parse_command_total :
  slist_eqb parse_command_returns ["tuple"]
  && slist_eqb parse_command_handles []
  && slist_eqb parse_command_awaits ["stream.readline()"] = true.
Proof. vm_compute. reflexivity. Qed.

(* a TimeoutError of any task reaches the dispatcher: neither @worker nor the inner try handles it
   (their clauses name only errors.PathIOError / asyncio.CancelledError, neither of which is a
   superclass of TimeoutError), the outer `except Exception` only logs, and the finally block closes
   the control stream *)
Lemma C16_timeout_ends_session :
  slist_eqb (map fst worker_except) ["asyncio.CancelledError"]
  && forallb (fun p => mem_s (fst p) ["errors.PathIOError"; "asyncio.CancelledError"]) (d_task_except dispatcher)
  && match assoc_s "Exception" (d_outer_except dispatcher) with Some a => slist_eqb a ["log"] | None => false end
  && mem_s "loop_open=>close:control" (d_finally dispatcher)
  && mem_s "loop_open=>cancel:pending|connection.extra_workers" (d_finally dispatcher)
  && mem_s "loop_open,has:passive_server=>close:passive_server" (d_finally dispatcher)
  && mem_s "loop_open,has:data_connection=>close:data_connection" (d_finally dispatcher) = true.
Proof. vm_compute. reflexivity. Qed.

(* the three attributes are stored as given and the documented defaults *)
Lemma C16_server_attributes :
  forallb (fun p => String.eqb (fst p) (snd p)) server_stores
  && match assoc "wait_future_timeout" server_defaults, assoc "idle_timeout" server_defaults,
           assoc "socket_timeout" server_defaults with
     | Some a, Some b, Some c => String.eqb a "1" && String.eqb b "None" && String.eqb c "None"
     | _, _, _ => false
     end = true.
Proof. vm_compute. reflexivity. Qed.

Close Scope string_scope.

(* ================================================================ B. theorems about the timed model *)
(* All statements hold for every configuration (each timeout None or ANY rational: positive, zero,
   negative), every reachable or unreachable live state [s] (hence wherever in the session the stall
   begins) and every continuation.  [finish] = the peer stalls for good; [step] = the next thing the
   peer does; [run] = a whole session from its greeting.
   [due a T] is the instant at which an await entered at [a] under the timeout T is given up. *)
Theorem C16_due_spec : forall a T,
  (0 < T -> due a T = a + T) /\ (T <= 0 -> due a T = a) /\ a <= due a T /\ (0 <= T -> due a T <= a + T).
Proof. exact due_spec. Qed.
Print Assumptions C16_due_spec.

(* B0. every await is governed by exactly the configured value: None stays None, 0 stays 0 *)
Theorem C16_effective_timeouts : forall c,
  eval c (w_ctrl_read std_wiring) = idle c /\ eval c (w_ctrl_write std_wiring) = socket c /\
  eval c (w_data_read std_wiring) = socket c /\ eval c (w_data_write std_wiring) = socket c /\
  eval c (w_wait std_wiring) = wait_future c.
Proof. exact effective_timeouts. Qed.
Print Assumptions C16_effective_timeouts.

(* B1. no early release: an event strictly before every session-ending deadline (idle read,
   pending data I/O, blocked control write) is handled by a live session *)
Theorem C16_never_before_bound : forall c s e, alive s ->
  (forall d k, end_dl std_wiring c s = Some (d, k) -> time_of e < d) ->
  alive (step std_wiring c s e).
Proof. intros c s e Ha Hd. exact (proj1 (never_before_bound std_wiring c s e eq_refl Ha Hd)). Qed.
Print Assumptions C16_never_before_bound.

(* B2. idle: the control readline armed at [armed s] (= consumption of the last command line + its
   read-throttle wait) drops the session at exactly due (armed s) idle_timeout when the peer stalls *)
Theorem C16_idle_drop_exact : forall c s i, alive s -> idle c = Some i ->
  (forall y ky, data_dl std_wiring c s = Some (y, ky) -> due (armed s) i <= y) ->
  (forall y ky, cw_dl std_wiring c s = Some (y, ky) -> due (armed s) i <= y) ->
  ended (finish std_wiring c s) = Some (due (armed s) i, CIdle).
Proof. exact idle_drop_exact. Qed.
Print Assumptions C16_idle_drop_exact.

Theorem C16_idle_drop_exact_event : forall c s i e, alive s -> idle c = Some i ->
  (forall y ky, data_dl std_wiring c s = Some (y, ky) -> due (armed s) i <= y) ->
  (forall y ky, cw_dl std_wiring c s = Some (y, ky) -> due (armed s) i <= y) ->
  due (armed s) i <= time_of e ->
  ended (step std_wiring c s e) = Some (due (armed s) i, CIdle).
Proof. exact idle_drop_exact_event. Qed.
Print Assumptions C16_idle_drop_exact_event.

(* the statement of the property at full strength: every value 0 <= i, the value 0 included
   (before the F16 repair this held for 0 < i only and was refuted at i = 0) *)
Theorem C16_idle_release_bound : forall c s i, alive s -> idle c = Some i -> 0 <= i ->
  exists d k, ended (finish std_wiring c s) = Some (d, k) /\ d <= armed s + i.
Proof. exact idle_release_bound. Qed.
Print Assumptions C16_idle_release_bound.

(* ... and for any value at all *)
Theorem C16_idle_release_due : forall c s i, alive s -> idle c = Some i ->
  exists d k, ended (finish std_wiring c s) = Some (d, k) /\ d <= due (armed s) i.
Proof. exact idle_release_due. Qed.
Print Assumptions C16_idle_release_due.

(* ... and never if the next line arrives before: it is handled and re-arms the timer at t + d *)
Theorem C16_next_line_rearms : forall c s t d k, alive s ->
  (forall x kx, end_dl std_wiring c s = Some (x, kx) -> t < x) ->
  alive (step std_wiring c s (Line t d k)) /\ armed (step std_wiring c s (Line t d k)) = t + d.
Proof. exact next_line_rearms. Qed.
Print Assumptions C16_next_line_rearms.

(* a session every event of which comes within idle_timeout of the arming of its latest command is
   never dropped for idleness, whatever else ends it *)
Theorem C16_active_never_idle_dropped : forall c i evs s, idle c = Some i -> alive s ->
  within_idle i (armed s) evs ->
  forall d k, ended (run_events std_wiring c s evs) = Some (d, k) -> k <> CIdle.
Proof. exact active_never_idle_dropped. Qed.
Print Assumptions C16_active_never_idle_dropped.

(* the idle timer is not reset by data-channel progress: a session whose only activity is a
   transfer is gone by the idle deadline, and exactly then when idleness is the cause *)
Theorem C16_idle_drop_during_transfer : forall c i evs s, idle c = Some i -> alive s ->
  forallb (fun e => negb (is_line e)) evs = true ->
  exists d k, ended (finish std_wiring c (run_events std_wiring c s evs)) = Some (d, k) /\
              d <= due (armed s) i /\ (k = CIdle -> d = due (armed s) i).
Proof. exact idle_drop_during_transfer. Qed.
Print Assumptions C16_idle_drop_during_transfer.

(* B3. data-connection wait: exactly one 425 at command time + wait_future_timeout (at the command
   itself when the timeout is <= 0), and the session continues: the next event is applied to a live
   state with no transfer pending *)
Theorem C16_data_wait_425 : forall c s dr cmd x e, alive s ->
  xf s = XWait dr cmd -> wait_future c = Some x ->
  let wd := due cmd x in
  (forall d k, end_dl std_wiring c s = Some (d, k) -> wd < d /\ time_of e < d) ->
  wd <= time_of e ->
  step std_wiring c s e = apply_event (reply_425 s wd) e /\
  alive (step std_wiring c s e) /\
  r425 (step std_wiring c s e) = wd :: r425 s.
Proof. exact data_wait_425. Qed.
Print Assumptions C16_data_wait_425.

Theorem C16_data_wait_425_stall : forall c s dr cmd x, alive s ->
  xf s = XWait dr cmd -> wait_future c = Some x ->
  let wd := due cmd x in
  (forall d k, end_dl std_wiring c s = Some (d, k) -> wd < d) ->
  r425 (finish std_wiring c s) = wd :: r425 s /\ xf (finish std_wiring c s) = XNone /\
  ended (finish std_wiring c s) = end_dl std_wiring c s.
Proof. exact data_wait_425_stall. Qed.
Print Assumptions C16_data_wait_425_stall.

Theorem C16_data_connect_in_time : forall c s dr cmd x t, alive s ->
  xf s = XWait dr cmd -> wait_future c = Some x -> t < due cmd x ->
  (forall d k, end_dl std_wiring c s = Some (d, k) -> t < d) ->
  step std_wiring c s (DataConnects t) = set_xf s (XMove dr t).
Proof. exact data_connect_in_time. Qed.
Print Assumptions C16_data_connect_in_time.

Theorem C16_at_most_one_425_per_transfer : forall evs c s,
  (List.length (r425 (finish std_wiring c (run_events std_wiring c s evs)))
   <= List.length (r425 s) + waiting s + List.length (filter is_xfer_line evs))%nat.
Proof. intros evs c s. exact (at_most_one_425_per_transfer std_wiring c evs s). Qed.
Print Assumptions C16_at_most_one_425_per_transfer.

(* B4. data stall: the pending read/write of a data stream that made its last progress at p is
   abandoned at exactly due p socket_timeout -- and, as the code is written (the TimeoutError leaves
   the worker and reaches the dispatcher), that ends the SESSION, with no reply *)
Theorem C16_data_stall_bound : forall c s dr p x, alive s ->
  xf s = XMove dr p -> socket c = Some x ->
  (forall y ky, idle_dl std_wiring c s = Some (y, ky) -> due p x < y) ->
  (forall y ky, cw_dl std_wiring c s = Some (y, ky) -> due p x <= y) ->
  ended (finish std_wiring c s) = Some (due p x, CData).
Proof. exact data_stall_bound. Qed.
Print Assumptions C16_data_stall_bound.

Theorem C16_data_stall_release_bound : forall c s dr p x, alive s ->
  xf s = XMove dr p -> socket c = Some x ->
  exists d k, ended (finish std_wiring c s) = Some (d, k) /\ d <= due p x.
Proof. exact data_stall_release_bound. Qed.
Print Assumptions C16_data_stall_release_bound.

(* progress re-arms the data timer at the instant the NEXT read/write starts = progress + throttle wait d of
   the stream ... *)
Theorem C16_data_progress_rearms : forall c s dr p t d, alive s -> xf s = XMove dr p ->
  (forall x k, end_dl std_wiring c s = Some (x, k) -> t < x) ->
  step std_wiring c s (DataProgress t d) = set_xf s (XMove dr (t + d)).
Proof. exact data_progress_rearms. Qed.
Print Assumptions C16_data_progress_rearms.

(* ... so the server's own pacing is not counted against socket_timeout, however long it is (speed limit x
   timeout): the data deadline after progress at t with wait d is due (t + d) socket_timeout, and whatever
   happens before it (and before the other deadlines) finds the session alive.  The control-channel counterpart
   is C16_next_line_rearms / C16_active_never_idle_dropped (the idle timer is armed at t + d) *)
Theorem C16_data_pause_not_counted : forall c s dr p t d x e, alive s -> xf s = XMove dr p ->
  socket c = Some x ->
  (forall y k, end_dl std_wiring c s = Some (y, k) -> t < y) ->
  let s' := step std_wiring c s (DataProgress t d) in
  data_dl std_wiring c s' = Some (due (t + d) x, CData) /\
  ((forall y k, idle_dl std_wiring c s' = Some (y, k) -> time_of e < y) ->
   (forall y k, cw_dl std_wiring c s' = Some (y, k) -> time_of e < y) ->
   time_of e < due (t + d) x -> alive (step std_wiring c s' e)).
Proof. exact data_pause_not_counted. Qed.
Print Assumptions C16_data_pause_not_counted.

Theorem C16_ctrl_write_stall_bound : forall c s t x, alive s ->
  cw s = Some t -> socket c = Some x ->
  exists d k, ended (finish std_wiring c s) = Some (d, k) /\ d <= due t x.
Proof. exact ctrl_write_stall_bound. Qed.
Print Assumptions C16_ctrl_write_stall_bound.

(* B5. the session ends at exactly the earliest pending session-ending deadline, and never when
   there is none (this is both directions for every combination of the three timeouts) *)
Theorem C16_stall_ends_at_deadline : forall c s d k, alive s ->
  end_dl std_wiring c s = Some (d, k) -> ended (finish std_wiring c s) = Some (d, k).
Proof. intros c s d k. exact (stall_ends_at_deadline std_wiring c s d k eq_refl). Qed.
Print Assumptions C16_stall_ends_at_deadline.

Theorem C16_dropped_at_deadline : forall c s e d k, alive s ->
  end_dl std_wiring c s = Some (d, k) -> d <= time_of e ->
  ended (step std_wiring c s e) = Some (d, k).
Proof. intros c s e d k. exact (dropped_at_deadline std_wiring c s e d k eq_refl). Qed.
Print Assumptions C16_dropped_at_deadline.

(* B6. unset (None, and only None) means unbounded (non-vacuity the other way) *)
Theorem C16_unset_idle_never_dropped : forall c s, alive s -> idle c = None ->
  (forall d p, xf s <> XMove d p) -> cw s = None -> alive (finish std_wiring c s).
Proof. exact unset_idle_never_dropped. Qed.
Print Assumptions C16_unset_idle_never_dropped.

Theorem C16_unset_wait_never_425 : forall c s, wait_future c = None ->
  r425 (finish std_wiring c s) = r425 s /\
  (alive (finish std_wiring c s) -> xf (finish std_wiring c s) = xf s).
Proof. exact unset_wait_never_425. Qed.
Print Assumptions C16_unset_wait_never_425.

Theorem C16_unset_socket_never_abandoned : forall c s, alive s -> socket c = None ->
  idle c = None -> alive (finish std_wiring c s).
Proof. exact unset_socket_never_abandoned. Qed.
Print Assumptions C16_unset_socket_never_abandoned.

(* B7. the value 0 is zero seconds, everywhere (F16 repaired; these replace the former
   C16_zero_is_unset_idle, C16_zero_is_unset_socket_ctrl and the refutation C16_idle_zero_dropped_refuted).
   Control reads: idle_timeout <= 0 drops the session at its very start, whatever the peer does ... *)
Theorem C16_idle_zero_drops_at_once : forall c z t0 evs, idle c = Some z -> z <= 0 ->
  ended (run std_wiring c t0 evs) = Some (t0, CIdle).
Proof. exact idle_zero_drops_at_once. Qed.
Print Assumptions C16_idle_zero_drops_at_once.

(* ... and from any live state a silent session is gone by the instant its read was armed *)
Theorem C16_idle_zero_release : forall c s z, alive s -> idle c = Some z -> z <= 0 ->
  exists d k, ended (finish std_wiring c s) = Some (d, k) /\ d <= armed s.
Proof. exact idle_zero_release. Qed.
Print Assumptions C16_idle_zero_release.

(* Control writes: socket_timeout <= 0 gives up the greeting (the first reply write) at once: the
   session is over at its start ... *)
Theorem C16_zero_socket_ends_at_greeting : forall c z t0 evs, socket c = Some z -> z <= 0 ->
  exists d k, ended (run std_wiring c t0 evs) = Some (d, k) /\ d == t0.
Proof. exact zero_socket_ends_at_greeting. Qed.
Print Assumptions C16_zero_socket_ends_at_greeting.

(* ... and from any live state a pending reply write ends the session by the instant it was entered *)
Theorem C16_zero_socket_ctrl_immediate : forall c s t z, alive s ->
  cw s = Some t -> socket c = Some z -> z <= 0 ->
  exists d k, ended (finish std_wiring c s) = Some (d, k) /\ d <= t.
Proof. exact zero_socket_ctrl_immediate. Qed.
Print Assumptions C16_zero_socket_ctrl_immediate.

(* Data reads/writes: given up the instant they start (state level: under the wiring of the source
   such a state is not reachable from [run], the session having ended at the greeting) *)
Theorem C16_zero_socket_data_immediate : forall c s dr p z, alive s ->
  xf s = XMove dr p -> socket c = Some z -> z <= 0 ->
  (forall y ky, idle_dl std_wiring c s = Some (y, ky) -> p < y) ->
  (forall y ky, cw_dl std_wiring c s = Some (y, ky) -> p <= y) ->
  ended (finish std_wiring c s) = Some (p, CData).
Proof. exact zero_socket_data_immediate. Qed.
Print Assumptions C16_zero_socket_data_immediate.

(* Data-connection wait: wait_future_timeout <= 0 is an immediate 425 *)
Theorem C16_zero_wait_immediate_425 : forall c s dr cmd z, alive s ->
  xf s = XWait dr cmd -> wait_future c = Some z -> z <= 0 ->
  (forall d k, end_dl std_wiring c s = Some (d, k) -> cmd < d) ->
  r425 (finish std_wiring c s) = cmd :: r425 s.
Proof. exact zero_wait_immediate_425. Qed.
Print Assumptions C16_zero_wait_immediate_425.

(* B8. the shape before the repair (`X or timeout`) is a different wiring: it turns idle_timeout = 0
   into "no timeout", which is how obligation C16_wiring_* tells a revert of the fix apart *)
Theorem C16_or_shape_differs_at_zero : forall c z, idle c = Some z -> z == 0 ->
  eval c (w_ctrl_read or_wiring) = None /\ eval c (w_ctrl_read std_wiring) = Some z.
Proof. exact or_wiring_zero_is_unset. Qed.
Print Assumptions C16_or_shape_differs_at_zero.

(* B9. the reader task fails at t (a command line that is not valid in the server encoding, or the peer closing
   its control connection, makes parse_command raise; obligation C16_parse_command_total ties "raises or returns
   a tuple, which re-arms the reader"): the session ends at that very instant, no timeout involved, unless a
   deadline ended it before -- in every case it is gone by t: no reader-less, timer-less session survives *)
Theorem C16_abort_ends_session : forall c s t, alive s ->
  (forall d k, end_dl std_wiring c s = Some (d, k) -> t < d) ->
  ended (abort_at std_wiring c s t) = Some (t, CError).
Proof. exact abort_ends_session. Qed.
Print Assumptions C16_abort_ends_session.

Theorem C16_abort_after_deadline : forall c s t d k, alive s ->
  end_dl std_wiring c s = Some (d, k) -> d <= t ->
  ended (abort_at std_wiring c s t) = Some (d, k).
Proof. exact abort_after_deadline. Qed.
Print Assumptions C16_abort_after_deadline.

Theorem C16_abort_released_by : forall c s t, alive s ->
  exists d k, ended (abort_at std_wiring c s t) = Some (d, k) /\ d <= t.
Proof. exact abort_released_by. Qed.
Print Assumptions C16_abort_released_by.

(* ================================================================ C. non-vacuity *)
Definition cfg1 : config := {| idle := Some 5; socket := Some 3; wait_future := Some 2 |}.
Definition s_of (c : config) (evs : list event) : state := run_events std_wiring c (start std_wiring c 0) evs.

(* hypotheses of C16_idle_drop_exact are satisfiable: logged-in session, last line at 2 -> dropped at 7 *)
Example ex_idle : let s := s_of cfg1 [Line 1 0 KPlain; Line 2 0 KPlain] in
  alive s /\ data_dl std_wiring cfg1 s = None /\ cw_dl std_wiring cfg1 s = None /\
  ended (finish std_wiring cfg1 s) = Some (2 + 5, CIdle).
Proof. vm_compute. repeat split. Qed.

(* C16_data_wait_425: RETR at 2, nobody connects: 425 at 4 (< idle deadline 7), PWD at 5 is handled *)
Example ex_425 : let s := s_of cfg1 [Line 1 0 KPlain; Line 2 0 (KXfer Down)] in
  xf s = XWait Down 2 /\ end_dl std_wiring cfg1 s = Some (2 + 5, CIdle) /\
  r425 (step std_wiring cfg1 s (Line 5 0 KPlain)) = [2 + 2] /\
  alive (step std_wiring cfg1 s (Line 5 0 KPlain)).
Proof. vm_compute. repeat split. Qed.

(* C16_data_stall_bound: data connected before RETR at 2, progress at 3, then nothing: session ends at 6 < 7 *)
Example ex_stall : let s := s_of cfg1 [DataConnects 1; Line 2 0 (KXfer Down); DataProgress 3 0] in
  xf s = XMove Down 3 /\ ended (finish std_wiring cfg1 s) = Some (3 + 3, CData).
Proof. vm_compute. repeat split. Qed.

(* C16_idle_drop_during_transfer: the transfer makes progress every second and is still dropped at 2 + 5 *)
Example ex_idle_mid_transfer :
  ended (run std_wiring cfg1 0 [DataConnects 1; Line 2 0 (KXfer Down); DataProgress 3 0; DataProgress 4 0;
                               DataProgress 5 0; DataProgress 6 0; DataProgress (13 # 2) 0; DataProgress 8 0])
  = Some (2 + 5, CIdle).
Proof. vm_compute. reflexivity. Qed.

(* within_idle is satisfiable by a long active session *)
Example ex_active : within_idle 5 0 [Line 4 0 KPlain; Line 8 0 KPlain; Line 12 (1 # 2) KPlain; Tick 17].
Proof. cbn. repeat split; reflexivity. Qed.

(* unset: no timeouts at all, a waiting transfer is never released *)
Example ex_unset : let c := {| idle := None; socket := None; wait_future := None |} in
  let s := run std_wiring c 0 [Line 1 0 (KXfer Up)] in
  ended s = None /\ xf s = XWait Up 1 /\ r425 s = [].
Proof. vm_compute. repeat split. Qed.

(* idle_timeout = 0: the former counterexample (one command at 1, then silence) is now dropped at 0;
   idle_timeout = None on the same script is never dropped (0 is NOT unset) *)
Definition cfg_zero_idle : config := {| idle := Some 0; socket := None; wait_future := Some 1 |}.
Example ex_zero_idle :
  ended (run std_wiring cfg_zero_idle 0 [Line 1 0 KPlain]) = Some (0, CIdle) /\
  ended (run std_wiring {| idle := None; socket := None; wait_future := Some 1 |} 0 [Line 1 0 KPlain]) = None /\
  ended (run or_wiring cfg_zero_idle 0 [Line 1 0 KPlain]) = None.
Proof. vm_compute. repeat split. Qed.

(* socket_timeout = 0: over at the greeting; = None: a started upload with a silent peer is never given up *)
Example ex_zero_socket_not_unset :
  ended (run std_wiring {| idle := None; socket := Some 0; wait_future := None |} 0
             [DataConnects 1; Line 2 0 (KXfer Up)]) = Some (0, CCtrlWrite) /\
  ended (run std_wiring {| idle := None; socket := None; wait_future := None |} 0
             [DataConnects 1; Line 2 0 (KXfer Up)]) = None.
Proof. vm_compute. split; reflexivity. Qed.

(* hypotheses of C16_zero_socket_data_immediate / C16_zero_socket_ctrl_immediate are satisfiable (live
   states with a pending data read / a pending reply write) *)
Example ex_zero_socket_states :
  let c := {| idle := Some 5; socket := Some 0; wait_future := None |} in
  let s := {| armed := 2; xf := XMove Up 3; data_ready := false; cw := None; r425 := []; ended := None |} in
  let s' := {| armed := 2; xf := XNone; data_ready := false; cw := Some 4; r425 := []; ended := None |} in
  alive s /\ ended (finish std_wiring c s) = Some (3, CData) /\
  alive s' /\ ended (finish std_wiring c s') = Some (4, CCtrlWrite).
Proof. vm_compute. repeat split. Qed.

(* wait_future_timeout = 0: 425 at the command instant, the session continues *)
Example ex_zero_wait :
  let c := {| idle := Some 5; socket := None; wait_future := Some 0 |} in
  let s := run std_wiring c 0 [Line 1 0 KPlain; Line 2 0 (KXfer Down)] in
  r425 s = [2] /\ ended s = Some (2 + 5, CIdle).
Proof. vm_compute. repeat split. Qed.

(* speed limit x timeout, throttle waits LONGER than the timeouts, a peer that never stalls:
   control channel -- idle_timeout 2, every command costs a 4 s wait, a command every second: each line is consumed
   the instant the read is armed, the session is alive after the last one and dropped only 2 s after its arming;
   data channel -- socket_timeout 2, the block read at 3 costs a 15 s wait, the peer sent the next block long ago:
   alive at 18 (read armed at 18), dropped at 18 + 2 only because nothing more comes *)
Example ex_pause_longer_than_idle :
  let c := {| idle := Some 2; socket := None; wait_future := None |} in
  let evs := [Line 1 4 KPlain; Line 5 4 KPlain; Line 9 4 KPlain] in
  within_idle 2 0 evs /\ alive (s_of c evs) /\ ended (finish std_wiring c (s_of c evs)) = Some (9 + 4 + 2, CIdle).
Proof. vm_compute. repeat split; reflexivity. Qed.

Example ex_pause_longer_than_socket :
  let c := {| idle := None; socket := Some 2; wait_future := None |} in
  let evs := [DataConnects 1; Line 2 0 (KXfer Up); DataProgress 3 15] in
  alive (s_of c (evs ++ [Tick 17])) /\ alive (s_of c (evs ++ [DataProgress 18 15; Tick 34])) /\
  ended (finish std_wiring c (s_of c evs)) = Some (3 + 15 + 2, CData).
Proof. vm_compute. repeat split; reflexivity. Qed.

(* an undecodable line at 3 in a session with idle_timeout 5: over at 3 (not at 2 + 5); with idle_timeout 2 and the
   last command at 0.5 the idle drop at 2.5 comes first *)
Example ex_abort :
  ended (run_abort std_wiring cfg1 0 [Line 1 0 KPlain; Line 2 0 KPlain] 3) = Some (3, CError) /\
  ended (run_abort std_wiring {| idle := Some 2; socket := None; wait_future := None |} 0 [Line (1 # 2) 0 KPlain] 3)
  = Some ((1 # 2) + 2, CIdle).
Proof. vm_compute. split; reflexivity. Qed.
