From Coq Require Import ZArith List Bool.
From Verif Require Import Lib.Sx Lib.PyStr Model.Parsers Proofs.Parsers.
Theorem C19_stub : True. Proof. exact stub. Qed.
Print Assumptions C19_stub.
