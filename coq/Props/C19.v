(* C19 -- Malformed input from the peer is contained on both sides.
   Property statements only; proofs live in Proofs/Parsers.v.
   Everything is quantified over ALL byte strings / line lists (list Z of any length and
   content), every codec `dec` (None = UnicodeDecodeError), every line limit, and every date
   parser `ls_date` / `win_date` (the strptime-based library calls are parameters of the model)
   whose exceptions stay inside the funnel (they raise only ValueError: checked on every input
   of the correspondence). *)
From Coq Require Import ZArith List Bool.
From Verif Require Import Lib.Sx Lib.PyStr Lib.PyStr3 Lib.Facts Model.Framing Model.Parsers Proofs.Parsers.
From Verif Require Import Gen.Dispatch.
Import ListNotations.
Open Scope Z_scope.

(* For listing lines always the documented ValueError: parse_list_line returns a value or raises
   exactly ValueError, on every byte string (each inner parser's classes -- UnicodeDecodeError,
   IndexError, KeyError, ValueError -- are inside the (ValueError, KeyError, IndexError) funnel). *)
Theorem C19_list_line_value_error_only :
  forall (dec : list Z -> option text) (ls_date win_date : text -> result text),
  (forall s, allowed funnel (ls_date s)) ->
  (forall s, allowed funnel (win_date s)) ->
  forall b : list Z,
    (exists v, parse_list_line dec ls_date win_date b = Ok v)
    \/ parse_list_line dec ls_date win_date b = Exc ValueError.
Proof. exact list_line_value_error_only. Qed.
Print Assumptions C19_list_line_value_error_only.

(* ... and what it returns always carries a type fact (so Client.list never raises KeyError
   in LIST mode) *)
Theorem C19_list_line_typed :
  forall dec ls_date win_date b, ok_sat has_type (parse_list_line dec ls_date win_date b).
Proof. exact list_line_has_type. Qed.
Print Assumptions C19_list_line_typed.

(* Every other parser returns a value or an ordinary exception from a stated finite set:
     parse_unix_mode {KeyError, IndexError, ValueError}; parse_mlsx_line {UnicodeDecodeError};
     parse_pasv_response, parse_epsv_response {ValueError, IndexError}; Client.stat's MLST half
     {IndexError}; the unix / windows line parsers {funnel}; parse_directory_response is a total
     function to a path (no exception at all: its type says so).  All of them are total Gallina
     functions by structural recursion on the input (no fuel): the Python loops they stand for
     are `for ch in s`, re.finditer / findall over a finite string, and str methods. *)
Theorem C19_parsers_ordinary :
  (forall s, allowed mode_set (parse_unix_mode s))
  /\ (forall dec b, allowed decode_set (parse_mlsx_line dec b))
  /\ (forall s, allowed passive_set (parse_pasv_response s))
  /\ (forall s, allowed passive_set (parse_epsv_response s))
  /\ (forall info, allowed index_set (stat_mlst info))
  /\ (forall dec ls_date b, (forall s, allowed funnel (ls_date s)) ->
                            allowed funnel (parse_list_line_unix dec ls_date b))
  /\ (forall dec win_date b, (forall s, allowed funnel (win_date s)) ->
                             allowed funnel (parse_list_line_windows dec win_date b))
  /\ (forall e, (mode_set e || decode_set e || passive_set e || index_set e || funnel e
                 || reply_set e) = true -> ordinary e = true).
Proof. exact parsers_ordinary. Qed.
Print Assumptions C19_parsers_ordinary.

(* parse_response on the lines of ANY finite byte stream terminates (structural recursion: one
   line per iteration) with a value, StatusCodeError, ConnectionResetError, UnicodeDecodeError or
   the ValueError of an over-long line; what it read is a prefix of the stream, at least one line
   of it. *)
Theorem C19_reply_loop_terminates :
  forall dec limit (ls : list (list Z)),
    rclass_ok (reply_parse dec limit ls) /\ consumes ls (reply_parse dec limit ls).
Proof. exact reply_parse_spec. Qed.
Print Assumptions C19_reply_loop_terminates.

(* on lines within the limit that decode it is exactly the C06 model of parse_response *)
Theorem C19_reply_loop_is_framing :
  forall dec limit ls ts,
    Forall2 (reads dec limit) ls ts ->
    same_outcome dec limit (Framing.parse_response ts) (reply_parse dec limit ls).
Proof. exact reply_parse_framing. Qed.
Print Assumptions C19_reply_loop_is_framing.

(* The lister of Client.list: each iteration ends the listing, or consumes one line of the data
   connection (queueing at most one directory), or pops one queued directory and one answer of
   the server ... *)
Theorem C19_lister_progress :
  forall (L : Type) (parse : bool -> L -> result (text * dict)) rec cur mode lines queue sc acc reqs,
    (forall f, lister_loop L parse (S f) rec cur mode lines queue sc acc reqs
               = lister_loop L parse 1 rec cur mode lines queue sc acc reqs
               /\ ending (lister_loop L parse 1 rec cur mode lines queue sc acc reqs) <> LFuel)
    \/ exists cur' mode' lines' queue' sc' acc' reqs',
         lprogress L lines queue sc lines' queue' sc'
         /\ forall f, lister_loop L parse (S f) rec cur mode lines queue sc acc reqs
                      = lister_loop L parse f rec cur' mode' lines' queue' sc' acc' reqs'.
Proof. exact lister_progress. Qed.
Print Assumptions C19_lister_progress.

(* ... hence on EVERY finite script of server answers (any line parser, recursive or not, any
   content incl. '.' and '..' entries, any depth) Client.list terminates: the fuel, which stands
   for the Python `while True`, is never exhausted *)
Theorem C19_lister_terminates :
  forall (L : Type) (parse : bool -> L -> result (text * dict)) rec path (sc : script L),
    ending (run_lister L parse rec path sc) <> LFuel.
Proof. exact run_lister_terminates. Qed.
Print Assumptions C19_lister_terminates.

(* '.' and '..' are never yielded nor queued: no yielded entry is named '.' or '..', and every
   directory the client ever asks for is the one it was given or the path of a yielded,
   non-dot directory entry *)
Theorem C19_dots_never_yielded_nor_queued :
  forall (L : Type) (parse : bool -> L -> result (text * dict)) rec path (sc : script L),
    let r := run_lister L parse rec path sc in
    Forall nodot (yields r) /\ Forall (from_yield path (yields r)) (requests r).
Proof. exact dots_never_yielded_nor_queued. Qed.
Print Assumptions C19_dots_never_yielded_nor_queued.

(* How Client.list can end: normally; with ValueError (or its subclass UnicodeDecodeError) from a
   line; with the server's refusal (StatusCodeError); or -- the defect below -- with KeyError. *)
Theorem C19_lister_classes :
  forall dec ls_date win_date limit,
  (forall s, allowed funnel (ls_date s)) -> (forall s, allowed funnel (win_date s)) ->
  forall rec path (sc : script (list Z)),
    lend_ok value_error
      (ending (run_lister (list Z) (parse_data_line dec ls_date win_date limit) rec path sc)).
Proof. exact lister_classes_data_line. Qed.
Print Assumptions C19_lister_classes.

(* FULL STATEMENT (properties.jsonl: "for listing lines always the documented ValueError ...
   reports a line it cannot parse instead of dropping it"):
     unparseable_reported: for every script, Client.list either yields every line that is not
     an explicit '.' / '..' entry, or raises ValueError.
   It FAILS on today's code (known findings F12a, F12b, F12c), faithfully modelled: *)
Theorem C19_unparseable_reported_refuted :
  exists b : list Z,
    existsb (Z.eqb SP) b = false
    /\ run_lister oline (parse_oline utf8 65536) false root_path [(false, [mlsd_line b])]
       = {| yields := []; requests := [root_path]; ending := LDone |}.
Proof. exact unparseable_reported_refuted. Qed.
Print Assumptions C19_unparseable_reported_refuted.

Theorem C19_listing_value_error_refuted :
  exists b : list Z,
    ending (run_lister oline (parse_oline utf8 65536) false root_path [(false, [mlsd_line b])])
    = LRaised KeyError.
Proof. exact listing_value_error_refuted. Qed.
Print Assumptions C19_listing_value_error_refuted.

Theorem C19_list_nameless_dropped_refuted :
  exists (b : list Z) (date : text),
    run_lister oline (parse_oline utf8 65536) false root_path
               [(true, [(b, Ok date, Exc ValueError)])]
    = {| yields := []; requests := [root_path]; ending := LDone |}.
Proof. exact list_nameless_dropped_refuted. Qed.
Print Assumptions C19_list_nameless_dropped_refuted.

(* What IS true (carved): a listing that completes has parsed every line, and the lines it did
   not yield are exactly those whose PARSED name is '.' or '..' -- a line on which the line
   parser raises is never dropped.  (Missing: a line without a name column / pathname parses to
   the name '.', F12a/F12c.) *)
Theorem C19_unparseable_reported_partial :
  forall (L : Type) (parse : bool -> L -> result (text * dict)) rec path m (lines : list L),
    let r := run_lister L parse rec path [(m, lines)] in
    ending r = LDone ->
    (length (yields r) + length (filter (dropped L parse m) lines) = length lines)%nat
    /\ Forall (fun l => exists v, parse m l = Ok v) lines.
Proof. exact completed_listing_accounts. Qed.
Print Assumptions C19_unparseable_reported_partial.

(* ... and when every directory is listed with LIST (parse_list_line), the only exceptions are
   ValueError / the server's refusal: no KeyError (missing for MLSD: F12b) *)
Theorem C19_listing_value_error_partial :
  forall dec ls_date win_date limit,
  (forall s, allowed funnel (ls_date s)) -> (forall s, allowed funnel (win_date s)) ->
  forall rec path (sc : script (list Z)),
    lend_ok_typed value_error
      (ending (run_lister (list Z) (fun _ => parse_data_line dec ls_date win_date limit true) rec path sc)).
Proof. exact listing_value_error_partial. Qed.
Print Assumptions C19_listing_value_error_partial.

(* Server side.  For every except-ladder that passes the closed check `ladder_contains` (every
   class parse_command can raise -- ValueError of the line limit, UnicodeDecodeError,
   ConnectionResetError -- and the idle TimeoutError is caught, logged and ends the session),
   whatever bytes a session receives: no exception leaves the dispatcher, every OTHER session's
   record is untouched, and when the line cannot be read the session is released. *)
Theorem C19_server_line_contained :
  forall (S : Type) (handle : S -> text -> text -> option S) (lad : ladder) dec limit,
    ladder_contains lad = true ->
    forall (srv : sessions S) sid ls,
    exists srv', deliver S handle lad dec limit srv sid ls = Served S srv'
      /\ (forall sid', sid' <> sid -> find_session S sid' srv' = find_session S sid' srv)
      /\ (forall e, server_parse_command dec limit ls = CmdExc e -> find_session S sid srv' = None).
Proof. exact server_line_contained. Qed.
Print Assumptions C19_server_line_contained.

(* The structural tie: the except clauses and the `finally` block of Server.dispatcher as
   REGENERATED from /repo/src/aioftp/server.py by tools/py2v on every run (Gen/Dispatch.v) pass the
   closed check, so the theorem above applies to the ladder the source has today. *)
Theorem C19_server_dispatcher_obligation :
  dispatcher_contains (d_task_except dispatcher) (d_outer_except dispatcher) (d_finally dispatcher) = true.
Proof. vm_compute. reflexivity. Qed.
Print Assumptions C19_server_dispatcher_obligation.

Theorem C19_server_line_contained_today :
  exists lad,
    ladder_of_facts (d_task_except dispatcher) (d_outer_except dispatcher) = Some lad /\
    forall (S : Type) (handle : S -> text -> text -> option S) dec limit (srv : sessions S) sid ls,
    exists srv', deliver S handle lad dec limit srv sid ls = Served S srv'
      /\ (forall sid', sid' <> sid -> find_session S sid' srv' = find_session S sid' srv)
      /\ (forall e, server_parse_command dec limit ls = CmdExc e -> find_session S sid srv' = None).
Proof. exact (server_line_contained_gen _ _ _ C19_server_dispatcher_obligation). Qed.
Print Assumptions C19_server_line_contained_today.

(* the ladder the harness's model stream uses is the one read from the source *)
Theorem C19_model_ladder_is_source_ladder :
  ladder_of_facts (d_task_except dispatcher) (d_outer_except dispatcher) = Some ladder_as_read.
Proof. vm_compute. reflexivity. Qed.
Print Assumptions C19_model_ladder_is_source_ladder.

(* non-vacuity *)
Example C19_unix_line_parses :
  exists v, parse_list_line utf8 (fun _ => Ok [50; 48]) (fun _ => Exc ValueError)
      [45; 114; 119; 45; 114; 45; 45; 114; 45; 45; 32; 49; 32; 111; 32; 103; 32; 49; 50; 32;
       74; 97; 110; 32; 48; 51; 32; 49; 50; 58; 50; 57; 32; 110; 46; 116; 120; 116; 13; 10] = Ok v.
Proof. exact unix_line_parses. Qed.
